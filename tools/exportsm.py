"""Shared machinery of C06 / C11 / C17 (and C03/C13 parts): run export histories on the real
implementation (rt harness, real directory tree) and on the Coq state machine (Model/ExportSM.v),
compare results and final trees."""
import concurrent.futures
import os
import re
import shutil

import harness
import vlib
from vlib import coq_str, coq_list

ROOT = "/tmp/v/sm"          # scratch trees are created (and removed) by the checks themselves
CHUNK = 16


class Universe:
    def __init__(self, exe):
        os.makedirs("/tmp/v", exist_ok=True)
        ans = harness.rt_run(exe, [["cwd", "/tmp/v"], ["env", "-"], ["info"]])
        self.types = []
        for line in ans[2][1:]:
            f = line.split("\x02")
            self.types.append(dict(rust=f[0], ident=f[1], out=None if f[2] == "-" else f[2], decl=f[3],
                                   visits=[v for v in f[4].split("|") if v], wg=f[5], text=f[6], default_path=f[7], name=f[8]))
        self.index = {t["rust"]: i for i, t in enumerate(self.types)}
        self.nonexp = len(self.types)  # index standing for "some non-exportable type outside the universe"
        for t in self.types:
            vis = []
            for v in t["visits"]:
                exp = v.startswith("+")
                n = v[1:] if exp else v
                if n in self.index:
                    vis.append(self.index[n])
                elif exp:
                    raise vlib.HarnessError("universe not closed: %s visits exportable %s" % (t["rust"], n))
                else:
                    vis.append(self.nonexp)
            t["visit_ix"] = vis
            t["wg_ix"] = self.index.get(t["wg"], self.nonexp)
            if t["out"] is not None and t["wg_ix"] == self.nonexp:
                raise vlib.HarnessError("WithoutGenerics of %s (%s) is not in the universe" % (t["rust"], t["wg"]))

    def ix(self, short):
        for i, t in enumerate(self.types):
            if t["rust"].split("::")[-1] == short or t["rust"] == short:
                return i
        raise KeyError(short)

    def closure(self, i):
        seen, todo = [], [i]
        while todo:
            x = todo.pop()
            if x in seen or x == self.nonexp or self.types[x]["out"] is None:
                continue
            seen.append(x)
            todo += self.types[x]["visit_ix"]
        return seen

    def coq(self):
        def one(t):
            decl = t["decl"] if not t["decl"].startswith("\0") else ""
            return "{| t_ident := %s; t_out := %s; t_decl := %s; t_visits := %s; t_wg := %d |}" % (
                coq_str(t["ident"] if not t["ident"].startswith("\0") else ""),
                "None" if t["out"] is None else "(Some %s)" % coq_str(t["out"]), coq_str(decl),
                "[" + ";".join(map(str, t["visit_ix"])) + "]%nat", t["wg_ix"])
        return coq_list([one(t) for t in self.types], sep=";\n  ")


def coq_apath(names):
    return coq_list([coq_str(n) for n in names])


def coq_op(op):
    k = op[0]
    if k == "export":
        return "Export %d" % op[1]
    if k == "export_all":
        return "ExportAll %d" % op[1]
    if k == "export_all_to":
        return "ExportAllTo %d %s" % (op[1], coq_str(op[2]))
    if k == "new_process":
        return "NewProcess"
    if k == "mkdir":
        return "MkDir %s" % coq_apath(abs_names(op[1]))
    if k == "mkfile":
        return "MkFile %s %s" % (coq_apath(abs_names(op[1])), coq_str(op[2]))
    if k == "rm":
        return "Remove %s" % coq_apath(abs_names(op[1]))
    raise ValueError(op)


def abs_names(p):
    return [n for n in os.path.normpath(p).split("/") if n]


HEADER = """From TsRs Require Import Base.Str Base.Outcome Gen.Tables Model.Path Model.Merge Model.Imports Model.ExportSM Spec.PathOracle Tools.Digest.
Definition U : universe := %s.
Definition code (o : outcome unit) : char :=
  match o with Ok _ => 79 | Panic _ => 80 | Err e => if str_eqb e io_error then 73 else 67 end.
Fixpoint ins (e : str * str) (l : list (str * str)) : list (str * str) :=
  match l with [] => [e] | x :: r => if str_ltb (fst e) (fst x) then e :: l else x :: ins e r end.
Definition tree (root : apath) (fs : fsys) : str :=
  let fl := flat_map (fun e => if is_prefix_of root (fst e) then [(join [47] (skipn (length root) (fst e)), snd e)] else []) (files_of fs) in
  concat (map (fun e => fst e ++ [1] ++ snd e ++ [2]) (fold_left (fun acc e => ins e acc) fl [])).
Definition dirs_of (cwd : list str) : fsys :=
  map (fun k => (firstn k cwd, Dir)) (seq 1 (length cwd)).
(* one case: configuration, initial files, operations -> result codes ++ final tree below root *)
Definition run_case (root : apath) (esm : bool) (cwd : list str) (env : option str) (init : list (apath * str)) (ops : list op) : str :=
  let cfg := {| c_esm := esm; c_cwd := cwd; c_env := env |} in
  let fs0 := map (fun e => (fst e, File (snd e))) init ++ dirs_of cwd in
  let '(st, rs) := run cfg U (init_state fs0) ops in
  map code rs ++ [0] ++ tree root (s_fs st).
"""


def coq_case(c):
    return "run_case %s %s %s %s %s %s" % (
        coq_apath(abs_names(c["root"])), "true" if c.get("esm") else "false", coq_apath(abs_names(c["cwd"])),
        "None" if c["env"] is None else "(Some %s)" % coq_str(c["env"]),
        coq_list(["(%s, %s)" % (coq_apath(abs_names(p)), coq_str(t)) for p, t in c["init"]]),
        coq_list([coq_op(o) for o in c["ops"]]))


def real_requests(c):
    """rt harness requests for one case (fresh registry, fresh tree)."""
    reqs = [["rm", c["root"]], ["mkdir", c["cwd"]], ["cwd", c["cwd"]], ["env", "-" if c["env"] is None else c["env"]], ["reset"]]
    for p, t in c["init"]:
        reqs.append(["mkfile", p, t])
    marks = []
    for o in c["ops"]:
        if o[0] in ("export", "export_all"):
            reqs.append(["op", o[0], str(o[1])])
            marks.append(len(reqs) - 1)
        elif o[0] == "export_all_to":
            reqs.append(["op", o[0], str(o[1]), o[2]])
            marks.append(len(reqs) - 1)
        elif o[0] == "new_process":
            reqs.append(["reset"])
            marks.append(-1)
        elif o[0] == "mkdir":
            reqs.append(["mkdir", o[1]])
            marks.append(-1)
        elif o[0] == "mkfile":
            reqs.append(["mkfile", o[1], o[2]])
            marks.append(-1)
        elif o[0] == "rm":
            reqs.append(["rm", o[1]])
            marks.append(-1)
    reqs.append(["snapshot", c["root"]])
    return reqs, marks


def run_real(exe, cases, workers=16):
    """Each worker process owns one scratch root; `root`/`cwd`/paths of a case must be written with
    the placeholder @R, which is replaced by the worker's root."""
    def work(w):
        out = {}
        mine = [(k, c) for k, c in enumerate(cases) if k % workers == w]
        if not mine:
            return out
        reqs, spans = [], []
        for k, c in mine:
            r, marks = real_requests(c)
            spans.append((k, len(reqs), len(r), marks))
            reqs += r
        ans = harness.rt_run(exe, reqs, timeout=3000)
        for k, start, n, marks in spans:
            a = ans[start:start + n]
            codes = []
            for m in marks:
                if m < 0:
                    codes.append("O")
                    continue
                res = a[m][1] if a[m][0] == "OK" else "PANIC"
                codes.append("O" if res == "OK" else "C" if "CannotBeExported" in res else "P" if res.startswith("PANIC") else "I")
            snap = a[-1][1:] if a[-1][0] == "OK" else []
            files = []
            for e in snap:
                if e.startswith("F "):
                    p, content = e[2:].split("\x01", 1)
                    files.append((p, content))
            out[k] = ("".join(codes), sorted(files), [x for m, x in zip(marks, [a[m][1] if m >= 0 and len(a[m]) > 1 else "" for m in marks])])
        return out
    res = {}
    with concurrent.futures.ThreadPoolExecutor(max_workers=workers) as ex:
        for d in ex.map(work, range(workers)):
            res.update(d)
    return [res[k] for k in range(len(cases))]


def canon_real(r):
    codes, files, _ = r
    return codes + "\0" + "".join(p + "\x01" + c + "\x02" for p, c in files)


def place(cases, workers=16):
    """Instantiate the @R placeholder: case k runs in worker k % workers, whose root is ROOT<w>."""
    out = []
    for k, c in enumerate(cases):
        root = "%s%d" % (ROOT, k % workers)
        def sub(x):
            return x.replace("@R", root) if isinstance(x, str) else x
        c2 = dict(c)
        c2["root"] = sub(c["root"])
        c2["cwd"] = sub(c["cwd"])
        c2["env"] = sub(c["env"])
        c2["init"] = [(sub(p), t) for p, t in c["init"]]
        c2["ops"] = [tuple(sub(x) for x in o) for o in c["ops"]]
        out.append(c2)
    return out


def run_model(U, cases, tag, shards=16):
    header = HEADER % U.coq()
    per = max(CHUNK, ((len(cases) // shards) // CHUNK + 1) * CHUNK)
    parts = vlib.chunks(cases, per)
    files = [("cases_%s_%d" % (tag, k), header + "Eval vm_compute in map dg_list (chunks %d %s).\n" % (
        CHUNK, coq_list([coq_case(c) for c in part], sep=";\n "))) for k, part in enumerate(parts)]
    results = vlib.coq_eval_many(files, timeout=2400)
    digs = []
    for k, (ok, out) in enumerate(results):
        if not ok:
            raise vlib.HarnessError("cases_%s_%d.v failed: %s" % (tag, k, out[-2500:]))
        d = [int(x) for x in re.findall(r"(\d+)%Z", out)]
        expect = len(vlib.chunks(parts[k], CHUNK))
        if len(d) != expect:
            raise vlib.HarnessError("cases_%s_%d.v: %d digests for %d chunks" % (tag, k, len(d), expect))
        digs.append(d)
    return header, per, digs


def correspond(U, cases, real, tag):
    """Compare model and implementation; returns (suspect count, list of confirmed breaks)."""
    header, per, digs = run_model(U, cases, tag)
    suspects = []
    for k, d in enumerate(digs):
        off = k * per
        part = real[off:off + per]
        idig = [vlib.dg_list([canon_real(r) for r in c]) for c in vlib.chunks(part, CHUNK)]
        for ci, (a, b) in enumerate(zip(d, idig)):
            if a != b:
                suspects += list(range(off + ci * CHUNK, min(off + len(part), off + (ci + 1) * CHUNK)))
    breaks = []
    for part in vlib.chunks(suspects[:320], 40):
        ok, out = vlib.coq_eval("cases_%s_exact" % tag, header + "Eval vm_compute in %s.\n" % coq_list([coq_case(cases[j]) for j in part], sep=";\n "))
        if not ok:
            raise vlib.HarnessError("cases_%s_exact failed: %s" % (tag, out[-2000:]))
        vals = vlib.parse_coq_str_list(out.split("=", 1)[1].rsplit(":", 1)[0])
        for j, mv in zip(part, vals):
            rv = canon_real(real[j])
            if mv != rv:
                breaks.append(dict(case=cases[j], model=mv, implementation=rv))
    return len(suspects), breaks


def cleanup(workers=16):
    for w in range(workers):
        shutil.rmtree("%s%d" % (ROOT, w), ignore_errors=True)
