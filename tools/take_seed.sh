#!/bin/bash
# usage: tools/take_seed.sh <PROP> <round>  — takes a sub-agent's deliverables from /tmp/wt<round>_<PROP>_out into
# seeded/<PROP>_agent<round>/, removes the agent's scratch worktree, confirms the change (tools/confirm_seed.sh, in the
# background) and runs the property's quick check against it on a scratch worktree (tools/try_seed_wt.sh).
set -u
id=$1; r=$2; d=/verif/seeded/${id}_agent$r
mkdir -p "$d" && cp /tmp/wt${r}_${id}_out/{patch.diff,demo.rs,README.md} "$d"/
git -C /repo worktree remove --force /tmp/wt${r}_$id >/dev/null 2>&1; rm -rf /tmp/wt${r}_${id}_target
(/verif/tools/confirm_seed.sh "$d" ${id}a$r 2>&1 | tail -1) > /tmp/confirm${r}_$id.log 2>&1 &
/verif/tools/try_seed_wt.sh "$d/patch.diff" "$id" quick 2>&1 | grep -v '^KNOWN-FINDING' | tail -6
wait; cat /tmp/confirm${r}_$id.log
