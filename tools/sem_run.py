"""Semantic oracles over a corpus run (C01 C02 C14): real serde_json output against the declared
TypeScript types, evaluated by Coq (`Spec/TsSem.v: memberb`) on the model ASTs whose printed text
has been compared byte for byte with the real declarations."""
import json
import re

import corpus as C
import corpus_run as CR
import vlib
from vlib import coq_str, coq_list

FUEL = 300


def parse_json(text):
    def pf(s):
        return ("float", s)
    return json.loads(text, parse_float=pf, object_pairs_hook=lambda pairs: ("obj", pairs))


def coq_json(j):
    if j is None:
        return "JNull"
    if j is True or j is False:
        return "(JBool %s)" % ("true" if j else "false")
    if isinstance(j, int):
        return "(JInt (%d))" % j
    if isinstance(j, tuple) and j[0] == "float":
        return "(JFloat %s)" % coq_str(j[1])
    if isinstance(j, str):
        return "(JStr %s)" % coq_str(j)
    if isinstance(j, list):
        return "(JArr %s)" % coq_list([coq_json(x) for x in j])
    if isinstance(j, tuple) and j[0] == "obj":
        return "(JObj %s)" % coq_list(["(%s, %s)" % (coq_str(k), coq_json(v)) for k, v in j[1]])
    raise ValueError(j)


def py_json(text):
    """the printed Coq json value back to Python (for witnesses)"""
    raise NotImplementedError


SEM_DEFS = """
Definition E : denv :=
  flat_map (fun e => match decl_of is_upper is_alnum is_numeric R fuel (snd e) with
                     | Ok dc => [(d_name dc, dc)]
                     | _ => []
                     end) R.
Definition sfuel := %d%%nat.
Definition by_name (t : rty) (j : json) : bool := match name_of R t with Ok a => memberb E sfuel a j | _ => false end.
Definition by_inline (t : rty) (j : json) : bool := match inline_of is_upper is_alnum is_numeric R fuel t with Ok a => memberb E sfuel a j | _ => false end.
Definition by_name_lax (t : rty) (j : json) : bool := match name_of R t with Ok a => memberb (lax_env E) sfuel (lax a) j | _ => false end.
Definition body_ok (t : rty) : bool :=
  match def_of t with
  | Some d => match decl_of is_upper is_alnum is_numeric R fuel d with Ok dc => norm_ok (d_body dc) | _ => true end
  | None => true
  end.
Definition bit (b : bool) : N := if b then 49 else 48.
""" % FUEL

SEM_HEADER = "From TsRs Require Import Spec.TsFree Spec.TsSem.\n"


def real_env(res):
    """compile the REAL declarations (parsed by tools/tsparse.py from decl()) into a Coq module; returns
    (module name, {ident: parse error}) — declarations that do not parse are left out and reported"""
    import tsparse
    qs = res["queries"]
    decls, errors = {}, {}
    for i, t in enumerate(qs):
        if t[0] != "named" or t[1] in decls or t[1] in errors:
            continue
        text = res["q"][i]["decl"]
        if text.startswith("\x00"):
            continue
        try:
            decls[t[1]] = tsparse.parse_decl(text)
        except tsparse.ParseError as e:
            errors[t[1]] = "%s: %s" % (e, text[:300])
    name = res["envname"] + "_real"
    body = ("From TsRs Require Import Corr.%s.\n" % res["envname"] + CR.HEADER + SEM_HEADER +
            "Definition E : denv :=\n  %s.\nDefinition sfuel := %d%%nat.\nDefinition bit (b : bool) : N := if b then 49 else 48.\n" % (
                coq_list([tsparse.coq_decl(*d) for d in decls.values()], sep=";\n  "), FUEL))
    ok, out = CR.coq_keep(name, body)
    if not ok:
        raise vlib.HarnessError("real declarations do not compile as a Coq environment: " + out[-3000:])
    res["realname"] = name
    res["real_decls"] = decls
    res["real_errors"] = errors
    return name, errors


def membership(res, cases, tag="sem"):
    """cases: list of (query index, json text). Membership of the real JSON in the REAL declared type,
    read from the real name() / inline() text: returns per case (by_name, by_inline, by_name_lax), or None
    for a case whose type text does not parse."""
    import tsparse
    qs = res["queries"]
    if "realname" not in res:
        real_env(res)
    parsed = {}
    for qi in {c[0] for c in cases}:
        try:
            tn = tsparse.coq_ty(tsparse.parse_type(res["q"][qi]["name"]))
            inl = res["q"][qi]["inline"]
            ti = tn if inl.startswith("\x00") else tsparse.coq_ty(tsparse.parse_type(inl))   # inline() panics for some library types: by name only
            parsed[qi] = (tn, ti)
        except tsparse.ParseError:
            parsed[qi] = None
    idx = [c for c in range(len(cases)) if parsed[cases[c][0]] is not None]
    nsh = 12
    shards = [idx[k::nsh] for k in range(nsh)]
    files = []
    for k, sh in enumerate(shards):
        if not sh:
            continue
        terms = []
        for c in sh:
            qi, text = cases[c]
            j = coq_json(parse_json(text))
            tn, ti = parsed[qi]
            terms.append("let j := %s in [bit (memberb E sfuel %s j); bit (memberb E sfuel %s j); bit (memberb (lax_env E) sfuel (lax %s) j)]" % (j, tn, ti, tn))
        body = ("From TsRs Require Import Corr.%s Corr.%s.\n" % (res["envname"], res["realname"]) + CR.HEADER + SEM_HEADER +
                "Eval vm_compute in %s.\n" % coq_list(terms, sep=";\n "))
        files.append(("%s_%s%d" % (res["envname"], tag, k), body))
    outs = vlib.coq_eval_many(files, timeout=2400)
    result = {}
    for (nm, _), (ok, out), sh in zip(files, outs, [s for s in shards if s]):
        if not ok:
            raise vlib.HarnessError("%s.v failed: %s" % (nm, out[-3000:]))
        vals = vlib.parse_coq_str_list(out.split("=", 1)[1].rsplit(":", 1)[0])
        if len(vals) != len(sh):
            raise vlib.HarnessError("%s.v: %d answers for %d cases" % (nm, len(vals), len(sh)))
        for c, v in zip(sh, vals):
            result[c] = (v[0] == "1", v[1] == "1", v[2] == "1")
    return [result.get(c) for c in range(len(cases))]


def membership_texts(res, cases, tag="semt"):
    """cases: list of (TypeScript type text, json text): membership decided by Coq against the REAL parsed declarations;
    None where the type text does not parse"""
    import tsparse
    if "realname" not in res:
        real_env(res)
    terms, idx = [], []
    for c, (ty, text) in enumerate(cases):
        try:
            t = tsparse.coq_ty(tsparse.parse_type(ty))
        except tsparse.ParseError:
            continue
        idx.append(c)
        terms.append("bit (memberb E sfuel %s %s)" % (t, coq_json(parse_json(text))))
    result = {}
    nsh = 12
    files, shards = [], [s for s in (list(range(len(idx)))[k::nsh] for k in range(nsh)) if s]
    for k, sh in enumerate(shards):
        body = ("From TsRs Require Import Corr.%s Corr.%s.\n" % (res["envname"], res["realname"]) + CR.HEADER + SEM_HEADER +
                "Eval vm_compute in [%s].\n" % "; ".join(terms[i] for i in sh))
        files.append(("%s_%s%d" % (res["envname"], tag, k), body))
    for (nm, _), (ok, out), sh in zip(files, vlib.coq_eval_many(files, timeout=2400), shards):
        if not ok:
            raise vlib.HarnessError("%s.v failed: %s" % (nm, out[-3000:]))
        vals = vlib.parse_coq_str_list("[" + out.split("=", 1)[1].rsplit(":", 1)[0] + "]")
        bits = vals[0] if vals else ""
        if len(bits) != len(sh):
            raise vlib.HarnessError("%s.v: %d answers for %d cases" % (nm, len(bits), len(sh)))
        for i, b in zip(sh, bits):
            result[idx[i]] = b == "1"
    return [result.get(c) for c in range(len(cases))]


def bodies_ok(res):
    """norm_ok of every query's declaration body: the textual rewrites coincide with their structural meaning"""
    qs = res["queries"]
    named = [i for i, t in enumerate(qs) if t[0] == "named"]
    body = ("From TsRs Require Import Corr.%s.\n" % res["envname"] + CR.HEADER + SEM_HEADER + SEM_DEFS +
            "Eval vm_compute in [%s].\n" % "; ".join("bit (body_ok %s)" % C.coq_ty(qs[i]) for i in named))
    ok, out = vlib.coq_eval("%s_bodies" % res["envname"], body, timeout=2400)
    if not ok:
        raise vlib.HarnessError("bodies file failed: " + out[-3000:])
    vals = vlib.parse_coq_str_list("[" + out.split("=", 1)[1].rsplit(":", 1)[0] + "]")
    bits = vals[0] if vals else ""
    return {i: b == "1" for i, b in zip(named, bits)}


def theorem_scope(res):
    """the largest sub-environment of the corpus to which C01_derive_layer applies: definitions inside the decidable
    fragment (plain_defb) whose references stay inside it, one definition per TypeScript name; returns
    (corpus definitions, definitions in that sub-environment, plain_envb of it)"""
    body = ("From TsRs Require Import Corr.%s Spec.TsFree Proofs.Sem_derive_proofs.\n" % res["envname"] + CR.HEADER + """
Definition shrink (R' : env) : env :=
  filter (fun p => plain_defb R' (snd p) && src_def (snd p) && is_ok (decl_of is_upper is_alnum is_numeric R' fuel (snd p))) R'.
Fixpoint dedup (seen : list str) (R' : env) : env :=
  match R' with
  | [] => []
  | p :: r => if existsb (str_eqb (ts_ident (snd p))) seen then dedup seen r else p :: dedup (ts_ident (snd p) :: seen) r
  end.
Definition R1 : env := shrink (shrink (shrink (shrink (shrink (shrink (dedup [] R)))))).
Eval vm_compute in (N.of_nat (length R), N.of_nat (length R1), if plain_envb is_upper is_alnum is_numeric R1 fuel then 1%N else 0%N).
Eval vm_compute in (map fst R1).
""")
    ok, out = vlib.coq_eval("%s_scope" % res["envname"], body, timeout=900)
    if not ok:
        raise vlib.HarnessError("scope file failed: " + out[-3000:])
    m = re.search(r"=\s*\((\d+)(?:%N)?,\s*(\d+)(?:%N)?,\s*(\d+)(?:%N)?\)", out)
    if not m:
        raise vlib.HarnessError("scope file: unexpected output " + out[-500:])
    res["plain_idents"] = set(vlib.parse_coq_str_list(out.split("=", 2)[2].rsplit(":", 1)[0])) if out.count("=") >= 2 else set()
    return int(m.group(1)), int(m.group(2)), int(m.group(3))


def de_theorem_instances(res, items):
    """C02_members_are_accepted evaluated on corpus cases.  items: (query index, json text).  Coq computes R2 = the largest
    sub-environment of the corpus inside the theorem's hypotheses (de_envb), and for each case one of
    0 = outside the hypotheses (type not closed over R2, a long array, duplicate keys), 1 = a member that is read (DOk),
    2 = a member that IS rejected (would contradict the theorem), 3 = not a member,
    4 = a member set aside as a leaf the Rust type cannot represent (DMisfit: a longer string for a `char`, an integer out of range).  Returns (hypotheses hold of R2, |R2|, codes)."""
    qs = res["queries"]
    cases = coq_list(["(%s, %s)" % (C.coq_ty(qs[qi]), coq_json(parse_json(text))) for qi, text in items], sep=";\n ")
    body = ("From TsRs Require Import Corr.%s Spec.Serde Spec.SerdeDe Proofs.Sem_derive_proofs Proofs.De_proofs.\n" % res["envname"] + CR.HEADER + SEM_HEADER + """
Definition shrink2 (R' : env) : env :=
  filter (fun p => def_okb is_upper R' (snd p) && src_def (snd p) && is_ok (decl_of is_upper is_alnum is_numeric R' fuel (snd p))) R'.
Fixpoint dedup (seen : list str) (R' : env) : env :=
  match R' with
  | [] => []
  | p :: r => if existsb (str_eqb (ts_ident (snd p))) seen then dedup seen r else p :: dedup (ts_ident (snd p) :: seen) r
  end.
Definition inst (R2 : env) (E2 : denv) (c : rty * json) : N :=
  let (t, j) := c in
  if mono_ty R2 t && small_arr t && wf_json j then
    match name_of R2 t with
    | Ok a => if memberb E2 40 a j then match de is_upper R2 40 t j with DReject => 2 | DOk _ => 1 | DMisfit => 4 end else 3
    | _ => 0
    end
  else 0.
Eval vm_compute in
  (let R2 := shrink2 (shrink2 (shrink2 (shrink2 (shrink2 (shrink2 (dedup [] R)))))) in
   let E2 := env_of is_upper is_alnum is_numeric R2 fuel in
   (if de_envb is_upper is_alnum is_numeric R2 fuel then 1%%N else 0%%N, N.of_nat (length R2),
    map (inst R2 E2) %s)).
""" % cases)
    ok, out = vlib.coq_eval("%s_c02thm" % res["envname"], body, timeout=1800)
    if not ok:
        raise vlib.HarnessError("C02 theorem-instance file failed: " + out[-3000:])
    m = re.search(r"=\s*\((\d+)(?:%N)?,\s*(\d+)(?:%N)?,\s*\[(.*?)\]\s*\)", out, re.S)
    if not m:
        raise vlib.HarnessError("C02 theorem-instance file: unexpected output " + out[-500:])
    codes = [int(x) for x in re.findall(r"\d+", m.group(3).replace("%N", ""))]
    if len(codes) != len(items):
        raise vlib.HarnessError("C02 theorem-instance file: %d codes for %d cases" % (len(codes), len(items)))
    return int(m.group(1)), int(m.group(2)), codes


def de_model(res, items, tag="de"):
    """items: (query index, json text).  Spec/SerdeDe.v on each: returns 'A' + re-serialised text (accepted; '?' if the model
    cannot serialise the value), 'M' (a leaf the Rust type cannot represent) or 'R' (rejected)"""
    qs = res["queries"]
    nsh = 12
    idx = list(range(len(items)))
    shards = [idx[k::nsh] for k in range(nsh)]
    files = []
    for k, sh in enumerate(shards):
        if not sh:
            continue
        terms = []
        for c in sh:
            qi, text = items[c]
            terms.append("(let t := %s in match de is_upper R 40 t %s with DOk v => 65 :: match ser is_upper R 40 t v with Some j' => json_text j' | None => [63] end "
                         "| DMisfit => [77] | DReject => [82] end)%%N" % (C.coq_ty(qs[qi]), coq_json(parse_json(text))))
        body = ("From TsRs Require Import Corr.%s Spec.Serde Spec.SerdeDe.\n" % res["envname"] + CR.HEADER + SEM_HEADER +
                "Eval vm_compute in %s.\n" % coq_list(terms, sep=";\n "))
        files.append(("%s_%s%d" % (res["envname"], tag, k), body))
    outs = vlib.coq_eval_many(files, timeout=2400)
    result = {}
    for (nm, _), (ok, out), sh in zip(files, outs, [s_ for s_ in shards if s_]):
        if not ok:
            raise vlib.HarnessError("%s.v failed: %s" % (nm, out[-3000:]))
        vals = vlib.parse_coq_str_list(out.split("=", 1)[1].rsplit(":", 1)[0])
        if len(vals) != len(sh):
            raise vlib.HarnessError("%s.v: %d answers for %d cases" % (nm, len(vals), len(sh)))
        for c, v in zip(sh, vals):
            result[c] = v
    return [result.get(c) for c in range(len(items))]


def overrides(res, sound_ok=False):
    """definitions whose binding is (transitively) user-asserted: `as` / `type` anywhere below.
    sound_ok: assertions the generator made true of the serialised form (field flag `sound`) do not count."""
    by = {d["ident"]: d for d in res["defs"]}
    direct = set()
    for d in res["defs"]:
        fs = d["fields"] if d["kind"] == "struct" else [f for v in d["variants"] for f in v["fields"]]
        if d.get("type") or d.get("as_") or any((f.get("type") or f.get("as_")) and not (sound_ok and f.get("sound")) for f in fs) or \
                any(v.get("type") or v.get("as_") for v in d.get("variants", [])):
            direct.add(d["ident"])
    changed = True
    while changed:
        changed = False
        for d in res["defs"]:
            if d["ident"] not in direct and CR.def_refs(d) & direct:
                direct.add(d["ident"])
                changed = True
    return direct


SER_DEFS = """
Definition jt (t : rty) (v : value) : str :=
  match ser is_upper R 100 t v with Some j => json_text j | None => [0;69;82;82]%N end.
"""


def ser_corr(res, tag="ser"):
    """Spec/Serde.v `ser` against the real serde_json text, for every generated value.
    Returns (number compared, list of mismatches)."""
    qs = res["queries"]
    items = []
    for (qi, k), text in sorted(res["v"].items()):
        vs = res["values"].get(qi)
        if vs is None or k >= len(vs):
            continue
        items.append((qi, k, vs[k][1], "\x00ERR" if text.startswith("\x00") else text))
    nsh = 12
    idx = list(range(len(items)))
    shards = [idx[k::nsh] for k in range(nsh)]
    files = []
    for k, sh in enumerate(shards):
        if not sh:
            continue
        terms = ["dg_list [jt %s %s]" % (C.coq_ty(qs[items[c][0]]), items[c][2]) for c in sh]
        body = ("From TsRs Require Import Corr.%s.\n" % res["envname"] + CR.HEADER + "From TsRs Require Import Spec.TsSem Spec.Serde.\n" + SER_DEFS +
                "Eval vm_compute in %s.\n" % coq_list(terms, sep=";\n "))
        files.append(("%s_%s%d" % (res["envname"], tag, k), body))
    outs = vlib.coq_eval_many(files, timeout=2400)
    sus = []
    for (nm, _), (ok, out), sh in zip(files, outs, [s for s in shards if s]):
        if not ok:
            raise vlib.HarnessError("%s.v failed: %s" % (nm, out[-3000:]))
        nums = [int(x) for x in re.findall(r"(-?\d+)%Z", out)]
        if len(nums) != len(sh):
            raise vlib.HarnessError("%s.v: %d digests for %d values" % (nm, len(nums), len(sh)))
        for c, dgm in zip(sh, nums):
            if vlib.dg_list([items[c][3]]) != dgm:
                sus.append(c)
    mism = []
    if sus:
        sus = sus[:300]
        terms = ["jt %s %s" % (C.coq_ty(qs[items[c][0]]), items[c][2]) for c in sus]
        body = ("From TsRs Require Import Corr.%s.\n" % res["envname"] + CR.HEADER + "From TsRs Require Import Spec.TsSem Spec.Serde.\n" + SER_DEFS +
                "Eval vm_compute in %s.\n" % coq_list(terms, sep=";\n "))
        ok, out = vlib.coq_eval("%s_%s_exact" % (res["envname"], tag), body, timeout=2400)
        if not ok:
            raise vlib.HarnessError("ser exact file failed: " + out[-3000:])
        mv = vlib.parse_coq_str_list(out.split("=", 1)[1].rsplit(":", 1)[0])
        for c, m in zip(sus, mv):
            if m != items[c][3]:
                mism.append(dict(type=C.rust_ty(qs[items[c][0]]), value=res["values"][items[c][0]][items[c][1]][0], model=m, serde_json=items[c][3]))
    return len(items), mism


def witnesses(res, qidx, tag="wit", cap=14):
    """type-directed inhabitants of the REAL declared type of each query (Spec/TsSem.v witnesses on the parsed
    real name() text, unfolding the parsed real declarations); every witness is also checked by memberb.
    Returns {query index: [(json text, is_member)]}"""
    import tsparse
    qs = res["queries"]
    if "realname" not in res:
        real_env(res)
    parsed = {}
    for qi in qidx:
        try:
            parsed[qi] = tsparse.coq_ty(tsparse.parse_type(res["q"][qi]["name"]))
        except tsparse.ParseError:
            pass
    idx = sorted(parsed)
    nsh = 12
    shards = [idx[k::nsh] for k in range(nsh)]
    files = []
    for k, sh in enumerate(shards):
        if not sh:
            continue
        terms = ["(let t := %s in map (fun w => bit (memberb E sfuel t w) :: json_text w) (firstn %d (witnesses E 40 t)))" % (parsed[qi], cap) for qi in sh]
        body = ("From TsRs Require Import Corr.%s Corr.%s Spec.Serde.\n" % (res["envname"], res["realname"]) + CR.HEADER + SEM_HEADER +
                "Eval vm_compute in concat %s.\n" % coq_list(["(%s ++ [[0]%%N])" % t for t in terms], sep=";\n "))
        files.append(("%s_%s%d" % (res["envname"], tag, k), body))
    outs = vlib.coq_eval_many(files, timeout=2400)
    result = {}
    for (nm, _), (ok, out), sh in zip(files, outs, [s for s in shards if s]):
        if not ok:
            raise vlib.HarnessError("%s.v failed: %s" % (nm, out[-3000:]))
        vals = vlib.parse_coq_str_list(out.split("=", 1)[1].rsplit(":", 1)[0])
        cur, k = [], 0
        for v in vals:
            if v == "\x00":
                result[sh[k]] = cur
                cur, k = [], k + 1
            else:
                cur.append((v[1:], v[0] == "1"))
        if k != len(sh):
            raise vlib.HarnessError("%s.v: %d witness groups for %d queries" % (nm, k, len(sh)))
    return result


def witness_equiv(res, pairs, tag="weq", cap=14):
    """pairs: (type text a, type text b).  For each pair Coq enumerates inhabitants of a and of b (Spec/TsSem.v witnesses) and
    returns the first inhabitant of one that is not a member of the other ("" if none; None if a text does not parse)."""
    import tsparse
    if "realname" not in res:
        real_env(res)
    terms, idx = [], []
    for k, (a, b) in enumerate(pairs):
        try:
            ta, tb = tsparse.coq_ty(tsparse.parse_type(a)), tsparse.coq_ty(tsparse.parse_type(b))
        except tsparse.ParseError:
            continue
        idx.append(k)
        terms.append("(let ta := %s in let tb := %s in "
                     "match filter (fun w => negb (memberb E sfuel tb w)) (firstn %d (witnesses E 40 ta)) ++ "
                     "filter (fun w => negb (memberb E sfuel ta w)) (firstn %d (witnesses E 40 tb)) with [] => [] | w :: _ => json_text w end)" % (ta, tb, cap, cap))
    out = {}
    for part in vlib.chunks(list(range(len(idx))), 40):
        body = ("From TsRs Require Import Corr.%s Corr.%s Spec.Serde.\n" % (res["envname"], res["realname"]) + CR.HEADER + SEM_HEADER +
                "Eval vm_compute in %s.\n" % coq_list([terms[i] for i in part], sep=";\n "))
        ok, o = vlib.coq_eval("%s_%s" % (res["envname"], tag), body, timeout=2400)
        if not ok:
            raise vlib.HarnessError("witness equivalence file failed: " + o[-3000:])
        vals = vlib.parse_coq_str_list(o.split("=", 1)[1].rsplit(":", 1)[0])
        for i, v in zip(part, vals):
            out[idx[i]] = v
    return [out.get(k) for k in range(len(pairs))]


def deserialize(res, items):
    """items: list of (query index, k, json text) -> {(qi, k): re-serialised json | '\x00ERR'} from the REAL serde_json::from_str::<T>"""
    import os
    path = os.path.join(vlib.CACHE, "io", "witnesses_%d.tsv" % os.getpid())
    os.makedirs(os.path.dirname(path), exist_ok=True)
    with open(path, "w", encoding="utf-8") as f:
        for qi, k, text in items:
            f.write("%d\t%d\t%s\n" % (qi, k, text.replace("\n", " ")))
    _, _, dd = CR.run_binary(res["exe"], env={"CORPUS_WITNESSES": path})
    os.remove(path)
    return dd
