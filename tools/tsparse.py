"""An independent lexer + recursive-descent parser for the TypeScript subset ts-rs emits, written
from the TypeScript grammar (not from ts-rs's printer): modules of `import type` statements and
`export type` declarations; types with union < intersection < postfix `[]` < primary precedence,
object types, mapped types, tuples, string literals, references with type arguments, parentheses.

Used to read REAL output (decl(), name(), inline(), exported files) into the Coq AST of
Model/TsAst.v, so that the semantic oracles are evaluated on what the implementation printed, not
on what the model predicts.  A text the parser rejects is reported as not well-formed (C04)."""
import re

from vlib import coq_str, coq_list

PRIMS = {"number", "string", "boolean", "bigint", "null", "never", "unknown", "any", "undefined", "void", "object", "true", "false"}
RESERVED = {"break", "case", "catch", "class", "const", "continue", "debugger", "default", "delete", "do", "else", "enum", "export",
            "extends", "false", "finally", "for", "function", "if", "import", "in", "instanceof", "new", "null", "return", "super",
            "switch", "this", "throw", "true", "try", "typeof", "var", "void", "while", "with", "let", "static", "yield", "await",
            "implements", "interface", "package", "private", "protected", "public", "any", "boolean", "number", "string", "symbol",
            "bigint", "never", "unknown", "object", "undefined"}


class ParseError(Exception):
    pass


def is_id_start(c):
    return c == "_" or c == "$" or c.isalpha()


def is_id_part(c):
    return c == "_" or c == "$" or c.isalnum()


def lex(text):
    """-> list of (kind, value, pos); kinds: id, str, num, punct, comment"""
    toks = []
    i, n = 0, len(text)
    while i < n:
        c = text[i]
        if c in " \t\r\n":
            i += 1
        elif text.startswith("/*", i):
            j = text.find("*/", i + 2)
            if j < 0:
                raise ParseError("unterminated comment at %d" % i)
            toks.append(("comment", text[i:j + 2], i))
            i = j + 2
        elif text.startswith("//", i):
            j = text.find("\n", i)
            j = n if j < 0 else j
            toks.append(("comment", text[i:j], i))
            i = j
        elif c in "\"'":
            j = i + 1
            val = []
            while True:
                if j >= n or text[j] == "\n":
                    raise ParseError("unterminated string literal at %d" % i)
                if text[j] == "\\":
                    if j + 1 >= n:
                        raise ParseError("unterminated string literal at %d" % i)
                    val.append(text[j + 1])
                    j += 2
                    continue
                if text[j] == c:
                    break
                val.append(text[j])
                j += 1
            toks.append(("str", "".join(val), i))
            i = j + 1
        elif is_id_start(c):
            j = i + 1
            while j < n and is_id_part(text[j]):
                j += 1
            toks.append(("id", text[i:j], i))
            i = j
        elif c.isdigit() or (c == "-" and i + 1 < n and text[i + 1].isdigit()):
            j = i + 1
            while j < n and (text[j].isdigit() or text[j] == "."):
                j += 1
            toks.append(("num", text[i:j], i))
            i = j
        elif c in "{}[]()<>|&,;:?=.":
            toks.append(("punct", c, i))
            i += 1
        else:
            raise ParseError("unexpected character %r at %d" % (c, i))
    return toks


class P:
    def __init__(self, toks, params=()):
        self.toks = [t for t in toks if t[0] != "comment"]
        self.all = toks
        self.i = 0
        self.params = set(params)

    def peek(self, k=0):
        return self.toks[self.i + k] if self.i + k < len(self.toks) else ("eof", "", -1)

    def at(self, v):
        t = self.peek()
        return t[0] == "punct" and t[1] == v

    def eat(self, v):
        if not self.at(v):
            t = self.peek()
            raise ParseError("expected %r, found %r at %d" % (v, t[1], t[2]))
        self.i += 1

    def ident(self):
        t = self.peek()
        if t[0] != "id":
            raise ParseError("expected identifier, found %r at %d" % (t[1], t[2]))
        self.i += 1
        return t[1]

    # ---- types ----
    def type(self):
        if self.at("|"):
            self.i += 1
        parts = [self.inter()]
        while self.at("|"):
            self.i += 1
            parts.append(self.inter())
        return parts[0] if len(parts) == 1 else ("union", parts)

    def inter(self):
        parts = [self.postfix()]
        while self.at("&"):
            self.i += 1
            parts.append(self.postfix())
        return parts[0] if len(parts) == 1 else ("inter", parts)

    def postfix(self):
        t = self.primary()
        while self.at("[") and self.peek(1)[0] == "punct" and self.peek(1)[1] == "]":
            self.i += 2
            t = ("neverarr",) if t == ("prim", "never") else ("array", t)
        return t

    def primary(self):
        t = self.peek()
        if t[0] == "punct" and t[1] == "(":
            self.i += 1
            x = self.type()
            self.eat(")")
            return ("paren", x)
        if t[0] == "punct" and t[1] == "{":
            return self.object()
        if t[0] == "punct" and t[1] == "[":
            self.i += 1
            items = []
            while not self.at("]"):
                items.append(self.type())
                if self.at(","):
                    self.i += 1
                else:
                    break
            self.eat("]")
            return ("tuple", items)
        if t[0] == "str":
            self.i += 1
            return ("lit", t[1])
        if t[0] == "num":
            self.i += 1
            return ("numlit", t[1])
        if t[0] == "id":
            self.i += 1
            name = t[1]
            args = []
            if self.at("<"):
                self.i += 1
                while True:
                    args.append(self.type())
                    if self.at(","):
                        self.i += 1
                        continue
                    break
                self.eat(">")
            if name in PRIMS and not args:
                return ("prim", name)
            if name == "Array" and len(args) == 1:
                return ("array", args[0])
            if name == "Record" and args == [("prim", "string"), ("prim", "never")]:
                return ("recnever",)
            if name in self.params and not args:
                return ("var", name)
            return ("ref", name, args)
        raise ParseError("unexpected token %r at %d" % (t[1], t[2]))

    def object(self):
        self.eat("{")
        if self.at("[") and self.peek(1)[0] == "id" and self.peek(2)[0] == "id" and self.peek(2)[1] == "in":
            # mapped type { [key in K]?: V }
            self.i += 1
            self.ident()
            self.ident()
            k = self.type()
            self.eat("]")
            opt = False
            if self.at("?"):
                self.i += 1
                opt = True
            self.eat(":")
            v = self.type()
            if self.at(",") or self.at(";"):
                self.i += 1
            self.eat("}")
            return ("mapped", k, v, opt)
        props = []
        while not self.at("}"):
            t = self.peek()
            if t[0] in ("id", "str", "num"):
                self.i += 1
                key, quoted = t[1], t[0] == "str"
            else:
                raise ParseError("expected property name, found %r at %d" % (t[1], t[2]))
            opt = False
            if self.at("?"):
                self.i += 1
                opt = True
            self.eat(":")
            ty = self.type()
            props.append((key, quoted, opt, ty))
            if self.at(",") or self.at(";"):
                self.i += 1
            elif not self.at("}"):
                t = self.peek()
                raise ParseError("expected `,` or `}` after a property, found %r at %d" % (t[1], t[2]))
        self.eat("}")
        return ("obj", props)

    def type_params(self):
        ps = []
        if self.at("<"):
            self.i += 1
            while True:
                name = self.ident()
                dflt = None
                if self.at("="):
                    self.i += 1
                    dflt = self.type()
                ps.append((name, dflt))
                if self.at(","):
                    self.i += 1
                    continue
                break
            self.eat(">")
        return ps


def parse_type(text, params=()):
    p = P(lex(text), params)
    t = p.type()
    if p.peek()[0] != "eof":
        raise ParseError("trailing input %r at %d" % (p.peek()[1], p.peek()[2]))
    return t


def parse_decl(text):
    """`type Name<P = D, ..> = body;` (with or without a leading `export`) -> (name, params, body)"""
    toks = lex(text)
    p = P(toks)
    if p.peek()[:2] == ("id", "export"):
        p.i += 1
    if p.ident() != "type":
        raise ParseError("expected `type`")
    name = p.ident()
    # parameters may be referred to by their defaults and by the body
    save = p.i
    names = []
    if p.at("<"):
        depth, j = 0, p.i
        expect_name = True
        while j < len(p.toks):
            k, v, _ = p.toks[j]
            if k == "punct" and v in "<[{(":
                depth += 1
                if v == "<" and depth == 1:
                    expect_name = True
            elif k == "punct" and v in ">]})":
                depth -= 1
                if depth == 0:
                    break
            elif k == "punct" and v == "," and depth == 1:
                expect_name = True
            elif k == "id" and depth == 1 and expect_name:
                names.append(v)
                expect_name = False
            j += 1
    p.i = save
    p.params = set(names)
    params = p.type_params()
    p.eat("=")
    body = p.type()
    p.eat(";")
    if p.peek()[0] != "eof":
        raise ParseError("trailing input after declaration: %r" % (p.peek()[1],))
    return name, params, body


def parse_module(text, notice):
    """a whole exported file -> dict(imports=[(names, spec)], decls=[(name, params, body, doc)])"""
    if not text.startswith(notice):
        raise ParseError("file does not begin with the generated-file notice")
    if not text.endswith("\n"):
        raise ParseError("file does not end with a newline")
    toks = lex(text[len(notice):])
    p = P(toks)
    imports, decls = [], []
    while p.peek()[:2] == ("id", "import"):
        p.i += 1
        if p.ident() != "type":
            raise ParseError("import without `type`")
        p.eat("{")
        names = []
        while not p.at("}"):
            names.append(p.ident())
            if p.at(","):
                p.i += 1
        p.eat("}")
        if p.ident() != "from":
            raise ParseError("expected `from`")
        t = p.peek()
        if t[0] != "str":
            raise ParseError("expected module specifier")
        p.i += 1
        p.eat(";")
        imports.append((names, t[1]))
    while p.peek()[0] != "eof":
        if p.peek()[:2] != ("id", "export"):
            raise ParseError("expected `export type`, found %r" % (p.peek()[1],))
        start = p.peek()[2]
        # find the end of this declaration: parse it
        sub = P(toks[:])
        sub.toks = p.toks
        sub.i = p.i + 1
        if sub.ident() != "type":
            raise ParseError("expected `type` after `export`")
        name = sub.ident()
        # parameter names
        names, j, depth, expect = [], sub.i, 0, True
        if sub.at("<"):
            while j < len(sub.toks):
                k, v, _ = sub.toks[j]
                if k == "punct" and v in "<[{(":
                    depth += 1
                elif k == "punct" and v in ">]})":
                    depth -= 1
                    if depth == 0:
                        break
                elif k == "punct" and v == "," and depth == 1:
                    expect = True
                elif k == "id" and depth == 1 and expect:
                    names.append(v)
                    expect = False
                j += 1
        sub.params = set(names)
        params = sub.type_params()
        sub.eat("=")
        body = sub.type()
        sub.eat(";")
        # the comment token immediately before `export`, if any
        doc = None
        for k in range(len(toks)):
            if toks[k][2] == start and k > 0 and toks[k - 1][0] == "comment":
                doc = toks[k - 1][1]
        decls.append((name, params, body, doc))
        p.i = sub.i
    return dict(imports=imports, decls=decls)


# ---- to the Coq AST of Model/TsAst.v ----------------------------------------------------------
def coq_ty(t):
    k = t[0]
    if k == "prim":
        return "(TPrim %s)" % coq_str(t[1])
    if k == "var":
        return "(TVar %s)" % coq_str(t[1])
    if k == "ref":
        return "(TRef %s %s)" % (coq_str(t[1]), coq_list([coq_ty(x) for x in t[2]]))
    if k == "array":
        return "(TArray %s)" % coq_ty(t[1])
    if k == "neverarr":
        return "TNeverArr"
    if k == "recnever":
        return "TRecordNever"
    if k == "tuple":
        return "(TTuple %s)" % coq_list([coq_ty(x) for x in t[1]])
    if k == "obj":
        return "(TObj OStruct %s)" % coq_list(["(Build_phead [] %s %s %s, %s)" % (coq_str(key), coq_str(key), "true" if opt else "false", coq_ty(ty))
                                               for key, _, opt, ty in t[1]])
    if k == "mapped":
        return "(TMapped %s %s)" % (coq_ty(t[1]), coq_ty(t[2]))
    if k == "union":
        return "(TUnion %s)" % coq_list([coq_ty(x) for x in t[1]])
    if k == "inter":
        return "(TInter %s)" % coq_list([coq_ty(x) for x in t[1]])
    if k == "paren":
        return "(TParen %s)" % coq_ty(t[1])
    if k == "lit":
        return "(TLit %s)" % coq_str(t[1])
    if k == "numlit":
        return "(TRaw %s)" % coq_str(t[1])
    raise ValueError(t)


def coq_decl(name, params, body):
    ps = coq_list(["(%s, %s)" % (coq_str(n), "None" if d is None else "(Some %s)" % coq_ty(d)) for n, d in params])
    return "(%s, {| d_docs := []; d_name := %s; d_params := %s; d_body := %s |})" % (coq_str(name), coq_str(name), ps, coq_ty(body))


def refs(t, acc=None):
    acc = set() if acc is None else acc
    if t[0] == "ref":
        acc.add(t[1])
        for x in t[2]:
            refs(x, acc)
    elif t[0] in ("array", "paren"):
        refs(t[1], acc)
    elif t[0] in ("tuple", "union", "inter"):
        for x in t[1]:
            refs(x, acc)
    elif t[0] == "obj":
        for _, _, _, ty in t[1]:
            refs(ty, acc)
    elif t[0] == "mapped":
        refs(t[1], acc)
        refs(t[2], acc)
    return acc


def type_vars(t, acc=None):
    acc = set() if acc is None else acc
    if t[0] == "var":
        acc.add(t[1])
    elif t[0] == "ref":
        for x in t[2]:
            type_vars(x, acc)
    elif t[0] in ("array", "paren"):
        type_vars(t[1], acc)
    elif t[0] in ("tuple", "union", "inter"):
        for x in t[1]:
            type_vars(x, acc)
    elif t[0] == "obj":
        for _, _, _, ty in t[1]:
            type_vars(ty, acc)
    elif t[0] == "mapped":
        type_vars(t[1], acc)
        type_vars(t[2], acc)
    return acc
