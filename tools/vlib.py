"""Shared machinery of the checks: Coq builds and audits, evaluation of cases files, digests,
harness builds against /repo's working tree, evidence, known findings, VIOLATION reporting."""
import fcntl
import hashlib
import json
import os
import re
import shutil
import subprocess
import sys
import time

VERIF = os.path.dirname(os.path.dirname(os.path.abspath(__file__)))
REPO = os.environ.get("VERIF_REPO", "/repo")
COQ = os.path.join(VERIF, "coq")
THEORIES = os.path.join(COQ, "theories")
# build output is kept per source tree: cargo's fingerprints of workspace members do not include the workspace path, so two
# trees sharing one target directory would hand each other stale binaries
CACHE = os.path.join(VERIF, ".cache" if REPO == "/repo" else ".cache-" + hashlib.md5(REPO.encode()).hexdigest()[:8])
CORR = os.path.join(THEORIES, "Corr")
EVIDENCE = os.path.join(VERIF, "evidence")
REPLAYS = os.path.join(VERIF, "replays")
HOOK_CFG = "--cfg ts_rs_verif"
CARGO_ENV = {"CARGO_NET_OFFLINE": "true"}

FORBIDDEN = re.compile(
    r"\b(Admitted|admit|Axiom|Axioms|Parameter|Parameters|Conjecture|Conjectures|Hypothesis|Hypotheses|Variable|Variables|"
    r"Admit Obligations|Unset Guard Checking|Unset Positivity Checking|Unset Universe Checking|"
    r"bypass_check|type-in-type|impredicative-set|native_compute)\b")
# axioms of the Coq standard library that a theorem may depend on (none is needed so far)
AXIOM_ALLOWLIST = set()


class Violation(Exception):
    """A property violation (or a broken proof / correspondence with no failing input found)."""

    def __init__(self, what, replay, no_input=False):
        super().__init__(what)
        self.what = what
        self.replay = replay
        self.no_input = no_input


def log(*a):
    print("[verif]", *a, file=sys.stderr, flush=True)


def run(cmd, cwd=None, env=None, timeout=1800, input=None, check=False):
    e = dict(os.environ)
    e.update(CARGO_ENV)
    if env:
        e.update(env)
    t0 = time.time()
    p = subprocess.run(cmd, cwd=cwd, env=e, input=input, stdout=subprocess.PIPE, stderr=subprocess.PIPE,
                       timeout=timeout, shell=isinstance(cmd, str), text=True, errors="replace")
    p.wall = time.time() - t0
    if check and p.returncode != 0:
        raise RuntimeError("command failed (%s): %s\n%s\n%s" % (p.returncode, cmd, p.stdout[-4000:], p.stderr[-4000:]))
    return p


class Lock:
    def __init__(self, name):
        os.makedirs(CACHE, exist_ok=True)
        self.path = os.path.join(CACHE, name + ".lock")

    def __enter__(self):
        self.f = open(self.path, "w")
        fcntl.flock(self.f, fcntl.LOCK_EX)

    def __exit__(self, *a):
        fcntl.flock(self.f, fcntl.LOCK_UN)
        self.f.close()


# ------------------------------------------------------------------------------------------------
# digests: polynomial hash mod 2^63, identical to theories/Tools/Digest.v
MASK = (1 << 63) - 1
B = 1000003


def dg_str(h, s):
    for ch in s:
        h = (h * B + ord(ch) + 1) & MASK
    return (h * B) & MASK


def dg_list(strings):
    h = 7
    for s in strings:
        h = dg_str(h, s)
    return h


def chunks(l, n):
    return [l[i:i + n] for i in range(0, len(l), n)]


# ------------------------------------------------------------------------------------------------
# Coq terms
def coq_str(s):
    """A Rust string as a Coq `str` (list of code points)."""
    if s == "":
        return "[]"
    if all(32 <= ord(c) < 127 and c not in '"' for c in s):
        return '(lit "%s")' % s
    return "[" + ";".join(str(ord(c)) for c in s) + "]%N"


def coq_list(items, sep="; "):
    return "[" + sep.join(items) + "]"


def coq_bool(b):
    return "true" if b else "false"


def coq_option(x, f=lambda v: v):
    return "None" if x is None else "(Some %s)" % f(x)


def parse_coq_str_list(text):
    """Parse the printed form of a `list (list N)` value into Python strings."""
    out = []
    # tokens: [ ] numbers
    toks = re.findall(r"\[|\]|\d+", text.replace("%N", "").replace("%list", ""))
    depth = 0
    cur = None
    for t in toks:
        if t == "[":
            depth += 1
            if depth == 2:
                cur = []
        elif t == "]":
            if depth == 2:
                out.append("".join(chr(x) for x in cur))
                cur = None
            depth -= 1
        else:
            if cur is not None:
                cur.append(int(t))
    return out


# ------------------------------------------------------------------------------------------------
# Coq build / audit
def coq_files():
    fs = []
    for root, _, names in os.walk(THEORIES):
        if os.path.basename(root) == "Corr":
            continue
        for n in names:
            if n.endswith(".v"):
                fs.append(os.path.relpath(os.path.join(root, n), COQ))
    return sorted(fs)


def coq_makefile():
    files = coq_files()
    stamp = os.path.join(COQ, ".filelist")
    cur = "\n".join(files)
    old = open(stamp).read() if os.path.exists(stamp) else None
    if cur != old or not os.path.exists(os.path.join(COQ, "Makefile")):
        run(["coq_makefile", "-f", "_CoqProject", "-o", "Makefile"] + files, cwd=COQ, check=True)
        open(stamp, "w").write(cur)


def coq_make(targets, timeout=2400):
    """Full .vo build of the given targets (paths relative to coq/). Returns (ok, output)."""
    with Lock("coq"):
        coq_makefile()
        p = run(["make", "-j16"] + targets, cwd=COQ, timeout=timeout)
    return p.returncode == 0, p.stdout + p.stderr


def coq_eval(name, content, timeout=1200):
    """Compile a run-time generated file in theories/Corr and return (ok, stdout+stderr)."""
    os.makedirs(CORR, exist_ok=True)
    path = os.path.join(CORR, name + ".v")
    with open(path, "w") as f:
        f.write(content)
    p = run(["coqc", "-noglob", "-Q", "theories", "TsRs", "-w", "-all", path], cwd=COQ, timeout=timeout)
    for ext in (".vo", ".vok", ".vos", ".glob"):
        try:
            os.remove(os.path.join(CORR, name + ext))
        except OSError:
            pass
    return p.returncode == 0, p.stdout + p.stderr


def coq_eval_many(files, timeout=1200):
    """Evaluate several generated files in parallel; returns list of (ok, output)."""
    import concurrent.futures
    with concurrent.futures.ThreadPoolExecutor(max_workers=16) as ex:
        futs = [ex.submit(coq_eval, n, c, timeout) for n, c in files]
        return [f.result() for f in futs]


def grep_forbidden(files):
    """Scan the given .v files (relative to coq/) for escape hatches; returns list of hits."""
    hits = []
    for f in files:
        text = open(os.path.join(COQ, f)).read()
        # strip comments (non-nested is enough: hits inside comments are still reported conservatively
        # unless the whole match lies in a comment)
        stripped = strip_coq_comments(text)
        in_section = 0
        for ln, line in enumerate(stripped.split("\n"), 1):
            if re.match(r"\s*Section\b", line):
                in_section += 1
            if re.match(r"\s*End\b", line) and in_section:
                in_section -= 1
            for m in FORBIDDEN.finditer(line):
                w = m.group(1)
                if w in ("Variable", "Variables", "Hypothesis", "Hypotheses") and in_section:
                    continue  # section variables are discharged, not axioms
                hits.append("%s:%d: %s" % (f, ln, line.strip()))
    return hits


def strip_coq_comments(text):
    out = []
    depth = 0
    i = 0
    n = len(text)
    instr = False
    while i < n:
        if depth == 0 and text[i] == '"':
            instr = not instr
            out.append(text[i])
            i += 1
            continue
        if not instr and text.startswith("(*", i):
            depth += 1
            i += 2
            continue
        if not instr and depth > 0 and text.startswith("*)", i):
            depth -= 1
            i += 2
            continue
        if depth == 0:
            out.append(text[i])
        elif text[i] == "\n":
            out.append("\n")
        i += 1
    return "".join(out)


def dependency_cone(target_v):
    """All .v files (relative to coq/) that the given file transitively requires."""
    seen = set()
    todo = [target_v]
    while todo:
        f = todo.pop()
        if f in seen:
            continue
        seen.add(f)
        text = strip_coq_comments(open(os.path.join(COQ, f)).read())
        for sentence in re.split(r"\.\s", text):
            if "Require" not in sentence:
                continue
            for mod in re.findall(r"[A-Za-z_][A-Za-z_0-9.']*", sentence.split("Require", 1)[1]):
                mod = mod.replace("TsRs.", "").rstrip(".")
                cand = os.path.join("theories", *mod.split(".")) + ".v"
                if os.path.exists(os.path.join(COQ, cand)):
                    todo.append(cand)
    return sorted(seen)


def prove(prop_id, extra_targets=()):
    """Build Props/<id>.vo with its cone, audit it, and evaluate the pinned statements.
    Returns dict(ok, obligations, discharged, failures, theorems, assumptions, output)."""
    res = dict(ok=True, obligations=0, discharged=0, failures=[], theorems=[], assumptions={}, output="")
    # the translator: regenerate Gen/Tables.v from /repo's working tree (fails closed)
    import tables_from_source
    try:
        write_if_changed(os.path.join(THEORIES, "Gen", "Tables.v"), tables_from_source.generate())
    except Exception as e:  # TranslatorError or anything unexpected while scanning the sources
        res["ok"] = False
        res["failures"].append("translator: %s" % e)
        res["theorems"] = re.findall(r"Check\s*\(\s*([A-Za-z_0-9']+)\s*:", open(os.path.join(COQ, "pins", "%s.v" % prop_id)).read())
        res["obligations"] = len(res["theorems"])
        return res
    props_v = "theories/Props/%s.v" % prop_id
    pins_v = os.path.join(COQ, "pins", "%s.v" % prop_id)
    target = props_v[:-2] + ".vo"
    ok, out = coq_make([target, "theories/Tools/Digest.vo"] + list(extra_targets))
    res["output"] = out[-6000:]
    pins = open(pins_v).read()
    thms = re.findall(r"Check\s*\(\s*([A-Za-z_0-9']+)\s*:", pins)
    res["theorems"] = thms
    res["obligations"] = len(thms)
    if not ok:
        res["ok"] = False
        m = re.search(r'File "([^"]+)", line (\d+).*?\n(Error:.*?)(?:\n\n|\Z)', out, re.S)
        res["failures"].append("build of %s failed: %s" % (target, (m.group(0) if m else out[-1500:]).strip()))
        return res
    cone = dependency_cone(props_v)
    hits = grep_forbidden(cone)
    if hits:
        res["ok"] = False
        res["failures"].append("forbidden constructs: " + "; ".join(hits[:10]))
    # pinned statements + Print Assumptions, compiled on every run
    body = pins + "\n" + "\n".join('Print Assumptions %s.' % t for t in thms) + "\n"
    ok2, out2 = coq_eval("audit_%s" % prop_id, body, timeout=600)
    if not ok2:
        res["ok"] = False
        res["failures"].append("pinned statements of %s no longer check: %s" % (prop_id, out2[-1500:].strip()))
        return res
    blocks = re.split(r"\n(?=Closed under the global context|Axioms:)", "\n" + out2)
    pa = [b for b in blocks if b.startswith("Closed under") or b.startswith("Axioms:")]
    if len(pa) != len(thms):
        res["ok"] = False
        res["failures"].append("Print Assumptions produced %d answers for %d theorems" % (len(pa), len(thms)))
    for t, b in zip(thms, pa):
        if b.startswith("Closed under"):
            res["assumptions"][t] = []
            res["discharged"] += 1
        else:
            axs = re.findall(r"^([A-Za-z_][A-Za-z_0-9.']*)\s*:", b, re.M)
            axs = [a for a in axs if a != "Axioms"]
            res["assumptions"][t] = axs
            bad = [a for a in axs if a not in AXIOM_ALLOWLIST]
            if bad:
                res["ok"] = False
                res["failures"].append("theorem %s depends on axioms %s" % (t, bad))
            else:
                res["discharged"] += 1
    return res


def coqchk(prop_id):
    p = run(["coqchk", "-silent", "-o", "-Q", "theories", "TsRs", "TsRs.Props.%s" % prop_id], cwd=COQ, timeout=3000)
    out = p.stdout + p.stderr
    axioms = []
    m = re.search(r"\* Axioms:(.*?)(?:\n\s*\n|\* |\Z)", out, re.S)
    if m:
        axioms = [l.strip() for l in m.group(1).strip().split("\n") if l.strip() and "<none>" not in l]
    return p.returncode == 0, axioms, out[-3000:]


# ------------------------------------------------------------------------------------------------
# line protocol shared with the hooks / harnesses
def esc(s):
    return s.replace("\\", "\\\\").replace("\t", "\\t").replace("\n", "\\n").replace("\r", "\\r")


def unesc(s):
    out = []
    it = iter(s)
    for c in it:
        if c == "\\":
            n = next(it, "")
            out.append({"t": "\t", "n": "\n", "r": "\r"}.get(n, n))
        else:
            out.append(c)
    return "".join(out)


def enc_line(fields):
    return "\t".join(esc(f) for f in fields)


def dec_line(line):
    return [unesc(f) for f in line.rstrip("\n").split("\t")]


# ------------------------------------------------------------------------------------------------
# implementation side
def macro_hook(lines, features=("serde-compat",), tag="default"):
    """Run the in-process macro hook (built from /repo's working tree with the guard on) on the
    given request lines (lists of fields). Returns list of decoded result field lists."""
    os.makedirs(os.path.join(CACHE, "io"), exist_ok=True)
    inp = os.path.join(CACHE, "io", "macro_in_%s_%d.txt" % (tag, os.getpid()))
    outp = os.path.join(CACHE, "io", "macro_out_%s_%d.txt" % (tag, os.getpid()))
    with open(inp, "w") as f:
        for l in lines:
            f.write(enc_line(l) + "\n")
    target = os.path.join(CACHE, "target-macro-" + tag)
    cmd = ["cargo", "test", "-p", "ts-rs-macros", "--lib", "--offline", "--no-default-features"]
    if features:
        cmd += ["--features", ",".join(features)]
    cmd += ["verif_hook", "--", "--nocapture"]
    with Lock("cargo-macro-" + tag):
        p = run(cmd, cwd=REPO, env={"RUSTFLAGS": HOOK_CFG, "CARGO_TARGET_DIR": target, "TS_RS_VERIF_IN": inp,
                                    "TS_RS_VERIF_OUT": outp}, timeout=1800)
    if p.returncode != 0 or not os.path.exists(outp):
        raise HarnessError("macro hook failed to build or run:\n" + (p.stdout + p.stderr)[-3000:])
    res = [dec_line(l) for l in open(outp, encoding="utf-8", errors="surrogateescape").read().split("\n")[:-1]]
    os.remove(inp)
    os.remove(outp)
    if len(res) != len(lines):
        raise HarnessError("macro hook answered %d of %d requests" % (len(res), len(lines)))
    return res


class HarnessError(Exception):
    pass


def crate_dir(name):
    d = os.path.join(CACHE, "crates", name)
    os.makedirs(os.path.join(d, "src"), exist_ok=True)
    return d


def write_if_changed(path, content):
    if os.path.exists(path) and open(path).read() == content:
        return False
    os.makedirs(os.path.dirname(path), exist_ok=True)
    with open(path, "w") as f:
        f.write(content)
    return True


def build_crate(name, cargo_toml, sources, hooks=True, target="target-corpus", features=None, timeout=2400,
                extra_env=None):
    """Create/update a scratch crate under .cache/crates/<name> and build it offline against
    /repo's working tree. Returns the path of the built binary. Raises HarnessError with the
    compiler output when it does not build."""
    d = crate_dir(name)
    write_if_changed(os.path.join(d, "Cargo.toml"), cargo_toml)
    for rel, content in sources.items():
        write_if_changed(os.path.join(d, rel), content)
    lock = os.path.join(d, "Cargo.lock")
    if not os.path.exists(lock):
        shutil.copy(os.path.join(REPO, "Cargo.lock"), lock)
    env = {"CARGO_TARGET_DIR": os.path.join(CACHE, target)}
    if hooks:
        env["RUSTFLAGS"] = HOOK_CFG
    if extra_env:
        env.update(extra_env)
    with Lock("cargo-" + target):
        p = run(["cargo", "build", "--offline", "--quiet"], cwd=d, env=env, timeout=timeout)
        if p.returncode != 0 and "Cargo.lock" in (p.stderr or "") or "lock file" in (p.stderr or ""):
            os.remove(lock)
            p = run(["cargo", "build", "--offline", "--quiet"], cwd=d, env=env, timeout=timeout)
    if p.returncode != 0:
        raise HarnessError("crate %s does not build:\n%s" % (name, (p.stdout + p.stderr)[-6000:]))
    return os.path.join(CACHE, target, "debug", name)


def build_test_crate(name, cargo_toml, sources, hooks=False, target="target-corpus", timeout=2400):
    """Like build_crate, but compiles the crate's unit tests (`cargo test --no-run`) and returns the path of
    the test executable (the functions a `#[ts(export)]` derive generates exist only under cfg(test))."""
    d = crate_dir(name)
    write_if_changed(os.path.join(d, "Cargo.toml"), cargo_toml)
    for rel, content in sources.items():
        write_if_changed(os.path.join(d, rel), content)
    lock = os.path.join(d, "Cargo.lock")
    if not os.path.exists(lock):
        shutil.copy(os.path.join(REPO, "Cargo.lock"), lock)
    env = {"CARGO_TARGET_DIR": os.path.join(CACHE, target)}
    if hooks:
        env["RUSTFLAGS"] = HOOK_CFG
    with Lock("cargo-" + target):
        p = run(["cargo", "test", "--no-run", "--offline", "--quiet", "--message-format=json"], cwd=d, env=env, timeout=timeout)
    if p.returncode != 0:
        raise HarnessError("test crate %s does not build:\n%s" % (name, (p.stdout + p.stderr)[-6000:]))
    exe = None
    for line in p.stdout.splitlines():
        try:
            m = json.loads(line)
        except ValueError:
            continue
        if m.get("reason") == "compiler-artifact" and m.get("profile", {}).get("test") and m.get("executable"):
            exe = m["executable"]
    if exe is None:
        raise HarnessError("test crate %s: no test executable reported" % name)
    return exe


def harness_toml(name, deps=("ts-rs",), ts_features=(), extra="", serde_features=("derive",)):
    lines = ['[package]', 'name = "%s"' % name, 'version = "0.0.0"', 'edition = "2021"', '', '[workspace]', '',
             '[dependencies]']
    if "ts-rs" in deps:
        feats = ", ".join('"%s"' % f for f in ts_features)
        lines.append('ts-rs = { path = "%s/ts-rs", features = [%s] }' % (REPO, feats))
    if "serde" in deps:
        lines.append('serde = { version = "=1.0.215", features = [%s] }' % ", ".join('"%s"' % f for f in serde_features))
    if "serde_json" in deps:
        lines.append('serde_json = "=1.0.133"')
    lines.append(extra)
    lines += ['', '[profile.dev]', 'debug = 0', 'incremental = false', '']
    return "\n".join(lines)


# ------------------------------------------------------------------------------------------------
# known findings, evidence, reporting
def known_findings(prop_id):
    path = os.path.join(VERIF, "known_findings.json")
    if not os.path.exists(path):
        return []
    data = json.load(open(path))
    return [f for f in data.get("findings", []) if f["property"] == prop_id]


def write_replay(prop_id, data):
    os.makedirs(REPLAYS, exist_ok=True)
    h = hashlib.sha1(json.dumps(data, sort_keys=True, default=str).encode()).hexdigest()[:10]
    path = os.path.join(REPLAYS, "%s_%s.json" % (prop_id, h))
    data = dict(data)
    data["property"] = prop_id
    with open(path, "w") as f:
        json.dump(data, f, indent=1, default=str, ensure_ascii=False)
    return path


def write_evidence(prop_id, tier, seed, coverage, wall, violations, assumptions):
    os.makedirs(EVIDENCE, exist_ok=True)
    ev = {
        "property_id": prop_id,
        "tier": tier,
        "seed": seed,
        "level": "proof",
        "coverage": coverage,
        "assumptions": assumptions,
        "wall_s": round(wall, 2),
        "violations": violations,
    }
    with open(os.path.join(EVIDENCE, prop_id + ".json"), "w") as f:
        json.dump(ev, f, indent=1, ensure_ascii=False, default=str)


TRUSTED_BASE = [
    "Coq 8.16.1 kernel (coqc); vm_compute (bytecode VM) for finite sweeps and for evaluating the model in cases files; no native_compute; no extraction",
    "axioms: none (Print Assumptions of every property theorem must answer 'Closed under the global context'; checked on every run)",
    "primitive Uint63 arithmetic of the VM: used only for digests in run-time cases files, never in a theorem",
    "tools/tables_from_source.py (translator of table-like code) and the Python case writers/readers of tools/",
    "hand-written executable models in coq/theories/Model, tied to /repo by the correspondence run of this check (sampling)",
    "rustc/cargo, serde 1.0.215, serde_derive 1.0.215, serde_json 1.0.133 as serde oracle",
]
