"""The corpus run shared by C01 C02 C03 C04 C07 C14 C15 (and parts of C13 C16): generate type
definitions, compile them against /repo's working tree (derive TS + Serialize + Deserialize), run the
binary to get what the real code says, and evaluate the Coq model (Model/Gen.v, GenExport.v) on the
same definitions; compare through digests, exactly on differing cases.

Results are cached under .cache/corpus keyed by (tree hash of /repo, generator source, seed, size)."""
import hashlib
import json
import os
import shutil
import re
import sys

import corpus as C
import corpus_gen as G
import vlib
from vlib import coq_str, coq_list

RUN_CWD = os.path.join(vlib.CACHE, "run")
PANIC = "\x00PANIC"
ERR = "\x00ERR"
QFIELDS = ["name", "inline", "flat", "decl", "decl_concrete", "deps", "output_path", "export", "docs", "ident"]


def tree_hash():
    h = hashlib.sha1()
    for cmd in (["git", "rev-parse", "HEAD"], ["git", "diff", "HEAD", "--", "macros", "ts-rs", "Cargo.toml", "Cargo.lock"],
                ["git", "ls-files", "--others", "--exclude-standard", "macros", "ts-rs"]):
        p = vlib.run(cmd, cwd=vlib.REPO)
        h.update(p.stdout.encode())
        if cmd[1] == "ls-files":
            for f in p.stdout.split("\n"):
                fp = os.path.join(vlib.REPO, f)
                if f and os.path.isfile(fp):
                    h.update(open(fp, "rb").read())
    return h.hexdigest()[:16]


def tools_hash():
    h = hashlib.sha1()
    d = os.path.dirname(os.path.abspath(__file__))
    for n in ("corpus.py", "corpus_gen.py", "corpus_run.py"):
        h.update(open(os.path.join(d, n), "rb").read())
    for n in ("Model/Gen.v", "Model/GenExport.v", "Model/TsAst.v", "Model/Rust.v", "Model/Docs.v", "Model/Case.v", "Model/Path.v",
              "Model/Merge.v", "Base/Str.v"):
        h.update(open(os.path.join(vlib.THEORIES, n), "rb").read())
    return h.hexdigest()[:12]


# ---- Unicode dictionary for execution --------------------------------------------------------
def unicode_coq(chars):
    """Coq definitions of is_upper / is_alnum / is_numeric: ASCII rules plus what the running Rust
    std says about the non-ASCII characters that occur in this run."""
    na = sorted(set(c for c in chars if ord(c) >= 128))
    up, al, nu = [], [], []
    if na:
        props = vlib.macro_hook([["charprops", "".join(na)]])[0]
        if props[0] != "OK":
            raise vlib.HarnessError("charprops failed: %r" % props)
        for c, p in zip(na, props[1:]):
            flags = p.split(":")[0]
            if "U" in flags:
                up.append(ord(c))
            if "A" in flags:
                al.append(ord(c))
            if "N" in flags:
                nu.append(ord(c))

    def lst(l):
        return "[" + ";".join(str(x) for x in l) + "]%N"
    return ("Definition is_upper (c : char) : bool := is_ascii_upper c || existsb (N.eqb c) %s.\n"
            "Definition is_alnum (c : char) : bool := is_ascii_upper c || is_ascii_lower c || is_ascii_digit c || existsb (N.eqb c) %s.\n"
            "Definition is_numeric (c : char) : bool := is_ascii_digit c || existsb (N.eqb c) %s.\n") % (lst(up), lst(al), lst(nu))


def all_chars(defs):
    return set(json.dumps(defs, ensure_ascii=False, default=str))


# ---- the implementation side -------------------------------------------------------------------
def referenced(t, acc):
    if t[0] == "named":
        acc.add(t[1])
    for x in t[1:]:
        if isinstance(x, tuple):
            referenced(x, acc)
        elif isinstance(x, list):
            for y in x:
                if isinstance(y, tuple):
                    referenced(y, acc)
    return acc


def def_refs(d):
    acc = set()
    fs = d["fields"] if d["kind"] == "struct" else [f for v in d["variants"] for f in v["fields"]]
    for f in fs:
        referenced(f["ty"], acc)
        if f.get("as_"):
            referenced(f["as_"], acc)
    for v in d.get("variants", []):
        if v.get("as_"):
            referenced(v["as_"], acc)
    if d.get("as_"):
        referenced(d["as_"], acc)
    for _, dflt in d["params"]:
        if dflt:
            referenced(dflt, acc)
    acc.discard(d["ident"])
    return acc


def drop_defs(defs, bad):
    """remove the definitions in `bad` and everything that refers to them (transitively)"""
    bad = set(bad)
    changed = True
    while changed:
        changed = False
        for d in defs:
            if d["ident"] not in bad and def_refs(d) & bad:
                bad.add(d["ident"])
                changed = True
    return [d for d in defs if d["ident"] not in bad], bad


def crate_source(defs, queries, values):
    """returns (source, line -> def ident map)"""
    lines = G.MAIN_PRELUDE.split("\n")
    owner = {}
    for d in defs:
        src = C.to_rust(d)
        if not d.get("as_key"):     # (a map key type keeps its comparison derives)
            src = src.replace("Debug, Clone, PartialEq", "").replace("Serialize, Deserialize, ", "Serialize, Deserialize")
        src = src.split("\n")
        for l in src:
            owner[len(lines) + 1] = d["ident"]
            lines.append(l)
        lines.append("")
    lines.append("fn main() {")
    lines.append("    // the work runs on a thread with a large stack: in a debug build every temporary of this function has a slot of its own")
    lines.append("    std::thread::Builder::new().stack_size(1 << 30).spawn(real_main).unwrap().join().unwrap();")
    lines.append("}")
    lines.append("fn real_main() {")
    lines.append("    std::panic::set_hook(Box::new(|_| ()));")
    lines.append("    if let Ok(path) = std::env::var(\"CORPUS_WITNESSES\") {")
    lines.append("        for line in std::fs::read_to_string(path).unwrap().lines() {")
    lines.append("            let mut it = line.splitn(3, '\\t'); let ix: usize = it.next().unwrap().parse().unwrap(); let k: usize = it.next().unwrap().parse().unwrap(); let json = it.next().unwrap();")
    lines.append("            match ix {")
    for i, t in enumerate(queries):
        if big_array(t):
            continue     # serde has no impls for arrays of more than 32 elements: such queries are asked for their TS side only
        lines.append("                %d => d::<%s>(ix, k, json)," % (i, C.rust_ty(t)))
        owner[len(lines)] = ("q", i)
    lines.append("                _ => (),")
    lines.append("            }")
    lines.append("        }")
    lines.append("        return;")
    lines.append("    }")
    lines.append("    if let Ok(dir) = std::env::var(\"CORPUS_EXPORT_ALL\") {")
    lines.append("        // every derived query type exported (with dependencies) into ONE directory, in a given order, from n threads")
    lines.append("        let mut fs: Vec<(usize, fn(&str) -> String)> = vec![")
    for i, t in enumerate(queries):
        if t[0] == "named":
            lines.append("            (%d, xa::<%s>)," % (i, C.rust_ty(t)))
            owner[len(lines)] = ("q", i)
    lines.append("        ];")
    lines.append("        let order: u64 = std::env::var(\"CORPUS_ORDER\").ok().and_then(|s| s.parse().ok()).unwrap_or(0);")
    lines.append("        let threads: usize = std::env::var(\"CORPUS_THREADS\").ok().and_then(|s| s.parse().ok()).unwrap_or(1);")
    lines.append("        if order == 1 { fs.reverse(); } else if order > 1 { let mut st = order; for i in (1..fs.len()).rev() { st = st.wrapping_mul(6364136223846793005).wrapping_add(1442695040888963407); let j = (st >> 33) as usize % (i + 1); fs.swap(i, j); } }")
    lines.append("        let chunks: Vec<Vec<(usize, fn(&str) -> String)>> = (0..threads).map(|k| fs.iter().cloned().skip(k).step_by(threads).collect()).collect();")
    lines.append("        let handles: Vec<_> = chunks.into_iter().map(|c| { let dir = dir.clone(); std::thread::spawn(move || c.into_iter().map(|(i, f)| format!(\"X\\u{2}{}\\u{2}{}\", i, f(&dir))).collect::<Vec<_>>()) }).collect();")
    lines.append("        for h in handles { for l in h.join().unwrap() { println!(\"{}\", l); } }")
    lines.append("        return;")
    lines.append("    }")
    lines.append("    if let Ok(spec) = std::env::var(\"CORPUS_EXPORT_MIXED\") {")
    lines.append("        // `i,j,..;r,s,..`: export() (the type alone) of the first list, then export_all() of the second, in one process, default directory")
    lines.append("        let fs: Vec<(usize, fn() -> String, fn() -> String)> = vec![")
    for i, t in enumerate(queries):
        if t[0] == "named":
            lines.append("            (%d, xo::<%s>, xd::<%s>)," % (i, C.rust_ty(t), C.rust_ty(t)))
            owner[len(lines)] = ("q", i)
    lines.append("        ];")
    lines.append("        let mut parts = spec.split(';');")
    lines.append("        let alone: Vec<usize> = parts.next().unwrap_or(\"\").split(',').filter_map(|s| s.parse().ok()).collect();")
    lines.append("        let roots: Vec<usize> = parts.next().unwrap_or(\"\").split(',').filter_map(|s| s.parse().ok()).collect();")
    lines.append("        for a in alone { if let Some(f) = fs.iter().find(|f| f.0 == a) { println!(\"X\\u{2}{}\\u{2}{}\", a, (f.1)()); } }")
    lines.append("        for r in roots { if let Some(f) = fs.iter().find(|f| f.0 == r) { println!(\"X\\u{2}{}\\u{2}{}\", r, (f.2)()); } }")
    lines.append("        return;")
    lines.append("    }")
    lines.append("    if let Ok(dir) = std::env::var(\"CORPUS_EXPORT\") {")
    for i, t in enumerate(queries):
        lines.append("        x::<%s>(%d, &dir);" % (C.rust_ty(t), i))
        owner[len(lines)] = ("q", i)
    lines.append("        return;")
    lines.append("    }")
    for i, t in enumerate(queries):
        lines.append("    q::<%s>(%d);" % (C.rust_ty(t), i))
        owner[len(lines)] = ("q", i)
    for i, vs in sorted(values.items()):
        for k, (expr, _) in enumerate(vs):
            lines.append("    v::<%s>(%d, %d, %s);" % (C.rust_ty(queries[i]), i, k, expr))
            owner[len(lines)] = ("v", i, k)
    lines.append("}")
    return "\n".join(lines) + "\n", owner


def big_array(t):
    if t[0] == "array" and t[1] > 32:
        return True
    for x in t[1:]:
        for y in (x if isinstance(x, list) else [x]):
            if isinstance(y, tuple) and big_array(y):
                return True
    return False


def build(name, defs, queries, values, max_rounds=12, log=None):
    """compile-fix loop: definitions rustc rejects are dropped (and reported) until the crate builds"""
    rejected = {}
    toml = vlib.harness_toml(name, deps=("ts-rs", "serde", "serde_json"))
    for rnd in range(max_rounds):
        src, owner = crate_source(defs, queries, values)
        d = vlib.crate_dir(name)
        vlib.write_if_changed(os.path.join(d, "Cargo.toml"), toml)
        vlib.write_if_changed(os.path.join(d, "src/main.rs"), src)
        lock = os.path.join(d, "Cargo.lock")
        if not os.path.exists(lock):
            import shutil
            shutil.copy(os.path.join(vlib.REPO, "Cargo.lock"), lock)
        env = {"CARGO_TARGET_DIR": os.path.join(vlib.CACHE, "target-corpus"), "RUSTFLAGS": vlib.HOOK_CFG + " -Awarnings"}
        with vlib.Lock("cargo-target-corpus"):
            p = vlib.run(["cargo", "build", "--offline", "--quiet", "--message-format=short"], cwd=d, env=env, timeout=2400)
        if p.returncode == 0:
            return os.path.join(vlib.CACHE, "target-corpus", "debug", name), defs, queries, values, rejected
        errs = re.findall(r"src/main\.rs:(\d+):\d+: error(?:\[(E\d+)\])?: ([^\n]*)", p.stderr)
        if not errs:
            raise vlib.HarnessError("corpus crate %s does not build and no error location was found:\n%s" % (name, p.stderr[-4000:]))
        bad = set()
        badq = set()
        for ln, code, msg in errs:
            o = owner.get(int(ln))
            if o is None:
                # a line between definitions (attribute continuation): look upwards
                k = int(ln)
                while k > 0 and owner.get(k) is None:
                    k -= 1
                o = owner.get(k)
            if isinstance(o, str):
                bad.add(o)
                rejected.setdefault(o, "%s %s" % (code, msg))
            elif isinstance(o, tuple):
                badq.add(o[1])
        if not bad and not badq:
            raise vlib.HarnessError("corpus crate %s: unattributable errors:\n%s" % (name, p.stderr[-4000:]))
        if log:
            log("corpus build round %d: dropping %d definitions, %d queries" % (rnd, len(bad), len(badq)))
        for qi in badq:
            t = queries[qi]
            ids = referenced(t, set())
            rejected.setdefault("query:%s" % C.rust_ty(t), "rejected in main()")
            if t[0] == "named" and not bad:
                # the value expression or the instantiation is at fault: drop the query only
                pass
        defs, dropped = drop_defs(defs, bad)
        keep = [i for i, t in enumerate(queries) if i not in badq and not (referenced(t, set()) & dropped)]
        values = {keep.index(i): vs for i, vs in values.items() if i in keep}
        queries = [queries[i] for i in keep]
    raise vlib.HarnessError("corpus crate %s still does not build after %d rounds" % (name, max_rounds))


def run_binary(exe, env=None):
    os.makedirs(RUN_CWD, exist_ok=True)
    e = {"TS_RS_EXPORT_DIR": ""}
    e = {}
    if env:
        e.update(env)
    p = vlib.run([exe], cwd=RUN_CWD, env=e, timeout=1200)
    if p.returncode != 0:
        raise vlib.HarnessError("corpus binary failed: %s" % p.stderr[-2000:])
    q, v, dd = {}, {}, {}
    for line in p.stdout.split("\n"):
        if not line:
            continue
        parts = line.split("\x02")
        parts = [x.replace("\x03", "\n") for x in parts]
        if parts[0] == "Q":
            q[int(parts[1])] = dict(zip(QFIELDS, parts[2:]))
        elif parts[0] == "V":
            v[(int(parts[1]), int(parts[2]))] = parts[3]
        elif parts[0] == "D":
            dd[(int(parts[1]), int(parts[2]))] = parts[3]
    return q, v, dd


def run_export(exe, out_dir):
    """export_all_to(out_dir/<query index>) for every query; returns {index: status}"""
    import shutil
    shutil.rmtree(out_dir, ignore_errors=True)
    os.makedirs(out_dir, exist_ok=True)
    os.makedirs(RUN_CWD, exist_ok=True)
    p = vlib.run([exe], cwd=RUN_CWD, env={"CORPUS_EXPORT": out_dir}, timeout=1800)
    if p.returncode != 0:
        raise vlib.HarnessError("corpus binary (export mode) failed: %s" % p.stderr[-2000:])
    st = {}
    for line in p.stdout.split("\n"):
        parts = line.split("\x02")
        if parts[0] == "X":
            st[int(parts[1])] = parts[2]
    return st


def run_export_mixed(exe, out_dir, alone, roots):
    """T::export() for the types `alone`, then T::export_all() for `roots`, one process, TS_RS_EXPORT_DIR = out_dir;
    returns ({index: status of the last call}, {path relative to out_dir: content})"""
    import shutil
    shutil.rmtree(out_dir, ignore_errors=True)
    os.makedirs(out_dir, exist_ok=True)
    os.makedirs(RUN_CWD, exist_ok=True)
    p = vlib.run([exe], cwd=RUN_CWD, env={"CORPUS_EXPORT_MIXED": "%s;%s" % (",".join(map(str, alone)), ",".join(map(str, roots))),
                                          "TS_RS_EXPORT_DIR": out_dir}, timeout=1800)
    if p.returncode != 0:
        raise vlib.HarnessError("corpus binary (mixed export mode) failed: %s" % p.stderr[-2000:])
    st = {}
    for line in p.stdout.split("\n"):
        parts = line.split("\x02")
        if parts[0] == "X":
            st[int(parts[1])] = parts[2]
    tree = {}
    base = os.path.dirname(os.path.normpath(out_dir))
    for root in (out_dir, os.path.join(base, "up")):
        for dp, _, fns in os.walk(root):
            for fn in fns:
                fp = os.path.join(dp, fn)
                tree[os.path.relpath(fp, out_dir)] = open(fp, encoding="utf-8", errors="replace").read()
    shutil.rmtree(os.path.join(base, "up"), ignore_errors=True)
    return st, tree


def run_export_all(exe, out_dir, order=0, threads=1):
    """export_all_to(out_dir) for every derived query type, in the given order from the given number of threads;
    returns ({index: status}, {relative path: content})"""
    import shutil
    shutil.rmtree(out_dir, ignore_errors=True)
    os.makedirs(out_dir, exist_ok=True)
    os.makedirs(RUN_CWD, exist_ok=True)
    p = vlib.run([exe], cwd=RUN_CWD, env={"CORPUS_EXPORT_ALL": out_dir, "CORPUS_ORDER": str(order), "CORPUS_THREADS": str(threads)}, timeout=1800)
    if p.returncode != 0:
        raise vlib.HarnessError("corpus binary (export-all mode) failed: %s" % p.stderr[-2000:])
    st = {}
    for line in p.stdout.split("\n"):
        parts = line.split("\x02")
        if parts[0] == "X":
            st[int(parts[1])] = parts[2]
    tree = {}
    base = os.path.dirname(os.path.normpath(out_dir))
    for root in (out_dir, os.path.join(base, "up")):
        for dp, _, fns in os.walk(root):
            for fn in fns:
                fp = os.path.join(dp, fn)
                tree[os.path.relpath(fp, base)] = open(fp, encoding="utf-8", errors="replace").read()
    shutil.rmtree(os.path.join(base, "up"), ignore_errors=True)
    return st, tree


def canon_real(field, s):
    if s.startswith("\x00ERR"):
        return ERR
    if field == "deps":
        return "|".join(sorted(set(x for x in s.split("|") if x)))
    return s


# ---- the model side ----------------------------------------------------------------------------
HEADER = """From TsRs Require Import Base.Str Base.Outcome Gen.Tables Model.Case Model.TsAst Model.Rust Model.Docs Model.Gen
  Model.Path Model.Merge Model.GenExport Tools.Digest.
"""


def env_file(defs, extra_chars=""):
    C.register(defs)
    return (HEADER + unicode_coq(all_chars(defs) | set(extra_chars)) +
            "Definition R : env :=\n  %s.\n" % C.coq_env(defs) +
            "Definition cwd : list str := %s.\n" % coq_list([coq_str(x) for x in RUN_CWD.strip("/").split("/")]) +
            """Definition can (o : outcome str) : str := match o with Ok s => s | Err _ => [0;69;82;82]%N | Panic _ => [0;80;65;78;73;67]%N end.
Definition fuel := 60%nat.
Definition def_of (t : rty) : option typedef := match t with RNamed id _ => lookup R id | _ => None end.
Definition args_of (t : rty) : list rty := match t with RNamed _ a => a | _ => [] end.
Definition q_name t := can (name_text R t).
Definition q_inline t := can (inline_text is_upper is_alnum is_numeric R fuel t).
Definition q_flat t := can (flat_text is_upper is_alnum is_numeric R fuel t).
Definition q_decl t := match def_of t with Some d => can (decl_text is_upper is_alnum is_numeric R fuel d) | None => [0;80;65;78;73;67]%N end.
Definition q_declc t := match def_of t with Some d => can (decl_concrete_text is_upper is_alnum is_numeric R fuel d (args_of t)) | None => [0;80;65;78;73;67]%N end.
Definition q_deps t := match dependencies_of R fuel t with
  | Ok l => join [124] (fold_right set_insert [] (map (fun e => snd (fst e) ++ [64] ++ snd e) l))
  | Err _ => [0;69;82;82]%N | Panic _ => [0;80;65;78;73;67]%N end.
Definition q_out t := match out_path R t with Some p => p | None => [45] end.
Definition q_export t := can (export_string is_upper is_alnum is_numeric R false cwd fuel t (lit "./bindings")).
Definition q_docs t := match def_of t with Some d => parse_docs (c_docs (attrs_of d)) | None => [] end.
Definition q_ident t := match def_of t with Some d => ts_ident d | None => [] end.
Definition q_all t := [q_name t; q_inline t; q_flat t; q_decl t; q_declc t; q_deps t; q_out t; q_export t; q_docs t; q_ident t].
""")


def coq_keep(name, content, timeout=1800):
    """compile a generated file under theories/Corr and keep its .vo (for shards to import)"""
    os.makedirs(vlib.CORR, exist_ok=True)
    path = os.path.join(vlib.CORR, name + ".v")
    with open(path, "w") as f:
        f.write(content)
    p = vlib.run(["coqc", "-noglob", "-Q", "theories", "TsRs", "-w", "-all", path], cwd=vlib.COQ, timeout=timeout)
    return p.returncode == 0, p.stdout + p.stderr


def coq_cleanup(name):
    for ext in (".vo", ".vok", ".vos", ".glob", ".v"):
        try:
            os.remove(os.path.join(vlib.CORR, name + ext))
        except OSError:
            pass


def model_digests(envname, queries, nshards=12):
    """per query: list of 10 digests (one per QFIELDS entry)"""
    idx = list(range(len(queries)))
    shards = [idx[k::nshards] for k in range(nshards)]
    files = []
    for k, sh in enumerate(shards):
        if not sh:
            continue
        body = ("From TsRs Require Import Corr.%s.\n" % envname + HEADER +
                "Definition qs : list rty := %s.\n" % coq_list([C.coq_ty(queries[i]) for i in sh], sep=";\n ") +
                "Eval vm_compute in (map (fun t => map (fun s => dg_list [s]) (q_all t)) qs).\n")
        files.append(("%s_q%d" % (envname, k), body))
    outs = vlib.coq_eval_many(files, timeout=2400)
    res = {}
    for (nm, _), (ok, out), sh in zip(files, outs, [s for s in shards if s]):
        if not ok:
            raise vlib.HarnessError("%s.v failed: %s" % (nm, out[-3000:]))
        nums = [int(x) for x in re.findall(r"(-?\d+)%Z", out)]
        if len(nums) != len(sh) * len(QFIELDS):
            raise vlib.HarnessError("%s.v: %d digests for %d queries" % (nm, len(nums), len(sh)))
        for j, i in enumerate(sh):
            res[i] = nums[j * len(QFIELDS):(j + 1) * len(QFIELDS)]
    return res


def model_exact(envname, queries, suspects):
    """suspects: list of (query index, field index); returns the model's strings"""
    terms = []
    fns = ["q_name", "q_inline", "q_flat", "q_decl", "q_declc", "q_deps", "q_out", "q_export", "q_docs", "q_ident"]
    for qi, fi in suspects:
        terms.append("%s %s" % (fns[fi], C.coq_ty(queries[qi])))
    body = ("From TsRs Require Import Corr.%s.\n" % envname + HEADER + "Eval vm_compute in %s.\n" % coq_list(terms, sep=";\n "))
    ok, out = vlib.coq_eval("%s_exact" % envname, body, timeout=2400)
    if not ok:
        raise vlib.HarnessError("exact comparison file failed: " + out[-3000:])
    return vlib.parse_coq_str_list(out.split("=", 1)[1].rsplit(":", 1)[0])


def corpus(seed, ndefs, nvalues=3, tag="main", log=vlib.log, use_cache=True, extra_defs=None):
    """The whole run. Returns a dict with defs, queries, values, real outputs (q, v), rejected
    definitions, text mismatches between model and implementation, and the name of the compiled
    Coq environment module (kept until corpus_done())."""
    key = "%s_%s_%s_%d_%d_%d" % (tag, tree_hash(), tools_hash(), seed, ndefs, nvalues)
    cdir = os.path.join(vlib.CACHE, "corpus")
    os.makedirs(cdir, exist_ok=True)
    cpath = os.path.join(cdir, key + ".json")
    envname = "corpus_env_%s" % tag
    res = None
    if use_cache and os.path.exists(cpath) and os.path.exists(cpath[:-5] + ".exe"):
        res = json.load(open(cpath))
        res["exe"] = cpath[:-5] + ".exe"
        res["queries"] = [totuple(t) for t in res["queries"]]
        res["q"] = {int(k): v for k, v in res["q"].items()}
        res["v"] = {tuple(int(x) for x in k.split(",")): v for k, v in res["v"].items()}
        res["values"] = {int(k): [tuple(x) for x in v] for k, v in res["values"].items()}
        for d in res["defs"]:
            fix_def(d)
    if res is None:
        g = G.Gen(seed)
        defs = g.generate(ndefs)
        if extra_defs:
            for d in extra_defs:
                g.add(d)
            defs = g.defs
        queries = g.queries()
        vg = G.Values(g, seed + 1)
        values = {}
        for i, t in enumerate(queries):
            vs = vg.values_for(t, nvalues)
            if vs:
                values[i] = vs
        exe, defs, queries, values, rejected = build("corpus_" + tag, defs, queries, values, log=log)
        # the binary belongs to this cache entry: a later build (another tree, another seed) replaces the one in the
        # cargo target directory, and a cache hit must never run a binary compiled from a different tree
        kept = cpath[:-5] + ".exe"
        shutil.copy2(exe, kept)
        exe = kept
        q, v, _ = run_binary(exe)
        res = dict(defs=defs, queries=queries, values=values, q=q, v=v, rejected=rejected, exe=exe)
        json.dump(dict(defs=defs, queries=queries, values={str(k): x for k, x in values.items()}, q={str(k): x for k, x in q.items()},
                       v={"%d,%d" % k: x for k, x in v.items()}, rejected=rejected, exe=exe), open(cpath, "w"), default=str)
        old = sorted((f for f in os.listdir(os.path.dirname(cpath)) if f.endswith(".json")),
                     key=lambda f: os.path.getmtime(os.path.join(os.path.dirname(cpath), f)))
        for f in old[:-10]:     # keep the ten newest entries
            for ext in (".json", ".exe"):
                try:
                    os.remove(os.path.join(os.path.dirname(cpath), f[:-5] + ext))
                except OSError:
                    pass
    # the model: environment compiled once, queries evaluated in parallel shards
    okb, outb = vlib.coq_make(["theories/Model/GenExport.vo", "theories/Tools/Digest.vo", "theories/Proofs/Gen_decl_proofs.vo"])
    if not okb:
        raise vlib.HarnessError("the executable model does not build: " + outb[-2000:])
    ok, out = coq_keep(envname, env_file(res["defs"]))
    if not ok:
        raise vlib.HarnessError("corpus environment does not compile in Coq: " + out[-3000:])
    res["envname"] = envname
    dig = model_digests(envname, res["queries"])
    suspects = []
    for i in range(len(res["queries"])):
        real = res["q"].get(i)
        if real is None:
            raise vlib.HarnessError("corpus binary printed nothing for query %d" % i)
        for fi, f in enumerate(QFIELDS):
            if f == "ident" and res["queries"][i][0] != "named":
                continue
            if vlib.dg_list([canon_real(f, real[f])]) != dig[i][fi]:
                suspects.append((i, fi))
    mism = []
    if suspects:
        sus = suspects[:600]
        mv = model_exact(envname, res["queries"], sus)
        for (qi, fi), m in zip(sus, mv):
            r = canon_real(QFIELDS[fi], res["q"][qi][QFIELDS[fi]])
            if m != r:
                mism.append(dict(query=C.rust_ty(res["queries"][qi]), qi=qi, field=QFIELDS[fi], model=m, implementation=r))
    res["mismatches"] = mism
    res["suspects"] = len(suspects)
    return res


def run_given(tag, defs, queries, values, log=vlib.log):
    """like corpus(), for explicitly given definitions / queries / values (no cache)"""
    okb, outb = vlib.coq_make(["theories/Model/GenExport.vo", "theories/Tools/Digest.vo", "theories/Proofs/Gen_decl_proofs.vo"])
    if not okb:
        raise vlib.HarnessError("the executable model does not build: " + outb[-2000:])
    exe, defs, queries, values, rejected = build("corpus_" + tag, defs, queries, values, log=log)
    q, v, _ = run_binary(exe)
    res = dict(defs=defs, queries=queries, values=values, q=q, v=v, rejected=rejected, exe=exe)
    envname = "corpus_env_%s" % tag
    ok, out = coq_keep(envname, env_file(defs, extra_chars=json.dumps([x[0] for vs in values.values() for x in vs], ensure_ascii=False)))
    if not ok:
        raise vlib.HarnessError("environment does not compile in Coq: " + out[-3000:])
    res["envname"] = envname
    dig = model_digests(envname, queries)
    suspects = []
    for i in range(len(queries)):
        for fi, f in enumerate(QFIELDS):
            if f == "ident" and queries[i][0] != "named":
                continue
            if vlib.dg_list([canon_real(f, q[i][f])]) != dig[i][fi]:
                suspects.append((i, fi))
    mism = []
    if suspects:
        sus = suspects[:600]
        mv = model_exact(envname, queries, sus)
        for (qi, fi), m in zip(sus, mv):
            r = canon_real(QFIELDS[fi], q[qi][QFIELDS[fi]])
            if m != r:
                mism.append(dict(query=C.rust_ty(queries[qi]), qi=qi, field=QFIELDS[fi], model=m, implementation=r))
    res["mismatches"] = mism
    res["suspects"] = len(suspects)
    return res


def corpus_done(res):
    coq_cleanup(res["envname"])
    if res.get("realname"):
        coq_cleanup(res["realname"])
    for n in os.listdir(vlib.CORR):
        if n.startswith(res["envname"] + "_q"):
            try:
                os.remove(os.path.join(vlib.CORR, n))
            except OSError:
                pass


def totuple(t):
    if isinstance(t, list) and t and isinstance(t[0], str) and t[0] in ("leaf", "option", "vec", "array", "tuple", "map", "wrap", "result", "range", "named", "param"):
        k = t[0]
        if k in ("tuple",):
            return (k, [totuple(x) for x in t[1]])
        if k == "named":
            return (k, t[1], [totuple(x) for x in t[2]])
        return tuple(totuple(x) if isinstance(x, list) else x for x in t)
    return t


def fix_def(d):
    """JSON round trip turns tuples into lists; restore the type terms"""
    def fx(f):
        f["ty"] = totuple(f["ty"])
        if f.get("as_") is not None:
            f["as_"] = totuple(f["as_"])
        if f.get("serde_ty") is not None:
            f["serde_ty"] = totuple(f["serde_ty"])
    if d["kind"] == "struct":
        for f in d["fields"]:
            fx(f)
    else:
        d["tagging"] = tuple(d["tagging"])
        for v in d["variants"]:
            for f in v["fields"]:
                fx(f)
            if v.get("as_") is not None:
                v["as_"] = totuple(v["as_"])
    if d.get("as_") is not None:
        d["as_"] = totuple(d["as_"])
    d["params"] = [(p[0], totuple(p[1]) if p[1] is not None else None) for p in d["params"]]
    if d.get("concrete"):
        d["concrete"] = [(int(i), totuple(t)) for i, t in d["concrete"]]


if __name__ == "__main__":
    n = int(sys.argv[1]) if len(sys.argv) > 1 else 60
    r = corpus(int(os.environ.get("VERIF_SEED", "1")), n, use_cache="--nocache" not in sys.argv)
    print("defs", len(r["defs"]), "queries", len(r["queries"]), "rejected", len(r["rejected"]), "suspects", r["suspects"], "mismatches", len(r["mismatches"]))
    for k, v in list(r["rejected"].items())[:40]:
        print("  rejected", k, v)
    for m in r["mismatches"][:25]:
        print(json.dumps(m, ensure_ascii=False, indent=1))
    corpus_done(r)
