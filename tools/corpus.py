"""Generator of corpus crates: Rust type definitions of the supported fragment, printed both as Rust
source (derive TS + Serialize + Deserialize) and as Coq terms of Model/Rust.v, with values."""
import json
import random

from vlib import coq_str, coq_list, coq_bool, coq_option

LEAVES = {
    # name: (coq leaf, is_signed, bits or None)
    "i8": ("LInt false (-128) 127", "int"), "u8": ("LInt false 0 255", "int"),
    "i16": ("LInt false (-32768) 32767", "int"), "u16": ("LInt false 0 65535", "int"),
    "i32": ("LInt false (-2147483648) 2147483647", "int"), "u32": ("LInt false 0 4294967295", "int"),
    "usize": ("LInt false 0 18446744073709551615", "int"), "isize": ("LInt false (-9223372036854775808) 9223372036854775807", "int"),
    "i64": ("LInt true (-9223372036854775808) 9223372036854775807", "int"), "u64": ("LInt true 0 18446744073709551615", "int"),
    "i128": ("LInt true (-170141183460469231731687303715884105728) 170141183460469231731687303715884105727", "int"),
    "u128": ("LInt true 0 340282366920938463463374607431768211455", "int"),
    "f32": ("LFloat", "float"), "f64": ("LFloat", "float"),
    "bool": ("LBool", "bool"), "String": ("LString", "str"), "char": ("LChar", "char"), "()": ("LUnit", "unit"),
}
INT_RANGE = {"i8": (-128, 127), "u8": (0, 255), "i16": (-32768, 32767), "u16": (0, 65535), "i32": (-2 ** 31, 2 ** 31 - 1),
             "u32": (0, 2 ** 32 - 1), "usize": (0, 2 ** 64 - 1), "isize": (-2 ** 63, 2 ** 63 - 1), "i64": (-2 ** 63, 2 ** 63 - 1),
             "u64": (0, 2 ** 64 - 1), "i128": (-2 ** 127, 2 ** 127 - 1), "u128": (0, 2 ** 128 - 1)}
RULES = {"lowercase": "Lower", "UPPERCASE": "Upper", "camelCase": "Camel", "snake_case": "Snake", "PascalCase": "Pascal",
         "SCREAMING_SNAKE_CASE": "ScreamingSnake", "kebab-case": "Kebab", "SCREAMING-KEBAB-CASE": "ScreamingKebab"}
WRAPPERS = ["Box", "std::rc::Rc", "std::sync::Arc", "std::cell::RefCell", "std::sync::Mutex"]


# ---- types ---------------------------------------------------------------------------------
def rust_ty(t, params=()):
    k = t[0]
    if k == "leaf":
        return t[1]
    if k == "option":
        return "Option<%s>" % rust_ty(t[1], params)
    if k == "vec":
        return "Vec<%s>" % rust_ty(t[1], params)
    if k == "array":
        return "[%s; %d]" % (rust_ty(t[2], params), t[1])
    if k == "tuple":
        return "(%s,)" % ", ".join(rust_ty(x, params) for x in t[1]) if len(t[1]) == 1 else "(%s)" % ", ".join(rust_ty(x, params) for x in t[1])
    if k == "map":
        return "std::collections::%s<%s, %s>" % (t[3] if len(t) > 3 else "BTreeMap", rust_ty(t[1], params), rust_ty(t[2], params))
    if k == "wrap":
        return "%s<%s>" % (t[1], rust_ty(t[2], params))
    if k == "result":
        return "Result<%s, %s>" % (rust_ty(t[1], params), rust_ty(t[2], params))
    if k == "range":
        return "std::ops::Range<%s>" % rust_ty(t[1], params)
    if k == "named":
        return t[1] + ("<%s>" % ", ".join(rust_ty(x, params) for x in t[2]) if t[2] else "")
    if k == "param":
        return params[t[1]]
    raise ValueError(t)


def coq_ty(t):
    k = t[0]
    if k == "leaf":
        return "(RLeaf (%s))" % LEAVES[t[1]][0]
    if k == "option":
        return "(ROption %s)" % coq_ty(t[1])
    if k == "vec":
        return "(RVec %s)" % coq_ty(t[1])
    if k == "array":
        return "(RArray %d %s)" % (t[1], coq_ty(t[2]))
    if k == "tuple":
        return "(RTuple %s)" % coq_list([coq_ty(x) for x in t[1]])
    if k == "map":
        return "(RMap %s %s)" % (coq_ty(t[1]), coq_ty(t[2]))
    if k == "wrap":
        return "(RWrap %s)" % coq_ty(t[2])
    if k == "result":
        return "(RResult %s %s)" % (coq_ty(t[1]), coq_ty(t[2]))
    if k == "range":
        return "(RRange %s)" % coq_ty(t[1])
    if k == "named":
        conc = CONCRETE.get(t[1], ())
        return "(RNamed %s %s)" % (coq_str(t[1]), coq_list([coq_ty(x) for i, x in enumerate(t[2]) if i not in conc]))
    if k == "param":
        return "(RParam %d)" % t[1]
    raise ValueError(t)


def subst(t, args):
    k = t[0]
    if k == "param":
        return args[t[1]]
    if k == "leaf":
        return t
    if k in ("option", "vec", "range"):
        return (k, subst(t[1], args))
    if k == "array":
        return (k, t[1], subst(t[2], args))
    if k == "tuple":
        return (k, [subst(x, args) for x in t[1]])
    if k == "map":
        return (k, subst(t[1], args), subst(t[2], args)) + tuple(t[3:])
    if k == "wrap":
        return (k, t[1], subst(t[2], args))
    if k == "result":
        return (k, subst(t[1], args), subst(t[2], args))
    if k == "named":
        return (k, t[1], [subst(x, args) for x in t[2]])
    raise ValueError(t)


# ---- definitions ---------------------------------------------------------------------------
def mk_field(ident, ty, **kw):
    f = dict(ident=ident, ty=ty, rename=None, skip=False, inline=False, flatten=False, optional=None, type=None, docs=[],
             skip_none=False, as_=None)
    f.update(kw)
    return f


def mk_struct(ident, shape, fields=(), **kw):
    d = dict(kind="struct", ident=ident, shape=shape, fields=list(fields), rename=None, rename_all=None, tag=None,
             optional_fields=None, docs=[], export_to=None, type=None, as_=None, params=[], spelling="serde")
    d.update(kw)
    return d


def mk_variant(ident, shape, fields=(), **kw):
    v = dict(ident=ident, shape=shape, fields=list(fields), rename=None, rename_all=None, skip=False, untagged=False, type=None, as_=None)
    v.update(kw)
    return v


def mk_enum(ident, variants, **kw):
    d = dict(kind="enum", ident=ident, variants=list(variants), rename=None, rename_all=None, rename_all_fields=None,
             tagging=("external",), docs=[], export_to=None, type=None, as_=None, params=[], spelling="serde")
    d.update(kw)
    return d


def rust_str_lit(s):
    return json.dumps(s, ensure_ascii=False)


def attr_list(prefix, items):
    return "#[%s(%s)] " % (prefix, ", ".join(items)) if items else ""


def container_serde(d, sd):
    """the container's serde attributes: one list, or (spelling serde_split) one attribute per entry, tag before content"""
    if d.get("spelling") == "serde_split" and len(sd) > 1:
        return "".join("#[serde(%s)] " % x for x in sd)
    return attr_list("serde", sd)


def field_attrs(f, named):
    ts, sd = [], []
    both = sd  # attributes understood by both derives are written in the serde spelling
    if f["rename"] is not None:
        both.append("rename = %s" % rust_str_lit(f["rename"]))
    if f["skip"]:
        both.append("skip")
    if f["flatten"]:
        both.append("flatten")
    if f["inline"]:
        ts.append("inline")
    if f["optional"] is not None:
        ts.append("optional" if not f["optional"] else "optional = nullable")
    if f["type"] is not None:
        ts.append("type = %s" % rust_str_lit(f["type"]))
    if f["as_"] is not None:
        ts.append("as = %s" % rust_str_lit(f["as_text"]))
    if f["skip_none"]:
        sd.append('skip_serializing_if = "Option::is_none"')
        sd.append("default")
    if f.get("skip_de"):
        # serde still WRITES the field (ts-rs does not know the key and must leave the field alone); the type needs Default
        sd.append("skip_deserializing")
    docs = "".join("#[doc = %s] " % rust_str_lit(l) for l in f["docs"]) + ("#[doc(alias = \"al\")] " if f.get("doc_alias") else "")   # list-form doc attributes carry no documentation
    return docs + attr_list("ts", ts) + attr_list("serde", sd)


def field_ty_src(f, params):
    """the type as written in the item: a type alias (declared next to the item, see alias_lines) where the field has one"""
    return f["alias"] if f.get("alias") else rust_ty(f.get("serde_ty", f["ty"]), params)


def alias_lines(d):
    """`pub type <Alias> = <type>;` for the fields of d written through an alias (closed types only)"""
    fs = d["fields"] if d["kind"] == "struct" else [f for v in d["variants"] for f in v["fields"]]
    return "".join("pub type %s = %s;\n" % (f["alias"], rust_ty(f.get("serde_ty", f["ty"]), ())) for f in fs if f.get("alias"))


def fields_src(shape, fields, params):
    if shape == "unit":
        return ""
    if shape == "tuple":
        return "(" + ", ".join(field_attrs(f, False) + field_ty_src(f, params) for f in fields) + ")"
    return "{ " + ", ".join(field_attrs(f, True) + ("r#" if f["ident"] in KEYWORDS else "") + f["ident"] + ": " + field_ty_src(f, params) for f in fields) + " }"


KEYWORDS = {"type", "enum", "struct", "fn", "let", "match", "ref", "mod", "use", "as", "in", "for", "loop", "move", "pub", "impl", "trait", "where", "while", "yield", "static", "const", "continue", "break", "else", "if", "return", "true", "false", "unsafe", "extern", "dyn", "abstract", "final", "override", "macro", "try", "typeof", "unsized", "virtual", "box", "do", "priv", "become", "async", "await"}


def params_src(d):
    if not d["params"]:
        return ""
    pn = [n for n, _ in d["params"]]
    return "<" + ", ".join(n + (" = " + rust_ty(dflt, pn) if dflt is not None else "") for n, dflt in d["params"]) + ">"


def to_rust(d):
    pnames = [n for n, _ in d["params"]]
    ts, sd = [], []
    if d["rename"] is not None:
        sd.append("rename = %s" % rust_str_lit(d["rename"]))
    if d["rename_all"] is not None:
        sd.append("rename_all = %s" % rust_str_lit(d["rename_all"]))
    if d["export_to"] is not None:
        ts.append("export_to = %s" % rust_str_lit(d["export_to"]))
    if d["type"] is not None:
        ts.append("type = %s" % rust_str_lit(d["type"]))
    if d["as_"] is not None:
        ts.append("as = %s" % rust_str_lit(rust_ty(d["as_"])))
    split_concrete = ""
    if d.get("concrete"):
        if d.get("concrete_split"):      # one attribute per concretised parameter
            split_concrete = "".join("#[ts(concrete(%s = %s))]\n" % (pnames[int(i)], rust_ty(t)) for i, t in d["concrete"])
        else:
            ts.append("concrete(%s)" % ", ".join("%s = %s" % (pnames[int(i)], rust_ty(t)) for i, t in d["concrete"]))
    docs = "".join("#[doc = %s]\n" % rust_str_lit(l) for l in d["docs"]) + ("#[doc(hidden)]\n#[doc(alias = \"other\")]\n" if d.get("doc_list") else "")
    derives = "#[derive(TS, Serialize, Deserialize, Debug, Clone, PartialEq%s)]\n" % (", Eq, Hash, PartialOrd, Ord" if d.get("as_key") else "") + split_concrete
    if d["kind"] == "struct":
        if d["tag"] is not None:
            sd.append("tag = %s" % rust_str_lit(d["tag"]))
        if d["optional_fields"] is not None:
            ts.append("optional_fields" if not d["optional_fields"] else "optional_fields = nullable")
        body = fields_src(d["shape"], d["fields"], pnames)
        return alias_lines(d) + "%s%s%s%spub struct %s%s%s%s" % (docs, derives, attr_list("ts", ts) and attr_list("ts", ts) + "\n", container_serde(d, sd) and container_serde(d, sd) + "\n",
                                              d["ident"], params_src(d), (" " + body) if d["shape"] == "named" else body, "" if d["shape"] == "named" else ";")
    tg = d["tagging"]
    if tg[0] == "internal":
        sd.append("tag = %s" % rust_str_lit(tg[1]))
    elif tg[0] == "adjacent":
        sd += ["tag = %s" % rust_str_lit(tg[1]), "content = %s" % rust_str_lit(tg[2])]
    elif tg[0] == "untagged":
        sd.append("untagged")
    if d["rename_all_fields"] is not None:
        sd.append("rename_all_fields = %s" % rust_str_lit(d["rename_all_fields"]))
    vs = []
    for v in d["variants"]:
        vts, vsd = [], []
        if v["rename"] is not None:
            vsd.append("rename = %s" % rust_str_lit(v["rename"]))
        if v["rename_all"] is not None:
            vsd.append("rename_all = %s" % rust_str_lit(v["rename_all"]))
        if v["skip"]:
            vsd.append("skip")
        if v["untagged"]:
            vsd.append("untagged")
        if v["type"] is not None:
            vts.append("type = %s" % rust_str_lit(v["type"]))
        if v["as_"] is not None:
            vts.append("as = %s" % rust_str_lit(rust_ty(v["as_"])))
        vs.append(attr_list("ts", vts) + attr_list("serde", vsd) + v["ident"] + ((" " if v["shape"] == "named" else "") + fields_src(v["shape"], v["fields"], pnames)))
    return alias_lines(d) + "%s%s%s%spub enum %s%s { %s }" % (docs, derives, attr_list("ts", ts) and attr_list("ts", ts) + "\n", container_serde(d, sd) and container_serde(d, sd) + "\n",
                                            d["ident"], params_src(d), ", ".join(vs))


def coq_optional(o):
    return "NotOptional" if o is None else "(Optional %s)" % coq_bool(o)


def coq_field(f):
    ty = f["ty"] if f["as_"] is None else f["as_"]
    return ("{| f_ident := %s; f_ty := %s; f_serde_ty := %s; f_rename := %s; f_skip := %s; f_inline := %s; f_flatten := %s; "
            "f_optional := %s; f_type := %s; f_docs := %s; f_skip_none := %s |}") % (
        coq_str(f["ident"]), coq_ty(ty), coq_ty(f.get("serde_ty", f["ty"])), coq_option(f["rename"], coq_str), coq_bool(f["skip"]),
        coq_bool(f["inline"]), coq_bool(f["flatten"]), coq_optional(f["optional"]), coq_option(f["type"], coq_str),
        coq_list([coq_str(l) for l in f["docs"]]), coq_bool(f["skip_none"]))


def coq_shape(shape, fields):
    if shape == "unit":
        return "SUnit"
    return "(%s %s)" % ("STuple" if shape == "tuple" else "SNamed", coq_list([coq_field(f) for f in fields], sep=";\n      "))


def coq_rule(r):
    return "None" if r is None else "(Some %s)" % RULES[r]


# `#[ts(concrete(P = Ty))]`: the impl exists only at P = Ty, the declaration and every reference drop the parameter.
# The model has no such attribute: a definition using it is handed to Coq DESUGARED (the parameter removed, Ty
# substituted in the field types) and references to it lose the argument at that position.  The Rust side is the
# real attribute.  CONCRETE: identifier -> set of concretised parameter positions (register() fills it).
CONCRETE = {}


def register(defs):
    CONCRETE.clear()
    for d in defs:
        if d.get("concrete"):
            CONCRETE[d["ident"]] = {int(i) for i, _ in d["concrete"]}


def desugar(d):
    conc = {int(i): t for i, t in (d.get("concrete") or [])}
    if not conc:
        return d
    import copy
    args, k = [], 0
    for i in range(len(d["params"])):
        if i in conc:
            args.append(conc[i])
        else:
            args.append(("param", k))
            k += 1
    d2 = copy.deepcopy(d)
    d2["concrete"] = None
    d2["params"] = [(n, subst(dflt, args) if dflt is not None else None) for i, (n, dflt) in enumerate(d["params"]) if i not in conc]
    fs = d2["fields"] if d2["kind"] == "struct" else [f for v in d2["variants"] for f in v["fields"]]
    for f in fs:
        f["ty"] = subst(f["ty"], args)
        if f.get("serde_ty") is not None:
            f["serde_ty"] = subst(f["serde_ty"], args)
        if f.get("as_") is not None:
            f["as_"] = subst(f["as_"], args)
    return d2


def coq_attrs(d):
    return ("{| c_ident := %s; c_rename := %s; c_rename_all := %s; c_tag := %s; c_optional_fields := %s; c_docs := %s; "
            "c_export_to := %s; c_type := %s; c_as := %s; c_params := %s |}") % (
        coq_str(d["ident"].replace("r#", "")), coq_option(d["rename"], coq_str), coq_rule(d["rename_all"]),
        coq_option(d.get("tag"), coq_str), coq_optional(d.get("optional_fields")), coq_list([coq_str(l) for l in d["docs"]]),
        coq_option(d["export_to"], coq_str), coq_option(d["type"], coq_str), coq_option(d["as_"], coq_ty),
        coq_list(["(%s, %s)" % (coq_str(n), coq_option(dflt, coq_ty)) for n, dflt in d["params"]]))


def to_coq(d):
    d = desugar(d)
    if d["kind"] == "struct":
        return "(DStruct %s %s)" % (coq_attrs(d), coq_shape(d["shape"], d["fields"]))
    tg = d["tagging"]
    tgc = {"external": "External", "untagged": "Untagged"}.get(tg[0]) or (
        "(Internal %s)" % coq_str(tg[1]) if tg[0] == "internal" else "(Adjacent %s %s)" % (coq_str(tg[1]), coq_str(tg[2])))
    vs = []
    for v in d["variants"]:
        vs.append("{| v_ident := %s; v_shape := %s; v_rename := %s; v_rename_all := %s; v_skip := %s; v_untagged := %s; v_type := %s; v_as := %s |}" % (
            coq_str(v["ident"]), coq_shape(v["shape"], v["fields"]), coq_option(v["rename"], coq_str), coq_rule(v["rename_all"]),
            coq_bool(v["skip"]), coq_bool(v["untagged"]), coq_option(v["type"], coq_str), coq_option(v["as_"], coq_ty)))
    return "(DEnum %s %s %s %s)" % (coq_attrs(d), tgc, coq_rule(d["rename_all_fields"]), coq_list(vs, sep=";\n     "))


def coq_env(defs):
    return coq_list(["(%s, %s)" % (coq_str(d["ident"]), to_coq(d)) for d in defs], sep=";\n  ")
