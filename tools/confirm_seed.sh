#!/bin/bash
# usage: tools/confirm_seed.sh <dir with patch.diff + demo.rs> <tag>
# Confirms a seeded change in a scratch worktree of /repo (outside /repo and /verif): it applies, the
# whole test suite passes with it, the demonstration fails with it and passes without it.  Removes the
# worktree and its build output afterwards.
set -u
dir=$(realpath "$1"); tag=$2
wt=/tmp/cf_$tag; tgt=/tmp/cf_${tag}_target
git -C /repo worktree remove --force "$wt" >/dev/null 2>&1; rm -rf "$wt" "$tgt"
git -C /repo worktree add --detach "$wt" HEAD >/dev/null 2>&1 || { echo "worktree failed"; exit 2; }
export CARGO_NET_OFFLINE=true CARGO_TARGET_DIR=$tgt
cd "$wt" || exit 2
res=""
git apply "$dir/patch.diff" || { echo "CONFIRM $tag: patch does not apply"; git -C /repo worktree remove --force "$wt"; exit 2; }
cargo test --workspace --no-fail-fast --offline >"$tgt.suite.log" 2>&1; suite=$?
passed=$(grep -h "^test result" "$tgt.suite.log" | awk '{p+=$4; f+=$6} END {print p" passed "f" failed"}')
cp "$dir/demo.rs" ts-rs/tests/zz_seed_demo.rs
cargo test -p ts-rs --test zz_seed_demo --offline >"$tgt.demo_with.log" 2>&1; with=$?
git apply -R "$dir/patch.diff"
cargo test -p ts-rs --test zz_seed_demo --offline >"$tgt.demo_without.log" 2>&1; without=$?
echo "CONFIRM $tag: suite_exit=$suite ($passed) demo_with_change_exit=$with demo_unmodified_exit=$without"
cd /; git -C /repo worktree remove --force "$wt"; rm -rf "$wt" "$tgt" "$tgt".*.log
[ $suite -eq 0 ] && [ $with -ne 0 ] && [ $without -eq 0 ]
