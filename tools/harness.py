"""Builders for the committed harness crates under /verif/harness."""
import os

import vlib


def rt(esm=False):
    name = "rt_esm" if esm else "rt"
    d = os.path.join(vlib.VERIF, "harness", "rt")
    src = {"src/" + n: open(os.path.join(d, n)).read() for n in os.listdir(d) if n.endswith(".rs")}
    return vlib.build_crate(name, vlib.harness_toml(name, deps=("ts-rs", "serde", "serde_json"),
                                                    ts_features=(("import-esm",) if esm else ())),
                            src, target="target-rt-esm" if esm else "target-rt")


def rt_run(exe, requests, cwd=None, env=None, timeout=1800):
    """Send request lines (lists of fields) to an rt harness process; returns decoded answers."""
    inp = "".join(vlib.enc_line(r) + "\n" for r in requests)
    p = vlib.run([exe], input=inp, cwd=cwd, env=env, timeout=timeout)
    lines = p.stdout.split("\n")[:-1]
    if p.returncode != 0 or len(lines) != len(requests):
        raise vlib.HarnessError("rt harness: exit %s, %d answers for %d requests\n%s" % (
            p.returncode, len(lines), len(requests), p.stderr[-2000:]))
    return [vlib.dec_line(l) for l in lines]
