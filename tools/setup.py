#!/usr/bin/env python3
"""setup_cmd: build the whole Coq development (full .vo build) and warm the cargo caches of the
harnesses from files on disk only (offline)."""
import os
import sys

sys.path.insert(0, os.path.dirname(os.path.abspath(__file__)))
import vlib

import subprocess
subprocess.run([sys.executable, os.path.join(os.path.dirname(os.path.abspath(__file__)), "tables_from_source.py")])
ok, out = vlib.coq_make([], timeout=3400)
print(out[-3000:])
if not ok:
    print("setup: Coq build failed (checks will report it per property)")
try:
    vlib.macro_hook([["charprops", "a"]])
    print("setup: macro hook built")
except Exception as e:  # not fatal: each check rebuilds what it needs
    print("setup: macro hook: %s" % e)
try:
    import harness
    harness.rt(False)
    harness.rt(True)
    print("setup: rt harnesses built")
except Exception as e:
    print("setup: rt harness: %s" % e)
sys.exit(0)
