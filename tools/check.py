#!/usr/bin/env python3
"""Entry point of every check:  tools/check.py <id> --tier quick|thorough  |  --replay <file>

exit 0: the property held on everything explored (KNOWN-FINDING lines may be printed);
exit 1: a line `VIOLATION property=<id> replay=<path>` was printed."""
import argparse
import importlib
import json
import os
import sys
import time
import traceback

sys.path.insert(0, os.path.dirname(os.path.abspath(__file__)))
import vlib


def main():
    ap = argparse.ArgumentParser()
    ap.add_argument("prop")
    ap.add_argument("--tier", default=os.environ.get("VERIF_TIER", "quick"), choices=["quick", "thorough"])
    ap.add_argument("--replay")
    args = ap.parse_args()
    seed = int(os.environ.get("VERIF_SEED", "20260926"))
    pid = args.prop
    mod = importlib.import_module("props." + pid.lower())
    t0 = time.time()
    ctx = vlib_ctx = Ctx(pid, args.tier, seed, args.replay)
    violations = []
    try:
        mod.run(ctx)
    except vlib.Violation as v:
        ctx.violations.append(v)
    except Exception as e:  # the machinery itself broke: the property is no longer shown to hold
        tb = traceback.format_exc()
        vlib.log(tb)
        path = vlib.write_replay(pid, {"kind": "machinery-failure", "error": str(e)[-4000:], "traceback": tb[-4000:],
                                        "broken": "check machinery for %s (harness build, hook, or Coq evaluation)" % pid})
        ctx.violations.append(vlib.Violation("machinery failure: %s" % str(e)[:300], path, no_input=True))
    wall = time.time() - t0
    cov = ctx.coverage
    cov.setdefault("obligations", 0)
    cov.setdefault("discharged", 0)
    cov.setdefault("checker_cmd", "make -C coq theories/Props/%s.vo && coqc pins/%s.v + Print Assumptions (tools/vlib.py:prove)" % (pid, pid))
    cov.setdefault("trusted_base", vlib.TRUSTED_BASE)
    cov.setdefault("evaluations", 0)
    cov.setdefault("distinct_nontrivial", 0)
    cov.setdefault("samples", [])
    cov["known_findings_reproduced"] = ctx.kf_printed
    cov["known_class_members_seen"] = ctx.kf_classes
    vlib.write_evidence(pid, args.tier, seed, cov, wall, len(ctx.violations), ctx.assumptions)
    for kf in ctx.kf_printed:
        print("KNOWN-FINDING: property=%s %s" % (pid, kf))
    if ctx.violations:
        for v in ctx.violations:
            vlib.log("violation:", v.what)
            print("VIOLATION property=%s replay=%s%s" % (pid, v.replay, " no-failing-input-found" if v.no_input else ""))
        sys.exit(1)
    print("OK property=%s tier=%s wall=%.1fs obligations=%s/%s evaluations=%s" % (
        pid, args.tier, wall, cov["discharged"], cov["obligations"], cov["evaluations"]))
    sys.exit(0)


class Ctx:
    def __init__(self, pid, tier, seed, replay):
        self.pid = pid
        self.tier = tier
        self.seed = seed
        self.replay = replay
        self.coverage = {}
        self.assumptions = []
        self.violations = []
        self.kf_printed = []
        self.kf_classes = {}

    @property
    def quick(self):
        return self.tier == "quick"

    def prove(self):
        """Proof obligations of the property; a failure is recorded and the caller goes on to the
        failing-input search."""
        r = vlib.prove(self.pid)
        self.coverage["obligations"] = r["obligations"]
        self.coverage["discharged"] = r["discharged"] if r["ok"] else min(r["discharged"], max(0, r["obligations"] - 1))
        self.coverage["theorems"] = r["theorems"]
        self.coverage["print_assumptions"] = r["assumptions"]
        if self.tier == "thorough" and r["ok"]:
            ok, axioms, out = vlib.coqchk(self.pid)
            self.coverage["coqchk"] = {"ok": ok, "axioms": axioms}
            if not ok or axioms:
                r["ok"] = False
                r["failures"].append("coqchk: ok=%s axioms=%s %s" % (ok, axioms, out[-500:]))
        self.proof = r
        return r

    def fail(self, what, replay_data, no_input=False):
        path = vlib.write_replay(self.pid, replay_data)
        self.violations.append(vlib.Violation(what, path, no_input))

    def known(self, what):
        if what not in self.kf_printed:
            self.kf_printed.append(what)

    def known_class(self, cls, example, replay_data):
        """A failing input that Coq placed in a known-finding class: KNOWN-FINDING if the committed
        file lists the class for this property, a violation otherwise."""
        for f in vlib.known_findings(self.pid):
            if f.get("class") == cls:
                if cls not in self.kf_classes:   # one line per class; further members are counted
                    self.kf_classes[cls] = 0
                    self.known("%s [class %s] e.g. %s" % (f["what"], cls, example))
                self.kf_classes[cls] += 1
                return
        self.fail("failing input in class %s, which known_findings.json does not list" % cls, replay_data)

    def finish_proof(self):
        """Call at the end: if a proof obligation broke and no failing input was found by the
        searches, report it as no-failing-input-found."""
        r = self.proof
        if not r["ok"] and not [v for v in self.violations if not v.no_input]:
            self.fail("proof obligations of %s no longer check" % self.pid,
                      {"kind": "proof-broken", "broken": r["failures"], "theorems": r["theorems"],
                       "output": r["output"][-3000:]}, no_input=True)


if __name__ == "__main__":
    main()
