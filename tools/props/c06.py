"""C06 — export results depend only on what was exported, not how or in what order."""
import itertools
import json
import os
import random

import exportsm as sm
import harness
import vlib

TYPES = ["A", "B", "C", "D", "U1", "U2", "C2", "F", "U2low"]   # U2low is declared as `u2` in shared.ts: a name that differs from a file-mate in case only
# spellings of one directory (relative to the cwd @R/w/c): all denote @R/w/c/bindings
SPELLINGS = ["./bindings", "bindings/", "@R/w/c/bindings", "./y/../bindings", "bindings/./", "@R/w/c/z/../bindings"]
# TS_RS_EXPORT_DIR settings with the directory they denote
# (an ABSOLUTE setting with a `..` segment: export() hands the default path over un-normalised, C06_agent8)
ENVS = [(None, "bindings"), ("out", "out"), ("@R/w/c/absdir", "absdir"), ("./x/../bindings/", "bindings"), ("bindings", "bindings"),
        ("@R/w/c/q/../absdir", "absdir"), ("@R/w/c/q/../bindings", "bindings")]
STALE = [("@R/w/c/bindings/shared.ts", "stale shared content " * 40), ("@R/w/c/bindings/C.ts", "old C"),
         ("@R/w/c/bindings/sub/D.ts", "old D " * 50), ("@R/w/c/bindings/unrelated.ts", "keep me"),
         ("@R/w/c/out/nested/E.ts", "old E")]


NEAR = [("crlf", lambda t: t.replace("\n", "\r\n")), ("no final newline", lambda t: t.rstrip("\n")),
        ("first half", lambda t: t[:len(t) // 2]), ("trailing line", lambda t: t + "// stale\n"),
        ("identical", lambda t: t), ("cr only", lambda t: t.replace("\n", "\r")), ("blank lines doubled", lambda t: t.replace("\n\n", "\n\n\n"))]


def exported_set(U, c):
    """set of (normalised file, ident) a history exports, computed from what TS reports"""
    cwd = c["cwd"]
    default = c["env"] if c["env"] is not None else "./bindings"
    s = set()
    for o in c["ops"]:
        if o[0] == "export":
            ts, base = [o[1]], default
        elif o[0] == "export_all":
            ts, base = U.closure(o[1]), default
        else:
            ts, base = U.closure(o[1]), o[2]
        for t in ts:
            p = os.path.normpath(os.path.join(cwd, base, U.types[t]["out"]))
            s.add((p, U.types[t]["ident"]))
    return frozenset(s)


def run(ctx):
    proof = ctx.prove()
    rng = random.Random(ctx.seed)
    exe = harness.rt(False)
    U = sm.Universe(exe)
    tix = [U.ix(t) for t in TYPES]
    ops = []
    for t in tix:
        ops += [("export", t), ("export_all", t)] + [("export_all_to", t, s) for s in SPELLINGS[:3]]
    ops_more = [("export_all_to", t, s) for t in tix for s in SPELLINGS[3:]]
    cases = []

    def add(hist, env=None, init=()):
        cases.append(dict(root="@R", cwd="@R/w/c", env=env, init=list(init), ops=list(hist)))

    if ctx.replay:
        rp = json.load(open(ctx.replay))
        cases = [rp["case"]] if "case" in rp else rp["cases"]
        replay_near = None
        if rp.get("stale_variant"):
            replay_near, cases = (0, rp["stale_variant"], cases[1]), cases[:1]
    else:
        for o in ops + ops_more:                       # every single operation x every base setting x stale/empty
            for env, _ in ENVS:
                add([o], env, ())
                add([o], env, STALE)
        for a, b in itertools.product(ops, ops):        # every ordered pair, default base
            add([a, b], None, STALE if rng.random() < 0.3 else ())
        n = 600 if ctx.quick else 6000
        for _ in range(n):                              # longer random histories, all settings
            k = rng.randint(3, 4 if ctx.quick else 6)
            env, _ = rng.choice(ENVS)
            add([rng.choice(ops + ops_more) for _ in range(k)], env, STALE if rng.random() < 0.4 else ())
        # the same set through permuted orders and entry points (drives the oracle)
        for _ in range(150 if ctx.quick else 1500):
            ts = rng.sample(tix, rng.randint(2, 3))
            env, _ = rng.choice(ENVS)
            stale = STALE if rng.random() < 0.5 else ()
            for perm in itertools.permutations(ts):
                kinds = [rng.choice(["export_all", "export_all_to"]) for _ in perm]
                h = []
                for t, kd in zip(perm, kinds):
                    if kd == "export_all_to":
                        # the spelling must denote the default directory of this configuration
                        d = dict(ENVS)[env] if env is not None else "bindings"
                        sp = rng.choice(["./" + d, d + "/", "@R/w/c/" + d, "./zz/../" + d])
                        h.append((kd, t, sp))
                    else:
                        h.append((kd, t))
                add(h, env, stale)
    placed = sm.place(cases)
    real = sm.run_real(exe, placed)
    nsus, breaks = sm.correspond(U, placed, real, "C06")

    # the property on the real trees: histories with the same exported set, configuration and
    # initial tree end with the same tree; across initial trees, the exported files are equal
    groups = {}
    for k, (c, r) in enumerate(zip(cases, real)):
        if set(r[0]) <= {"O"}:
            key = (exported_set(U, c), c["env"] is not None and os.path.normpath(c["env"]), tuple(c["init"]))
            groups.setdefault(key, []).append(k)
    viol = []
    multi = 0
    for key, ks in groups.items():
        trees = {tuple(real[k][1]) for k in ks}
        if len(ks) > 1:
            multi += 1
        if len(trees) > 1:
            a = ks[0]
            b = next(k for k in ks if tuple(real[k][1]) != tuple(real[a][1]))
            viol.append(dict(cases=[cases[a], cases[b]], trees=[real[a][1], real[b][1]]))
        # never lost: every exported ident is declared in its file
        for k in ks:
            files = {os.path.normpath(os.path.join(placed[k]["root"], p)): c for p, c in real[k][1]}
            for p, ident in exported_set(U, placed[k]):
                if ("export type %s" % ident) not in files.get(p, ""):
                    viol.append(dict(cases=[cases[k]], lost=[p, ident], trees=[real[k][1]]))
    # stale content that is ALMOST what the export writes (the previous run's files with other line
    # terminators, without the final newline, truncated, with a trailing line): it must not leak either
    near = []
    if ctx.replay and replay_near:
        near = [replay_near]
    elif not ctx.replay:
        base = [k for k, (c, r) in enumerate(zip(cases, real)) if not c["init"] and set(r[0]) <= {"O"} and r[1]]
        rng.shuffle(base)
        for k in base[:120 if ctx.quick else 1200]:
            for name, fn in rng.sample(NEAR, 2):
                init = [("@R/" + p, fn(t)) for p, t in real[k][1]]
                near.append((k, name, dict(cases[k], init=init)))
    if near:
        placed2 = sm.place([c for _, _, c in near])
        real2 = sm.run_real(exe, placed2)
        nsus2, breaks2 = sm.correspond(U, placed2, real2, "C06n")
        nsus += nsus2
        breaks += breaks2
        for (k, name, c2), r2 in zip(near, real2):
            if set(r2[0]) <= {"O"} and tuple(r2[1]) != tuple(real[k][1]):
                viol.append(dict(cases=[cases[k], c2], trees=[real[k][1], r2[1]], stale_variant=name))
            elif not set(r2[0]) <= {"O"}:
                viol.append(dict(cases=[cases[k], c2], results=[real[k][0], r2[0]], stale_variant=name))
    for v in viol[:1]:
        ctx.fail("final tree depends on order / entry point / spelling, or a declaration was lost",
                 dict(kind="property-violated", note="%d violations" % len(viol), **v))
    if breaks and not viol:
        ctx.fail("model and implementation disagree (correspondence)", dict(
            kind="correspondence-broken", broken="Corr/cases_C06_*.v: Model/ExportSM.v vs real export entry points",
            case=breaks[0]["case"], model=breaks[0]["model"], implementation=breaks[0]["implementation"], count=len(breaks)), no_input=True)
    sm.cleanup()
    ctx.finish_proof()
    ctx.coverage.update({
        "evaluations": len(cases) + len(near),
        "distinct_nontrivial": len({json.dumps(c["ops"]) for c in cases if len(c["ops"]) >= 2}),
        "rule": "histories over {export, export_all, export_all_to x %d spellings} x %d types (shared file A/B/U2, cycle C<->D, generic G with two instantiations, `../` escape E, same file name in two directories C/C2) x %d TS_RS_EXPORT_DIR settings x {empty, stale, near-miss stale = the previous run's own files with other line terminators / truncated / extended} initial tree: every single operation in every setting, every ordered pair, %s random histories of length 3..%d, and permutations of the same set through different entry points/spellings; run on a real directory by 16 worker processes; non-trivial = at least two operations" % (
            len(SPELLINGS), len(TYPES), len(ENVS), "600" if ctx.quick else "6000", 4 if ctx.quick else 6),
        "samples": [dict(case=cases[k], results=real[k][0], files=[p for p, _ in real[k][1]]) for k in (len(cases) // 2, len(cases) - 3)],
        "correspondence": {"histories": len(cases), "suspects": nsus, "confirmed_breaks": len(breaks)},
        "oracle": {"groups_with_several_histories": multi, "groups": len(groups), "violations": len(viol),
                   "histories_all_ok": sum(len(v) for v in groups.values())},
    })
    ctx.assumptions += [
        "file system, cwd and TS_RS_EXPORT_DIR are modelled as pure state (Model/ExportSM.v); the real side runs on a real directory",
        "the universe of types is the fixed one of harness/rt/universe.rs; what TS reports for them (ident, output_path, decl, visit order) is read from the real code on every run",
    ]
