"""C02 — every inhabitant of the generated TypeScript type deserializes."""
import corpus as C
import corpus_run as CR
import sem_run as S
import vlib

from props.c01 import dup_keys, reach


def run(ctx):
    ctx.prove()
    ndefs = 160 if ctx.quick else 500
    seeds = [ctx.seed] if ctx.quick else [ctx.seed, ctx.seed + 1, ctx.seed + 2]
    st = dict(types=0, witnesses=0, not_member=0, accepted=0, rejected=0, reserialized_member=0, reserialized_not_member=0, known=0, skipped_types=0)
    samples, distinct = [], set()
    for seed in seeds:
        res = CR.corpus(seed, ndefs, nvalues=3 if ctx.quick else 5, log=vlib.log)
        try:
            check_one(ctx, res, seed, st, samples, distinct)
        finally:
            CR.corpus_done(res)
    ctx.finish_proof()
    ctx.coverage.update({
        "evaluations": st["witnesses"] * 2,
        "distinct_nontrivial": len(distinct),
        "rule": "generated corpus compiled against /repo with derive(TS, Serialize, Deserialize); for every query type Coq enumerates inhabitants of the REAL declared type (Spec/TsSem.v `witnesses` on the parsed real name() text, unfolding the parsed real declarations: every union arm, optional properties present/absent, arrays of length 0..2, one index-signature key, leaf values representable in every Rust numeric/char/string leaf) and re-checks each with memberb; the real serde_json::from_str::<T> must accept every witness, and the re-serialised value must again be a member (decided by Coq); non-trivial = distinct (type, witness) pairs",
        "samples": samples[:6],
        "distribution": st,
    })
    ctx.assumptions += [
        "number witnesses are 0 and 1, string witnesses \"a\": the property restricts numbers and char strings to what the Rust leaf can represent, and TypeScript cannot express the restriction",
        "types whose binding is user-asserted (`as`, `type`) have no witnesses",
    ]


def check_one(ctx, res, seed, st, samples, distinct):
    qs = res["queries"]
    by = {d["ident"]: d for d in res["defs"]}
    ok, out = vlib.coq_make(["theories/Spec/TsSem.vo", "theories/Spec/Serde.vo"])
    if not ok:
        raise vlib.HarnessError("Spec does not build: " + out[-2000:])
    mism = [m for m in res["mismatches"] if m["field"] in ("name", "inline", "decl")]
    S.real_env(res)
    unparsable = set(res["real_errors"])
    ov = S.overrides(res)
    qidx = []
    for i, t in enumerate(qs):
        if CR.big_array(t):
            st["skipped_types"] += 1     # serde has no Deserialize for arrays of more than 32 elements
            continue
        if CR.referenced(t, set()) & ov or {d["ident"] for d in reach(by, t)} & unparsable:
            st["skipped_types"] += 1
            continue
        if any(d.get("no_de") for d in reach(by, t)):
            st["skipped_types"] += 1     # `skip_deserializing`: serde does not read back what it writes (outside the round-trip fragment)
            continue
        if t[0] == "named" and res["q"][i]["decl"].startswith("\x00"):
            st["skipped_types"] += 1
            continue
        qidx.append(i)
    wit = S.witnesses(res, qidx)
    items = []
    for qi, ws in wit.items():
        st["types"] += 1
        for k, (text, member) in enumerate(ws):
            st["witnesses"] += 1
            if dup_keys(S.parse_json(text)):
                st["dup_key_witnesses"] = st.get("dup_key_witnesses", 0) + 1
                continue      # the declared object type has two properties with one name (a flattened type colliding with its host)
            if not member:
                st["not_member"] += 1
                raise vlib.HarnessError("Spec/TsSem.v produced a witness that is not a member: %s for %s" % (text, res["q"][qi]["name"]))
            items.append((qi, k, text))
    dd = S.deserialize(res, items)
    viol = []
    again = []
    # the property speaks of the fragment on which serde round-trips its own output: a definition one of whose REAL serialised
    # samples is rejected by the real Deserialize (e.g. a tuple variant whose only field is `#[serde(skip)]`) is outside it
    rejected_q = sorted({qi for qi, k, text in items if (dd.get((qi, k)) or "").startswith("\x00")})
    suspects = {d["ident"] for qi in rejected_q for d in reach(by, qs[qi])}
    rt_items = [(qi, 700000 + n, text) for n, ((qi, k), text) in enumerate(sorted(res["v"].items()))
                if qs[qi][0] == "named" and qs[qi][1] in suspects and not text.startswith("\x00") and not dup_keys(S.parse_json(text))]
    rt = S.deserialize(res, rt_items) if rt_items else {}
    no_round_trip = {qs[qi][1] for qi, k, text in rt_items if (rt.get((qi, k)) or "").startswith("\x00")}
    st["definitions_serde_does_not_round_trip"] = st.get("definitions_serde_does_not_round_trip", 0) + len(no_round_trip)
    for qi, k, text in items:
        r = dd.get((qi, k))
        distinct.add((C.rust_ty(qs[qi]), text))
        if r is None:
            raise vlib.HarnessError("the corpus binary did not answer witness %d of %s" % (k, C.rust_ty(qs[qi])))
        if r.startswith("\x00"):
            st["rejected"] += 1
            t = qs[qi]
            data = dict(kind="property-violated", what="an inhabitant of the declared type is rejected by serde's Deserialize", type=C.rust_ty(t),
                        witness=text, declared=res["q"][qi]["name"], decl=res["q"][qi]["decl"][:1500], result=r.replace("\x00", ""),
                        definition=C.to_rust(by[t[1]]) if t[0] == "named" else None, seed=seed)
            cls = classify(by, t)
            if cls:
                st["known"] += 1
                ctx.known_class(cls, "%s <- %s" % (C.rust_ty(t), text[:100]), data)
            elif {d["ident"] for d in reach(by, t)} & no_round_trip:
                st["outside_round_trip_fragment"] = st.get("outside_round_trip_fragment", 0) + 1
            else:
                viol.append(data)
        else:
            st["accepted"] += 1
            if not dup_keys(S.parse_json(r)):
                again.append((qi, r, text))
            if len(samples) < 6 and len(text) > 25:
                samples.append(dict(type=C.rust_ty(qs[qi]), witness=text[:160], reserialized=r[:160]))
    rr = S.membership(res, [(qi, r) for qi, r, _ in again], "c02")
    for (qi, r, text), m in zip(again, rr):
        if m is None:
            continue
        if m[0]:
            st["reserialized_member"] += 1
        else:
            st["reserialized_not_member"] += 1
            t = qs[qi]
            data = dict(kind="property-violated", what="the re-serialised witness is not a member of the declared type", type=C.rust_ty(t),
                        witness=text, reserialized=r, declared=res["q"][qi]["name"], decl=res["q"][qi]["decl"][:1500],
                        definition=C.to_rust(by[t[1]]) if t[0] == "named" else None, seed=seed)
            cls = "optional_without_skip_serializing_if" if m[2] else classify(by, t)
            if cls:
                st["known"] += 1
                ctx.known_class(cls, "%s <- %s" % (C.rust_ty(t), text[:100]), data)
            else:
                viol.append(data)
    # the Deserialize model (Spec/SerdeDe.v, the subject of C02_member_is_accepted) against the real serde_json::from_str, on the
    # witnesses and on near-miss mutants of them, for the types inside the closed plain sub-environment of the corpus
    de_breaks = de_correspondence(ctx, res, by, qs, items, dd, st)
    viol.sort(key=lambda d: len(d["witness"]))
    for v in viol[:3]:
        ctx.fail(v["what"], v)
    if de_breaks and not viol:
        ctx.fail("the Deserialize model and serde_json::from_str disagree (correspondence)", dict(
            kind="correspondence-broken", broken="Corr/*_de*.v: Spec/SerdeDe.v vs the real serde_json::from_str", first=de_breaks[0], all=de_breaks[:20], count=len(de_breaks), seed=seed),
            no_input=True)
    if mism and not viol:
        ctx.fail("model and implementation disagree on generated text (correspondence)", dict(
            kind="correspondence-broken", broken="Corr/corpus_env: Model/Gen.v vs the derive's real output", first=mism[0], count=len(mism), seed=seed),
            no_input=True)


def mutants(text):
    """near-miss mutants of a JSON text: a key dropped, a key renamed, an element dropped / added, a string changed, null"""
    import json as J
    try:
        j = J.loads(text, object_pairs_hook=lambda p: p)
    except ValueError:
        return []

    def dump(x):
        if isinstance(x, list) and x and all(isinstance(e, tuple) and len(e) == 2 and isinstance(e[0], str) for e in x):
            return "{" + ",".join(J.dumps(k, ensure_ascii=False) + ":" + dump(v) for k, v in x) + "}"
        if isinstance(x, list):
            if x == []:
                return "[]"
            return "[" + ",".join(dump(e) for e in x) + "]"
        return J.dumps(x, ensure_ascii=False)
    out = []
    is_obj = isinstance(j, list) and j and all(isinstance(e, tuple) for e in j)
    if is_obj:
        for k in range(min(len(j), 3)):
            out.append(dump(j[:k] + j[k + 1:]))                                   # a key dropped
            out.append(dump(j[:k] + [(j[k][0] + "_x", j[k][1])] + j[k + 1:]))     # a key renamed
            if isinstance(j[k][1], str):
                out.append(dump(j[:k] + [(j[k][0], j[k][1] + "zz")] + j[k + 1:]))  # a string (a tag) changed
        out.append(dump(j + [("extra_key", None)]))                               # an unknown key added
    elif isinstance(j, list):
        out.append(dump(j[:-1]) if j else "[null]")
        out.append(dump(j + [None]))
    elif isinstance(j, str):
        out.append(J.dumps(j + "zz", ensure_ascii=False))
    out.append("null")
    return [m for m in dict.fromkeys(out) if m != text]


def de_correspondence(ctx, res, by, qs, items, dd, st):
    okb, outb = vlib.coq_make(["theories/Proofs/Sem_derive_proofs.vo", "theories/Spec/SerdeDe.vo"])
    if not okb:
        raise vlib.HarnessError("Sem_derive_proofs / SerdeDe do not build: " + outb[-2000:])
    if "plain_idents" not in res:
        S.theorem_scope(res)
    plain = res.get("plain_idents", set())

    def no_flatten(d):
        # flattened fields: only structs with named fields and no flatten of their own (what the Deserialize model reads)
        for f in (d["fields"] if d["kind"] == "struct" else [f for v in d["variants"] for f in v["fields"]]):
            if f["flatten"]:
                t = f["ty"]
                tgt = by.get(t[1]) if t[0] == "named" else None
                if tgt is None or tgt["kind"] != "struct" or tgt["shape"] != "named" or not tgt["fields"] or tgt.get("tag") \
                        or any(g["flatten"] for g in tgt["fields"]) or d["params"] or d["kind"] != "struct":
                    return False
        return True

    def in_scope(t):
        # C01's plain fragment minus flatten (the Deserialize model has no flatten: serde reads flattened fields through its buffer)
        named = CR.referenced(t, set())
        return all(i in plain for i in named) and all(d["ident"] in plain and no_flatten(d) for d in reach(by, t))
    scope = [(qi, k, text) for qi, k, text in items if in_scope(qs[qi]) and not CR.big_array(qs[qi])]
    probes, seen = [], set()
    for qi, k, text in scope:
        for m in mutants(text)[:4]:
            if (qi, m) not in seen and not dup_keys(S.parse_json(m)):
                seen.add((qi, m))
                probes.append((qi, 100000 + len(probes), m))
    probes = probes[:600 if ctx.quick else 6000]
    dp = S.deserialize(res, probes) if probes else {}
    allc = [(qi, text, dd.get((qi, k))) for qi, k, text in scope] + [(qi, text, dp.get((qi, k))) for qi, k, text in probes]
    allc = [c for c in allc if c[2] is not None]
    model = S.de_model(res, [(qi, text) for qi, text, _ in allc])
    # the acceptance theorem on these very cases: inside its hypotheses every member is read (never a contradiction), and
    # the real serde_json::from_str must agree
    # (the theorem's fragment is wider than C01's `plain` scope: optional fields; the witnesses of every other type are offered
    # too, Coq decides which lie inside the hypotheses)
    in_sc = {(qi, text) for qi, text, _ in allc}
    extra = [(qi, text, dd.get((qi, k))) for qi, k, text in items
             if (qi, text) not in in_sc and dd.get((qi, k)) is not None and not CR.big_array(qs[qi]) and not dup_keys(S.parse_json(text))]
    nq = 200 if ctx.quick else 2000
    inst = allc[:nq] + extra[:nq]
    hyp, nr2, codes = S.de_theorem_instances(res, [(qi, text) for qi, text, _ in inst])
    st["thm_env_hypotheses_hold"] = st.get("thm_env_hypotheses_hold", 0) + hyp
    st["thm_env_definitions"] = st.get("thm_env_definitions", 0) + nr2
    if not hyp:
        raise vlib.HarnessError("C02_members_are_accepted: the shrunk corpus environment does not satisfy de_envb")
    for (qi, text, real), c in zip(inst, codes):
        key = {0: "thm_outside_hypotheses", 1: "thm_member_accepted", 2: "thm_member_rejected", 3: "thm_not_a_member", 4: "thm_member_leaf_misfit"}[c]
        st[key] = st.get(key, 0) + 1
        if c == 2:
            raise vlib.HarnessError("C02_members_are_accepted contradicted by evaluation: %s <- %s" % (C.rust_ty(qs[qi]), text))
        if c == 1 and real.startswith("\x00") and classify(by, qs[qi]) is None:
            ctx.fail("a member of the TypeScript type inside the theorem's fragment is rejected by serde_json::from_str", dict(
                kind="property-violated", type=C.rust_ty(qs[qi]), json=text, real=real.replace("\x00", "rejected: "),
                theorem="C02_members_are_accepted (the model accepts: the model of serde or the binding is wrong)"))
    breaks = []
    st["de_model_cases"] = st.get("de_model_cases", 0) + len(allc)
    for (qi, text, real), m in zip(allc, model):
        acc_real = not real.startswith("\x00")
        acc_model = m.startswith("A")
        st["de_" + ("accepted" if acc_real else "rejected")] = st.get("de_" + ("accepted" if acc_real else "rejected"), 0) + 1
        cls = classify(by, qs[qi]) if (acc_model and not acc_real) else None
        if cls in ("serde_buffered_128bit", "serde_buffered_integer_map_key"):
            # the model reads the text directly; the real Deserialize goes through serde's buffer (known classes)
            st["de_known_buffered"] = st.get("de_known_buffered", 0) + 1
            ctx.known_class(cls, "%s <- %s" % (C.rust_ty(qs[qi]), text[:100]),
                            dict(kind="property-violated", what="a member of the TypeScript type is rejected by serde's Deserialize", type=C.rust_ty(qs[qi]), json=text, real=real.replace("\x00", "rejected: ")))
        elif acc_real != acc_model:
            breaks.append(dict(type=C.rust_ty(qs[qi]), json=text, real=real.replace("\x00", "rejected: "), model=m[:200]))
        elif acc_real and m[1:] != real and "." not in real and "e" not in real.lower().replace("true", "").replace("false", "").replace("null", ""):
            st["de_reserialised_text_differs"] = st.get("de_reserialised_text_differs", 0) + 1
            if len(breaks) < 50:
                breaks.append(dict(type=C.rust_ty(qs[qi]), json=text, real=real, model=m[:300], what="re-serialised text differs"))
    return breaks


def has_leaf(t, names):
    if t[0] == "leaf":
        return t[1] in names
    for x in t[1:]:
        if isinstance(x, tuple) and has_leaf(x, names):
            return True
        if isinstance(x, list) and any(isinstance(y, tuple) and has_leaf(y, names) for y in x):
            return True
    return False


def classify(by, t):
    ds = reach(by, t)
    for d in ds:
        if d["kind"] == "struct" and d["shape"] == "tuple" and len(d["fields"]) == 1 and d["fields"][0]["skip"]:
            return "newtype_struct_skipped_field"
    # serde buffers the input of untagged / internally tagged enums and of flattened fields in `Content`, which cannot hold 128-bit integers
    buffered = any((d["kind"] == "enum" and (d["tagging"][0] in ("untagged", "internal", "adjacent") or any(v["untagged"] for v in d["variants"])))
                   or any(f["flatten"] for f in (d["fields"] if d["kind"] == "struct" else [f for v in d["variants"] for f in v["fields"]]))
                   for d in ds)
    big = has_leaf(t, ("i128", "u128")) or any(has_leaf(f["ty"], ("i128", "u128")) for d in ds
                                               for f in (d["fields"] if d["kind"] == "struct" else [f for v in d["variants"] for f in v["fields"]]))
    if buffered and big:
        return "serde_buffered_128bit"

    def int_key(t):
        if t[0] == "map" and t[1][0] == "leaf" and t[1][1] in C.INT_RANGE:
            return True
        for x in t[1:]:
            if isinstance(x, tuple) and int_key(x):
                return True
            if isinstance(x, list) and any(isinstance(y, tuple) and int_key(y) for y in x):
                return True
        return False
    if buffered and (int_key(t) or any(int_key(f["ty"]) for d in ds
                                       for f in (d["fields"] if d["kind"] == "struct" else [f for v in d["variants"] for f in v["fields"]]))):
        return "serde_buffered_integer_map_key"
    return None
