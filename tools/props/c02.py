"""C02 — every inhabitant of the generated TypeScript type deserializes."""
import corpus as C
import corpus_run as CR
import sem_run as S
import vlib

from props.c01 import dup_keys, reach


def run(ctx):
    ctx.prove()
    ndefs = 160 if ctx.quick else 500
    seeds = [ctx.seed] if ctx.quick else [ctx.seed, ctx.seed + 1, ctx.seed + 2]
    st = dict(types=0, witnesses=0, not_member=0, accepted=0, rejected=0, reserialized_member=0, reserialized_not_member=0, known=0, skipped_types=0)
    samples, distinct = [], set()
    for seed in seeds:
        res = CR.corpus(seed, ndefs, nvalues=3 if ctx.quick else 5, log=vlib.log)
        try:
            check_one(ctx, res, seed, st, samples, distinct)
        finally:
            CR.corpus_done(res)
    ctx.finish_proof()
    ctx.coverage.update({
        "evaluations": st["witnesses"] * 2,
        "distinct_nontrivial": len(distinct),
        "rule": "generated corpus compiled against /repo with derive(TS, Serialize, Deserialize); for every query type Coq enumerates inhabitants of the REAL declared type (Spec/TsSem.v `witnesses` on the parsed real name() text, unfolding the parsed real declarations: every union arm, optional properties present/absent, arrays of length 0..2, one index-signature key, leaf values representable in every Rust numeric/char/string leaf) and re-checks each with memberb; the real serde_json::from_str::<T> must accept every witness, and the re-serialised value must again be a member (decided by Coq); non-trivial = distinct (type, witness) pairs",
        "samples": samples[:6],
        "distribution": st,
    })
    ctx.assumptions += [
        "number witnesses are 0 and 1, string witnesses \"a\": the property restricts numbers and char strings to what the Rust leaf can represent, and TypeScript cannot express the restriction",
        "types whose binding is user-asserted (`as`, `type`) have no witnesses",
    ]


def check_one(ctx, res, seed, st, samples, distinct):
    qs = res["queries"]
    by = {d["ident"]: d for d in res["defs"]}
    ok, out = vlib.coq_make(["theories/Spec/TsSem.vo", "theories/Spec/Serde.vo"])
    if not ok:
        raise vlib.HarnessError("Spec does not build: " + out[-2000:])
    mism = [m for m in res["mismatches"] if m["field"] in ("name", "inline", "decl")]
    S.real_env(res)
    unparsable = set(res["real_errors"])
    ov = S.overrides(res)
    qidx = []
    for i, t in enumerate(qs):
        if CR.big_array(t):
            st["skipped_types"] += 1     # serde has no Deserialize for arrays of more than 32 elements
            continue
        if CR.referenced(t, set()) & ov or {d["ident"] for d in reach(by, t)} & unparsable:
            st["skipped_types"] += 1
            continue
        if t[0] == "named" and res["q"][i]["decl"].startswith("\x00"):
            st["skipped_types"] += 1
            continue
        qidx.append(i)
    wit = S.witnesses(res, qidx)
    items = []
    for qi, ws in wit.items():
        st["types"] += 1
        for k, (text, member) in enumerate(ws):
            st["witnesses"] += 1
            if dup_keys(S.parse_json(text)):
                st["dup_key_witnesses"] = st.get("dup_key_witnesses", 0) + 1
                continue      # the declared object type has two properties with one name (a flattened type colliding with its host)
            if not member:
                st["not_member"] += 1
                raise vlib.HarnessError("Spec/TsSem.v produced a witness that is not a member: %s for %s" % (text, res["q"][qi]["name"]))
            items.append((qi, k, text))
    dd = S.deserialize(res, items)
    viol = []
    again = []
    for qi, k, text in items:
        r = dd.get((qi, k))
        distinct.add((C.rust_ty(qs[qi]), text))
        if r is None:
            raise vlib.HarnessError("the corpus binary did not answer witness %d of %s" % (k, C.rust_ty(qs[qi])))
        if r.startswith("\x00"):
            st["rejected"] += 1
            t = qs[qi]
            data = dict(kind="property-violated", what="an inhabitant of the declared type is rejected by serde's Deserialize", type=C.rust_ty(t),
                        witness=text, declared=res["q"][qi]["name"], decl=res["q"][qi]["decl"][:1500], result=r.replace("\x00", ""),
                        definition=C.to_rust(by[t[1]]) if t[0] == "named" else None, seed=seed)
            cls = classify(by, t)
            if cls:
                st["known"] += 1
                ctx.known_class(cls, "%s <- %s" % (C.rust_ty(t), text[:100]), data)
            else:
                viol.append(data)
        else:
            st["accepted"] += 1
            if not dup_keys(S.parse_json(r)):
                again.append((qi, r, text))
            if len(samples) < 6 and len(text) > 25:
                samples.append(dict(type=C.rust_ty(qs[qi]), witness=text[:160], reserialized=r[:160]))
    rr = S.membership(res, [(qi, r) for qi, r, _ in again], "c02")
    for (qi, r, text), m in zip(again, rr):
        if m is None:
            continue
        if m[0]:
            st["reserialized_member"] += 1
        else:
            st["reserialized_not_member"] += 1
            t = qs[qi]
            data = dict(kind="property-violated", what="the re-serialised witness is not a member of the declared type", type=C.rust_ty(t),
                        witness=text, reserialized=r, declared=res["q"][qi]["name"], decl=res["q"][qi]["decl"][:1500],
                        definition=C.to_rust(by[t[1]]) if t[0] == "named" else None, seed=seed)
            cls = "optional_without_skip_serializing_if" if m[2] else classify(by, t)
            if cls:
                st["known"] += 1
                ctx.known_class(cls, "%s <- %s" % (C.rust_ty(t), text[:100]), data)
            else:
                viol.append(data)
    viol.sort(key=lambda d: len(d["witness"]))
    for v in viol[:3]:
        ctx.fail(v["what"], v)
    if mism and not viol:
        ctx.fail("model and implementation disagree on generated text (correspondence)", dict(
            kind="correspondence-broken", broken="Corr/corpus_env: Model/Gen.v vs the derive's real output", first=mism[0], count=len(mism), seed=seed),
            no_input=True)


def has_leaf(t, names):
    if t[0] == "leaf":
        return t[1] in names
    for x in t[1:]:
        if isinstance(x, tuple) and has_leaf(x, names):
            return True
        if isinstance(x, list) and any(isinstance(y, tuple) and has_leaf(y, names) for y in x):
            return True
    return False


def classify(by, t):
    ds = reach(by, t)
    for d in ds:
        if d["kind"] == "struct" and d["shape"] == "tuple" and len(d["fields"]) == 1 and d["fields"][0]["skip"]:
            return "newtype_struct_skipped_field"
    # serde buffers the input of untagged / internally tagged enums and of flattened fields in `Content`, which cannot hold 128-bit integers
    buffered = any((d["kind"] == "enum" and (d["tagging"][0] in ("untagged", "internal", "adjacent") or any(v["untagged"] for v in d["variants"])))
                   or any(f["flatten"] for f in (d["fields"] if d["kind"] == "struct" else [f for v in d["variants"] for f in v["fields"]]))
                   for d in ds)
    big = has_leaf(t, ("i128", "u128")) or any(has_leaf(f["ty"], ("i128", "u128")) for d in ds
                                               for f in (d["fields"] if d["kind"] == "struct" else [f for v in d["variants"] for f in v["fields"]]))
    if buffered and big:
        return "serde_buffered_128bit"

    def int_key(t):
        if t[0] == "map" and t[1][0] == "leaf" and t[1][1] in C.INT_RANGE:
            return True
        for x in t[1:]:
            if isinstance(x, tuple) and int_key(x):
                return True
            if isinstance(x, list) and any(isinstance(y, tuple) and int_key(y) for y in x):
                return True
        return False
    if buffered and (int_key(t) or any(int_key(f["ty"]) for d in ds
                                       for f in (d["fields"] if d["kind"] == "struct" else [f for v in d["variants"] for f in v["fields"]]))):
        return "serde_buffered_integer_map_key"
    return None
