"""C04 — exported files are well-formed modules holding exactly the requested types."""
import os
import shutil

import corpus as C
import corpus_run as CR
import tsmini
import tsparse
import vlib

EXPORT_DIR = os.path.join(vlib.CACHE, "export_c04")


def ts_name(d):
    return d["rename"] if d["rename"] is not None else d["ident"].replace("r#", "")


def run(ctx):
    ctx.prove()
    ndefs = 160 if ctx.quick else 500
    seeds = [ctx.seed] if ctx.quick else [ctx.seed, ctx.seed + 1, ctx.seed + 2]
    st = dict(texts=0, files=0, declarations=0, imports=0, quoted_properties=0, known=0, text_cases=0, shared_files=0)
    samples, distinct = [], set()
    for seed in seeds:
        res = CR.corpus(seed, ndefs, log=vlib.log)
        try:
            check_one(ctx, res, seed, st, samples, distinct)
        finally:
            CR.corpus_done(res)
            shutil.rmtree(EXPORT_DIR, ignore_errors=True)
    ctx.finish_proof()
    ctx.coverage.update({
        "evaluations": st["texts"] + st["files"] + st["text_cases"],
        "distinct_nontrivial": len(distinct),
        "rule": "generated corpus (identifiers incl. raw identifiers/keywords/non-ASCII, rename/tag/content strings incl. spaces, hyphens, leading digits, `$`, `.`, the empty string, quotes and backslashes, adversarial doc text, every rename_all rule on plain and type-overridden fields), compiled against /repo; the clean sub-environment (def_cleanb, hypothesis of C04_generated_declaration_is_checked) of every corpus is computed in Coq and every declaration it covers is evaluated against decl_ok and against the corpus declaration; for every export Coq evaluates export_okb (the hypothesis of C04_export_parses: the text is then derivable in the grammar of Spec/TsGrammar.v; the independent reader must accept the same real text); every real export_to_string() and every file written by export_all_to of every exportable corpus type (incl. files shared by several types) is parsed by the independent lexer + recursive-descent parser (tools/tsparse.py, written from the TypeScript grammar): begins with the notice, only `import type` statements followed by `export type` declarations, every requested type declared exactly once under its TypeScript name, no reserved word as a type name, final newline; model text vs real text byte for byte; non-trivial = distinct files/texts parsed",
        "samples": samples[:5],
        "distribution": st,
    })
    ctx.assumptions += ["the `format` feature (dprint) is not exercised", "`type = \"..\"` overrides are opaque text supplied by the user"]


def check_text(path, text, expect_names, probs):
    try:
        m = tsparse.parse_module(text, tsmini.NOTE)
    except tsparse.ParseError as e:
        probs.append("does not parse as a module of `import type` + `export type`: %s" % e)
        return None
    names = [d[0] for d in m["decls"]]
    for n in names:
        if n in tsparse.RESERVED:
            probs.append("declares a type under the reserved word `%s`" % n)
    if len(names) != len(set(names)):
        probs.append("a type is declared more than once: %s" % names)
    if expect_names is not None:
        for n in expect_names:
            if names.count(n) != 1:
                probs.append("the requested type %s is declared %d times" % (n, names.count(n)))
        extra = [n for n in names if n not in expect_names]
        if extra:
            probs.append("declares types that were not exported to it: %s" % extra)
    return m


def check_one(ctx, res, seed, st, samples, distinct):
    qs = res["queries"]
    by = {d["ident"]: d for d in res["defs"]}
    mism = [m for m in res["mismatches"] if m["field"] in ("export", "decl")]
    st["text_cases"] += 2 * len(qs)
    viol = []
    seen = set()
    # (1) export_to_string of every derived query type
    for i, t in enumerate(qs):
        if t[0] != "named" or t[1] in seen:
            continue
        seen.add(t[1])
        text = res["q"][i]["export"]
        if text.startswith("\x00"):
            continue
        st["texts"] += 1
        distinct.add(("text", t[1]))
        probs = []
        m = check_text(None, text, [res["q"][i]["ident"]], probs)
        if m:
            st["declarations"] += len(m["decls"])
            st["imports"] += len(m["imports"])
        report(ctx, viol, st, probs, by[t[1]], text, "export_to_string() of %s" % C.rust_ty(t), seed)
    # (1b) the grammar theorem's hypothesis, evaluated by Coq on the model's pieces of every export (C04_export_parses):
    # where it holds the text is derivable in Spec/TsGrammar.v, and the independent reader must agree on the REAL text
    okb = syntax_checks(res)
    parse_ok = {}
    for i, t in enumerate(qs):
        text = res["q"][i]["export"]
        if t[0] != "named" or text.startswith("\x00") or i not in okb:
            continue
        st["grammar_hypothesis_evaluated"] = st.get("grammar_hypothesis_evaluated", 0) + 1
        pr = []
        check_text(None, text, None, pr)
        if okb[i]:
            st["inside_grammar_theorem"] = st.get("inside_grammar_theorem", 0) + 1
            if any(x.startswith("does not parse") for x in pr) and not mism:
                ctx.fail("Coq proves the export text is in the grammar, the independent reader rejects the same text", dict(
                    kind="correspondence-broken", broken="tools/tsparse.py vs Spec/TsGrammar.v (C04_export_parses applies: export_okb = true)",
                    type=C.rust_ty(t), text=text, reader=pr, seed=seed), no_input=True)
        else:
            st["outside_grammar_theorem"] = st.get("outside_grammar_theorem", 0) + 1
    # (1c) C04_generated_declaration_is_checked: the clean sub-environment of this corpus and the declarations it covers
    bits = gen_theorem_instances(res)
    st["clean_env_definitions"] = st.get("clean_env_definitions", 0) + len(bits)
    st["clean_env_declarations_checked"] = st.get("clean_env_declarations_checked", 0) + bits.count("1") + bits.count("4")
    st["clean_env_exports_checked"] = st.get("clean_env_exports_checked", 0) + bits.count("4")
    st["clean_env_refers_outside"] = st.get("clean_env_refers_outside", 0) + bits.count("0")
    if "3" in bits and not mism:
        ctx.fail("the declaration of a definition inside the clean sub-environment differs from its declaration in the corpus environment", dict(
            kind="correspondence-broken", broken="Spec/GenClean.v: clean sub-environment vs corpus environment (duplicate identifiers?)",
            index=bits.index("3"), seed=seed), no_input=True)
    status = CR.run_export(res["exe"], EXPORT_DIR)
    path_types = {}
    for d in res["defs"]:
        out = d["export_to"]
        rel = (ts_name(d) + ".ts") if out is None else (out + ts_name(d) + ".ts" if out.endswith("/") else out)
        path_types.setdefault(os.path.normpath(rel), []).append(d)
    for i, t in enumerate(qs):
        if t[0] != "named" or status.get(i) != "OK":
            continue
        root = os.path.join(EXPORT_DIR, str(i))
        for dp, _, fns in os.walk(root):
            for fn in fns:
                p = os.path.join(dp, fn)
                rel = os.path.normpath(os.path.relpath(p, root))
                text = open(p, encoding="utf-8").read()
                st["files"] += 1
                probs = []
                m = check_text(p, text, None, probs)
                owners = path_types.get(rel, [])
                if m and owners:
                    names = [x[0] for x in m["decls"]]
                    allowed = {ts_name(d) for d in owners}
                    for n in names:
                        if n not in allowed:
                            probs.append("declares %s, which is not exported to %s" % (n, rel))
                    if len(names) > 1:
                        st["shared_files"] += 1
                        if names != sorted(names, key=lambda n: n):
                            pass   # order is C05's business
                    distinct.add(("file", rel, tuple(names)))
                if probs:
                    owner = owners[0] if owners else by[t[1]]
                    report(ctx, viol, st, probs, owner, text, "file %s written by %s::export_all_to" % (rel, C.rust_ty(t)), seed)
                elif len(samples) < 5 and m and len(m["imports"]) >= 1:
                    samples.append(dict(file=rel, declares=[x[0] for x in m["decls"]], imports=m["imports"][:3]))
    for v in viol[:3]:
        ctx.fail(v["what"], v)
    if mism and not viol:
        ctx.fail("model and implementation disagree on generated text (correspondence)", dict(
            kind="correspondence-broken", broken="Corr/corpus_env: Model/Gen.v + GenExport.v vs real export_to_string()/decl()", first=mism[0], count=len(mism), seed=seed),
            no_input=True)


def gen_theorem_instances(res):
    """C04_generated_declaration_is_checked on the corpus: R2 = the definitions passing def_cleanb, iterated (a flattened struct must be inside too); the
    theorem's hypothesis clean_envb is evaluated on R2; per definition of R2: '0' decl() does not answer inside
    R2 (it refers to a definition outside), '1' answers, passes decl_ok and is the declaration of the full environment,
    '2' answers and FAILS decl_ok / export_okb (would contradict the theorems), '3' differs from the full environment's text,
    '4' as '1' and export_to_string() answers inside R2, passes export_okb (C04_generated_export_parses) and is the export text of
    the full environment."""
    body = ("From TsRs Require Import Corr.%s Spec.TsSyn Spec.GenClean Proofs.Grammar_export_proofs.\n" % res["envname"] + CR.HEADER +
            "Definition bit (b : bool) : N := if b then 49 else 48.\n"
            "Definition shrinkc (R' : env) : env := filter (fun p => def_cleanb is_upper is_alnum is_numeric R' (snd p)) R'.\n"
            "Definition R2 := shrinkc (shrinkc (shrinkc (shrinkc R))).\n"
            "Definition inst (p : str * typedef) : N :=\n"
            "  match decl_of is_upper is_alnum is_numeric R2 fuel (snd p) with\n"
            "  | Ok dc => if decl_ok is_alnum is_numeric dc && docs_okb (d_docs dc)\n"
            "             then match decl_text is_upper is_alnum is_numeric R fuel (snd p) with\n"
            "                  | Ok s => if str_eqb s (print_decl dc) then\n"
            "                      let t := RNamed (fst p) (map (fun _ => RLeaf LBool) (c_params (attrs_of (snd p)))) in\n"
            "                      match export_string is_upper is_alnum is_numeric R2 false cwd fuel t (lit \"./bindings\") with\n"
            "                      | Ok x => if export_okb is_upper is_alnum is_numeric R2 false cwd fuel t (lit \"./bindings\")\n"
            "                                then match export_string is_upper is_alnum is_numeric R false cwd fuel t (lit \"./bindings\") with\n"
            "                                     | Ok y => if str_eqb x y then 52 else 51 | _ => 51 end\n"
            "                                else 50\n"
            "                      | _ => 49\n"
            "                      end else 51\n"
            "                  | _ => 51 end\n"
            "             else 50\n"
            "  | _ => 48\n"
            "  end.\n"
            "Eval vm_compute in (bit (clean_envb is_upper is_alnum is_numeric R2 && forallb cleanb cwd && cleanb (lit \"./bindings\")) :: map inst R2).\n")
    ok, out = vlib.coq_eval("%s_syn2" % res["envname"], body, timeout=1800)
    if not ok:
        raise vlib.HarnessError("generated-declaration theorem instance file failed: " + out[-3000:])
    vals = vlib.parse_coq_str_list("[" + out.split("=", 1)[1].rsplit(":", 1)[0] + "]")
    bits = vals[0] if vals else ""
    if not bits or bits[0] != "1":
        raise vlib.HarnessError("clean_envb is false of the filtered environment")
    if "2" in bits[1:]:
        raise vlib.HarnessError("C04_generated_declaration_is_checked contradicted by evaluation (definition #%d of the clean sub-environment)" % bits[1:].index("2"))
    return bits[1:]


def syntax_checks(res):
    """export_okb (Proofs/Grammar_export_proofs.v) of every derived query type, and classes_ok of the Unicode tables"""
    import re
    qs = res["queries"]
    named = [i for i, t in enumerate(qs) if t[0] == "named"]
    body = ("From TsRs Require Import Corr.%s Spec.TsSyn Proofs.Grammar_export_proofs.\n" % res["envname"] + CR.HEADER +
            "Definition bit (b : bool) : N := if b then 49 else 48.\n"
            "Eval vm_compute in (bit (classes_ok is_alnum is_numeric) :: map (fun t => bit (export_okb is_upper is_alnum is_numeric R false cwd fuel t (lit \"./bindings\"))) %s).\n"
            % vlib.coq_list([C.coq_ty(qs[i]) for i in named], sep=";\n "))
    ok, out = vlib.coq_eval("%s_syn" % res["envname"], body, timeout=1800)
    if not ok:
        raise vlib.HarnessError("syntax check file failed: " + out[-3000:])
    vals = vlib.parse_coq_str_list("[" + out.split("=", 1)[1].rsplit(":", 1)[0] + "]")
    bits = vals[0] if vals else ""
    if len(bits) != len(named) + 1:
        raise vlib.HarnessError("syntax check: %d answers for %d types" % (len(bits), len(named) + 1))
    if bits[0] != "1":
        raise vlib.HarnessError("classes_ok is false: ASCII letters are not alphanumeric / are numeric in the Unicode tables")
    return {i: b == "1" for i, b in zip(named, bits[1:])}


def report(ctx, viol, st, probs, d, text, where, seed):
    if not probs:
        return
    data = dict(kind="property-violated", what="%s: %s" % (where, probs[0]), problems=probs, text=text, definition=C.to_rust(d), seed=seed)
    cls = classify(d, probs)
    if cls:
        st["known"] += 1
        ctx.known_class(cls, "%s: %s" % (d["ident"], probs[0][:100]), data)
    else:
        viol.append(data)


def strings_of(d):
    out = [d.get("rename"), d.get("tag")]
    if d["kind"] == "enum":
        out += list(d["tagging"][1:])
        for v in d["variants"]:
            out.append(v.get("rename"))
            out += [f.get("rename") for f in v["fields"]]
    else:
        out += [f.get("rename") for f in d["fields"]]
    return [x for x in out if x is not None]


def classify(d, probs):
    if any("reserved word" in p for p in probs) and (d.get("rename") in tsparse.RESERVED or d["ident"] in tsparse.RESERVED):
        return "reserved_word_type_name"
    if any('"' in x or "\\" in x or "\n" in x for x in strings_of(d)):
        return "quote_in_name"
    return None
