"""C16 — the derive is total: no panics; conflicts are diagnosed; the rest compiles."""
import itertools
import random
import re

import corpus as C
import corpus_run as CR
import vlib
from vlib import coq_list

from props import c10

POSKEY = {"struct": "PStruct", "enum": "PEnum", "variant": "PVariant", "field": "PField"}


def attr_src(attrs):
    return " ".join("#[%s(%s)]" % ("ts" if ts else "serde", ", ".join(e[0] for e in es)) for ts, es in attrs if es)


def attr_coq(attrs):
    out = []
    for ts, es in attrs:
        if not es:
            continue
        toks = []
        for k, e in enumerate(es):
            if k:
                toks.append("KComma")
            toks += e[1]
        out.append("(%s, %s)" % ("true" if ts else "false", coq_list(toks)))
    return coq_list(out)


FIELD_TYPES = ["i32", "Option<String>", "Vec<u8>"]


def struct_item(attrs, shape, field_attrs):
    """shape: named2 | named0 | tuple2 | newtype | tuple0 | unit; field_attrs: attributes of the first field"""
    fa = attr_src(field_attrs)
    fcoq = lambda named, a: "{| if_named := %s; if_attrs := %s |}" % ("true" if named else "false", a)
    if shape == "named2":
        src = "%s struct S { %s a: i32, b: Option<String> }" % (attr_src(attrs), fa)
        return src, "IStruct %s FNamed [%s; %s]" % (attr_coq(attrs), fcoq(True, attr_coq(field_attrs)), fcoq(True, "[]"))
    if shape == "named0":
        return "%s struct S { }" % attr_src(attrs), "IStruct %s FNamed []" % attr_coq(attrs)
    if shape == "tuple2":
        src = "%s struct S(%s i32, Option<String>);" % (attr_src(attrs), fa)
        return src, "IStruct %s FUnnamed [%s; %s]" % (attr_coq(attrs), fcoq(False, attr_coq(field_attrs)), fcoq(False, "[]"))
    if shape == "newtype":
        src = "%s struct S(%s Option<String>);" % (attr_src(attrs), fa)
        return src, "IStruct %s FUnnamed [%s]" % (attr_coq(attrs), fcoq(False, attr_coq(field_attrs)))
    if shape == "tuple0":
        return "%s struct S();" % attr_src(attrs), "IStruct %s FUnnamed []" % attr_coq(attrs)
    return "%s struct S;" % attr_src(attrs), "IStruct %s FUnit []" % attr_coq(attrs)


def enum_item(attrs, first_shape, variant_attrs, field_attrs):
    """first variant: named | newtype | unit (with attributes), followed by a plain named, tuple and unit variant"""
    fa, va = attr_src(field_attrs), attr_src(variant_attrs)
    fcoq = lambda named, a: "{| if_named := %s; if_attrs := %s |}" % ("true" if named else "false", a)
    vcoq = lambda sh, a, fs: "{| iv_shape := %s; iv_attrs := %s; iv_fields := %s |}" % (sh, a, coq_list(fs))
    if first_shape == "named":
        v_src = "%s A { %s x: i32, y: Option<String> }" % (va, fa)
        v_coq = vcoq("FNamed", attr_coq(variant_attrs), [fcoq(True, attr_coq(field_attrs)), fcoq(True, "[]")])
    elif first_shape == "newtype":
        v_src = "%s A(%s Option<String>)" % (va, fa)
        v_coq = vcoq("FUnnamed", attr_coq(variant_attrs), [fcoq(False, attr_coq(field_attrs))])
    else:
        v_src = "%s A" % va
        v_coq = vcoq("FUnit", attr_coq(variant_attrs), [])
    rest_src = "B { z: bool }, C(i32, u8), D"
    rest_coq = [vcoq("FNamed", "[]", [fcoq(True, "[]")]), vcoq("FUnnamed", "[]", [fcoq(False, "[]"), fcoq(False, "[]")]), vcoq("FUnit", "[]", [])]
    src = "%s enum E { %s, %s }" % (attr_src(attrs), v_src, rest_src)
    return src, "IEnum %s %s" % (attr_coq(attrs), coq_list([v_coq] + rest_coq))


HEADER = """From TsRs Require Import Base.Str Base.Outcome Gen.Tables Model.Attr Model.Validity Tools.Digest.
Definition show (o : outcome unit) : str := match o with Ok _ => lit "OK" | Err m => lit "ERR " ++ m | Panic m => lit "PANIC" end.
"""


def model_outcomes(items, tag="c16"):
    idx = list(range(len(items)))
    nsh = 12
    shards = [idx[k::nsh] for k in range(nsh)]
    files = []
    for k, sh in enumerate(shards):
        if sh:
            files.append(("cases_%s_%d" % (tag, k), HEADER + "Eval vm_compute in %s.\n" % coq_list(
                ["show (expand true (%s))" % items[c][1] for c in sh], sep=";\n ")))
    outs = vlib.coq_eval_many(files, timeout=2400)
    res = {}
    for (nm, _), (ok, out), sh in zip(files, outs, [s for s in shards if s]):
        if not ok:
            raise vlib.HarnessError("%s.v failed: %s" % (nm, out[-3000:]))
        vals = vlib.parse_coq_str_list(out.split("=", 1)[1].rsplit(":", 1)[0])
        if len(vals) != len(sh):
            raise vlib.HarnessError("%s.v: %d answers for %d items" % (nm, len(vals), len(sh)))
        for c, v in zip(sh, vals):
            res[c] = v
    return [res[c] for c in idx]


def canon_real(ans):
    if ans[0] == "OK":
        return "OK"
    if ans[0] == "PANIC":
        return "PANIC"
    msg = ans[1] if len(ans) > 1 else ""
    m = re.match(r'(Unknown attribute "[^"]*")', msg)
    if m:
        msg = m.group(1)
    return "ERR " + msg


def canon_model(s):
    # messages the model abbreviates
    if s.startswith("ERR expected") or s.startswith("ERR not a valid") or s.startswith("ERR unclassified") or s.startswith("ERR out of fuel"):
        return "ERR-syntax"
    return s


SYNTAX_ERR = re.compile(r"^ERR (expected|unexpected|Value \"|cannot parse|expected string)")


EXTRA_ITEMS = [
    "#[derive(TS)] pub struct ConstN<const N: usize> { data: [u8; N] }",
    "#[derive(TS)] pub struct ConstDefault<const N: usize = 2> { data: [u8; N], more: Vec<[bool; N]> }",
    "#[derive(TS)] pub enum ConstEnum<const N: usize = 3, T = u8> { A([T; N]), B }",
    "#[derive(TS)] pub struct Life<'a, T: 'a + Clone = String> { r: &'a str, t: Vec<T> }",
    "#[derive(TS)] pub struct Wh<T, U = Vec<T>> where T: Clone, U: std::fmt::Debug { t: T, u: U }",
    "#[derive(TS)] pub struct Mixed<'a, const K: usize, T> { a: [&'a str; K], t: Option<T> }",
    "#[derive(TS)] #[ts(concrete(T = i32))] pub struct Conc<T, const N: usize = 1> { t: [T; N] }",
    "#[derive(TS)] pub struct r#Raw<r#type> { r#fn: r#type }",
    "#[derive(TS)] pub struct TupleConst<const N: usize = 4>(pub [u8; N], #[ts(skip)] pub u8);",
    "#[derive(TS)] pub struct Unit0<const N: usize = 0>;",
]


def extra_items():
    """compile the items above against /repo; returns [(item, first rustc error attributed to it)]"""
    src = ["#![allow(dead_code, non_camel_case_types)]", "use ts_rs::TS;"]
    lines_of = {}
    for k, it in enumerate(EXTRA_ITEMS):
        src.append("mod m%d { use ts_rs::TS;" % k)
        src.append(it)
        lines_of[len(src)] = k
        src.append("}")
    src.append("fn main() {}")
    try:
        vlib.build_crate("c16_extra", vlib.harness_toml("c16_extra", deps=("ts-rs",)), {"src/main.rs": "\n".join(src) + "\n"}, hooks=False)
        return []
    except vlib.HarnessError as e:
        text = str(e)
        bad = {}
        for m in re.finditer(r"error(?:\[(E\d+)\])?: ([^\n]*)\n\s*--> src/main\.rs:(\d+)", text):
            k = lines_of.get(int(m.group(3)))
            if k is not None and k not in bad:
                bad[k] = "%s %s" % (m.group(1) or "", m.group(2))
        if not bad:
            raise
        return [(EXTRA_ITEMS[k], msg) for k, msg in sorted(bad.items())]


_OWN = None


def own_diagnostic(why):
    """is this compile error one of the messages the derive emits itself (syn_err! / syn_err_spanned! of the current source)?"""
    global _OWN
    if _OWN is None:
        import tables_from_source as T
        _OWN = [re.compile(re.sub(r"\\\{[^}]*\\\}", ".*", re.escape(msg)) + r"\s*$") for _, msg in T.syn_errs()]
    w = why.strip()
    return any(r.match(w) or r.search(w) for r in _OWN)


def run(ctx):
    ctx.prove()
    ok, out = vlib.coq_make(["theories/Model/Validity.vo", "theories/Tools/Digest.vo"])
    if not ok:
        raise vlib.HarnessError("Model/Validity.v does not build: " + out[-2000:])
    rng = random.Random(ctx.seed)
    T = c10.tables()
    ent = {}
    for pos in c10.POS:
        es = []
        for spelling in ("ts", "serde"):
            for k, kind in T[(pos, spelling)]:
                if kind in ("HConcrete", "HBound", "HIgnoreAssign", "HIgnoreAssign2"):
                    continue
                if k == "crate":
                    continue
                es.append((spelling == "ts", c10.entry_for(k, kind, 0), k))
                if kind == "HOptional":
                    es.append((spelling == "ts", c10.entry_for(k, kind, 1), k))
        ent[pos] = es

    def subsets(pos, maxn, frac):
        out = [[]]
        for e in ent[pos]:
            out.append([e])
        for a, b in itertools.combinations(ent[pos], 2):
            if a[2] == b[2] and a[0] == b[0]:
                continue
            if rng.random() < frac:
                out.append([a, b])
        return out

    def as_attrs(sub):
        ts_es = [e for is_ts, e, _ in sub if is_ts]
        sd_es = [e for is_ts, e, _ in sub if not is_ts]
        return [(True, ts_es), (False, sd_es)]

    items = []     # (source, coq, meta)
    frac = 0.5 if ctx.quick else 1.0
    for shape in ("named2", "named0", "tuple2", "newtype", "tuple0", "unit"):
        for sub in subsets("struct", 2, frac):
            items.append(struct_item(as_attrs(sub), shape, []) + (dict(kind="struct", shape=shape, container=[e[2] for e in sub]),))
    for shape in ("named2", "tuple2", "newtype"):
        for sub in subsets("field", 2, frac):
            items.append(struct_item([], shape, as_attrs(sub)) + (dict(kind="struct-field", shape=shape, field=[e[2] for e in sub]),))
            if rng.random() < 0.15:
                cont = rng.choice(subsets("struct", 1, 0))
                items.append(struct_item(as_attrs(cont), shape, as_attrs(sub)) + (dict(kind="struct+field", shape=shape),))
    for sub in subsets("enum", 2, frac):
        for fs in ("named", "newtype", "unit"):
            items.append(enum_item(as_attrs(sub), fs, [], []) + (dict(kind="enum", first=fs, container=[e[2] for e in sub]),))
    for fs in ("named", "newtype", "unit"):
        for sub in subsets("variant", 2, frac):
            items.append(enum_item([], fs, as_attrs(sub), []) + (dict(kind="variant", first=fs, variant=[e[2] for e in sub]),))
            if rng.random() < 0.2:
                cont = rng.choice(subsets("enum", 1, 0))
                items.append(enum_item(as_attrs(cont), fs, as_attrs(sub), []) + (dict(kind="enum+variant", first=fs),))
    for fs in ("named", "newtype"):
        for sub in subsets("field", 2, 0.3 * frac):
            items.append(enum_item([], fs, [], as_attrs(sub)) + (dict(kind="variant-field", first=fs),))
    # tag and content with the same text; untagged + tag/content; content alone — with each first-variant shape
    same = [(True, c10.ent('tag = "kind"', ["KId %s" % vlib.coq_str("tag"), "KEq", "KStr %s" % vlib.coq_str("kind")]), "tag"),
            (True, c10.ent('content = "kind"', ["KId %s" % vlib.coq_str("content"), "KEq", "KStr %s" % vlib.coq_str("kind")]), "content")]
    for fs in ("named", "newtype", "unit"):
        items.append(enum_item(as_attrs(same), fs, [], []) + (dict(kind="enum", first=fs, container=["tag", "content"], note="tag = content"),))
    # unknown ts keys at every position
    bad = (True, c10.ent("no_such_key", ["KId %s" % vlib.coq_str("no_such_key")]), "no_such_key")
    items.append(struct_item(as_attrs([bad]), "named2", []) + (dict(kind="unknown"),))
    items.append(struct_item([], "named2", as_attrs([bad])) + (dict(kind="unknown"),))
    items.append(enum_item(as_attrs([bad]), "named", [], []) + (dict(kind="unknown"),))
    items.append(enum_item([], "named", as_attrs([bad]), []) + (dict(kind="unknown"),))

    real = [canon_real(a) for a in vlib.macro_hook([["expand", it[0]] for it in items])]
    model = model_outcomes(items)
    viol, corr = [], []
    classes = {"OK": 0, "ERR": 0, "PANIC": 0}
    nontrivial = set()
    for it, r, m in zip(items, real, model):
        classes[r.split(" ")[0]] += 1
        if r.startswith("ERR"):
            nontrivial.add(r)
        if r == "PANIC":
            viol.append(dict(kind="property-violated", what="the derive panics instead of reporting a compile error", source=it[0], model=m))
            continue
        rm = "ERR-syntax" if SYNTAX_ERR.match(r) else r
        if rm != canon_model(m):
            corr.append(dict(source=it[0], implementation=r, model=m))
    # documented incompatible pairs at the container level must be rejected (evaluated on the REAL outcome)
    PAIRS = {"struct": [("type", "as"), ("type", "rename_all"), ("type", "tag"), ("type", "optional_fields"), ("as", "tag"), ("as", "rename_all"), ("as", "optional_fields")],
             "enum": [("type", "as"), ("type", "rename_all"), ("type", "rename_all_fields"), ("type", "tag"), ("type", "content"), ("type", "untagged"),
                      ("as", "rename_all"), ("as", "rename_all_fields"), ("as", "tag"), ("as", "content"), ("as", "untagged"), ("untagged", "tag"), ("untagged", "content")],
             "variant": [("as", "type"), ("as", "rename_all"), ("type", "rename_all"), ("type", "inline")],
             "struct-field": [("type", "as"), ("type", "inline"), ("type", "flatten"), ("type", "optional"), ("flatten", "as"), ("flatten", "rename"), ("flatten", "inline"), ("flatten", "optional")]}
    rejected_pairs = 0
    for it, r in zip(items, real):
        meta = it[2]
        keys = meta.get("container") or meta.get("variant") or meta.get("field") or []
        for a, b in PAIRS.get(meta["kind"], []):
            if a in keys and b in keys:
                if meta["kind"] == "struct-field" and meta["shape"] != "named2" and ("flatten" in keys or "rename" in keys or "optional" in keys):
                    pass
                if not r.startswith("ERR"):
                    viol.append(dict(kind="property-violated", what="a documented incompatible combination (`%s` with `%s`) is accepted" % (a, b), source=it[0], outcome=r))
                else:
                    rejected_pairs += 1
    # "the rest compiles": rustc's verdict on the generated corpus
    res = CR.corpus(ctx.seed, 160 if ctx.quick else 500, log=vlib.log)
    CR.corpus_done(res)
    compile_known = 0
    must_compile = {"DocListForm", "DocListFormE", "DocBraces", "ZeroArr", "PinnedDef", "MixedDef", "KfAsUnit", "Foo", "OptGenField"}
    for ident, why in res["rejected"].items():
        if ident.startswith("query:"):
            continue
        if re.match(r"E\d+", why):
            data = dict(kind="property-violated", what="an expansion the derive accepted does not compile", definition=ident, rustc=why, seed=ctx.seed)
            m = re.search(r"trait bound `(\w+)[^`]*: (?:ts_rs::)?TS` is not satisfied", why)
            if m and m.group(1) in res["rejected"]:
                pass     # refers to a definition the derive rejected with a diagnostic (dropped from the crate): no TS impl to find
            elif why.startswith("E0392"):
                pass     # unused type parameter: rustc rejects the item's own declaration before any derive runs
            elif "Default` is not satisfied" in why or "Default` is not implemented" in why or "Serialize` is not" in why or "Deserialize" in why:
                pass     # serde's own requirements on generated items (skip needs Default): generator artefact, not the ts-rs derive
            else:
                viol.append(data)
        elif ident in must_compile and not own_diagnostic(why):
            # a seed definition written to be valid (for serde_derive too), turned away with a diagnostic that is none of the ts-rs derive's own
            # (`syn_err!` messages of the current source); on generated definitions such a diagnostic may be serde_derive's and is tolerated
            viol.append(dict(kind="property-violated", what="the derive rejects a valid item with a diagnostic that is none of its own",
                             definition=ident, diagnostic=why, seed=ctx.seed))
    # items using Rust features the model has no notion of (const parameters with and without defaults, lifetimes, bounds,
    # where clauses, raw identifiers): the derive accepts them, so the expansion has to compile
    extra_bad = extra_items()
    for item, msg in extra_bad:
        viol.append(dict(kind="property-violated", what="an expansion the derive accepted does not compile", item=item, rustc=msg))
    for v in viol[:3]:
        ctx.fail(v["what"], v)
    if corr and not viol:
        ctx.fail("model and implementation disagree on the outcome of expanding an item (correspondence)", dict(
            kind="correspondence-broken", broken="Corr/cases_c16_*.v: Model/Validity.v vs types::struct_def / enum_def in process", first=corr[0], count=len(corr)),
            no_input=True)
    ctx.finish_proof()
    ctx.coverage.update({
        "evaluations": len(items) + len(res["defs"]) + len(res["rejected"]),
        "distinct_nontrivial": len(nontrivial),
        "rule": "items (6 struct shapes; enums whose first variant is named / newtype / unit followed by plain variants) with every subset of <= 2 attribute entries per position (container, variant, first field; both spellings; keys and argument syntax from the regenerated tables), container x member combinations, `tag` = `content`, unknown #[ts] keys; expanded in process (types::struct_def / enum_def + into_impl under catch_unwind) and by Model/Validity.v: tokens / compile error with its message / panic must agree; never PANIC; every documented incompatible pair present at a container, variant or field is rejected on the REAL outcome; `the rest compiles` = rustc's verdict on the generated corpus and on a list of items with const parameters (with defaults), lifetimes, bounds, where clauses and raw identifiers (definitions rejected with a type error are violations unless in a known class); non-trivial = distinct diagnostics",
        "samples": [dict(source=items[k][0], outcome=real[k]) for k in (1, len(items) // 3, len(items) // 2, len(items) - 2)],
        "correspondence": {"items": len(items), "confirmed_breaks": len(corr)},
        "oracle": {"outcomes": classes, "incompatible_pairs_rejected": rejected_pairs, "violations": len(viol), "corpus_definitions_compiled": len(res["defs"]),
                   "corpus_definitions_rejected": len([k for k in res["rejected"] if not k.startswith("query:")]), "compile_known": compile_known},
    })
    ctx.assumptions += ["rustc's judgement of accepted expansions is sampled by the generated corpus, not proved",
                        "stderr is writable (print_warning(..).unwrap())"]
