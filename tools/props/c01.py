"""C01 — serialized values inhabit the generated TypeScript type."""
import json

import corpus as C
import corpus_run as CR
import sem_run as S
import vlib


def dup_keys(j):
    if isinstance(j, tuple) and j[0] == "obj":
        ks = [k for k, _ in j[1]]
        return len(ks) != len(set(ks)) or any(dup_keys(v) for _, v in j[1])
    if isinstance(j, list):
        return any(dup_keys(x) for x in j)
    return False


def run(ctx):
    ctx.prove()
    ndefs = 160 if ctx.quick else 500
    seeds = [ctx.seed] if ctx.quick else [ctx.seed, ctx.seed + 1, ctx.seed + 2]
    st = dict(values=0, checked=0, skipped_override=0, skipped_dup_keys=0, serde_errors=0, failing=0, known=0, text_cases=0)
    samples, distinct = [], set()
    for seed in seeds:
        res = CR.corpus(seed, ndefs, nvalues=3 if ctx.quick else 5, log=vlib.log)
        try:
            check_one(ctx, res, seed, st, samples, distinct)
        finally:
            CR.corpus_done(res)
    ctx.finish_proof()
    ctx.coverage.update({
        "evaluations": st["checked"] + st["text_cases"],
        "distinct_nontrivial": len(distinct),
        "rule": "generated corpus compiled against /repo with derive(TS, Serialize, Deserialize); for every query type, values are built systematically (every variant, Some and None, empty and non-empty collections) plus seeded random ones and serialised by the real serde_json; the declared types are read from the REAL decl()/name()/inline() text by an independent parser (tools/tsparse.py) into the Coq AST, and the model text (Model/Gen.v) is compared with the real text byte for byte; Coq (Spec/TsSem.v memberb: exact objects, bigint = JSON integer, references unfolded with parameters substituted, intersections in disjunctive normal form) decides membership of the REAL JSON in the declared type, by name() and by inline(); also norm_ok: the textual ` } & { ` rewrite and parenthesis stripping coincide with their structural meaning on every declaration; non-trivial = distinct (type, JSON) pairs checked",
        "samples": samples[:6],
        "distribution": st,
    })
    ctx.assumptions += [
        "values whose type involves a user-asserted binding (`as`, `type`) are not checked (the user asserts the representation) unless the generator made the assertion true of the serialised form (`type = \"string\"` on a String, `as = \"Box<T>\"` on a T, ..)",
        "values whose JSON has duplicate keys (a flattened type colliding with its host: generator artefact, not valid input) are skipped",
        "floats are finite (non-finite floats are a documented known class: serde emits null)",
    ]


def check_one(ctx, res, seed, st, samples, distinct):
    qs = res["queries"]
    by = {d["ident"]: d for d in res["defs"]}
    ok, out = vlib.coq_make(["theories/Spec/TsSem.vo"])
    if not ok:
        raise vlib.HarnessError("Spec/TsSem.v does not build: " + out[-2000:])
    mism = [m for m in res["mismatches"] if m["field"] in ("name", "inline", "decl", "decl_concrete", "flat")]
    st["text_cases"] += 5 * len(qs)
    ov = S.overrides(res, sound_ok=True)
    cases = []
    for (qi, k), text in sorted(res["v"].items()):
        st["values"] += 1
        t = qs[qi]
        if text.startswith("\x00"):
            st["serde_errors"] += 1
            continue
        if CR.referenced(t, set()) & ov:
            st["skipped_override"] += 1
            continue
        if t[0] == "named" and res["q"][qi]["decl"].startswith("\x00"):
            continue   # decl() panics: C07 known class (generic parameter inlined)
        if dup_keys(S.parse_json(text)):
            st["skipped_dup_keys"] += 1
            continue
        cases.append((qi, text))
    S.real_env(res)
    unparsable = set(res["real_errors"])
    if unparsable:   # declarations whose real text does not parse (C04/C15): cases reaching them cannot be decided here
        keep = []
        for c in cases:
            ids = {d["ident"] for d in reach(by, qs[c[0]])}
            if ids & unparsable:
                st["unparsable_type_text"] = st.get("unparsable_type_text", 0) + 1
            else:
                keep.append(c)
        cases = keep
    r = S.membership(res, cases, "c01")
    total, plain, envb = S.theorem_scope(res)
    st["derive_layer_theorem_hypothesis_holds_of_subenvironment"] = bool(envb) and st.get("derive_layer_theorem_hypothesis_holds_of_subenvironment", True)
    st["corpus_definitions"] = st.get("corpus_definitions", 0) + total
    st["definitions_inside_derive_layer_theorem"] = st.get("definitions_inside_derive_layer_theorem", 0) + plain
    bodies = S.bodies_ok(res)
    viol = []
    for (qi, text), rr in zip(cases, r):
        if rr is None:
            st["unparsable_type_text"] = st.get("unparsable_type_text", 0) + 1
            continue    # the declared type text does not parse: C04 / C15 (doc comment terminator), not decided here
        bn, bi, lax = rr
        st["checked"] += 1
        distinct.add((C.rust_ty(qs[qi]), text))
        if bn and bi:
            if len(samples) < 6 and len(text) > 30:
                samples.append(dict(type=C.rust_ty(qs[qi]), json=text[:200], declared=res["q"][qi]["name"][:120]))
            continue
        st["failing"] += 1
        t = qs[qi]
        data = dict(kind="property-violated", type=C.rust_ty(t), json=text, member_by_name=bn, member_by_inline=bi,
                    name=res["q"][qi]["name"], decl=res["q"][qi]["decl"], inline=res["q"][qi]["inline"],
                    definition=C.to_rust(by[t[1]]) if t[0] == "named" else None, seed=seed)
        cls = classify(res, by, t, text, lax)
        if cls:
            st["known"] += 1
            ctx.known_class(cls, "%s <- %s" % (C.rust_ty(t), text[:120]), data)
        else:
            viol.append(data)
    for i, okb in bodies.items():
        if not okb:
            t = qs[i]
            data = dict(kind="property-violated", what="the textual ` } & { ` rewrite / parenthesis stripping changes the declaration in a way that is not the structural merge",
                        type=C.rust_ty(t), decl=res["q"][i]["decl"], definition=C.to_rust(by[t[1]]), seed=seed)
            ctx.known_class("textual_merge", C.rust_ty(t), data)
    viol.sort(key=lambda d: len(d["json"]))
    for v in viol[:3]:
        ctx.fail("serde_json output of %s is not a member of the declared type" % v["type"], v)
    if mism and not viol:
        ctx.fail("model and implementation disagree on generated text (correspondence)", dict(
            kind="correspondence-broken", broken="Corr/corpus_env: Model/Gen.v vs the derive's real output", first=mism[0], count=len(mism), seed=seed),
            no_input=True)


def reach(by, t):
    seen, todo = set(), list(CR.referenced(t, set()))
    while todo:
        i = todo.pop()
        if i in seen or i not in by:
            continue
        seen.add(i)
        todo += list(CR.def_refs(by[i]))
    return [by[i] for i in seen]


def classify(res, by, t, text, lax):
    """known classes of C01 (known_findings.json). The decision that the value is NOT a member is Coq's;
    the class is named from the definitions reachable from the type."""
    defs = reach(by, t)
    if lax:
        # becomes a member when optional properties also accept null
        return "optional_without_skip_serializing_if"
    for d in defs:
        if d["kind"] == "struct" and d["shape"] == "tuple" and len(d["fields"]) == 1 and d["fields"][0]["skip"]:
            return "newtype_struct_skipped_field"
    return None
