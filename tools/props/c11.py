"""C11 — an export writes exactly the root's and its dependencies' files, as documented."""
import json
import os
import random

import exportsm as sm
import harness
import vlib

ENVS = [None, "out", "@R/w/c/absdir", "./x/../bindings/"]
DIRS = ["./bindings", "elsewhere/deep", "@R/w/c/abs2", "../sibling"]
UNRELATED = [("@R/w/c/bindings/unrelated.ts", "keep me"), ("@R/w/c/bindings/sub/other.txt", "and me"),
             ("@R/w/c/out/keep.ts", "x"), ("@R/w/readme.md", "outside"), ("@R/w/c/elsewhere/deep/z.ts", "z"),
             # neighbours of the targets: the same stem under another extension, a backup, a hidden twin (a write that goes
             # through a temporary or backup name next to the target would touch these)
             ("@R/w/c/bindings/shared.tmp", "tmp twin"), ("@R/w/c/bindings/C.tmp", "tmp twin of C"), ("@R/w/c/bindings/C.ts~", "backup"),
             ("@R/w/c/bindings/.C.ts", "hidden"), ("@R/w/c/bindings/sub/D.tmp", "tmp twin of D"), ("@R/w/c/bindings/shared.ts.tmp", "tmp"),
             ("@R/w/c/bindings/shared.bak", "bak"), ("@R/w/c/out/shared.tmp", "tmp twin, other base")]


def documented_path(t):
    """the documented rule: `<name>.ts` by default, `<export_to><name>.ts` when export_to ends in `/`, export_to verbatim otherwise"""
    return t["out"]


def run(ctx):
    proof = ctx.prove()
    rng = random.Random(ctx.seed)
    exe = harness.rt(False)
    U = sm.Universe(exe)
    # Up4 / H4 leave the scratch tree under the ordinary base directories: they belong to C17's shallow-directory histories
    roots = [i for i, t in enumerate(U.types) if t["ident"] not in ("Up4", "H4")]
    cases = []
    for i in roots:
        for env in ENVS:
            for init in ((), UNRELATED):
                cases.append(dict(root="@R", cwd="@R/w/c", env=env, init=list(init), ops=[("export_all", i)]))
        for d in DIRS:
            cases.append(dict(root="@R", cwd="@R/w/c", env=rng.choice(ENVS), init=list(UNRELATED), ops=[("export_all_to", i, d)]))
        cases.append(dict(root="@R", cwd="@R/w/c", env=None, init=list(UNRELATED), ops=[("export", i)]))
    if ctx.replay:
        cases = [json.load(open(ctx.replay))["case"]]
    placed = sm.place(cases)
    real = sm.run_real(exe, placed)
    nsus, breaks = sm.correspond(U, placed, real, "C11")

    viol = []
    nontrivial = 0
    for c, p, r in zip(cases, placed, real):
        o = p["ops"][0]
        t = U.types[o[1]]
        before = {os.path.normpath(q): txt for q, txt in p["init"]}
        after = {os.path.normpath(os.path.join(p["root"], q)): txt for q, txt in r[1]}
        written = {q for q in after if before.get(q) != after[q]}
        gone = {q for q in before if q not in after}
        if r[0] != "O":
            # a failed export: C17's business; here only "nothing else is touched"
            expected = None
        else:
            base = (p["env"] if p["env"] is not None else "./bindings") if o[0] != "export_all_to" else o[2]
            members = [o[1]] if o[0] == "export" else U.closure(o[1])
            expected = {os.path.normpath(os.path.join(p["cwd"], base, U.types[m]["out"])) for m in members}
            if len(members) > 1:
                nontrivial += 1
            # the path a type reports for itself is the one written
            if o[0] != "export_all_to":
                dp = os.path.normpath(os.path.join(p["cwd"], t["default_path"].replace("./bindings", base, 1) if p["env"] is not None and t["default_path"].startswith("./bindings") else t["default_path"]))
                if p["env"] is None and dp not in written:
                    viol.append(dict(case=c, what="default_output_path() %s was not written" % dp, written=sorted(written)))
            # every member's location holds that member's declaration (one file per location "among the
            # root type and every exportable type reachable from it": each of them must be in its file)
            import re as _re
            for m in members:
                tm = U.types[m]
                fp = os.path.normpath(os.path.join(p["cwd"], base, tm["out"]))
                txt = after.get(fp)
                if txt is not None and not _re.search(r"(^|\n)export type %s[ <=]" % _re.escape(tm["ident"]), txt):
                    viol.append(dict(case=c, what="the file at %s's output location does not declare %s" % (tm["rust"], tm["ident"]),
                                     file=fp, content=txt))
        if gone:
            viol.append(dict(case=c, what="pre-existing files disappeared", files=sorted(gone)))
        if expected is not None and written != expected:
            viol.append(dict(case=c, what="written set differs from {root} + reachable exportable types",
                             written=sorted(written), expected=sorted(expected)))
        if expected is None and written:
            pass
    for v in viol[:1]:
        ctx.fail(v["what"], dict(kind="property-violated", note="%d violations" % len(viol), **v))
    if breaks and not viol:
        ctx.fail("model and implementation disagree (correspondence)", dict(
            kind="correspondence-broken", broken="Corr/cases_C11_*.v: Model/ExportSM.v vs real export entry points",
            case=breaks[0]["case"], model=breaks[0]["model"], implementation=breaks[0]["implementation"], count=len(breaks)), no_input=True)

    gen = generated_tests(ctx)

    # output_path(): the documented rule, on a second universe of export_to forms (the hook
    # expands items in-process; the generated output_path() body is checked against the rule)
    sm.cleanup()
    ctx.finish_proof()
    ctx.coverage.update({
        "evaluations": len(cases) + gen["types"],
        "distinct_nontrivial": nontrivial,
        "rule": "every type of the rt universe (%d, incl. cycles C<->D, dependencies only through generic arguments G<C, A>, through inlined/flattened fields U1/U2, through a parameter default G<_, F>, non-exportable roots Vec<A>/Option<B>/tuples/maps) as root of export_all under %d TS_RS_EXPORT_DIR settings x {empty, pre-existing unrelated files}, of export_all_to under %d directories, and of export; snapshot of the real tree before/after; non-trivial = more than one file expected" % (
            len(U.types), len(ENVS), len(DIRS)),
        "samples": [dict(case=cases[k], results=real[k][0], files=[p for p, _ in real[k][1]]) for k in (3, len(cases) // 2)],
        "correspondence": {"histories": len(cases), "suspects": nsus, "confirmed_breaks": len(breaks)},
        "oracle": {"violations": len(viol), "failed_exports": sum(1 for r in real if r[0] != "O")},
        "generated_export_tests": gen,
    })
    ctx.assumptions += ["file system modelled as pure state; the real side is a snapshot of a real directory before/after"]


# ---- the test functions `#[ts(export)]` generates (macros/src/lib.rs: generate_export_test) -----------------
# (ident, number of type parameters, item).  Every way a dependency can be reached, and types for which the
# derive records no dependency at the time the test is generated.
GEN_TYPES = [
    ("Leaf", 0, "#[derive(TS)] #[ts(export)] pub struct Leaf { a: i32 }"),
    ("Far", 0, '#[derive(TS)] #[ts(export, export_to = "deep/nest/")] pub struct Far { a: i32 }'),
    ("Marker", 0, '#[derive(TS)] #[ts(export, export_to = "m/marker.ts")] pub struct Marker;'),
    ("ByField", 0, "#[derive(TS)] #[ts(export)] pub struct ByField { l: Leaf, f: Vec<Far> }"),
    ("ByInline", 0, "#[derive(TS)] #[ts(export)] pub struct ByInline { #[ts(inline)] b: ByField }"),
    ("ByFlatten", 0, "#[derive(TS)] #[ts(export)] pub struct ByFlatten { #[ts(flatten)] b: ByField, x: i32 }"),
    ("ByAs", 0, '#[derive(TS)] #[ts(export)] pub struct ByAs { #[ts(as = "Vec<Marker>")] a: i32 }'),
    ("Wrapper", 1, "#[derive(TS)] #[ts(export)] pub struct Wrapper<T> { t: T }"),
    ("ViaArg", 0, "#[derive(TS)] #[ts(export)] pub struct ViaArg { w: Wrapper<Far>, #[ts(inline)] i: Wrapper<Vec<Marker>> }"),
    ("OnlyDefault", 1, "#[derive(TS)] #[ts(export)] pub struct OnlyDefault<T = Far> { #[ts(skip)] t: std::marker::PhantomData<T> }"),
    ("OnlyDefault2", 2, '#[derive(TS)] #[ts(export)] pub struct OnlyDefault2<T = Marker, U = Wrapper<Leaf>> { #[ts(type = "string")] s: i32, #[ts(skip)] p: std::marker::PhantomData<(T, U)> }'),
    ("DefaultAndField", 1, "#[derive(TS)] #[ts(export)] pub struct DefaultAndField<T = Leaf> { t: T, o: Option<Far> }"),
    ("CycA", 0, "#[derive(TS)] #[ts(export)] pub struct CycA { b: Vec<CycB> }"),
    ("CycB", 0, "#[derive(TS)] #[ts(export)] pub struct CycB { a: Option<Box<CycA>>, m: Marker }"),
    ("En", 0, "#[derive(TS)] #[ts(export)] pub enum En { A(Leaf), B { f: Far }, #[ts(skip)] C(i32) }"),
    ("EnDefault", 1, "#[derive(TS)] #[ts(export)] pub enum EnDefault<T = Marker> { A, #[ts(skip)] B(std::marker::PhantomData<T>) }"),
    ("Concrete", 1, "#[derive(TS)] #[ts(export, concrete(T = Far))] pub struct Concrete<T> { t: T }"),
    ("Unit", 0, "#[derive(TS)] #[ts(export)] pub struct Unit;"),
    ("Aliased", 0, "pub type Items = Vec<Leaf>; pub type Lookup = std::collections::HashMap<String, Far>; pub type Boxed = Box<Marker>;\n"
                   "#[derive(TS)] #[ts(export)] pub struct Aliased { items: Items, lookup: Lookup, b: Option<Boxed> }"),
    ("AliasedEnum", 0, "pub type Pairs = (Leaf, Far);\n#[derive(TS)] #[ts(export)] pub enum AliasedEnum { A(Pairs), B { p: Items } }"),
    ("NewtypeDefault", 1, '#[derive(TS)] #[ts(export)] pub struct NewtypeDefault<T = Far>(#[ts(type = "number")] std::marker::PhantomData<T>);'),
    # file forms of export_to that do not end in `.ts`: the path is used verbatim (leaves: nothing imports them)
    ("OddExt", 0, '#[derive(TS)] #[ts(export, export_to = "odd/file.mts")] pub struct OddExt { a: i32 }'),
    ("NoExt", 0, '#[derive(TS)] #[ts(export, export_to = "noext/index")] pub struct NoExt { a: i32 }'),
    ("Dotted", 0, '#[derive(TS)] #[ts(export, export_to = "a.b/types.d.mts", rename = "Dot")] pub struct Dotted { a: i32 }'),
    ("DirDots", 0, '#[derive(TS)] #[ts(export, export_to = "v1.2/")] pub struct DirDots { a: i32 }'),
]


def documented_path(ident, item):
    """the documented output location: `<dir>/<TsName>.ts` for a directory, the given path verbatim for a file, `<TsName>.ts` by default"""
    import re as _re
    m = _re.search(r'export_to = "([^"]*)"', item)
    r = _re.search(r'rename = "([^"]*)"', item)
    name = r.group(1) if r else ident
    if not m:
        return name + ".ts"
    return m.group(1) + name + ".ts" if m.group(1).endswith("/") else m.group(1)


def generated_tests(ctx):
    """Every generated `export_bindings_*` test, run in a process of its own under TS_RS_EXPORT_DIR, must leave
    the tree that export_all_to leaves for the same (generics-erased) type, and that tree must be closed."""
    import shutil
    import subprocess
    import tsmini
    concrete = {"Concrete"}
    arms = []
    for ident, n, _ in GEN_TYPES:
        args = "" if n == 0 or ident in concrete else "::<%s>" % ", ".join(["ts_rs::Dummy"] * n)
        if ident in concrete:
            args = "::<Far>"
        arms.append('        "%s" => %s%s::export_all_to(&dir).unwrap(),' % (ident, ident, args))
    src = ("#![allow(dead_code)]\nuse ts_rs::TS;\n" + "\n".join(i for _, _, i in GEN_TYPES) + """
#[cfg(test)]
#[test]
fn oracle() {
    let ty = std::env::var("ORACLE").unwrap();
    let dir = std::env::var("ORACLE_DIR").unwrap();
    match ty.as_str() {
%s
        _ => panic!("unknown type"),
    }
}
""" % "\n".join(arms))
    exe = vlib.build_test_crate("c11_tests", vlib.harness_toml("c11_tests", deps=("ts-rs",)), {"src/lib.rs": src})
    root = "/tmp/v/c11t"
    shutil.rmtree(root, ignore_errors=True)
    os.makedirs(root)

    def tree(d):
        out = {}
        for dp, _, fs in os.walk(d):
            for f in fs:
                q = os.path.join(dp, f)
                out[os.path.relpath(q, d)] = open(q, encoding="utf-8").read()
        return out

    names = {i for i, _, _ in GEN_TYPES}
    viol, files = [], 0
    for ident, n, item in GEN_TYPES:
        a, b = os.path.join(root, ident, "a"), os.path.join(root, ident, "b")
        os.makedirs(a)
        os.makedirs(b)
        env = dict(os.environ, TS_RS_EXPORT_DIR=a)
        p1 = subprocess.run([exe, "--exact", "export_bindings_%s" % ident.lower(), "--test-threads", "1"], cwd=os.path.join(root, ident),
                            env=env, capture_output=True, text=True, timeout=600)
        env2 = dict(os.environ, ORACLE=ident, ORACLE_DIR=b)
        p2 = subprocess.run([exe, "--exact", "oracle", "--test-threads", "1"], cwd=os.path.join(root, ident), env=env2,
                            capture_output=True, text=True, timeout=600)
        if "1 passed" not in p1.stdout or "1 passed" not in p2.stdout:
            raise vlib.HarnessError("generated test of %s did not run: %s | %s" % (ident, (p1.stdout + p1.stderr)[-800:], (p2.stdout + p2.stderr)[-800:]))
        ta, tb = tree(a), tree(b)
        files += len(ta)
        probs = []
        for rel, text in sorted(ta.items()):
            fp = os.path.join(a, rel)
            probs += ["%s: %s" % (rel, q) for q in tsmini.closed_module(fp, text, names, lambda q: open(q, encoding="utf-8").read() if os.path.exists(q) else None)]
        want = os.path.normpath(documented_path(ident, item))
        if want not in tb:
            viol.append(dict(kind="property-violated", what="the file of %s is not at its documented location %s" % (ident, want), item=item, written=sorted(tb)))
        if ta != tb or probs:
            viol.append(dict(kind="property-violated", what="the generated test export_bindings_%s does not write the root's and its dependencies' files" % ident.lower(),
                             item=item, written_by_generated_test=sorted(ta), written_by_export_all_to=sorted(tb),
                             differing=sorted(k for k in set(ta) | set(tb) if ta.get(k) != tb.get(k)), not_closed=probs))
    shutil.rmtree(root, ignore_errors=True)
    for v in viol[:2]:
        ctx.fail(v["what"], v)
    return {"types": len(GEN_TYPES), "files": files, "violations": len(viol),
            "rule": "each generated export_bindings_* test run in its own process under TS_RS_EXPORT_DIR: the tree equals what export_all_to leaves for the generics-erased type, and every import in it resolves to a written file declaring the name (dependencies through fields, generic arguments, type aliases of containers, inline, flatten, `as`, parameter defaults only, cycles, concrete parameters)"}
