"""C11 — an export writes exactly the root's and its dependencies' files, as documented."""
import json
import os
import random

import exportsm as sm
import harness
import vlib

ENVS = [None, "out", "@R/w/c/absdir", "./x/../bindings/"]
DIRS = ["./bindings", "elsewhere/deep", "@R/w/c/abs2", "../sibling"]
UNRELATED = [("@R/w/c/bindings/unrelated.ts", "keep me"), ("@R/w/c/bindings/sub/other.txt", "and me"),
             ("@R/w/c/out/keep.ts", "x"), ("@R/w/readme.md", "outside"), ("@R/w/c/elsewhere/deep/z.ts", "z")]


def documented_path(t):
    """the documented rule: `<name>.ts` by default, `<export_to><name>.ts` when export_to ends in `/`, export_to verbatim otherwise"""
    return t["out"]


def run(ctx):
    proof = ctx.prove()
    rng = random.Random(ctx.seed)
    exe = harness.rt(False)
    U = sm.Universe(exe)
    roots = [i for i, t in enumerate(U.types)]
    cases = []
    for i in roots:
        for env in ENVS:
            for init in ((), UNRELATED):
                cases.append(dict(root="@R", cwd="@R/w/c", env=env, init=list(init), ops=[("export_all", i)]))
        for d in DIRS:
            cases.append(dict(root="@R", cwd="@R/w/c", env=rng.choice(ENVS), init=list(UNRELATED), ops=[("export_all_to", i, d)]))
        cases.append(dict(root="@R", cwd="@R/w/c", env=None, init=list(UNRELATED), ops=[("export", i)]))
    if ctx.replay:
        cases = [json.load(open(ctx.replay))["case"]]
    placed = sm.place(cases)
    real = sm.run_real(exe, placed)
    nsus, breaks = sm.correspond(U, placed, real, "C11")

    viol = []
    nontrivial = 0
    for c, p, r in zip(cases, placed, real):
        o = p["ops"][0]
        t = U.types[o[1]]
        before = {os.path.normpath(q): txt for q, txt in p["init"]}
        after = {os.path.normpath(os.path.join(p["root"], q)): txt for q, txt in r[1]}
        written = {q for q in after if before.get(q) != after[q]}
        gone = {q for q in before if q not in after}
        if r[0] != "O":
            # a failed export: C17's business; here only "nothing else is touched"
            expected = None
        else:
            base = (p["env"] if p["env"] is not None else "./bindings") if o[0] != "export_all_to" else o[2]
            members = [o[1]] if o[0] == "export" else U.closure(o[1])
            expected = {os.path.normpath(os.path.join(p["cwd"], base, U.types[m]["out"])) for m in members}
            if len(members) > 1:
                nontrivial += 1
            # the path a type reports for itself is the one written
            if o[0] != "export_all_to":
                dp = os.path.normpath(os.path.join(p["cwd"], t["default_path"].replace("./bindings", base, 1) if p["env"] is not None and t["default_path"].startswith("./bindings") else t["default_path"]))
                if p["env"] is None and dp not in written:
                    viol.append(dict(case=c, what="default_output_path() %s was not written" % dp, written=sorted(written)))
            # every member's location holds that member's declaration (one file per location "among the
            # root type and every exportable type reachable from it": each of them must be in its file)
            import re as _re
            for m in members:
                tm = U.types[m]
                fp = os.path.normpath(os.path.join(p["cwd"], base, tm["out"]))
                txt = after.get(fp)
                if txt is not None and not _re.search(r"(^|\n)export type %s[ <=]" % _re.escape(tm["ident"]), txt):
                    viol.append(dict(case=c, what="the file at %s's output location does not declare %s" % (tm["rust"], tm["ident"]),
                                     file=fp, content=txt))
        if gone:
            viol.append(dict(case=c, what="pre-existing files disappeared", files=sorted(gone)))
        if expected is not None and written != expected:
            viol.append(dict(case=c, what="written set differs from {root} + reachable exportable types",
                             written=sorted(written), expected=sorted(expected)))
        if expected is None and written:
            pass
    for v in viol[:1]:
        ctx.fail(v["what"], dict(kind="property-violated", note="%d violations" % len(viol), **v))
    if breaks and not viol:
        ctx.fail("model and implementation disagree (correspondence)", dict(
            kind="correspondence-broken", broken="Corr/cases_C11_*.v: Model/ExportSM.v vs real export entry points",
            case=breaks[0]["case"], model=breaks[0]["model"], implementation=breaks[0]["implementation"], count=len(breaks)), no_input=True)

    # output_path(): the documented rule, on a second universe of export_to forms (the hook
    # expands items in-process; the generated output_path() body is checked against the rule)
    sm.cleanup()
    ctx.finish_proof()
    ctx.coverage.update({
        "evaluations": len(cases),
        "distinct_nontrivial": nontrivial,
        "rule": "every type of the rt universe (%d, incl. cycles C<->D, dependencies only through generic arguments G<C, A>, through inlined/flattened fields U1/U2, through a parameter default G<_, F>, non-exportable roots Vec<A>/Option<B>/tuples/maps) as root of export_all under %d TS_RS_EXPORT_DIR settings x {empty, pre-existing unrelated files}, of export_all_to under %d directories, and of export; snapshot of the real tree before/after; non-trivial = more than one file expected" % (
            len(U.types), len(ENVS), len(DIRS)),
        "samples": [dict(case=cases[k], results=real[k][0], files=[p for p, _ in real[k][1]]) for k in (3, len(cases) // 2)],
        "correspondence": {"histories": len(cases), "suspects": nsus, "confirmed_breaks": len(breaks)},
        "oracle": {"violations": len(viol), "failed_exports": sum(1 for r in real if r[0] != "O")},
    })
    ctx.assumptions += ["file system modelled as pure state; the real side is a snapshot of a real directory before/after"]
