"""C17 — export failures are returned as errors and do not poison later exports."""
import itertools
import json
import os
import random

import exportsm as sm
import harness
import vlib

TYPES = ["A", "B", "C", "F", "U2", "H", "Up", "alloc::vec::Vec<rt::universe::A>"]


def targets(U, p, o):
    """absolute files an operation would write (root first)"""
    base = (p["env"] if p["env"] is not None else "./bindings") if o[0] != "export_all_to" else o[2]
    members = [o[1]] if o[0] == "export" else U.closure(o[1])
    return [os.path.normpath(os.path.join(p["cwd"], base, U.types[m]["out"])) for m in members if U.types[m]["out"]]


def above_root(path):
    depth = 0
    for comp in path.split("/"):
        if comp in ("", "."):
            continue
        if comp == "..":
            depth -= 1
            if depth < 0:
                return True
        else:
            depth += 1
    return False


def run(ctx):
    proof = ctx.prove()
    rng = random.Random(ctx.seed)
    exe = harness.rt(False)
    U = sm.Universe(exe)
    tix = [U.ix(t) for t in TYPES]
    ops = [(k, t) for t in tix for k in ("export", "export_all")] + [("export_all_to", t, "alt/dir") for t in tix[:5]]
    cases, meta = [], []

    def add(ops_, kind, ref=None):
        cases.append(dict(root="@R", cwd="@R/w/c", env=None, init=[], ops=list(ops_)))
        meta.append(dict(kind=kind, ref=ref))

    pending = []   # obstacles on ALREADY written (shared) files: need the file's content at that point
    hists = [[o] for o in ops] + [[a, b] for a in ops for b in ops if rng.random() < (0.25 if ctx.quick else 1.0)]
    if not ctx.quick:
        hists += [[rng.choice(ops) for _ in range(3)] for _ in range(1500)]
    for h in hists:
        add(h, "plain")
        ref = len(cases) - 1
        # one obstacle before one step, removed before a retry of that step
        for pos in range(len(h)):
            o = h[pos]
            if U.types[o[1]]["out"] is None:
                continue
            proto = dict(root="@R", cwd="@R/w/c", env=None, init=[], ops=[])
            tg = targets(U, proto, o)
            already = set()
            for prev in h[:pos]:
                already |= set(targets(U, proto, prev))
            for which, tpath in ((0, tg[0]), (-1, tg[-1])):
                if tpath in already and "up.ts" not in tpath and len(pending) < (400 if ctx.quick else 4000):
                    # the merge branch of export_and_merge: the file exists and holds other types
                    pending.append((h, pos, tpath, ref))
                if tpath in already or "up.ts" in tpath:
                    continue  # the obstacles below only on not-yet-written paths
                # (a) the target itself is a directory
                add(h[:pos] + [("mkdir", tpath), o, ("rm", tpath), o] + h[pos + 1:], "target-is-dir", ref)
                # (b) a parent component is a regular file
                parent = os.path.dirname(tpath)
                if not any(a.startswith(parent + "/") or a == parent for a in already) and parent.count("/") > 3:
                    add(h[:pos] + [("mkfile", parent, "i am a file"), o, ("rm", parent), o] + h[pos + 1:], "parent-is-file", ref)
    # second phase: run the prefixes to learn what the shared file contains when the fault is injected, then
    # replace the file by a directory, let the step fail, put the file back and retry
    if pending and not ctx.replay:
        pre = {}
        for h, pos, tpath, ref in pending:
            pre.setdefault(tuple(h[:pos]), None)
        pcases = [dict(root="@R", cwd="@R/w/c", env=None, init=[], ops=list(k)) for k in pre]
        pplaced = sm.place(pcases)
        preal = sm.run_real(exe, pplaced)
        for k, pl, r in zip(list(pre), pplaced, preal):
            pre[k] = {os.path.normpath(os.path.join(pl["root"], q)).replace(pl["root"], "@R", 1): txt for q, txt in r[1]}
        for h, pos, tpath, ref in pending:
            content = pre[tuple(h[:pos])].get(tpath)
            if content is None:
                continue
            o = h[pos]
            add(h[:pos] + [("rm", tpath), ("mkdir", tpath), o, ("rm", tpath), ("mkfile", tpath, content), o] + h[pos + 1:],
                "written-file-became-dir", ref)
    # a dependency whose location is above the root only from a SHALLOW base directory (its import path, computed against the
    # deep default directory, is fine): the walk must stop with an error there, not skip it
    deep = "@R/w/c/d1/d2/d3"
    h4, up4 = U.ix("H4"), U.ix("Up4")
    for hist in ([("export_all_to", h4, "@R")], [("export_all_to", up4, "@R")], [("export_all", h4)], [("export_all", h4), ("export_all_to", h4, "@R")],
                 [("export_all_to", h4, "@R"), ("export_all", h4)], [("export_all_to", h4, "@R"), ("export_all_to", h4, "@R/w/c/d1/d2")],
                 [("export", U.ix("A")), ("export_all_to", h4, "@R"), ("export_all", U.ix("B"))]):
        cases.append(dict(root="@R", cwd="@R/w/c", env=deep, init=[], ops=list(hist)))
        meta.append(dict(kind="above-root-from-shallow-dir", ref=None))
    if ctx.replay:
        rp = json.load(open(ctx.replay))
        cases, meta = [rp["case"]] + ([rp["reference"]] if "reference" in rp else []), [dict(kind="replay", ref=1 if "reference" in rp else None)] + ([dict(kind="plain", ref=None)] if "reference" in rp else [])
    placed = sm.place(cases)
    real = sm.run_real(exe, placed)
    nsus, breaks = sm.correspond(U, placed, real, "C17")

    viol = []
    kinds = {}
    failed_then_ok = 0
    for k, (c, m, r) in enumerate(zip(cases, meta, real)):
        kinds[m["kind"]] = kinds.get(m["kind"], 0) + 1
        if "P" in r[0]:
            viol.append(dict(case=c, what="an export panicked instead of returning an error", results=r[0]))
        # above-root and non-exportable roots must be errors
        for o, code in zip(c["ops"], r[0]):
            if o[0] in ("export", "export_all", "export_all_to"):
                t = U.types[o[1]]
                if (t["out"] is None or "up.ts" in (t["out"] or "")) and code == "O":
                    viol.append(dict(case=c, what="export of %s returned Ok" % t["rust"], results=r[0]))
                # any member whose location climbs above the root makes the export an error
                pl = placed[k]
                po = pl["ops"][c["ops"].index(o)]
                base = (pl["env"] if pl["env"] is not None else "./bindings") if o[0] != "export_all_to" else po[2]
                for mm in ([o[1]] if o[0] == "export" else U.closure(o[1])):
                    out = U.types[mm]["out"]
                    if out and above_root(os.path.join(pl["cwd"], base, out)) and code == "O":
                        viol.append(dict(case=c, what="export returned Ok although the location of %s is above the root" % U.types[mm]["rust"], results=r[0]))
        if m["ref"] is not None:
            # after the retry, the tree equals the fault-free tree
            ref = real[m["ref"]]
            if r[1] != ref[1]:
                # files of the reference must be identical; the obstacle's leftovers are not allowed either
                viol.append(dict(case=c, reference=cases[m["ref"]], what="tree after obstacle+retry differs from the fault-free tree (%s)" % m["kind"],
                                 tree=[p for p, _ in r[1]], reference_tree=[p for p, _ in ref[1]], results=r[0], reference_results=ref[0]))
            else:
                # how many obstacles actually made the step fail
                ops_codes = [cd for o, cd in zip(c["ops"], r[0]) if o[0].startswith("export")]
                if any(cd in "IC" for cd in ops_codes):
                    failed_then_ok += 1
    for v in viol[:1]:
        ctx.fail(v["what"], dict(kind="property-violated", note="%d violations" % len(viol), **v))
    if breaks and not viol:
        ctx.fail("model and implementation disagree (correspondence)", dict(
            kind="correspondence-broken", broken="Corr/cases_C17_*.v: Model/ExportSM.v vs real export entry points under obstacles",
            case=breaks[0]["case"], model=breaks[0]["model"], implementation=breaks[0]["implementation"], count=len(breaks)), no_input=True)
    sm.cleanup()
    ctx.finish_proof()
    ctx.coverage.update({
        "evaluations": len(cases),
        "distinct_nontrivial": failed_then_ok,
        "rule": "histories of length 1..%d over {export, export_all, export_all_to} x %d types (shared file, mutual dependency, H depending on the above-root Up so that export_all fails half-way, non-exportable root Vec<A>) and, for each, one obstacle {target is a directory, parent component is a regular file} before each step on a not-yet-written path (root's file and the last dependency's file), and {a shared file already written by this process replaced by a directory, then restored} (the merge branch of export_and_merge), the failing step, removal of the obstacle and a retry; above-root and non-exportable roots occur as plain steps; on a real directory; non-trivial = the obstacle made a step fail and the retried history ended with the fault-free tree" % (
            2 if ctx.quick else 3, len(TYPES)),
        "samples": [dict(case=cases[k], kind=meta[k]["kind"], results=real[k][0]) for k in (1, len(cases) // 2, len(cases) - 1)],
        "correspondence": {"histories": len(cases), "suspects": nsus, "confirmed_breaks": len(breaks)},
        "oracle": {"violations": len(viol), "fault_kinds": kinds, "failed_then_converged": failed_then_ok},
    })
    ctx.assumptions += [
        "faults below File::create (short writes, sync_all failures) cannot be injected offline; the model has the branch (insert after success), the implementation side is not exercised",
        "obstacles are placed only on paths not yet written by the process, so that removing them restores the pre-fault tree",
    ]
