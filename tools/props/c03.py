"""C03 — exported files import exactly the names they use, from where they live."""
import json
import os
import shutil

import corpus as C
import corpus_run as CR
import tsmini
import vlib

EXPORT_DIR = os.path.join(vlib.CACHE, "export_c03")


def ts_name(d):
    return d["rename"] if d["rename"] is not None else d["ident"]


def run(ctx):
    ctx.prove()
    ndefs = 160 if ctx.quick else 500
    seeds = [ctx.seed] if ctx.quick else [ctx.seed, ctx.seed + 1, ctx.seed + 2]
    stats = dict(files=0, roots=0, imports=0, import_names=0, text_cases=0, multi_import_files=0)
    samples = []
    for seed in seeds:
        res = CR.corpus(seed, ndefs, log=vlib.log)
        try:
            check_one(ctx, res, seed, stats, samples)
        finally:
            CR.corpus_done(res)
            shutil.rmtree(EXPORT_DIR, ignore_errors=True)
    ctx.finish_proof()
    ctx.coverage.update({
        "evaluations": stats["files"] + stats["text_cases"],
        "distinct_nontrivial": stats["multi_import_files"],
        "rule": "generated corpus (definitions referring to each other by name, through containers, generic arguments, parameter defaults, inline, flatten, `as`; export_to in 7 placements incl. shared files, nested directories and ../), compiled against /repo; (1) model dependencies()/export_to_string() vs real, byte for byte; (2) every exportable query type is exported with export_all_to into its own real directory and EVERY written file is read back by an independent reader (tools/tsmini.py): used type names = imported + declared + parameters, every import resolves (TypeScript rules) to a file of the same tree that declares the name, no self-import, no duplicate, no unused import; non-trivial = files with >= 2 import statements",
        "samples": samples[:5],
        "distribution": stats,
    })
    ctx.assumptions += ["`type = \"..\"` overrides are opaque text (the generator's overrides mention no user type)",
                        "names are looked up among the TypeScript names of the corpus (an identifier that is no known type is not a use)"]


def check_one(ctx, res, seed, stats, samples):
    qs = res["queries"]
    by = {d["ident"]: d for d in res["defs"]}
    known = {ts_name(d) for d in res["defs"]}
    mism = [m for m in res["mismatches"] if m["field"] in ("deps", "export", "output_path")]
    stats["text_cases"] += 3 * len(qs)
    st = CR.run_export(res["exe"], EXPORT_DIR)
    viol = []
    for i, t in enumerate(qs):
        status = st.get(i)
        root = os.path.join(EXPORT_DIR, str(i))
        if t[0] != "named":
            continue
        if status != "OK":
            # a panicking / failing export of a derived type: decl() of a generic with an inlined parameter (C07 known class)
            continue
        stats["roots"] += 1
        files = {}
        for dp, _, fns in os.walk(root):
            for fn in fns:
                p = os.path.join(dp, fn)
                files[os.path.normpath(p)] = open(p, encoding="utf-8").read()
        # definitions with `../` in export_to escape <root>; they land in EXPORT_DIR/<something>: read on demand
        def read_file(p):
            p = os.path.normpath(p)
            if p in files:
                return files[p]
            if os.path.isfile(p) and p.startswith(EXPORT_DIR):
                return open(p, encoding="utf-8").read()
            return None
        extra = []
        for up in (os.path.join(EXPORT_DIR, "up"),):
            if os.path.isdir(up):
                for fn in os.listdir(up):
                    extra.append(os.path.join(up, fn))
        for p in list(files) + [e for e in extra if os.path.isfile(e)]:
            text = read_file(p)
            stats["files"] += 1
            m = tsmini.parse_module(text)
            stats["imports"] += len(m["imports"])
            stats["import_names"] += sum(len(n) for n, _ in m["imports"])
            if len(m["imports"]) >= 2:
                stats["multi_import_files"] += 1
            probs = tsmini.closed_module(p, text, known, read_file)
            if p in extra:
                # files above the root are shared by all roots of this run: only their own closedness w.r.t. existing files
                probs = [x for x in probs if "did not write" not in x]
            if probs:
                data = dict(kind="property-violated", root=C.rust_ty(t), file=os.path.relpath(p, root), content=text, problems=probs,
                            definition=C.to_rust(by[t[1]]), seed=seed)
                cls = classify(probs, text, res, by)
                if cls:
                    ctx.known_class(cls, "%s: %s" % (C.rust_ty(t), probs[0]), data)
                else:
                    viol.append(data)
            elif len(samples) < 5 and len(m["imports"]) >= 2:
                samples.append(dict(root=C.rust_ty(t), file=os.path.relpath(p, root), imports=m["imports"]))
    for v in viol[:3]:
        ctx.fail("a written file is not closed: " + v["problems"][0], v)
    if mism and not viol:
        ctx.fail("model and implementation disagree on dependencies / export_to_string (correspondence)", dict(
            kind="correspondence-broken", broken="Corr/corpus_env: Model/Gen.v + GenExport.v vs real dependencies()/export_to_string()",
            first=mism[0], count=len(mism), seed=seed), no_input=True)


def classify(probs, text, res, by):
    """known classes of C03 (known_findings.json); decided from the problem kind and the declaring definitions"""
    if all("is imported but not used" in p for p in probs):
        # an inlined/flattened generic type with a defaulted parameter drags its default along
        gens = [d for d in res["defs"] if any(dflt is not None for _, dflt in d["params"])]
        if gens:
            return "inlined_generic_default"
    return None
