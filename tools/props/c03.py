"""C03 — exported files import exactly the names they use, from where they live."""
import json
import os
import shutil

import corpus as C
import corpus_run as CR
import tsmini
import vlib

EXPORT_DIR = os.path.join(vlib.CACHE, "export_c03")


def ts_name(d):
    return d["rename"] if d["rename"] is not None else d["ident"].replace("r#", "")


def run(ctx):
    ctx.prove()
    ndefs = 160 if ctx.quick else 500
    seeds = [ctx.seed] if ctx.quick else [ctx.seed, ctx.seed + 1, ctx.seed + 2]
    stats = dict(files=0, roots=0, imports=0, import_names=0, text_cases=0, multi_import_files=0)
    samples = []
    for seed in seeds:
        res = CR.corpus(seed, ndefs, log=vlib.log)
        try:
            check_one(ctx, res, seed, stats, samples)
        finally:
            CR.corpus_done(res)
            shutil.rmtree(EXPORT_DIR, ignore_errors=True)
    ctx.finish_proof()
    ctx.coverage.update({
        "evaluations": stats["files"] + stats["text_cases"],
        "distinct_nontrivial": stats["multi_import_files"],
        "rule": "generated corpus (definitions referring to each other by name, through containers, generic arguments, parameter defaults, inline, flatten, `as`; export_to in 7 placements incl. shared files, nested directories and ../), compiled against /repo; (1) model dependencies()/export_to_string() vs real, byte for byte; (2) every exportable query type is exported with export_all_to into its own real directory and EVERY written file is read back by an independent reader (tools/tsmini.py): used type names = imported + declared + parameters, every import resolves (TypeScript rules) to a file of the same tree that declares the name, no self-import, no duplicate, no unused import; non-trivial = files with >= 2 import statements",
        "samples": samples[:5],
        "distribution": stats,
    })
    ctx.assumptions += ["`type = \"..\"` overrides are opaque text (the generator's overrides mention no user type)",
                        "names are looked up among the TypeScript names of the corpus (an identifier that is no known type is not a use)"]


def check_one(ctx, res, seed, stats, samples):
    qs = res["queries"]
    by = {d["ident"]: d for d in res["defs"]}
    known = {ts_name(d) for d in res["defs"]}
    mism = [m for m in res["mismatches"] if m["field"] in ("deps", "export", "output_path")]
    stats["text_cases"] += 3 * len(qs)
    st = CR.run_export(res["exe"], EXPORT_DIR)
    viol = []
    for i, t in enumerate(qs):
        status = st.get(i)
        root = os.path.join(EXPORT_DIR, str(i))
        if t[0] != "named":
            continue
        if status != "OK":
            # a panicking / failing export of a derived type: decl() of a generic with an inlined parameter (C07 known class)
            continue
        stats["roots"] += 1
        files = {}
        for dp, _, fns in os.walk(root):
            for fn in fns:
                p = os.path.join(dp, fn)
                files[os.path.normpath(p)] = open(p, encoding="utf-8").read()
        # definitions with `../` in export_to escape <root>; they land in EXPORT_DIR/<something>: read on demand
        def read_file(p):
            p = os.path.normpath(p)
            if p in files:
                return files[p]
            if os.path.isfile(p) and p.startswith(EXPORT_DIR):
                return open(p, encoding="utf-8").read()
            return None
        extra = []
        for up in (os.path.join(EXPORT_DIR, "up"),):
            if os.path.isdir(up):
                for fn in os.listdir(up):
                    extra.append(os.path.join(up, fn))
        for p in list(files) + [e for e in extra if os.path.isfile(e)]:
            text = read_file(p)
            stats["files"] += 1
            m = tsmini.parse_module(text)
            stats["imports"] += len(m["imports"])
            stats["import_names"] += sum(len(n) for n, _ in m["imports"])
            if len(m["imports"]) >= 2:
                stats["multi_import_files"] += 1
            probs = tsmini.closed_module(p, text, known, read_file)
            if p in extra:
                # files above the root are shared by all roots of this run: only their own closedness w.r.t. existing files
                probs = [x for x in probs if "did not write" not in x]
            if probs:
                data = dict(kind="property-violated", root=C.rust_ty(t), file=os.path.relpath(p, root), content=text, problems=probs,
                            definition=C.to_rust(by[t[1]]), seed=seed)
                cls = classify(probs, text, res, by, t)
                if cls:
                    ctx.known_class(cls, "%s: %s" % (C.rust_ty(t), probs[0]), data)
                else:
                    viol.append(data)
            elif len(samples) < 5 and len(m["imports"]) >= 2:
                samples.append(dict(root=C.rust_ty(t), file=os.path.relpath(p, root), imports=m["imports"]))
    # a history inside ONE process and ONE directory: some types written alone with export(), then others with export_all():
    # every exportable type reachable from an export_all root has its file, and those files are closed
    named = [i for i, t in enumerate(qs) if t[0] == "named" and not t[2] and st.get(i) == "OK" and not res["q"][i]["decl"].startswith("\x00")
             and res["q"][i]["output_path"] not in ("-", "")]
    mixed_dir = EXPORT_DIR + "_mixed"
    by_out = {}
    for i in named:
        by_out.setdefault(os.path.normpath(res["q"][i]["output_path"]), i)

    owners_of = {}
    for i, t in enumerate(qs):
        if t[0] == "named" and res["q"][i]["output_path"] not in ("-", ""):
            owners_of.setdefault(os.path.normpath(res["q"][i]["output_path"]), set()).add(t[1])

    def deps_paths(i):
        return [os.path.normpath(x.split("@", 1)[1]) for x in res["q"][i]["deps"].split("|") if "@" in x]

    tree = {}

    def read_mixed(pth):
        return tree.get(os.path.normpath(os.path.relpath(pth, mixed_dir)))
    # histories: (types written alone first, roots exported with dependencies afterwards).  One by index parity, and one
    # per pair (M, R) where R depends on M and M has dependencies of its own: M alone, then R
    hist = [(named[1::2], [i for i in named[0::2]][::2])]
    pairs = []
    for r in named:
        for pm in deps_paths(r):
            m = by_out.get(pm)
            if m is not None and m != r and deps_paths(m) and len(owners_of.get(pm, ())) <= 1:
                pairs.append(([m], [r]))
    hist += pairs[:10 if ctx.quick else 60]
    for alone, roots in hist:
        st2, tree = CR.run_export_mixed(res["exe"], mixed_dir, alone, roots)
        for r in roots:
            if st2.get(r) != "OK":
                continue
            need, todo = set(), [os.path.normpath(res["q"][r]["output_path"])]
            while todo:
                pth = todo.pop()
                if pth in need:
                    continue
                need.add(pth)
                if pth in by_out and len(owners_of.get(pth, ())) <= 1:   # exact dependencies are known for non-generic query types that have their file to themselves: the closure is under-approximated
                    todo += deps_paths(by_out[pth])
            stats["mixed_history_roots"] = stats.get("mixed_history_roots", 0) + 1
            stats["mixed_history_files"] = stats.get("mixed_history_files", 0) + len(need)
            for pth in sorted(need):
                text = tree.get(pth)
                probs = []
                if text is None:
                    probs = ["the export did not write %s, the file of a type reachable from the root" % pth]
                elif len(owners_of.get(pth, ())) <= 1:
                    # a file shared by several types may also hold file-mates written alone by export(): their imports are their own business
                    probs = [x for x in tsmini.closed_module(os.path.join(mixed_dir, pth), text, known, read_mixed)]
                if probs:
                    data = dict(kind="property-violated", what="history", history=dict(export_alone=[C.rust_ty(qs[i]) for i in alone], then_export_all=C.rust_ty(qs[r])),
                                root=C.rust_ty(qs[r]), file=pth, content=text, problems=probs, definition=C.to_rust(by[qs[r][1]]), seed=seed)
                    cls = classify(probs, text or "", res, by, qs[r])
                    if cls:
                        ctx.known_class(cls, "%s: %s" % (C.rust_ty(qs[r]), probs[0]), data)
                    else:
                        viol.append(data)
    shutil.rmtree(mixed_dir, ignore_errors=True)
    for v in viol[:3]:
        ctx.fail("a written file is not closed: " + v["problems"][0], v)
    if mism and not viol:
        ctx.fail("model and implementation disagree on dependencies / export_to_string (correspondence)", dict(
            kind="correspondence-broken", broken="Corr/corpus_env: Model/Gen.v + GenExport.v vs real dependencies()/export_to_string()",
            first=mism[0], count=len(mism), seed=seed), no_input=True)


def named_in(ty, out):
    """identifiers of the derived types a (corpus) type expression mentions"""
    if isinstance(ty, (list, tuple)):
        if len(ty) >= 2 and ty[0] == "named":
            out.add(ty[1])
        for x in ty:
            named_in(x, out)
    return out


def classify(probs, text, res, by, root):
    """known classes of C03 (known_findings.json); decided from the problem kind and the definitions reachable from the root whose
    export wrote the file: an unused import is in the known class only if it names the default of a type parameter of a generic
    definition reachable from that root (an inlined / flattened generic drags its defaults along)"""
    import re
    from props.c01 import reach as reach_t

    def reach(by_, root_):
        """the definitions reachable from the root of the export and from the definitions the file itself declares (a file above
        the export root is shared by every root of the run)"""
        out = {d["ident"]: d for d in reach_t(by_, root_)}
        for d in res["defs"]:
            if re.search(r"export type %s\b" % re.escape(d.get("rename") or d["ident"]), text):
                for x in reach_t(by_, ("named", d["ident"], [])):
                    out[x["ident"]] = x
        return list(out.values())
    if probs and all("is imported but not used" in p for p in probs):
        unused = {m.group(1) for p in probs for m in [re.match(r"type (\S+) is imported but not used", p)] if m}
        defaults = set()
        for d in reach(by, root):
            for _, dflt in d["params"]:
                if dflt is not None:
                    for ident in named_in(dflt, set()):
                        defaults.add((by[ident].get("rename") or ident) if ident in by else ident)
        if unused and unused <= defaults:
            return "inlined_generic_default"
        # `as` on a variant printed as its bare name (a unit variant, or one whose lone field is skipped)
        bare = set()
        for d in reach(by, root):
            for v in (d["variants"] if d["kind"] == "enum" else []):
                lone_skipped = v["shape"] == "tuple" and len(v["fields"]) == 1 and v["fields"][0]["skip"]
                if v.get("as_") is not None and (v["shape"] == "unit" or lone_skipped):
                    for ident in named_in(v["as_"], set()):
                        bare.add((by[ident].get("rename") or ident) if ident in by else ident)
        if unused and unused <= bare:
            return "as_on_bare_variant"
        # the element type of a zero-length array (`[Foo; 0]` is `[]`; C12 wants the element visited all the same)
        zero = set()

        def zero_in(ty):
            if isinstance(ty, (list, tuple)):
                if len(ty) == 3 and ty[0] == "array" and ty[1] == 0:
                    # the element type is visited, or (under `inline`) what the element type depends on
                    for x in reach_t(by, ty[2]):
                        zero.add(x.get("rename") or x["ident"])
                for x in ty:
                    zero_in(x)
        over_param = [False]

        def has_param(ty):
            return isinstance(ty, (list, tuple)) and ((len(ty) >= 1 and ty[0] == "param") or any(has_param(x) for x in ty))

        def zero_param(ty):
            if isinstance(ty, (list, tuple)):
                if len(ty) == 3 and ty[0] == "array" and ty[1] == 0 and has_param(ty[2]):
                    over_param[0] = True
                for x in ty:
                    zero_param(x)
        reached = reach(by, root)
        for d in reached:
            for f in (d["fields"] if d["kind"] == "struct" else [f for v in d["variants"] for f in v["fields"]]):
                zero_in(f.get("as_") or f["ty"])
                zero_param(f.get("as_") or f["ty"])
        if over_param[0]:
            # a zero-length array over a type parameter: whatever is supplied for it is visited (approximated by what is reachable at all)
            for x in reached:
                zero.add(x.get("rename") or x["ident"])
        if unused and unused <= zero:
            return "zero_length_array_element"
    return None
