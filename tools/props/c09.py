"""C09 — rename_all yields the names serde puts on the wire, for every identifier."""
import itertools
import os
import random
import re

import vlib
from vlib import coq_str, coq_list

RULES = ["lowercase", "UPPERCASE", "camelCase", "snake_case", "PascalCase", "SCREAMING_SNAKE_CASE", "kebab-case",
         "SCREAMING-KEBAB-CASE"]
COQ_RULE = dict(zip(RULES, ["Lower", "Upper", "Camel", "Snake", "Pascal", "ScreamingSnake", "Kebab", "ScreamingKebab"]))
POSITIONS = ["field", "variant"]
COQ_POS = {"field": "Field", "variant": "Variant"}
ALPHABET = ["a", "B", "1", "_", "\u00e9", "\u00c9", "\u00df", "\u01c5"]
RANDOM_ALPHABET = list("abzABZ019__") + ["\u00e9", "\u00c9", "\u00df", "\u01c5", "\u0130", "\U00010400", "\U00010428", "\u4e2d"]
CHUNK = 512
PANIC = "\x00P"


def serde_harness():
    src = None
    base = os.path.expanduser("~/.cargo/registry/src")
    for d in os.listdir(base):
        cand = os.path.join(base, d, "serde_derive-1.0.215", "src", "internals", "case.rs")
        if os.path.exists(cand):
            src = cand
    if src is None:
        raise vlib.HarnessError("serde_derive-1.0.215 sources not found in the offline registry")
    main = r'''
#[allow(dead_code, unused_imports)]
mod case;
use std::io::{BufRead, Write};
fn esc(s: &str) -> String { s.replace('\\', "\\\\").replace('\t', "\\t").replace('\n', "\\n").replace('\r', "\\r") }
fn unesc(s: &str) -> String {
    let mut out = String::new(); let mut it = s.chars();
    while let Some(c) = it.next() { if c == '\\' { match it.next() { Some('t') => out.push('\t'), Some('n') => out.push('\n'), Some('r') => out.push('\r'), Some(c) => out.push(c), None => () } } else { out.push(c) } }
    out
}
fn main() {
    std::panic::set_hook(Box::new(|_| ()));
    let stdin = std::io::stdin();
    let out = std::io::stdout();
    let mut out = std::io::BufWriter::new(out.lock());
    for line in stdin.lock().lines() {
        let line = line.unwrap();
        let f: Vec<String> = line.split('\t').map(unesc).collect();
        let rule = case::RenameRule::from_str(&f[1]).ok().unwrap();
        let id = f[2].clone();
        let pos = f[0].clone();
        let r = std::panic::catch_unwind(move || if pos == "field" { rule.apply_to_field(&id) } else { rule.apply_to_variant(&id) });
        match r { Ok(s) => writeln!(out, "OK\t{}", esc(&s)).unwrap(), Err(_) => writeln!(out, "PANIC").unwrap() }
    }
}
'''
    return vlib.build_crate("serde_case", vlib.harness_toml("serde_case", deps=()),
                            {"src/main.rs": main, "src/case.rs": open(src).read()}, hooks=False)


def enumerate_ids(n):
    out = []
    for k in range(n + 1):
        for t in itertools.product(ALPHABET, repeat=k):
            out.append("".join(t))
    return out


def canon(res):
    return res[1] if res[0] == "OK" else PANIC


def run(ctx):
    proof = ctx.prove()
    depth = 4 if ctx.quick else 5
    nrandom = 2000 if ctx.quick else 20000
    rng = random.Random(ctx.seed)
    ids = enumerate_ids(depth)
    rand_ids = []
    for _ in range(nrandom):
        k = rng.randint(1, 12)
        rand_ids.append("".join(rng.choice(RANDOM_ALPHABET) for _ in range(k)))
    if ctx.replay:
        import json
        rp = json.load(open(ctx.replay))
        ids, rand_ids = [], [rp["id"]] if "id" in rp else []
    all_ids = ids + rand_ids

    # which characters does Rust's std call upper-case? (the model's only Unicode oracle)
    chars = sorted(set("".join(ALPHABET + RANDOM_ALPHABET)))
    props = vlib.macro_hook([["charprops", "".join(chars)]])[0]
    if props[0] != "OK":
        raise vlib.HarnessError("charprops failed: %r" % props)
    upper = [c for c, p in zip(chars, props[1:]) if "U" in p.split(":")[0] and not ("A" <= c <= "Z")]

    # implementation: ts-rs (in-process macro hook) and serde_derive's own case.rs
    reqs = [(p, r, i) for p in POSITIONS for r in RULES for i in all_ids]
    ts_out = [canon(x) for x in vlib.macro_hook([["inflect", p, r, i] for (p, r, i) in reqs])]
    exe = serde_harness()
    sp = vlib.run([exe], input="".join(vlib.enc_line([p, r, i]) + "\n" for (p, r, i) in reqs), check=True)
    sd_out = [canon(vlib.dec_line(l)) if l != "PANIC" else PANIC for l in sp.stdout.split("\n")[:-1]]
    if len(sd_out) != len(reqs):
        raise vlib.HarnessError("serde harness answered %d of %d" % (len(sd_out), len(reqs)))

    # model: both sides evaluated by Coq, compared through digests per chunk
    n_ids = len(all_ids)
    header = """From TsRs Require Import Base.Str Base.Outcome Model.Case Spec.SerdeCase Tools.Digest.
Definition al : list char := %s.
Definition is_upper (c : char) : bool := is_ascii_upper c || existsb (N.eqb c) %s.
Definition rand_ids : list str := %s.
Definition ids : list str := strings_upto al %d ++ rand_ids.
Definition can (o : outcome str) : str := match o with Ok s => s | _ => [0; 80]%%N end.
Definition prs : list (position * rule) := list_prod [Field; Variant] all_rules.
""" % (coq_list([str(ord(c)) for c in ALPHABET]) + "%N", coq_list([str(ord(c)) for c in upper]) + "%N",
       coq_list([coq_str(s) for s in rand_ids]), depth if not ctx.replay else 0)
    if ctx.replay:
        header = header.replace("strings_upto al 0 ++ rand_ids", "rand_ids")
    body = header + """
Eval vm_compute in (map (fun pr => map dg_list (chunks %d (map (ts_rename is_upper (fst pr) (snd pr)) ids))) prs).
Eval vm_compute in (map (fun pr => map dg_list (chunks %d (map (fun i => can (serde_rename is_upper (fst pr) (snd pr) i)) ids))) prs).
""" % (CHUNK, CHUNK)
    ok, out = vlib.coq_eval("cases_C09", body)
    if not ok:
        raise vlib.HarnessError("cases_C09.v failed: " + out[-2000:])
    parts = out.split("= [", 2)
    dig_ts = [int(x) for x in re.findall(r"(\d+)%Z", parts[1])]
    dig_sd = [int(x) for x in re.findall(r"(\d+)%Z", parts[2])]

    def impl_digests(outs):
        res = []
        for k in range(len(POSITIONS) * len(RULES)):
            seg = outs[k * n_ids:(k + 1) * n_ids]
            res += [vlib.dg_list(c) for c in vlib.chunks(seg, CHUNK)]
        return res

    suspects = set()
    for side, dm, di in (("ts", dig_ts, impl_digests(ts_out)), ("serde", dig_sd, impl_digests(sd_out))):
        if len(dm) != len(di):
            raise vlib.HarnessError("digest count mismatch %s: model %d impl %d" % (side, len(dm), len(di)))
        nchunks = len(vlib.chunks(list(range(n_ids)), CHUNK))
        for idx, (a, b) in enumerate(zip(dm, di)):
            if a != b:
                k, c = divmod(idx, nchunks)
                for j in range(c * CHUNK, min(n_ids, (c + 1) * CHUNK)):
                    suspects.add((side, k, j))

    # exact comparison for the suspects (model output printed by Coq)
    corr_breaks = []
    if suspects:
        sus = sorted(suspects)[:4000]
        terms = []
        for side, k, j in sus:
            p, r = POSITIONS[k // len(RULES)], RULES[k % len(RULES)]
            fn = "ts_rename is_upper %s %s" % (COQ_POS[p], COQ_RULE[r]) if side == "ts" else \
                "fun i => can (serde_rename is_upper %s %s i)" % (COQ_POS[p], COQ_RULE[r])
            terms.append("(%s) %s" % (fn, coq_str(all_ids[j])))
        ok, out2 = vlib.coq_eval("cases_C09_exact", header + "\nEval vm_compute in %s.\n" % coq_list(terms))
        if not ok:
            raise vlib.HarnessError("cases_C09_exact.v failed: " + out2[-2000:])
        model_vals = vlib.parse_coq_str_list(out2.split("=", 1)[1].rsplit(":", 1)[0])
        for (side, k, j), mv in zip(sus, model_vals):
            iv = (ts_out if side == "ts" else sd_out)[k * n_ids + j]
            if mv != iv:
                corr_breaks.append(dict(side=side, position=POSITIONS[k // len(RULES)], rule=RULES[k % len(RULES)],
                                        id=all_ids[j], model=mv, implementation=iv))

    # the property itself, evaluated on the real outputs of both implementations
    real_viol = []
    nontrivial = set()
    for (p, r, i), t, s in zip(reqs, ts_out, sd_out):
        if s != PANIC and t != i:
            nontrivial.add((p, r, i))
        if s != PANIC and t != s:
            real_viol.append(dict(position=p, rule=r, id=i, ts_rs=t, serde=s))
    for v in real_viol[:1]:
        ctx.fail("binding name differs from serde's wire name", dict(kind="property-violated", **v,
                 note="%d inputs disagree; first shown. ts-rs Inflection vs serde_derive case.rs on the same identifier" % len(real_viol)))
    if corr_breaks and not real_viol:
        ctx.fail("model and implementation disagree (correspondence)", dict(
            kind="correspondence-broken", broken="Corr/cases_C09.v: Model/Case.v / Spec/SerdeCase.v vs implementation",
            first=corr_breaks[0], count=len(corr_breaks)), no_input=True)

    # end to end: compiled derives, decl() keys vs serde_json keys
    e2e = end_to_end(ctx, reqs, sd_out)

    ctx.finish_proof()
    ctx.coverage.update({
        "evaluations": len(reqs) * 2 + e2e["compared"],
        "distinct_nontrivial": len(nontrivial),
        "rule": "every identifier over the alphabet %s up to length %d (enumerated identically inside Coq and in the driver) plus %d seeded random identifiers of length 1..12 over %d characters, x 8 rules x {field, variant}; ts-rs side through the in-process macro hook, serde side through serde_derive 1.0.215's own case.rs; non-trivial = serde yields a name and renaming changes the identifier" % (
            "".join(ALPHABET), depth, nrandom, len(RANDOM_ALPHABET)),
        "samples": [dict(position=p, rule=r, id=i, ts_rs=t, serde=s) for (p, r, i), t, s in
                    [(reqs[k], ts_out[k], sd_out[k]) for k in (7, len(all_ids) + 300, 3 * len(all_ids) - 5, len(reqs) - 9)]],
        "correspondence": {"cases": len(reqs) * 2, "digest_chunks": len(dig_ts) + len(dig_sd), "suspects": len(suspects),
                           "confirmed_breaks": len(corr_breaks)},
        "distribution": {"enumerated_ids": len(ids), "random_ids": len(rand_ids), "serde_panics": sum(1 for s in sd_out if s == PANIC),
                         "ts_panics": sum(1 for s in ts_out if s == PANIC), "non_ascii_upper_chars": upper},
        "end_to_end": e2e,
    })
    ctx.assumptions += [
        "char::is_uppercase enters the model as an arbitrary function (theorems hold for every such function); for execution it is ASCII plus the code points the running Rust std reports for the alphabet",
        "serde side = serde_derive 1.0.215 src/internals/case.rs compiled unchanged into the harness",
    ]


E2E_FIELDS = ["foo_bar", "fooBar", "FooBar", "foo__bar", "_foo", "foo_", "a1_b2", "fooBAR", "FOO_BAR", "x", "X9",
              "f_\u00e9", "\u00e9_f", "r#type", "r#enum"]
E2E_VARIANTS = ["FooBar", "Foo_Bar", "fooBar", "FOO", "Foo1Bar", "A", "_Foo", "Foo_", "\u00c9a", "A\u00c9b", "r#Self_"]


def end_to_end(ctx, reqs, sd_out):
    serde = {req: s for req, s in zip(reqs, sd_out)}
    exe = serde_harness()

    def serde_ok(p, r, ident):
        key = (p, r, ident.replace("r#", ""))
        if key not in serde:
            sp = vlib.run([exe], input=vlib.enc_line(list(key)) + "\n", check=True)
            serde[key] = PANIC if sp.stdout.startswith("PANIC") else vlib.dec_line(sp.stdout.split("\n")[0])[1]
        return serde[key] != PANIC

    items = []
    main = []
    for ri, r in enumerate(RULES):
        fs = [f for f in E2E_FIELDS if serde_ok("field", r, f)]
        vs = [v for v in E2E_VARIANTS if serde_ok("variant", r, v)]
        items.append('#[derive(TS, Serialize, Default)] #[serde(rename_all = "%s")] struct F%d { %s }' % (
            r, ri, ", ".join("%s: u8" % f for f in fs)))
        items.append('#[derive(TS, Serialize)] #[serde(rename_all = "%s")] enum V%d { %s }' % (r, ri, ", ".join(vs)))
        items.append('#[derive(TS, Serialize)] #[serde(rename_all_fields = "%s")] enum W%d { A { %s } }' % (
            r, ri, ", ".join("%s: u8" % f for f in fs)))
        items.append('#[derive(TS, Serialize)] enum U%d { #[serde(rename_all = "%s")] A { %s } }' % (
            ri, r, ", ".join("%s: u8" % f for f in fs)))
        # the same with every field's type overridden (`#[ts(type = "number")]`: the name of an overridden field follows the same rules)
        ov = ", ".join('#[ts(type = "number")] %s: u8' % f for f in fs)
        items.append('#[derive(TS, Serialize, Default)] #[serde(rename_all = "%s")] struct T%d { %s }' % (r, ri, ov))
        items.append('#[derive(TS, Serialize)] #[serde(rename_all_fields = "%s")] enum X%d { A { %s } }' % (r, ri, ov))
        items.append('#[derive(TS, Serialize)] enum Y%d { #[serde(rename_all = "%s")] A { %s } }' % (ri, r, ov))
        main.append('p("T%d", T%d::decl(), vec![serde_json::to_string(&T%d::default()).unwrap()]);' % (ri, ri, ri))
        for e in ("X", "Y"):
            main.append('p("%s%d", %s%d::decl(), vec![serde_json::to_string(&%s%d::A { %s }).unwrap()]);' % (
                e, ri, e, ri, e, ri, ", ".join("%s: 0" % f for f in fs)))
        main.append('p("F%d", F%d::decl(), vec![serde_json::to_string(&F%d::default()).unwrap()]);' % (ri, ri, ri))
        main.append('p("V%d", V%d::decl(), vec![%s]);' % (ri, ri, ", ".join(
            "serde_json::to_string(&V%d::%s).unwrap()" % (ri, v) for v in vs)))
        for e in ("W", "U"):
            main.append('p("%s%d", %s%d::decl(), vec![serde_json::to_string(&%s%d::A { %s }).unwrap()]);' % (
                e, ri, e, ri, e, ri, ", ".join("%s: 0" % f for f in fs)))
    # routing (StructAttr::from_variant): which rule reaches the fields of a struct variant, for every enum
    # representation x variant-level `untagged` x where the rule comes from
    routing = []
    pairs = [("camelCase", "SCREAMING_SNAKE_CASE")] if ctx.quick else [("camelCase", "SCREAMING_SNAKE_CASE"), ("kebab-case", "PascalCase"), ("UPPERCASE", "snake_case")]
    for (r1, r2) in pairs:
        for repr_ in ("external", "internal", "adjacent", "untagged"):
            for vunt in (False, True):
                for source in ("raf", "vra", "both", "ra+raf", "ra"):
                    k = len(routing)
                    ea = {"external": [], "internal": ['tag = "t"'], "adjacent": ['tag = "t"', 'content = "c"'], "untagged": ["untagged"]}[repr_]
                    if source in ("raf", "both", "ra+raf"):
                        ea.append('rename_all_fields = "%s"' % r1)
                    if source in ("ra+raf", "ra"):
                        ea.append('rename_all = "%s"' % r2)
                    va = (["untagged"] if vunt else []) + (['rename_all = "%s"' % r2] if source in ("vra", "both") else [])
                    items.append('#[derive(TS, Serialize)] %s enum R%d { Unit_v, Plain_v { foo_bar: u8 }, %s Target_v { foo_bar: u8, x1_y: u8 } }' % (
                        "#[serde(%s)]" % ", ".join(ea) if ea else "", k, "#[serde(%s)]" % ", ".join(va) if va else ""))
                    main.append('p("R%d", R%d::decl(), vec![serde_json::to_string(&R%d::Plain_v { foo_bar: 0 }).unwrap(), serde_json::to_string(&R%d::Target_v { foo_bar: 0, x1_y: 0 }).unwrap()]);' % (k, k, k, k))
                    routing.append(dict(repr=repr_, variant_untagged=vunt, source=source, rules=[r1, r2]))
    src = """#![allow(non_snake_case, non_camel_case_types, dead_code, uncommon_codepoints, mixed_script_confusables)]
use serde::Serialize; use ts_rs::TS;
%s
fn p(n: &str, d: String, j: Vec<String>) { println!("{}\\t{}\\t{}", n, d.replace('\\n', " "), j.join("\\t")); }
fn main() { %s }
""" % ("\n".join(items), "\n".join(main))
    exe2 = vlib.build_crate("c09_e2e", vlib.harness_toml("c09_e2e", deps=("ts-rs", "serde", "serde_json")),
                            {"src/main.rs": src})
    out = vlib.run([exe2], check=True).stdout
    compared = 0
    mism = []
    import json
    for line in out.split("\n")[:-1]:
        name, decl, *js = line.split("\t")
        if name[0] == "R":
            rt = routing[int(name[1:])]
            ts_names = [m.strip('"') for m in re.findall(r'(?:[{ ])((?:"[^"]*")|[^\s"{},:]+): number,', decl)]
            sd_names, tags = [], []
            for vi, j in enumerate(js):
                o = json.loads(j)
                unt = rt["repr"] == "untagged" or (vi == 1 and rt["variant_untagged"])
                if unt:
                    inner = o
                elif rt["repr"] == "external":
                    (tag, inner), = o.items()
                    tags.append(tag)
                elif rt["repr"] == "internal":
                    tags.append(o.pop("t"))
                    inner = o
                else:
                    tags.append(o["t"])
                    inner = o["c"]
                sd_names += list(inner.keys())
            compared += len(sd_names) + len(tags)
            missing = [t for t in tags if ('"%s"' % t) not in decl]
            if ts_names != sd_names or missing:
                mism.append(dict(type=name, routing=rt, binding=ts_names, wire=sd_names, variant_names_missing_in_binding=missing, decl=decl,
                                 item=[i for i in items if " enum %s " % name in i][0]))
            continue
        if name[0] == "V":
            ts_names = re.findall(r'"([^"]*)"', decl.split("=", 1)[1])
            sd_names = [json.loads(j) for j in js]
        else:
            ts_names = [m.strip('"') for m in re.findall(r'(?:[{ ])((?:"[^"]*")|[^\s"{},:]+): number,', decl)]
            o = json.loads(js[0], object_pairs_hook=lambda pairs: pairs)  # keeps duplicate keys
            if name[0] in "WUXY":
                o = o[0][1]
            sd_names = [k for k, _ in o]
        compared += len(sd_names)
        if ts_names != sd_names:
            mism.append(dict(type=name, rule=RULES[int(name[1:])], binding=ts_names, wire=sd_names, decl=decl))
    if ctx.replay:
        mism = [m for m in mism]
    for m in mism[:1]:
        ctx.fail("compiled derive: binding keys differ from serde_json keys", dict(kind="property-violated", source=src, **m))
    return {"types": len(items), "compared": compared, "mismatching_types": len(mism),
            "fields": E2E_FIELDS, "variants": E2E_VARIANTS, "routing_items": len(routing),
            "routing_rule": "4 enum representations x variant-level untagged {no, yes} x rule source {rename_all_fields, variant rename_all, both, enum rename_all + rename_all_fields, enum rename_all only}: keys of both struct variants and the variant names on the wire vs in decl()"}
