"""C07 — declarations of generic types are parametric and well-scoped."""
import json
import re

import corpus as C
import corpus_run as CR
import vlib
from vlib import coq_list

FIELDS_OF_INTEREST = ("name", "inline", "decl", "decl_concrete", "flat")

INST_DEFS = """
Definition sn_of (ps : list str) (targs : list rty) (n : str) : option tsty :=
  match rho_of ps targs n with Some u => match name_of R u with Ok a => Some a | _ => None end | None => None end.
Definition sf_of (ps : list str) (targs : list rty) (n : str) : option tsty :=
  match rho_of ps targs n with Some u => match flat_of is_upper is_alnum is_numeric R fuel u with Ok a => Some a | _ => None end | None => None end.
(* the generic declaration expanded at the arguments, as text `type N = body;` *)
Definition expanded (t : rty) : str :=
  match def_of t with
  | Some d =>
      match decl_of is_upper is_alnum is_numeric R fuel d with
      | Ok dc => let ps := map fst (c_params (attrs_of d)) in
                 lit "type " ++ d_name dc ++ lit " = " ++ print (tsubst (sn_of ps (args_of t)) (sf_of ps (args_of t)) (d_body dc)) ++ lit ";"
      | _ => [0;80;65;78;73;67]%N
      end
  | None => [0;80;65;78;73;67]%N
  end.
Definition scoped_ok (t : rty) : bool :=
  match def_of t with
  | Some d => match decl_of is_upper is_alnum is_numeric R fuel d with
              | Ok dc => forallb (fun v => existsb (str_eqb v) (map fst (d_params dc))) (ftv (d_body dc))
              | _ => true end
  | None => true end.
Definition opt_ok_env : bool := forallb (fun e => opt_def_ok (snd e)) R.
Definition opt_ok (t : rty) : bool := match def_of t with Some d => opt_def_ok d | None => true end.
Definition src_ok : bool := src_env R.
"""


def run(ctx):
    ctx.prove()
    ndefs = 160 if ctx.quick else 500
    seeds = [ctx.seed] if ctx.quick else [ctx.seed, ctx.seed + 1, ctx.seed + 2]
    total_q = total_generic = total_inst = nontrivial = 0
    samples = []
    kinds = {}
    for seed in seeds:
        res = CR.corpus(seed, ndefs, log=vlib.log)
        try:
            check_one(ctx, res, seed)
            qs = res["queries"]
            by = {d["ident"]: d for d in res["defs"]}
            total_q += len(qs)
            gen_q = [i for i, t in enumerate(qs) if t[0] == "named" and by[t[1]]["params"]]
            total_inst += len(gen_q)
            total_generic += len({qs[i][1] for i in gen_q})
            nontrivial += len({res["q"][i]["decl_concrete"] for i in gen_q if not res["q"][i]["decl"].startswith("\x00")})
            for d in res["defs"]:
                k = d["kind"] + ("<%d>" % len(d["params"]) if d["params"] else "")
                kinds[k] = kinds.get(k, 0) + 1
            for i in gen_q[:3]:
                samples.append(dict(type=C.rust_ty(qs[i]), decl=res["q"][i]["decl"][:200], decl_concrete=res["q"][i]["decl_concrete"][:200]))
        finally:
            CR.corpus_done(res)
    ctx.finish_proof()
    ctx.coverage.update({
        "evaluations": total_q * len(FIELDS_OF_INTEREST) + total_inst,
        "distinct_nontrivial": nontrivial,
        "rule": "generated corpus of type definitions (structs/enums x representations x attributes x 0..3 type parameters with defaults), compiled against /repo with derive(TS, Serialize, Deserialize); every generic definition is queried at 3 instantiations (primitive, user type, nested); model text (Model/Gen.v) compared with the real name()/inline()/inline_flattened()/decl()/decl_concrete() byte for byte; seed definitions with #[ts(concrete(..))] on the first / last / middle / every parameter; oracles on the REAL texts: decl() identical across instantiations, name() of an instantiation = identifier applied to as many arguments as there are non-concretised parameters (equal to the real names of the arguments where those are queried too), free parameters of the body bound by the header (Coq ftv on the model AST whose print equals the real text), and the generic declaration expanded by Coq (tsubst) at the arguments equals the real decl_concrete(); non-trivial = distinct concrete declarations of generic definitions",
        "samples": samples[:6],
        "distribution": {"definitions_by_kind": kinds, "queries": total_q, "generic_definitions": total_generic,
                         "instantiations": total_inst, "seeds": seeds},
    })
    ctx.assumptions += [
        "type definitions carry parsed attributes (how attribute tokens become them is C10/C16)",
        "const parameters and lifetimes are not in the generated fragment; #[ts(concrete(P = Ty))] is handed to the model desugared (P removed, Ty substituted: tools/corpus.py desugar), the Rust side carries the real attribute",
    ]


def check_one(ctx, res, seed):
    qs = res["queries"]
    by = {d["ident"]: d for d in res["defs"]}
    # 1. text correspondence on the fields C07 is about
    mism = [m for m in res["mismatches"] if m["field"] in FIELDS_OF_INTEREST]
    # 2. oracles on the real outputs
    gen_q = [i for i, t in enumerate(qs) if t[0] == "named" and by[t[1]]["params"]]
    groups = {}
    for i in gen_q:
        groups.setdefault(qs[i][1], []).append(i)
    viol = []
    seen_headers = set()
    for ident, idxs in groups.items():
        decls = {res["q"][i]["decl"] for i in idxs}
        if len(decls) > 1:
            viol.append(dict(kind="property-violated", what="decl() differs between instantiations of one generic definition",
                             definition=C.to_rust(by[ident]), instantiations=[C.rust_ty(qs[i]) for i in idxs], decls=sorted(decls)))
        d = by[ident]
        want = "<" + ", ".join(p for p, _ in d["params"])
        for i in idxs:
            dc = res["q"][i]["decl"]
            if dc.startswith("\x00"):
                continue
            # the header binds exactly the parameters of the definition that are not concretised, in their order
            if d.get("type") or d.get("as_"):
                continue
            conc_ix = {int(k) for k, _ in (d.get("concrete") or [])}
            want_names = [p_.replace("r#", "") for k, (p_, _) in enumerate(d["params"]) if k not in conc_ix]
            head = dc[len("type "):dc.index(" = ")] if dc.startswith("type ") and " = " in dc else None
            got_names = None
            if head is not None:
                k0 = head.find("<")
                if k0 < 0:
                    got_names = []
                else:
                    # the header ends at the `>` that closes its `<`: the first ` = ` may lie inside a default
                    depth, end = 0, None
                    for pos in range(dc.index("<"), len(dc)):
                        ch = dc[pos]
                        if ch == "<":
                            depth += 1
                        elif ch == ">":
                            depth -= 1
                            if depth == 0:
                                end = pos
                                break
                    if end is not None:
                        parts, depth, cur = [], 0, ""
                        for ch in dc[dc.index("<") + 1:end]:
                            if ch in "<([{":
                                depth += 1
                            elif ch in ">)]}":
                                depth -= 1
                            elif ch == "," and depth == 0:
                                parts.append(cur.strip())
                                cur = ""
                                continue
                            cur += ch
                        parts.append(cur.strip())
                        got_names = [x.split(" = ", 1)[0].strip() for x in parts]
            if got_names is not None and got_names != want_names and dc not in seen_headers:
                seen_headers.add(dc)
                viol.append(dict(kind="property-violated", what="the header of the declaration does not bind exactly the type parameters of the definition that are not concretised",
                                 definition=C.to_rust(d), decl=dc, header_parameters=got_names, expected=want_names, seed=seed))
    # a reference to an instantiation is the identifier applied to the names of the (non-concretised) arguments
    def top_args(text):
        """the top-level arguments of `Name<..>` in the real name() text; None if there is no argument list"""
        k = text.find("<")
        if k < 0 or not text.endswith(">"):
            return None
        out, depth, cur, instr = [], 0, "", False
        for ch in text[k + 1:-1]:
            if ch == '"':
                instr = not instr
            if not instr:
                if ch in "<([{":
                    depth += 1
                elif ch in ">)]}":
                    depth -= 1
                elif ch == "," and depth == 0:
                    out.append(cur.strip())
                    cur = ""
                    continue
            cur += ch
        return out + [cur.strip()]
    name_of_q = {C.rust_ty(t): res["q"][i]["name"] for i, t in enumerate(qs)}
    for i in gen_q:
        t, d = qs[i], by[qs[i][1]]
        nm = res["q"][i]["name"]
        if nm.startswith("\x00") or d.get("type") or d.get("as_"):
            continue
        conc = {int(k) for k, _ in (d.get("concrete") or [])}
        free = [a for k, a in enumerate(t[2]) if k not in conc]
        ident = res["q"][i]["ident"]
        got = top_args(nm) if free else ([] if nm == ident else None)
        ok_shape = nm.startswith(ident) and got is not None and len(got) == len(free) and (free or nm == ident)
        known = [name_of_q.get(C.rust_ty(a)) for a in free]
        if not ok_shape or any(k is not None and not k.startswith("\x00") and k != g for k, g in zip(known, got or [])):
            viol.append(dict(kind="property-violated", what="a reference to an instantiation is not the identifier applied to the names of its non-concretised arguments",
                             type=C.rust_ty(t), name=nm, expected_arguments=len(free), names_of_arguments_known=known, definition=C.to_rust(d), seed=seed))
    # expansion of the generic declaration at the arguments == real decl_concrete (Coq does the substitution)
    terms = ["expanded %s" % C.coq_ty(qs[i]) for i in gen_q]
    flags = ["(if scoped_ok %s then [49] else [48])%%N" % C.coq_ty(qs[i]) for i in gen_q]
    optf = ["(if opt_ok %s then [49] else [48])%%N" % C.coq_ty(qs[i]) for i in gen_q]
    body = ("From TsRs Require Import Corr.%s Spec.TsFree Proofs.Gen_subst_proofs Proofs.Gen_decl_proofs.\n" % res["envname"] + CR.HEADER + INST_DEFS +
            "Eval vm_compute in %s.\n" % coq_list(terms + flags + optf + ["(if src_ok then [49] else [48])%N"], sep=";\n "))
    ok, out = vlib.coq_eval("%s_c07" % res["envname"], body, timeout=2400)
    if not ok:
        raise vlib.HarnessError("C07 oracle file failed: " + out[-3000:])
    vals = vlib.parse_coq_str_list(out.split("=", 1)[1].rsplit(":", 1)[0])
    n = len(gen_q)
    exp, sc, optok, srcok = vals[:n], vals[n:2 * n], vals[2 * n:3 * n], vals[3 * n]
    if srcok != "1":
        raise vlib.HarnessError("the generated environment is not a source environment (src_env R = false): the theorems' hypothesis is not met by the corpus")
    for k, i in enumerate(gen_q):
        real_c = res["q"][i]["decl_concrete"]
        real_d = res["q"][i]["decl"]
        rust = C.rust_ty(qs[i])
        if sc[k] != "1":
            viol.append(dict(kind="property-violated", what="declaration body mentions a type parameter its header does not bind",
                             type=rust, decl=real_d, definition=C.to_rust(by[qs[i][1]])))
        if real_d.startswith("\x00"):
            if not real_c.startswith("\x00"):
                ctx.known_class("generic_param_inlined", rust,
                                dict(kind="property-violated", type=rust, decl=real_d, decl_concrete=real_c, definition=C.to_rust(by[qs[i][1]])))
            continue
        if real_c.startswith("\x00") or exp[k].startswith("\x00"):
            continue
        if exp[k] != real_c:
            data = dict(kind="property-violated", what="expanding the generic declaration at the arguments differs from decl_concrete()",
                        type=rust, decl=real_d, expanded=exp[k], decl_concrete=real_c, definition=C.to_rust(by[qs[i][1]]), seed=seed)
            if optok[k] != "1" or any(optf == "0" for optf in []):
                ctx.known_class("optional_on_bare_param", rust, data)
            elif not env_opt_ok(res, by, qs[i]):
                ctx.known_class("optional_on_bare_param", rust, data)
            else:
                viol.append(data)
    for v in viol[:3]:
        ctx.fail(v.get("what", "violation"), v)
    if mism and not viol:
        ctx.fail("model and implementation disagree on generated text (correspondence)", dict(
            kind="correspondence-broken", broken="Corr/corpus_env: Model/Gen.v vs the derive's real output", first=mism[0], count=len(mism),
            definition=C.to_rust(by[qs[mism[0]["qi"]][1]]) if qs[mism[0]["qi"]][0] == "named" else None, seed=seed), no_input=True)


def env_opt_ok(res, by, t):
    """is every definition reachable from t free of `optional` on a bare parameter? (mirror of opt_def_ok, used only to
    classify a failing expansion as the known class; the decision that the expansion fails is Coq's)"""
    seen = set()
    todo = [t[1]] if t[0] == "named" else []
    while todo:
        i = todo.pop()
        if i in seen or i not in by:
            continue
        seen.add(i)
        d = by[i]
        if d["kind"] == "struct" and d["shape"] == "named":
            for f in d["fields"]:
                if (d.get("optional_fields") is not None or f["optional"] is not None) and (f["as_"] or f["ty"])[0] == "param":
                    return False
        todo += list(CR.def_refs(d))
    return True
