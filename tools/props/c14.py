"""C14 — inline, flatten and `as` change presentation, never meaning."""
import corpus as C
import corpus_run as CR
import sem_run as S
import tsparse
import vlib
from vlib import coq_list

from props.c01 import dup_keys, reach
from props.c07 import env_opt_ok


def run(ctx):
    ctx.prove()
    ndefs = 160 if ctx.quick else 500
    seeds = [ctx.seed] if ctx.quick else [ctx.seed, ctx.seed + 1, ctx.seed + 2]
    st = dict(queries=0, decl_concrete_checked=0, name_vs_inline_values=0, as_twins=0, inline_twins=0, inline_twin_values=0,
              bodies=0, unparsable=0, known=0)
    samples, distinct = [], set()
    for seed in seeds:
        res = CR.corpus(seed, ndefs, nvalues=3 if ctx.quick else 5, log=vlib.log)
        try:
            check_one(ctx, res, seed, st, samples, distinct)
        finally:
            CR.corpus_done(res)
    ctx.finish_proof()
    ctx.coverage.update({
        "evaluations": st["decl_concrete_checked"] + st["name_vs_inline_values"] + st["as_twins"] + st["inline_twin_values"] + st["bodies"] + st.get("flatten_twin_values", 0) + st.get("name_inline_equivalences", 0),
        "distinct_nontrivial": len(distinct),
        "rule": "generated corpus compiled against /repo; every definition with a field-level `as = \"U\"` has a generated twin whose field has type U (real declarations must be equal text), every definition with `inline` fields has a twin without `inline` (the same real serde_json values must be members of both real declarations, decided by Coq on the parsed real text); every host with flattened fields has a twin without them (the same real values must be members of the host declaration and of the intersection `Twin & Flattened..` read against the real declarations); for every library type expression (incl. arrays of 63 / 64 / 65 elements) the inhabitants Coq enumerates of the real name() are members of the real inline() and vice versa; for every value of every query type membership by the real name() and by the real inline() must agree; the real decl_concrete() must be `type N = ` + real inline() + `;`; norm_ok: the textual merge/paren-stripping of every declaration body equals its structural meaning; model text vs real text byte for byte; non-trivial = distinct (type, JSON) pairs and twin pairs compared",
        "samples": samples[:6],
        "distribution": st,
    })
    ctx.assumptions += ["`as` twins exist for field-level `as` only (container- and variant-level `as` are covered by the model text correspondence)"]


def check_one(ctx, res, seed, st, samples, distinct):
    qs = res["queries"]
    by = {d["ident"]: d for d in res["defs"]}
    ok, out = vlib.coq_make(["theories/Spec/TsSem.vo"])
    if not ok:
        raise vlib.HarnessError("Spec/TsSem.v does not build: " + out[-2000:])
    mism = [m for m in res["mismatches"] if m["field"] in ("name", "inline", "decl", "decl_concrete", "flat")]
    st["queries"] += len(qs)
    viol = []
    S.real_env(res)
    unparsable = set(res["real_errors"])
    st["unparsable"] += len(unparsable)
    first_q = {}
    for i, t in enumerate(qs):
        if t[0] == "named":
            first_q.setdefault(t[1], i)
    # O1: decl_concrete() = `type N = inline();`
    for i, t in enumerate(qs):
        q = res["q"][i]
        if t[0] != "named" or q["decl_concrete"].startswith("\x00") or q["inline"].startswith("\x00"):
            continue
        st["decl_concrete_checked"] += 1
        want = "type %s = %s;" % (q["ident"], q["inline"])
        if q["decl_concrete"] != want:
            viol.append(dict(kind="property-violated", what="decl_concrete() is not `type N = inline();`", type=C.rust_ty(t),
                             decl_concrete=q["decl_concrete"], inline=q["inline"], definition=C.to_rust(by[t[1]]), seed=seed))
    # O3: `as = "U"` twins: equal declarations
    for d in res["defs"]:
        if d.get("twin_kind") != "as" or d["twin_of"] not in first_q or d["ident"] not in first_q:
            continue
        a, b = res["q"][first_q[d["twin_of"]]], res["q"][first_q[d["ident"]]]
        if a["decl"].startswith("\x00") or b["decl"].startswith("\x00"):
            continue
        st["as_twins"] += 1
        distinct.add(("as", d["twin_of"]))
        if a["decl"] != b["decl"]:
            viol.append(dict(kind="property-violated", what="`as = \"U\"` does not yield the binding the item has when its type is U",
                             with_as=a["decl"], with_type_U=b["decl"], definition=C.to_rust(by[d["twin_of"]]), twin=C.to_rust(d), seed=seed))
    # values: O2 (name vs inline) and O4 (inline twins)
    ov = S.overrides(res)
    cases = []
    twin_of_inline = {d["twin_of"]: d["ident"] for d in res["defs"] if d.get("twin_kind") == "inline"}
    st["inline_twins"] += len(twin_of_inline)
    extra = []   # (orig query index, twin query index, json)
    for (qi, k), text in sorted(res["v"].items()):
        t = qs[qi]
        if text.startswith("\x00") or dup_keys(S.parse_json(text)):
            continue
        if t[0] == "named" and res["q"][qi]["decl"].startswith("\x00"):
            continue
        ids = {d["ident"] for d in reach(by, t)}
        if ids & unparsable:
            continue
        if not (CR.referenced(t, set()) & ov):
            cases.append((qi, text))
        if t[0] == "named" and t[1] in twin_of_inline and twin_of_inline[t[1]] in first_q and not t[2]:
            tw = first_q[twin_of_inline[t[1]]]
            if not qs[tw][2] and not ({d["ident"] for d in reach(by, qs[tw])} & unparsable):
                extra.append((qi, tw, text))
    r = S.membership(res, cases + [(tw, text) for _, tw, text in extra], "c14")
    for (qi, text), rr in zip(cases, r[:len(cases)]):
        if rr is None:
            continue
        st["name_vs_inline_values"] += 1
        distinct.add((C.rust_ty(qs[qi]), text))
        if rr[0] != rr[1] and not env_opt_ok(res, by, qs[qi]):
            # IS_OPTION of a bare type parameter is decided per instantiation (the known class of C07, seen through inline())
            ctx.known_class("optional_on_bare_param", C.rust_ty(qs[qi]), dict(kind="property-violated", type=C.rust_ty(qs[qi]), json=text,
                            by_name=rr[0], by_inline=rr[1], name=res["q"][qi]["name"], inline=res["q"][qi]["inline"], seed=seed))
        elif rr[0] != rr[1]:
            viol.append(dict(kind="property-violated", what="a value is a member of the type by name() but not by inline() (or the reverse)",
                             type=C.rust_ty(qs[qi]), json=text, by_name=rr[0], by_inline=rr[1], name=res["q"][qi]["name"],
                             inline=res["q"][qi]["inline"], seed=seed))
    orig_r = {(qi, text): rr for (qi, text), rr in zip(cases, r[:len(cases)])}
    # originals that were excluded from `cases` (overrides) are evaluated on demand
    need = [(qi, text) for qi, tw, text in extra if (qi, text) not in orig_r]
    if need:
        for (qi, text), rr in zip(need, S.membership(res, need, "c14b")):
            orig_r[(qi, text)] = rr
    for (qi, tw, text), rt in zip(extra, r[len(cases):]):
        ro = orig_r.get((qi, text))
        if ro is None or rt is None:
            continue
        st["inline_twin_values"] += 1
        distinct.add(("inline", C.rust_ty(qs[qi]), text))
        if ro[0] != rt[0]:
            viol.append(dict(kind="property-violated", what="marking a field `inline` changes which JSON values the declaration admits",
                             json=text, member_with_inline=ro[0], member_without_inline=rt[0], with_inline=res["q"][qi]["decl"],
                             without_inline=res["q"][tw]["decl"], definition=C.to_rust(by[qs[qi][1]]), seed=seed))
        elif len(samples) < 6:
            samples.append(dict(json=text[:160], with_inline=res["q"][qi]["decl"][:160], without_inline=res["q"][tw]["decl"][:160]))
    # O6: flatten twins: a host denotes the intersection of (the host without its flattened fields) and the flattened types
    bodies = S.bodies_ok(res)
    fl_cases, fl_meta = [], []
    for d in res["defs"]:
        if d.get("twin_kind") != "flatten" or d["twin_of"] not in first_q or d["ident"] not in first_q:
            continue
        host = by[d["twin_of"]]
        hq = first_q[d["twin_of"]]
        ids = {x["ident"] for x in reach(by, qs[hq])} | {d["ident"]}
        if ids & unparsable or ids & ov or not bodies.get(hq, True):
            continue
        inter = " & ".join([d["ident"]] + ["(%s)" % (by[f]["rename"] or f) for f in d["flattened"]])
        for (qi, k), text in sorted(res["v"].items()):
            if qi != hq or text.startswith("\x00") or dup_keys(S.parse_json(text)):
                continue
            fl_cases += [(res["q"][hq]["name"], text), (inter, text)]
            fl_meta.append((host, inter, text))
    fl = S.membership_texts(res, fl_cases, "c14fl") if fl_cases else []
    st["flatten_twin_values"] = st.get("flatten_twin_values", 0) + len(fl_meta)
    for k, (host, inter, text) in enumerate(fl_meta):
        a, b = fl[2 * k], fl[2 * k + 1]
        if a is None or b is None:
            continue
        distinct.add(("flatten", host["ident"], text))
        if a != b:
            viol.append(dict(kind="property-violated", what="a host with flattened fields does not denote the intersection of its own fields and the flattened types",
                             json=text, member_of_host_declaration=a, member_of_intersection=b, intersection=inter,
                             host_declaration=res["q"][first_q[host["ident"]]]["decl"], definition=C.to_rust(host), seed=seed))
    # O7: name() and inline() of a library type expression denote the same set: inhabitants of either (enumerated by Coq)
    # are members of the other; needs no serde (arrays beyond 32 elements have no Serialize impl)
    lib_q = [i for i, t in enumerate(qs) if t[0] != "named" and not res["q"][i]["inline"].startswith("\x00") and not res["q"][i]["name"].startswith("\x00")
             and not ({d["ident"] for d in reach(by, t)} & (unparsable | ov))]
    weq = S.witness_equiv(res, [(res["q"][i]["name"], res["q"][i]["inline"]) for i in lib_q], "c14weq")
    st["name_inline_equivalences"] = st.get("name_inline_equivalences", 0) + len(lib_q)
    for i, w in zip(lib_q, weq):
        if w:
            viol.append(dict(kind="property-violated", what="name() and inline() of a library type denote different sets of values",
                             type=C.rust_ty(qs[i]), name=res["q"][i]["name"][:300], inline=res["q"][i]["inline"][:300], separating_value=w[:300], seed=seed))
    # O5: the textual rewrites coincide with the structural merge
    st["bodies"] += len(bodies)
    for i, okb in bodies.items():
        if not okb:
            t = qs[i]
            ctx.known_class("textual_merge", C.rust_ty(t), dict(kind="property-violated", type=C.rust_ty(t), decl=res["q"][i]["decl"],
                                                                definition=C.to_rust(by[t[1]]), seed=seed))
    for v in viol[:3]:
        ctx.fail(v["what"], v)
    if mism and not viol:
        ctx.fail("model and implementation disagree on generated text (correspondence)", dict(
            kind="correspondence-broken", broken="Corr/corpus_env: Model/Gen.v vs the derive's real output", first=mism[0], count=len(mism), seed=seed),
            no_input=True)
