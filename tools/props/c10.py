"""C10 — serde and ts attribute spellings are equivalent; ts wins; unknown serde is inert."""
import itertools
import random
import re

import vlib
from vlib import coq_str, coq_list

POS = ["struct", "enum", "variant", "field"]
COQ_POS = {"struct": "PStruct", "enum": "PEnum", "variant": "PVariant", "field": "PField"}
RULE_DEBUG = {"Lower": "lowercase", "Upper": "UPPERCASE", "Camel": "camelCase", "Snake": "snake_case", "Pascal": "PascalCase",
              "ScreamingSnake": "SCREAMING_SNAKE_CASE", "Kebab": "kebab-case", "ScreamingKebab": "SCREAMING-KEBAB-CASE"}
# record fields per position (as dumped by the hook), and the model field that feeds each
FIELDS = {
    "struct": ["as", "type", "rename_all", "rename", "export_to", "export", "tag", "concrete", "bound", "optional_fields"],
    "enum": ["as", "type", "rename_all", "rename_all_fields", "rename", "export_to", "export", "tag", "untagged", "content", "concrete", "bound"],
    "variant": ["as", "type", "rename", "rename_all", "inline", "skip", "untagged"],
    "field": ["as", "type", "rename", "inline", "skip", "optional", "flatten", "with"],
}
MODEL_FIELD = {"as": "type_as", "type": "type_override", "with": "using_serde_with"}
FLAGS = {"export", "untagged", "inline", "skip", "flatten", "with"}

# an entry of an attribute list: (source text, Coq tokens)
def ent(src, toks):
    return (src, toks)


def kid(s):
    return "KId %s" % coq_str(s)


def kstr(s):
    return "KStr %s" % coq_str(s)


def entry_for(key, kind, variant=0):
    """a well-formed entry for a key whose handler has the given kind"""
    if kind == "HFlag":
        return ent(key, [kid(key)])
    if kind in ("HStr", "HExpr"):
        v = ["val_a", "val_b", "other value"][variant % 3]
        return ent('%s = "%s"' % (key, v), [kid(key), "KEq", kstr(v)])
    if kind == "HRule":
        v = ["camelCase", "SCREAMING_SNAKE_CASE", "kebab-case"][variant % 3]
        return ent('%s = "%s"' % (key, v), [kid(key), "KEq", kstr(v)])
    if kind == "HFromStr":
        v = ["i32", "String", "u8"][variant % 3]
        return ent('%s = "%s"' % (key, v), [kid(key), "KEq", kstr(v)])
    if kind == "HBound":
        v = ["T: Clone", "T: Copy"][variant % 2]
        return ent('%s = "%s"' % (key, v), [kid(key), "KEq", kstr(v)])
    if kind == "HConcrete":
        return ent("%s(T = i32)" % key, [kid(key), "KGroup [%s; KEq; %s]" % (kid("T"), kid("i32"))])
    if kind == "HOptional":
        if variant % 2:
            return ent("%s = nullable" % key, [kid(key), "KEq", kid("nullable")])
        return ent(key, [kid(key)])
    if kind in ("HIgnoreAssign", "HIgnoreAssign2"):
        if variant % 2:
            return ent('%s = "some::path"' % key, [kid(key), "KEq", kstr("some::path")])
        return ent(key, [kid(key)])
    if kind == "HWith":
        return ent('%s = "module"' % key, [kid(key), "KEq", kstr("module")])
    raise ValueError(kind)


# serde attributes ts-rs does not support (from serde's documentation), in the forms users write
UNKNOWN = [
    ent("deny_unknown_fields", [kid("deny_unknown_fields")]),
    ent("transparent", [kid("transparent")]),
    ent("borrow", [kid("borrow")]),
    ent('skip_serializing_if = "Option::is_none"', [kid("skip_serializing_if"), "KEq", kstr("Option::is_none")]),
    ent('alias = "other"', [kid("alias"), "KEq", kstr("other")]),
    ent('from = "Other"', [kid("from"), "KEq", kstr("Other")]),
    ent('getter = "Other::get"', [kid("getter"), "KEq", kstr("Other::get")]),
    ent('expecting = "a thing"', [kid("expecting"), "KEq", kstr("a thing")]),
    ent('crate = "my_serde"', [kid("crate"), "KEq", kstr("my_serde")]),
    ent("other", [kid("other")]),
    ent('variant_identifier', [kid("variant_identifier")]),
    ent('serialize_with = "path"', [kid("serialize_with"), "KEq", kstr("path")]),
    # keys that look like `skip` and are not: serde still writes a `skip_deserializing` field
    ent("skip_deserializing", [kid("skip_deserializing")]),
    ent("skip_serializing", [kid("skip_serializing")]),
    # keys followed by a parenthesised list
    ent('bound(serialize = "T: Clone")', [kid("bound"), "KGroup [%s; KEq; %s]" % (kid("serialize"), kstr("T: Clone"))]),
    ent('made_up(a = "b", c)', [kid("made_up"), "KGroup [%s; KEq; %s; KComma; %s]" % (kid("a"), kstr("b"), kid("c"))]),
]
# known keys in a form the handlers cannot parse (serde accepts them)
LIST_FORM = [
    ent('rename(serialize = "ser_name", deserialize = "de_name")', [kid("rename"), "KGroup [%s; KEq; %s; KComma; %s; KEq; %s]" % (
        kid("serialize"), kstr("ser_name"), kid("deserialize"), kstr("de_name"))]),
    ent('bound(serialize = "T: Clone")', [kid("bound"), "KGroup [%s; KEq; %s]" % (kid("serialize"), kstr("T: Clone"))]),
    ent('rename_all(serialize = "camelCase")', [kid("rename_all"), "KGroup [%s; KEq; %s]" % (kid("serialize"), kstr("camelCase"))]),
]


def src_of(attrs):
    return " ".join("#[%s(%s)]" % ("ts" if ts else "serde", ", ".join(e[0] for e in es) + ("," if trail else "")) for ts, es, trail in attrs) + " struct S;"


def coq_of(attrs):
    out = []
    for ts, es, trail in attrs:
        toks = []
        for k, e in enumerate(es):
            if k:
                toks.append("KComma")
            toks += e[1]
        if trail:
            toks.append("KComma")
        out.append("(%s, %s)" % ("true" if ts else "false", coq_list(toks)))
    return coq_list(out)


def canon_real(pos, ans):
    if ans[0] != "OK":
        return "ERR" if ans[0] == "ERR" else "PANIC"
    rec = dict(x.split("=", 1) for x in ans[1:])
    out = []
    for f in FIELDS[pos]:
        v = rec[f]
        if v == "\x01none" or v == "-":
            v = "-"
        if f in ("rename_all", "rename_all_fields") and v in RULE_DEBUG:
            v = RULE_DEBUG[v]
        if f in ("rename", "export_to") and len(v) >= 2 and v[0] == '"' and v[-1] == '"' and pos != "field":
            v = v[1:-1]
        if f == "as":
            v = v.replace(" ", "")
            if v == "__Original":
                v = "-"
        if f in ("bound", "concrete"):
            v = v.replace(" ", "")
            if v == "":
                v = "-"
        out.append("%s=%s" % (f, v))
    return ";".join(out)


HEADER = """From TsRs Require Import Base.Str Base.Outcome Gen.Tables Model.Attr Tools.Digest.
Definition show_toks (l : list tok) : str :=
  concat (map (fun t => match t with KId s => s | KStr s => s | KEq => [61] | KComma => [44] | KOther s => s | KGroup _ => [40;41] end) l)%N.
Definition show (flag : bool) (f : str) (p : parsed) : str :=
  if flag then (if has_field f p then lit "true" else lit "false")
  else match value_of f p with
       | None => [45]%N
       | Some AFlag => lit "true"
       | Some (AStr s) => filter (fun c => negb (c =? 32)%N) s
       | Some (AToks l) => show_toks l
       | Some (AOpt _) => lit "optional:" ++ (if nullable_of f p then lit "true" else lit "false")
       end.
Definition render (fields : list (bool * str * str)) (o : outcome parsed) : str :=
  match o with
  | Ok p => join [59]%N (map (fun e => snd e ++ [61]%N ++ show (fst (fst e)) (snd (fst e)) p) fields)
  | Err _ => lit "ERR"
  | Panic _ => lit "PANIC"
  end.
"""


def fields_term(pos):
    return coq_list(["(%s, %s, %s)" % ("true" if f in FLAGS else "false", coq_str(MODEL_FIELD.get(f, f)), coq_str(f)) for f in FIELDS[pos]])


def model_records(cases, compat=True, tag="c10"):
    """cases: list of (pos, attrs) -> canonical record strings from Model/Attr.v"""
    idx = list(range(len(cases)))
    nsh = 8
    shards = [idx[k::nsh] for k in range(nsh)]
    files = []
    for k, sh in enumerate(shards):
        if not sh:
            continue
        defs = "".join("Definition fields_%s := %s.\n" % (p, fields_term(p)) for p in POS)
        terms = ["render fields_%s (from_attrs %s %s %s)" % (cases[c][0], "true" if compat else "false", COQ_POS[cases[c][0]], coq_of(cases[c][1])) for c in sh]
        files.append(("cases_%s_%d" % (tag, k), HEADER + defs + "Eval vm_compute in %s.\n" % coq_list(terms, sep=";\n ")))
    outs = vlib.coq_eval_many(files, timeout=1800)
    res = {}
    for (nm, _), (ok, out), sh in zip(files, outs, [s for s in shards if s]):
        if not ok:
            raise vlib.HarnessError("%s.v failed: %s" % (nm, out[-3000:]))
        vals = vlib.parse_coq_str_list(out.split("=", 1)[1].rsplit(":", 1)[0])
        if len(vals) != len(sh):
            raise vlib.HarnessError("%s.v: %d answers for %d cases" % (nm, len(vals), len(sh)))
        for c, v in zip(sh, vals):
            res[c] = v
    return [res[c] for c in idx]


def tables():
    """key tables with handler kinds, as Coq classifies the regenerated handler texts"""
    body = HEADER + """
Definition kind_name (k : hkind) : str := match k with HFlag => lit "HFlag" | HStr => lit "HStr" | HExpr => lit "HExpr" | HRule => lit "HRule"
  | HFromStr => lit "HFromStr" | HBound => lit "HBound" | HConcrete => lit "HConcrete" | HOptional => lit "HOptional"
  | HIgnoreAssign => lit "HIgnoreAssign" | HIgnoreAssign2 => lit "HIgnoreAssign2" | HWith => lit "HWith" end.
Definition dump (t : list (str * str)) : list str :=
  map (fun e => fst e ++ [61]%N ++ match handler_of (snd e) with Some (f, k) => kind_name k | None => lit "?" end) t.
Eval vm_compute in flat_map (fun p => [lit "#ts"] ++ dump (ts_table p) ++ [lit "#serde"] ++ dump (serde_table p)) all_positions.
"""
    ok, out = vlib.coq_eval("cases_c10_tables", body)
    if not ok:
        raise vlib.HarnessError("tables file failed: " + out[-2000:])
    vals = vlib.parse_coq_str_list(out.split("=", 1)[1].rsplit(":", 1)[0])
    res, cur = {}, None
    pi = -1
    for v in vals:
        if v == "#ts":
            pi += 1
            cur = res.setdefault((POS[pi], "ts"), [])
        elif v == "#serde":
            cur = res.setdefault((POS[pi], "serde"), [])
        else:
            k, kind = v.split("=")
            cur.append((k, kind))
    return res


def run(ctx):
    ctx.prove()
    ok, out = vlib.coq_make(["theories/Model/Attr.vo", "theories/Tools/Digest.vo"])
    if not ok:
        raise vlib.HarnessError("Model/Attr.v does not build: " + out[-2000:])
    rng = random.Random(ctx.seed)
    T = tables()
    for key, rows in T.items():
        for k, kind in rows:
            if kind == "?":
                raise vlib.HarnessError("handler of key %s at %s is not classified by Model/Attr.v: handler_of" % (k, key))
    cases = []     # (pos, attrs, label)
    pairs = []     # oracle pairs: (index a, index b, what) records must be equal
    wins = []      # (index, field, expected canonical value, what)

    def add(pos, attrs, label):
        cases.append((pos, attrs, label))
        return len(cases) - 1

    for pos in POS:
        ts_t, sd_t = dict(T[(pos, "ts")]), dict(T[(pos, "serde")])
        shared = [k for k in sd_t if k in ts_t]
        supported = [(k, sd_t[k]) for k in sd_t]
        # (1) spelling equivalence for every key of both tables, alone and next to each other supported key
        for k in shared:
            for var in (0, 1):
                e = entry_for(k, sd_t[k], var)
                a = add(pos, [(False, [e], False)], "serde:" + k)
                b = add(pos, [(True, [e], False)], "ts:" + k)
                pairs.append((a, b, "spelling of `%s` at %s" % (k, pos)))
            for k2 in shared:
                if k2 != k and rng.random() < (0.5 if ctx.quick else 1.0):
                    es = [entry_for(k, sd_t[k], 0), entry_for(k2, sd_t[k2], 1)]
                    a = add(pos, [(False, es, False)], "serde pair")
                    b = add(pos, [(True, es, False)], "ts pair")
                    c = add(pos, [(False, [es[0]], False), (True, [es[1]], False)], "mixed pair")
                    pairs.append((a, b, "spelling of `%s, %s` at %s" % (k, k2, pos)))
                    if not (k2 == "skip" and pos in ("field", "variant")):   # #[ts(skip)] switches the item's serde attributes off (checked in (4))
                        pairs.append((a, c, "spelling of `%s` (serde) + `%s` (ts) at %s" % (k, k2, pos)))
        # (2) ts wins on valued keys, in both attribute orders
        for k in shared:
            if sd_t[k] in ("HStr", "HExpr", "HRule", "HFromStr"):
                e_ts, e_sd = entry_for(k, ts_t[k], 0), entry_for(k, sd_t[k], 1)
                only = add(pos, [(True, [e_ts], False)], "ts only")
                a = add(pos, [(True, [e_ts], False), (False, [e_sd], False)], "ts then serde")
                b = add(pos, [(False, [e_sd], False), (True, [e_ts], False)], "serde then ts")
                pairs.append((only, a, "ts wins over serde for `%s` at %s" % (k, pos)))
                pairs.append((only, b, "ts wins over serde for `%s` at %s (serde written first)" % (k, pos)))
        # (3) unknown / unparseable serde entries are inert, in every position of the list, with and without trailing comma
        base_lists = [[entry_for(k, kd, 0)] for k, kd in supported if kd not in ("HIgnoreAssign", "HIgnoreAssign2")]
        base_lists += [[entry_for(a, sd_t[a], 0), entry_for(b, sd_t[b], 1)] for a, b in itertools.permutations([k for k, kd in supported if kd not in ("HIgnoreAssign", "HIgnoreAssign2")], 2)
                       if rng.random() < (0.35 if ctx.quick else 1.0)]
        unknown_here = [u for u in UNKNOWN if u[0].split(" ")[0].split("(")[0] not in sd_t]
        for es in base_lists:
            ref = add(pos, [(False, es, False)], "reference")
            tr = add(pos, [(False, es, True)], "trailing comma")
            pairs.append((ref, tr, "a trailing comma in a serde list at %s" % pos))
            if len(es) == 2 and es[0][0].split(" ")[0] != es[1][0].split(" ")[0]:
                # the entries of one list written as two attributes, in both orders (serde reads them as one set)
                sp1 = add(pos, [(False, [es[0]], False), (False, [es[1]], False)], "split")
                sp2 = add(pos, [(False, [es[1]], False), (False, [es[0]], False)], "split, reversed")
                pairs.append((ref, sp1, "`%s` and `%s` written in two #[serde(..)] attributes at %s" % (es[0][0], es[1][0], pos)))
                pairs.append((ref, sp2, "`%s` and `%s` written in two #[serde(..)] attributes (reversed) at %s" % (es[0][0], es[1][0], pos)))
                k0, k1 = es[0][0].split(" ")[0], es[1][0].split(" ")[0]
                if k0 in ts_t and k1 in ts_t and ts_t[k0] == sd_t[k0] and ts_t[k1] == sd_t[k1] and "skip" not in (k0, k1):   # #[ts(skip)] switches serde parsing off (documented)
                    mx1 = add(pos, [(True, [es[0]], False), (False, [es[1]], False)], "split, first as ts")
                    mx2 = add(pos, [(False, [es[0]], False), (True, [es[1]], False)], "split, second as ts")
                    pairs.append((ref, mx1, "`%s` (ts) and `%s` (serde) in two attributes at %s" % (es[0][0], es[1][0], pos)))
                    pairs.append((ref, mx2, "`%s` (serde) and `%s` (ts) in two attributes at %s" % (es[0][0], es[1][0], pos)))
            # (quick: a sample, plus always the keys that extend a known key: `skip_serializing`, `skip_deserializing`, ..)
            near = [u for u in unknown_here if any(u[0].split(" ")[0].split("(")[0].startswith(k + "_") for k in sd_t)]
            for u in (unknown_here if not ctx.quick else near + [u for u in rng.sample(unknown_here, min(5, len(unknown_here))) if u not in near]):
                for i in range(len(es) + 1):
                    a = add(pos, [(False, es[:i] + [u] + es[i:], False)], "unknown inserted")
                    pairs.append((ref, a, "unsupported serde attribute `%s` at index %d of a list at %s" % (u[0], i, pos)))
                b = add(pos, [(False, [u], False), (False, es, False)], "unknown in its own list")
                pairs.append((ref, b, "unsupported serde attribute `%s` in its own #[serde(..)] at %s" % (u[0], pos)))
            # ignored-with-argument keys (`default = "path"`) next to supported ones
            for k, kd in supported:
                if kd in ("HIgnoreAssign", "HIgnoreAssign2"):
                    for var in (0, 1):
                        e = entry_for(k, kd, var)
                        for i in range(len(es) + 1):
                            a = add(pos, [(False, es[:i] + [e] + es[i:], False)], "ignored key inserted")
                            pairs.append((ref, a, "`%s` at index %d of a serde list at %s" % (e[0], i, pos)))
            # list-form values of known keys: serde accepts them, the handlers cannot parse them
            for u in LIST_FORM:
                if u[0].split("(")[0] in sd_t and not any(e[0].split(" ")[0] == u[0].split("(")[0] for e in es):
                    a = add(pos, [(False, [u] + es, False)], "list form")
                    pairs.append((ref, a, "KF:list-form `%s` next to supported attributes at %s" % (u[0], pos)))
                    # in a list of its own the unparseable list is dropped, the other lists must be unaffected
                    b = add(pos, [(False, [u], False), (False, es, False)], "list form in its own list, first")
                    c = add(pos, [(False, es, False), (False, [u], False)], "list form in its own list, last")
                    pairs.append((ref, b, "an unparseable #[serde(%s)] before another #[serde(..)] at %s" % (u[0], pos)))
                    pairs.append((ref, c, "an unparseable #[serde(%s)] after another #[serde(..)] at %s" % (u[0], pos)))
        # (4) #[ts(skip)] switches serde parsing off on fields and variants
        if pos in ("field", "variant"):
            for k in shared:
                if k != "skip":
                    a = add(pos, [(True, [entry_for("skip", "HFlag")], False)], "ts skip")
                    b = add(pos, [(True, [entry_for("skip", "HFlag")], False), (False, [entry_for(k, sd_t[k], 0)], False)], "ts skip + serde")
                    pairs.append((a, b, "#[ts(skip)] suppresses #[serde(%s)] at %s" % (k, pos)))
    if ctx.replay:
        import json
        rp = json.load(open(ctx.replay))
        if "source" in rp:
            pass
    # implementation (in-process hook, default features = serde-compat)
    real = [canon_real(p, a) for (p, _, _), a in zip(cases, vlib.macro_hook([["attrs", p, src_of(at)] for p, at, _ in cases]))]
    model = model_records([(p, at) for p, at, _ in cases])
    corr = [dict(position=p, source=src_of(at), model=m, implementation=r) for (p, at, _), m, r in zip(cases, model, real) if m != r]
    viol, known = [], 0
    nontrivial = set()
    for a, b, what in pairs:
        if real[a] not in ("ERR", "PANIC") and real[a] != canon_real(cases[a][0], ["OK"] + ["%s=%s" % (f, "false" if f in FLAGS else "-") for f in FIELDS[cases[a][0]]]):
            nontrivial.add(src_of(cases[a][1]))
        if real[a] != real[b]:
            data = dict(kind="property-violated", what=what.replace("KF:", ""), position=cases[a][0], left=src_of(cases[a][1]), right=src_of(cases[b][1]),
                        left_record=real[a], right_record=real[b])
            if what.startswith("KF:"):
                known += 1
                ctx.known_class("serde_list_form_value", what[3:], data)
            else:
                viol.append(data)
    # (4b) the cargo feature `no-serde-warnings` only silences the warnings: every record is what it is without the feature
    quiet = [canon_real(p, a) for (p, _, _), a in zip(cases, vlib.macro_hook([["attrs", p, src_of(at)] for p, at, _ in cases],
                                                                           features=("serde-compat", "no-serde-warnings"), tag="quiet"))]
    for (p, at, lab), r, qv in zip(cases, real, quiet):
        if r != qv:
            viol.append(dict(kind="property-violated", what="the feature no-serde-warnings changes what the attributes mean", position=p, source=src_of(at),
                             record_default_features=r, record_with_no_serde_warnings=qv))
    # (5) serde compatibility switched off: serde attributes have no effect at all
    off_cases = [(p, at) for p, at, lab in cases if all(not ts for ts, _, _ in at)][: (150 if ctx.quick else 1500)]
    off_cases = [(p, []) for p in POS] + off_cases
    off_real = [canon_real(p, a) for (p, _), a in zip(off_cases, vlib.macro_hook([["attrs", p, src_of(at)] for p, at in off_cases], features=(), tag="nocompat"))]
    off_model = model_records(off_cases, compat=False, tag="c10off")
    default_rec = {p: off_real[k] for k, p in enumerate(POS)}
    for (p, at), r, m in zip(off_cases, off_real, off_model):
        if r != m:
            corr.append(dict(position=p, source=src_of(at), model=m, implementation=r, features="no serde-compat"))
        if r != default_rec[p]:
            viol.append(dict(kind="property-violated", what="with serde-compat switched off a serde attribute changed the parsed attributes", position=p,
                             source=src_of(at), record=r, expected=default_rec[p]))
    viol.sort(key=lambda d: len(d.get("right", d.get("source", ""))))
    for v in viol[:3]:
        ctx.fail(v["what"], v)
    if corr and not viol:
        ctx.fail("model and implementation disagree on parsed attributes (correspondence)", dict(
            kind="correspondence-broken", broken="Corr/cases_c10_*.v: Model/Attr.v vs the attribute parsers of the derive", first=corr[0], count=len(corr)),
            no_input=True)
    ctx.finish_proof()
    ctx.coverage.update({
        "evaluations": len(cases) + len(off_cases),
        "distinct_nontrivial": len(nontrivial),
        "rule": "attribute lists built from the key tables regenerated from the source (every key of every impl_parse! table at the four positions, with values of the kind its handler expects): every shared key alone and in pairs in both spellings and mixed; both spellings with different values in both attribute orders (ts must win); every unsupported serde attribute of a 12-entry catalogue inserted at every index of every 1- and 2-entry list and in its own list; `default`/`deny_unknown_fields` with and without argument; trailing commas; the entries of a two-entry list written as two attributes in both orders and in mixed spelling; list-form values of known keys; #[ts(skip)] + serde; run through the real attribute parsers (in-process hook) and through Model/Attr.v, records compared; the property's equalities are evaluated on the REAL records; second build without serde-compat, third build with no-serde-warnings (records must not change); non-trivial = distinct attribute sets whose record differs from the default",
        "samples": [dict(position=cases[k][0], source=src_of(cases[k][1]), record=real[k]) for k in (0, len(cases) // 3, len(cases) // 2, len(cases) - 1)],
        "correspondence": {"cases": len(cases) + len(off_cases), "confirmed_breaks": len(corr)},
        "oracle": {"equalities_checked": len(pairs), "violations": len(viol), "known": known},
    })
    ctx.assumptions += ["attribute values are simple literals (syn's expression/type parsing of exotic values is not modelled)",
                        "stderr is writable (print_warning(..).unwrap() is not exercised with a closed stderr)"]
