"""C13 — bindings are a deterministic function of the source and configuration."""
import os
import shutil
import time

import corpus as C
import corpus_run as CR
import vlib

EXPORT_DIR = os.path.join(vlib.CACHE, "export_c13", "out")


def rebuild(res, k):
    """recompile the corpus crate from scratch-ish: the derive macros run again in a fresh rustc process
    (new HashSet seeds); returns the Q records of the new binary"""
    d = vlib.crate_dir("corpus_main")
    src = os.path.join(d, "src/main.rs")
    text = open(src).read()
    with open(src, "w") as f:
        f.write(text.rstrip("\n") + "\n// rebuild %d %f\n" % (k, time.time()))
    env = {"CARGO_TARGET_DIR": os.path.join(vlib.CACHE, "target-corpus"), "RUSTFLAGS": vlib.HOOK_CFG + " -Awarnings"}
    with vlib.Lock("cargo-target-corpus"):
        p = vlib.run(["cargo", "build", "--offline", "--quiet"], cwd=d, env=env, timeout=2400)
    if p.returncode != 0:
        raise vlib.HarnessError("rebuild of the corpus crate failed: " + p.stderr[-2000:])
    q, v, _ = CR.run_binary(res["exe"])
    with open(src, "w") as f:
        f.write(text)
    return q, v


def run(ctx):
    ctx.prove()
    ndefs = 140 if ctx.quick else 400
    res = CR.corpus(ctx.seed, ndefs, log=vlib.log, use_cache=False)
    viol = []
    try:
        qs = res["queries"]
        by = {d["ident"]: d for d in res["defs"]}
        mism = [m for m in res["mismatches"] if m["field"] in ("deps", "export", "name", "inline", "decl")]
        # (1) independent rebuilds: identical strings (dependencies() as a set: its ORDER is the hash order, not observable in files)
        k_builds = 2 if ctx.quick else 5
        runs = [(res["q"], res["v"])]
        order_differs = 0
        for k in range(1, k_builds):
            runs.append(rebuild(res, k))
        base_q = runs[0][0]
        for k, (q, v) in enumerate(runs[1:], 1):
            for i in range(len(qs)):
                for f in CR.QFIELDS:
                    a, b = base_q[i][f], q[i][f]
                    if f == "deps":
                        if a != b:
                            order_differs += 1
                        a, b = CR.canon_real(f, a), CR.canon_real(f, b)
                    if a != b:
                        viol.append(dict(kind="property-violated", what="%s() differs between two builds of the same source" % f,
                                         type=C.rust_ty(qs[i]), build_0=a, build_k=b, k=k,
                                         definition=C.to_rust(by[qs[i][1]]) if qs[i][0] == "named" else None))
        # (2) exporting everything into one directory: any order, any number of threads, any build -> the same tree
        mixed_checks = 0
        trees = []
        configs = [(0, 1), (1, 1), (7, 1), (0, 4), (3, 16)] if ctx.quick else [(0, 1), (1, 1), (7, 1), (11, 1), (0, 4), (3, 16), (5, 16), (9, 8), (13, 2)]
        for order, threads in configs:
            st, tree = CR.run_export_all(res["exe"], EXPORT_DIR, order, threads)
            trees.append(((order, threads), st, tree))
        ref_cfg, ref_st, ref_tree = trees[0]
        for cfg, st, tree in trees[1:]:
            if st != ref_st:
                viol.append(dict(kind="property-violated", what="export results differ between export orders / thread counts",
                                 config=cfg, reference=ref_cfg, differing=[(i, ref_st.get(i), st.get(i)) for i in st if st.get(i) != ref_st.get(i)][:5]))
            if tree != ref_tree:
                diff = [p for p in sorted(set(tree) | set(ref_tree)) if tree.get(p) != ref_tree.get(p)]
                # C05's known class makes a shared file order-dependent: the words `export type ` inside a declaration body
                # (a doc comment); a doc comment with an empty line did too until fix 178c3c3
                known_cls = None
                if all(p in tree and p in ref_tree for p in diff):
                    def blocks(txt):
                        return [b for b in txt.split("\n\n")[1:] if b.strip()]
                    if all(any(b.count("export type ") > 1 for b in blocks(ref_tree[p])) for p in diff):
                        known_cls = "export_type_in_body"
                if known_cls:
                    ctx.known_class(known_cls, "%s under order=%d threads=%d" % (diff[0], cfg[0], cfg[1]),
                                    dict(kind="property-violated", config=cfg, reference=ref_cfg, differing_files=diff[:5]))
                    continue
                viol.append(dict(kind="property-violated", what="the exported files depend on the order of exports / the number of threads",
                                 config=dict(order=cfg[0], threads=cfg[1]), reference=dict(order=ref_cfg[0], threads=ref_cfg[1]), differing_files=diff[:5],
                                 this=tree.get(diff[0]), reference_content=ref_tree.get(diff[0])))
        # (2b) whether other types were written alone with T::export() before cannot be observed in what export_all() of the roots writes:
        # every file the roots write on their own is there when other types were exported first (one process, one directory)
        qs_ = res["queries"]
        named_ix = [i for i, t in enumerate(qs_) if t[0] == "named" and not t[2] and not res["q"][i]["decl"].startswith("\x00")
                    and res["q"][i]["output_path"] not in ("-", "")]
        for alone, roots in ((named_ix[1::2], named_ix[0::2][::2]), (named_ix[0::2], named_ix[1::2][::3])):
            st_r, tree_r = CR.run_export_mixed(res["exe"], EXPORT_DIR, [], roots)
            st_m, tree_m = CR.run_export_mixed(res["exe"], EXPORT_DIR, alone, roots)
            if any(st_r.get(i) != "OK" or st_m.get(i) != "OK" for i in roots):
                continue   # a root that fails to export (known classes): nothing to compare
            missing = sorted(p_ for p_ in tree_r if p_ not in tree_m)
            mixed_checks += 1
            if missing:
                viol.append(dict(kind="property-violated", what="what export_all() writes depends on which types were exported alone before it",
                                 exported_alone_first=[C.rust_ty(qs_[i]) for i in alone][:12], then_export_all=[C.rust_ty(qs_[i]) for i in roots][:12],
                                 files_missing_compared_with_export_all_alone=missing[:8], seed=ctx.seed))
        # the same export twice into the same directory (second run over the existing tree)
        st2, tree2 = CR.run_export_all(res["exe"], EXPORT_DIR, 0, 1)
        if tree2 != ref_tree:
            viol.append(dict(kind="property-violated", what="running the export twice gives different files"))
        shared = sum(1 for p, c in ref_tree.items() if c.count("\nexport type ") + c.startswith("export type ") > 1)
    finally:
        CR.corpus_done(res)
        shutil.rmtree(os.path.dirname(EXPORT_DIR), ignore_errors=True)
    for v in viol[:3]:
        ctx.fail(v["what"], v)
    if mism and not viol:
        ctx.fail("model and implementation disagree on generated text (correspondence)", dict(
            kind="correspondence-broken", broken="Corr/corpus_env: Model/Gen.v + GenExport.v vs the real strings", first=mism[0], count=len(mism)), no_input=True)
    ctx.finish_proof()
    ctx.coverage.update({
        "evaluations": len(qs) * len(CR.QFIELDS) * k_builds + len(configs) * len(ref_tree),
        "distinct_nontrivial": len(ref_tree),
        "rule": "generated corpus compiled against /repo %d times (the derive macros run in fresh rustc processes with fresh HashSet seeds): name()/inline()/inline_flattened()/decl()/decl_concrete()/export_to_string()/output_path() of every query type must be byte-identical across builds, dependencies() equal as a set (its order was observed to differ %d times: the hash order exists and is not observable); every derived type exported with export_all_to into ONE directory under %d (order, thread count) configurations incl. 16 threads and reversed / shuffled orders, and a second time over the existing tree: the trees (relative path -> bytes, %d files, %d shared by several types incl. a generic `Point<T>` next to `Point2`) must be identical; model text vs real text byte for byte; non-trivial = files in the tree" % (
            k_builds, order_differs, len(configs), len(ref_tree), shared),
        "samples": [dict(config=cfg, files=len(tree)) for cfg, _, tree in trees[:3]],
        "oracle": {"builds": k_builds, "dependency_order_differences_observed": order_differs, "export_configurations": len(configs),
                   "files": len(ref_tree), "shared_files": shared, "violations": len(viol)},
    })
    ctx.assumptions += [
        "fresh processes are sampled (k rebuilds), not quantified over: the theorems cover every order, the rebuilds confirm that hash order is the only source of variation",
        "types sharing a file exported from DIFFERENT processes lose declarations (the registry is per process): outside the property (it speaks of test threads), recorded in DESIGN section 5 C13",
    ]
