"""C08 — import specifiers resolve to the dependency's file for every path pair."""
import itertools
import json
import os
import random
import re

import harness
import vlib
from vlib import coq_str, coq_list

AL = [".", "..", "a", "a.ts", "a.b", "ts", "x.ts", "x.ts.ts", "..g"]   # `..g`: an ordinary name that begins with two dots
BASES = ["", "./bindings", "/abs/b", "./x/../bindings/", "b//c/."]
CWD = "/tmp/v"
CHUNK = 256


def rels(depth):
    out = []
    for k in range(depth + 1):
        for t in itertools.product(AL, repeat=k):
            out.append("/".join(t))
    return out


def canon(ans):
    return {"OK": "O", "ERR": "E", "PANIC": "P"}[ans[0]] + (ans[1] if ans[0] == "OK" and len(ans) > 1 else "")


HEADER = """From TsRs Require Import Base.Str Base.Outcome Model.Path Spec.PathOracle Tools.Digest.
Definition cwd : list str := %s.
Definition al : list str := %s.
Definition can (o : outcome str) : str := match o with Ok s => 79 :: s | Err _ => [69] | Panic _ => [80] end.
Definition run1 (esm : bool) (c : str * str * str) : str * (N * N) :=
  let '(b, f, t) := c in
  let from := path_join b f in let to := path_join b t in
  let o := import_path esm cwd from to in
  (can o, (c08_verdict esm cwd from to o, same_file_verdict esm cwd from to)).
Definition count (k : N) (l : list N) : N := N.of_nat (length (filter (N.eqb k) l)).
Fixpoint indices_of (k : N) (i : N) (l : list N) : list N :=
  match l with [] => [] | x :: r => if x =? k then i :: indices_of k (i + 1) r else indices_of k (i + 1) r end.
Definition report (esm : bool) (cases : list (str * str * str)) :=
  let rs := map (run1 esm) cases in
  let v1 := map (fun r => fst (snd r)) rs in
  let v2 := map (fun r => snd (snd r)) rs in
  (map dg_list (chunks %d (map fst rs)),
   (map (fun k => count k v1) [0;1;2;3;4], firstn 40 (indices_of 3 0 v1), firstn 5 (indices_of 2 0 v1)),
   (map (fun k => count k v2) [0;1;2;3;4], firstn 40 (indices_of 3 0 v2), firstn 5 (indices_of 2 0 v2))).
"""


def end_to_end(ctx):
    """the specifiers generate_imports writes (the way IT calls import_path: with the output directory joined in), on the
    real export_to_string() of the rt universe: placements inside the base directory, nested, in a sibling of it (`../esc/`),
    escaping and coming back (`../out/nested/`): every specifier, resolved the TypeScript way from the importing file's
    directory, is the file the imported type is written to"""
    import re
    import exportsm as sm
    import harness
    bad, n = [], 0
    for esm in (False, True):
        U = sm.Universe(harness.rt(esm))
        for t in U.types:
            if t["out"] is None or t["text"].startswith("\x00"):
                continue
            here = os.path.normpath(os.path.join("/tmp/v/bindings", t["out"]))
            for names, spec in re.findall(r'import type \{ (.*?) \} from "(.*?)";', t["text"]):
                for nm in names.split(", "):
                    vis = list(t["visit_ix"]) + (list(U.types[t["wg_ix"]]["visit_ix"]) if t["wg_ix"] < len(U.types) else [])
                    deps = [U.types[i] for i in vis if i < len(U.types) and U.types[i]["ident"] == nm and U.types[i]["out"]]
                    n += 1
                    want = {os.path.normpath(os.path.join("/tmp/v/bindings", d["out"])) for d in deps}
                    ok_rel = spec.startswith("./") or spec.startswith("../")
                    target = os.path.normpath(os.path.join(os.path.dirname(here), spec))
                    got = target[:-3] + ".ts" if esm and target.endswith(".js") else target + ".ts"
                    if not ok_rel or got not in want:
                        bad.append(dict(kind="property-violated", importer=t["rust"], importer_file=here, imported=nm, specifier=spec, esm=esm,
                                        resolves_to=got, written_to=sorted(want), text=t["text"]))
    sm.cleanup()
    for b in bad[:1]:
        ctx.fail("an import specifier of a real export_to_string() does not resolve to the file of the imported type", b)
    return {"imports_checked": n, "violations": len(bad)}


def run(ctx):
    proof = ctx.prove()
    os.makedirs(CWD, exist_ok=True)
    cwd_names = [n for n in os.path.realpath(CWD).split("/") if n]
    dfrom, dto = (2, 2) if ctx.quick else (2, 3)
    nrandom = 1500 if ctx.quick else 6000
    rf, rt_ = rels(dfrom), rels(dto)
    rng = random.Random(ctx.seed)
    extra = []
    ral = AL + ["c", "Foo.ts", "d.js.ts", "e f", "é.ts", "", "...", "..h.ts", ".hidden"]
    for _ in range(nrandom):
        def rp():
            k = rng.randint(1, 5)
            s = "/".join(rng.choice(ral) for _ in range(k))
            return rng.choice(["", "", "./", "/"]) + s
        extra.append((rng.choice(BASES + ["/", ".", "../up"]), rp(), rp()))
    shards = []  # (name, esm, coq cases expr, python cases)
    if ctx.replay:
        rp = json.load(open(ctx.replay))
        c = rp["case"]
        shards.append(("r", bool(rp["esm"]), coq_list(["(%s, %s, %s)" % tuple(coq_str(x) for x in c)]), [tuple(c)]))
    else:
        for esm in (False, True):
            for bi, b in enumerate(BASES):
                cases = [(b, f, t) for f in rf for t in rt_]
                expr = "map (fun ft => (%s, fst ft, snd ft)) (list_prod (map (join [slash]) (strings_upto al %d)) (map (join [slash]) (strings_upto al %d)))" % (coq_str(b), dfrom, dto)
                shards.append(("b%d%s" % (bi, "e" if esm else "n"), esm, expr, cases))
            for k, part in enumerate(vlib.chunks(extra, 750)):
                expr = coq_list(["(%s, %s, %s)" % (coq_str(b), coq_str(f), coq_str(t)) for b, f, t in part])
                shards.append(("x%d%s" % (k, "e" if esm else "n"), esm, expr, part))

    # implementation
    exes = {False: harness.rt(False), True: harness.rt(True)}
    impl = {}
    for name, esm, _, cases in shards:
        ans = harness.rt_run(exes[esm], [["cwd", CWD]] + [["impj", b, f, t] for b, f, t in cases])
        impl[name] = [canon(a) for a in ans[1:]]

    # model (16 coqc in parallel)
    header = HEADER % (coq_list([coq_str(n) for n in cwd_names]), coq_list([coq_str(a) for a in AL]), CHUNK)
    files = [("cases_C08_" + name, header + "Eval vm_compute in report %s (%s).\n" % ("true" if esm else "false", expr))
             for name, esm, expr, _ in shards]
    results = vlib.coq_eval_many(files)
    totals = {"c08": [0] * 5, "same_file": [0] * 5}
    suspects = []
    oracle_fail = []
    kf_hits = []
    nchunks = 0
    for (name, esm, _, cases), (ok, out) in zip(shards, results):
        if not ok:
            raise vlib.HarnessError("cases_C08_%s.v failed: %s" % (name, out[-2000:]))
        val = out.split("=", 1)[1]
        lists = re.findall(r"\[([^\[\]]*)\]", val)
        nums = [[int(x) for x in re.findall(r"\d+", l.replace("%Z", "").replace("%N", ""))] for l in lists]
        dig, c1, bad1, kf1, c2, bad2, kf2 = nums[:7]
        idig = [vlib.dg_list(c) for c in vlib.chunks(impl[name], CHUNK)]
        nchunks += len(dig)
        if len(dig) != len(idig):
            raise vlib.HarnessError("digest count mismatch in shard %s" % name)
        for ci, (a, b) in enumerate(zip(dig, idig)):
            if a != b:
                suspects += [(name, esm, j) for j in range(ci * CHUNK, min(len(cases), (ci + 1) * CHUNK))]
        for k in range(5):
            totals["c08"][k] += c1[k]
            totals["same_file"][k] += c2[k]
        oracle_fail += [(name, esm, j, "resolve") for j in bad1] + [(name, esm, j, "same-file") for j in bad2]
        kf_hits += [(name, esm, j) for j in kf1 + kf2]
    by_name = {s[0]: s for s in shards}

    # exact comparison of suspects, with the oracle evaluated on the implementation's real output
    corr_breaks = []
    if suspects:
        sus = suspects[:3000]
        terms = []
        for name, esm, j in sus:
            b, f, t = by_name[name][3][j]
            obs = impl[name][j]
            obs_t = "Ok %s" % coq_str(obs[1:]) if obs[0] == "O" else ("Err []" if obs[0] == "E" else "Panic []")
            terms.append("(fst (run1 %s (%s,%s,%s)), [c08_verdict %s cwd (path_join %s %s) (path_join %s %s) (%s)])" % (
                "true" if esm else "false", coq_str(b), coq_str(f), coq_str(t), "true" if esm else "false",
                coq_str(b), coq_str(f), coq_str(b), coq_str(t), obs_t))
        for part_i, part in enumerate(vlib.chunks(list(zip(sus, terms)), 500)):
            ok, out2 = vlib.coq_eval("cases_C08_exact%d" % part_i, header + "Eval vm_compute in flat_map (fun x => [fst x; snd x]) %s.\n" % coq_list([t for _, t in part]))
            if not ok:
                raise vlib.HarnessError("cases_C08_exact failed: " + out2[-2000:])
            vals = vlib.parse_coq_str_list(out2.split("=", 1)[1].rsplit(":", 1)[0])
            for k, ((name, esm, j), _) in enumerate(part):
                mv, verdict = vals[2 * k], vals[2 * k + 1]
                if mv != impl[name][j]:
                    corr_breaks.append(dict(case=list(by_name[name][3][j]), esm=esm, model=mv, implementation=impl[name][j],
                                            verdict_on_real_output=ord(verdict[0]) if verdict else None))
    real = [c for c in corr_breaks if c["verdict_on_real_output"] == 3]
    for c in real[:1]:
        ctx.fail("real specifier does not resolve to the dependency's file",
                 dict(kind="property-violated", cwd=CWD, **c, note="%d cases fail the resolution oracle on the implementation's output" % len(real)))
    for name, esm, j, which in oracle_fail[:1]:
        b, f, t = by_name[name][3][j]
        ctx.fail("specifier fails the %s oracle" % which, dict(kind="property-violated", cwd=CWD, case=[b, f, t], esm=esm,
                 implementation=impl[name][j], oracle=which, note="%d cases fail" % len(oracle_fail)))
    if corr_breaks and not real and not oracle_fail:
        ctx.fail("model and implementation disagree (correspondence)", dict(
            kind="correspondence-broken", broken="Corr/cases_C08_*.v: Model/Path.v import_path vs ts_rs::verif::import_path",
            first=corr_breaks[0], count=len(corr_breaks), cwd=CWD), no_input=True)
    if totals["c08"][2] or totals["same_file"][2]:
        name, esm, j = kf_hits[0]
        ctx.known_class("ts_ts_file_name", repr(by_name[name][3][j]),
                        dict(kind="property-violated", cwd=CWD, case=list(by_name[name][3][j]), esm=esm, implementation=impl[name][j]))

    e2e = end_to_end(ctx)
    ctx.finish_proof()
    n = sum(len(s[3]) for s in shards)
    ctx.coverage.update({
        "end_to_end_universe": e2e,
        "evaluations": n,
        "distinct_nontrivial": totals["c08"][1] + totals["c08"][2] + totals["c08"][4],
        "rule": "every (from, to) pair of relative paths of depth <= %d / <= %d over the component alphabet %s, joined (by PathBuf::join / path_join) to each base in %s, x import-esm off/on, enumerated identically inside Coq and in the driver; plus %d seeded random triples (base, from, to) of depth <= 5 over a larger alphabet. Non-trivial = both paths denote files, the target is named `<stem>.ts` and is not an ancestor of the importer (the property's hypotheses), so the resolution oracle actually ran." % (
            dfrom, dto, AL, BASES, len(extra)),
        "samples": [dict(case=list(by_name[s[0]][3][j]), esm=s[1], implementation=impl[s[0]][j]) for s, j in
                    ((shards[1], 700), (shards[2], 2100), (shards[-1], 3), (shards[len(shards) // 2], 17)) if j < len(s[3])],
        "verdicts": {"codes": "0 outside hypotheses, 1 holds, 2 fails in known class, 3 fails, 4 known class but holds",
                     "resolution": totals["c08"], "same_file": totals["same_file"]},
        "correspondence": {"cases": n, "digest_chunks": nchunks, "suspects": len(suspects), "confirmed_breaks": len(corr_breaks)},
        "distribution": {"outcomes": {k: sum(1 for s in shards for o in impl[s[0]] if o[0] == k) for k in "OEP"},
                         "shards": len(shards)},
    })
    ctx.assumptions += [
        "Unix path rules only (the cfg!(target_os = \"windows\") branch of import_path is not modelled)",
        "std::env::current_dir() is the normalised absolute directory %s" % CWD,
        "TypeScript module resolution of a relative specifier = lexical walk from the importing file's directory, `<spec>.ts` (or `.js` -> `.ts` under ES modules); Spec/Path `resolve`",
    ]
