"""C05 — several types in one file: order-independent, idempotent, lossless merge."""
import itertools
import json
import os
import random
import re

import harness
import vlib
from vlib import coq_str, coq_list

NOTE = None
CHUNK = 64
FILE = "/tmp/v/c05/shared.ts"


def note():
    global NOTE
    if NOTE is None:
        import tables_from_source as t
        NOTE = t.const_str(t.read("ts-rs/src/export.rs"), "NOTE", "ts-rs/src/export.rs")
    return NOTE


def render_imports(im):
    return "".join('import type { %s } from "%s";\n' % (", ".join(ns), p) for p, ns in im)


def item_text(it):
    return note() + render_imports(it["imports"]) + "\n" + it["block"] + "\n"


# a universe of declarations sharing one file: doc comments, multi-line declarations, names that
# are prefixes of one another, generic keys, overlapping and disjoint import sets
UNIVERSE = [
    dict(ident="A", imports=[("./x", ["X", "Y"])], block="export type A = X | Y;"),
    dict(ident="Ab", imports=[], block="/** doc of Ab */\nexport type Ab = null;"),
    dict(ident="A1", imports=[("../z/w", ["W"]), ("./x", ["X", "Z"])],
         block="/**\n * several\n * lines mentioning export type Zzz in the doc\n */\nexport type A1<T, U> = { a: W, b: X, c: Z, };"),
    dict(ident="B", imports=[("./sub/q", ["Q"])], block="export type B<T> = { \n/**\n * field doc\n */\nq: Q, t: T, };"),
    dict(ident="Foo", imports=[("./x", ["Y"]), ("./y", ["Y2"])], block="export type Foo<T> = Y | Y2 | T;"),   # generic, next to Foo2: digits sort below `<`
    dict(ident="Foo2", imports=[], block="export type Foo2 = \"a\" | \"b\";"),
    dict(ident="a", imports=[("./x", ["X"])], block="export type a = Array<X>;"),
    dict(ident="Été", imports=[("./é", ["É"])], block="/** non-ASCII */\nexport type Été = É;"),
    # documentation quoting the declaration of a file-mate, name and all
    dict(ident="Q", imports=[], block="/** like `export type Foo2 = ..`, and export type B <T> too */\nexport type Q = null;"),
]
# known classes (each makes an item ill-formed for the theorem; Coq decides membership)
KF_UNIVERSE = [
    dict(ident="Key", imports=[], block="export type Key = { \n/** export type Aaa in a field doc */\nk: null, };", cls="export_type_in_body"),
    dict(ident="Imp", imports=[("./x", ["from"])], block="export type Imp = from;", cls="import_named_from"),
]


def derived_items(exe):
    """file-mates whose text is what the REAL derive writes for documented types of harness/rt/universe.rs
    (documentation with empty lines: block comment, `#[doc]` values ending / beginning with newlines, at fields)"""
    out = []
    ans = harness.rt_run(exe, [["cwd", "/tmp/v"], ["env", "-"], ["docinfo"]])[2]
    for ident, text in [x.split("\x02", 1) for x in ans[1:]]:
        if text.startswith("\x00") or not text.startswith(note()):
            raise vlib.HarnessError("docinfo: export_to_string of %s failed: %r" % (ident, text[:200]))
        rest = text[len(note()):]
        head, block = rest.split("\n\n", 1) if rest.startswith("import") else ("", rest[1:] if rest.startswith("\n") else rest)
        imports = [(m.group(2), m.group(1).split(", ")) for m in re.finditer(r'import type \{ (.*?) \} from "(.*?)";', head)]
        out.append(dict(ident=ident, imports=imports, block=block[:-1] if block.endswith("\n") else block, derived=True, text=text))
    return out


def coq_item(it):
    return "{| it_ident := %s; it_imports := %s; it_block := %s |}" % (
        coq_str(it["ident"]), coq_list(["(%s, %s)" % (coq_str(p), coq_list([coq_str(n) for n in ns])) for p, ns in it["imports"]]),
        coq_str(it["block"]))


HEADER = """From TsRs Require Import Base.Str Base.Outcome Gen.Tables Model.Merge Model.MergeSpec Tools.Digest.
Definition items : list item := %s.
Definition dflt : item := {| it_ident := []; it_imports := []; it_block := [] |}.
Definition hist (h : list nat) : list item := map (fun i => nth i items dflt) h.
Definition can (o : outcome (option str)) : str :=
  match o with Ok (Some s) => 79 :: s | Ok None => [78] | Err _ => [69] | Panic _ => [80] end.
Fixpoint nodupb (l : list str) : bool := match l with [] => true | x :: r => negb (existsb (str_eqb x) r) && nodupb r end.
(* hypotheses of the C05 theorems for a history: well-formed items, distinct keys *)
Definition hyp (h : list item) : bool := forallb wf_item h && nodupb (map (fun i => key_of (it_block i)) h) && nodupb (map it_ident h).
Definition dedup_hist (h : list item) : list item :=
  fold_left (fun acc i => if existsb (fun j => str_eqb (it_ident j) (it_ident i)) acc then acc else acc ++ [i]) h [].
Fixpoint indices_where (f : list nat -> bool) (i : N) (l : list (list nat)) : list N :=
  match l with [] => [] | x :: r => if f x then i :: indices_where f (i + 1) r else indices_where f (i + 1) r end.
Definition report (hs : list (list nat)) :=
  let outs := map (fun h => can (file_after (hist h))) hs in
  (map dg_list (chunks %d outs),
   (* histories meeting the hypotheses whose final file is NOT the canonical file: must be empty *)
   indices_where (fun h => let d := dedup_hist (hist h) in
                           match d with [] => false | _ => hyp d && negb (str_eqb (can (file_after (hist h))) (79 :: canonical_file d)) end) 0 hs,
   N.of_nat (length (filter (fun h => hyp (dedup_hist (hist h))) hs)),
   map (fun i => if wf_item i then 1 else 0) items,
   (* does the sort key start with the declared identifier? *)
   map (fun i => if starts_with (it_ident i) (key_of (it_block i)) then 1 else 0) items).
"""


def run(ctx):
    proof = ctx.prove()
    os.makedirs(os.path.dirname(FILE), exist_ok=True)
    rng = random.Random(ctx.seed)
    exe = harness.rt(False)
    os.makedirs("/tmp/v", exist_ok=True)
    derived = derived_items(exe)
    for it in derived:
        if item_text(it) != it.pop("text"):
            raise vlib.HarnessError("derived item %s does not re-render from (imports, block)" % it["ident"])
    uni = UNIVERSE + derived
    items = uni + KF_UNIVERSE
    nmax = 4 if ctx.quick else 5
    # all permutations of all subsets (hence all prefixes) up to nmax of the well-formed universe;
    # plus histories with repetitions (idempotence) and histories touching the known classes
    hs = []
    base = list(range(len(uni)))
    hand = list(range(len(UNIVERSE)))
    for k in range(1, nmax + 1):
        for perm in itertools.permutations(hand, k):
            hs.append(list(perm))
    # the derived (documented) file-mates: every permutation of every subset of size <= nmax - 1 that holds one of them
    for k in range(1, nmax):
        for perm in itertools.permutations(base, k):
            if any(i >= len(UNIVERSE) for i in perm):
                hs.append(list(perm))
    for _ in range(300 if ctx.quick else 3000):
        k = rng.randint(2, 7)
        hs.append([rng.choice(base) for _ in range(k)])  # with repetitions
    kf_hs = []
    for j in range(len(uni), len(items)):
        for other in base[:5]:
            for third in base[3:6]:
                kf_hs += [[j, other, third], [other, j, third], [third, other, j]]
    hs_all = hs + kf_hs
    if ctx.replay:
        rp = json.load(open(ctx.replay))
        hs_all = [rp["history"]]
        hs, kf_hs = hs_all, []

    # implementation: real export_and_merge on a real file
    regs = [["rawitem", it["ident"], item_text(it)] for it in items]
    stale = "stale content left by an earlier run; must never leak " * 30
    reqs = [["rawhist", FILE, stale if n % 2 else "-", ",".join(map(str, h))] for n, h in enumerate(hs_all)]
    # a panic inside export_and_merge poisons the registry lock for the rest of the process: go on in a fresh one
    ans, restarts = [], 0
    while len(ans) < len(reqs) and restarts <= 200:
        got = harness.rt_run(exe, regs + reqs[len(ans):])[len(items):]
        k = next((i for i, a in enumerate(got) if a[0] == "OK" and "P" in a[1]), None)
        ans += got if k is None else got[:k + 1]
        restarts += k is not None
    if len(ans) < len(reqs):
        hs_all = hs_all[:len(ans)]
    impl = []
    for a in ans:
        if a[0] != "OK":
            raise vlib.HarnessError("rawhist failed: %r" % a[:2])
        steps, content = a[1], a[2]
        impl.append("O" + content if set(steps) <= {"O"} else steps.replace("O", "")[-1])

    # model
    header = HEADER % (coq_list([coq_item(i) for i in items], sep=";\n  "), CHUNK)
    shard_size = max(CHUNK, ((len(hs_all) // 16) // CHUNK + 1) * CHUNK)
    shards = vlib.chunks(hs_all, shard_size)
    files = [("cases_C05_%d" % k, header + "Eval vm_compute in report %s.\n" % coq_list(
        ["[" + ";".join(map(str, h)) + "]%nat" for h in sh])) for k, sh in enumerate(shards)]
    results = vlib.coq_eval_many(files)
    suspects, not_canonical, n_hyp, wf_flags = [], [], 0, None
    nchunks = 0
    for k, (ok, out) in enumerate(results):
        if not ok:
            raise vlib.HarnessError("cases_C05_%d.v failed: %s" % (k, out[-2000:]))
        val = out.split("=", 1)[1]
        lists = re.findall(r"\[([^\[\]]*)\]", val)
        dig = [int(x) for x in re.findall(r"(\d+)%Z", lists[0])]
        bad = [int(x) for x in re.findall(r"\d+", lists[1].replace("%N", ""))]
        wf_flags = [int(x) for x in re.findall(r"\d+", lists[2].replace("%N", ""))]
        key_flags = [int(x) for x in re.findall(r"\d+", lists[3].replace("%N", ""))]
        m = re.search(r"\],\s*(\d+)%N", val) or re.search(r"\]\s*,\s*(\d+)", val[val.index(lists[1]) if lists[1] else 0:])
        n_hyp += int(m.group(1)) if m else 0
        off = k * shard_size
        idig = [vlib.dg_list(c) for c in vlib.chunks(impl[off:off + len(shards[k])], CHUNK)]
        nchunks += len(dig)
        if len(dig) != len(idig):
            raise vlib.HarnessError("digest count mismatch in shard %d: %d vs %d" % (k, len(dig), len(idig)))
        for ci, (a, b) in enumerate(zip(dig, idig)):
            if a != b:
                suspects += list(range(off + ci * CHUNK, min(off + len(shards[k]), off + (ci + 1) * CHUNK)))
        not_canonical += [off + j for j in bad]

    # exact comparison for suspects
    corr_breaks = []
    for part in vlib.chunks(suspects[:600], 100):
        ok, out2 = vlib.coq_eval("cases_C05_exact", header + "Eval vm_compute in map (fun h => can (file_after (hist h))) %s.\n" % coq_list(
            ["[" + ";".join(map(str, hs_all[j])) + "]%nat" for j in part]))
        if not ok:
            raise vlib.HarnessError("cases_C05_exact failed: " + out2[-2000:])
        vals = vlib.parse_coq_str_list(out2.split("=", 1)[1].rsplit(":", 1)[0])
        for j, mv in zip(part, vals):
            if mv != impl[j]:
                corr_breaks.append(dict(history=hs_all[j], idents=[items[i]["ident"] for i in hs_all[j]], model=mv, implementation=impl[j]))

    # the property on the real outputs: every history exporting the same set ends with the same bytes
    by_set = {}
    for j, h in enumerate(hs_all):
        by_set.setdefault(frozenset(h), []).append(j)
    confl_viol, kf_seen = [], {}
    n_sets_multi = 0
    for s, js in by_set.items():
        outs = {impl[j] for j in js}
        if len(js) > 1:
            n_sets_multi += 1
        lost = [j for j in js if impl[j][0] == "O" and any(items[i]["block"] not in impl[j] for i in s)]
        if len(outs) > 1 or lost or any(impl[j][0] != "O" for j in js):
            kf = [items[i]["cls"] for i in s if "cls" in items[i]]
            ex = dict(set=sorted(items[i]["ident"] for i in s), histories=[hs_all[j] for j in js][:4],
                      outputs=sorted(outs)[:3], lost_declaration_in=[hs_all[j] for j in lost][:2])
            if kf:
                kf_seen.setdefault(kf[0], ex)
            else:
                confl_viol.append(ex)
    for v in confl_viol[:1]:
        ctx.fail("final file depends on the export order / loses a declaration", dict(kind="property-violated", **v,
                 history=v["histories"][0], note="%d sets affected" % len(confl_viol)))
    for j in not_canonical[:1]:
        if not confl_viol:
            ctx.fail("final file differs from the canonical file", dict(kind="property-violated", history=hs_all[j],
                     idents=[items[i]["ident"] for i in hs_all[j]], implementation=impl[j]))
    if corr_breaks and not confl_viol and not not_canonical:
        ctx.fail("model and implementation disagree (correspondence)", dict(
            kind="correspondence-broken", broken="Corr/cases_C05_*.v: Model/Merge.v + MergeSpec.v vs ts_rs::verif::export_and_merge",
            first=corr_breaks[0], history=corr_breaks[0]["history"], count=len(corr_breaks)), no_input=True)
    for cls, ex in sorted(kf_seen.items()):
        ctx.known_class(cls, json.dumps(ex["set"]), dict(kind="property-violated", **ex, history=ex["histories"][0]))

    # declarations whose sort key is not their identifier: out of name order on the real file?
    for ix, flag in enumerate(key_flags):
        if not flag:
            for j, h in enumerate(hs_all):
                if ix in h and len(set(h)) >= 2 and impl[j][0] == "O":
                    pos = sorted(set(h), key=lambda i: impl[j].index(items[i]["block"]))
                    if [items[i]["ident"] for i in pos] != sorted(items[i]["ident"] for i in set(h)):
                        ctx.known_class("export_type_in_body", json.dumps([items[i]["ident"] for i in pos]),
                                        dict(kind="property-violated", history=h, implementation=impl[j]))
                        break

    # the pure merge function on a malformed stream: panics must be predicted as panics
    mal = malformed(ctx, rng, exe, items)
    # real threads
    thr = threads(ctx, rng, exe, items, len(uni))
    # end to end: derived types (incl. several instantiations of one generic) through TS::export_all_to
    e2e = derived_histories(ctx, exe)

    ctx.finish_proof()
    ctx.coverage.update({
        "evaluations": len(hs_all) + mal["pairs"] + thr["runs"],
        "distinct_nontrivial": len({tuple(h) for h in hs_all if len(set(h)) >= 2}),
        "traces_validated_against_impl": thr["traces_valid"],
        "rule": "all permutations of all subsets (hence all prefixes) of size <= %d of an %d-item universe sharing one file (doc comments, multi-line declarations, documentation quoting a file-mate's `export type <Name> `, prefix names A/Ab/A1, a generic Foo<T> next to Foo2 (digits sort below `<`), generic keys, overlapping import groups, non-ASCII), each run through the real export_and_merge on a real file (every second one over stale content), plus %d random histories with repetitions, plus histories touching the %d known classes; non-trivial = at least two distinct items (a merge happened)" % (
            nmax, len(uni), 300 if ctx.quick else 3000, len(KF_UNIVERSE)) +
            "; %d of the items are the REAL export_to_string() texts of documented derived types (harness/rt/universe.rs DocBlank, DocNl: block comment with an empty line at the container and at a field, `#[doc]` values ending / beginning with newlines or made of newlines), in every permutation of every subset of size <= %d holding one of them" % (len(derived), nmax - 1),
        "samples": [dict(history=hs_all[j], idents=[items[i]["ident"] for i in hs_all[j]], final_file=impl[j][1:]) for j in (len(hs_all) // 3,)],
        "correspondence": {"histories": len(hs_all), "digest_chunks": nchunks, "suspects": len(suspects), "confirmed_breaks": len(corr_breaks)},
        "oracle": {"sets_with_several_histories": n_sets_multi, "histories_meeting_theorem_hypotheses": n_hyp,
                   "not_canonical": len(not_canonical), "order_dependent_sets": len(confl_viol), "known_class_sets": {k: 1 for k in kf_seen}},
        "malformed_stream": mal, "threads": thr, "derived_types_end_to_end": e2e,
        "items_wf": dict(zip([i["ident"] for i in items], wf_flags or [])),
    })
    ctx.assumptions += [
        "file system modelled as: first touch of a path truncates (File::create), later writes overwrite in place from byte NOTE.len() without truncation",
        "real threads: the lock discipline is validated on recorded traces (yield points of cfg(ts_rs_verif)), not proved about the Rust code",
    ]


def derived_histories(ctx, exe):
    """The same property through the public entry points: types of harness/rt/universe.rs that share files (A, B, U2 in
    shared.ts; three instantiations of the generic G in sub/generic/G.ts; D and C2, which reach them) exported with export_all_to into one
    directory, in every order of every subset of size <= 3: the final tree is the same for every order, and every file
    declares each name exactly once."""
    import exportsm as sm
    U = sm.Universe(exe)
    roots = [i for i, t in enumerate(U.types) if t["out"] is not None and
             (t["out"].endswith("shared.ts") or t["out"].endswith("G.ts") or t["rust"].endswith("::C2") or t["rust"].endswith("::D"))]
    cases, keys = [], []
    for k in (2, 3):
        for sub in itertools.combinations(roots, k):
            for perm in itertools.permutations(sub):
                cases.append(dict(root="@R", cwd="@R/w/c", env=None, init=[], ops=[("export_all_to", t, "@R/out") for t in perm]))
                keys.append(frozenset(sub))
    if ctx.quick:
        cases, keys = cases[:480], keys[:480]
    real = sm.run_real(exe, sm.place(cases))
    by_set, viol = {}, []
    for c, key, (codes, files, _) in zip(cases, keys, real):
        names = [U.types[o[1]]["rust"] for o in c["ops"]]
        if set(codes) != {"O"}:
            viol.append(dict(what="an export of a derived type failed", history=names, results=codes))
            continue
        for pth, content in files:
            decl = re.findall(r"(?:^|\n)export type ([^ <=]+)", content)
            dup = sorted({n for n in decl if decl.count(n) > 1})
            if dup:
                viol.append(dict(what="a shared file declares %s more than once" % ", ".join(dup), history=names, file=pth, content=content))
        by_set.setdefault(key, []).append((names, files))
    for key, runs in by_set.items():
        ref = runs[0]
        for names, files in runs[1:]:
            if files != ref[1]:
                viol.append(dict(what="the final files depend on the order of the exports", history=names, reference_history=ref[0],
                                 differing=[p for p, c in files if dict(ref[1]).get(p) != c][:4]))
                break
    sm.cleanup()
    for v in viol[:1]:
        ctx.fail(v["what"] + " (derived types, export_all_to)", dict(kind="property-violated", note="%d violations" % len(viol), **v))
    return {"histories": len(cases), "sets": len(by_set), "roots": [U.types[i]["rust"] for i in roots], "violations": len(viol)}


def malformed(ctx, rng, exe, items):
    """merge() itself, model vs implementation, on mutated texts (most of them malformed)."""
    texts = [item_text(i) for i in items]
    file2 = texts[0]
    pairs = []
    n = 150 if ctx.quick else 1200
    muts = ["\n\n", "\n", " from ", "export type ", "import type { ", ";", "\"", " ", "}", "\r\n", " "]
    for _ in range(n):
        a, b = rng.choice(texts), rng.choice(texts)
        for _ in range(rng.randint(0, 3)):
            which = rng.random()
            t = a if rng.random() < 0.5 else b
            pos = rng.randint(0, len(t))
            if which < 0.4:
                t2 = t[:pos] + rng.choice(muts) + t[pos:]
            elif which < 0.8:
                t2 = t[:pos] + t[pos + rng.randint(1, 12):]
            else:
                t2 = t[:pos]
            if t is a:
                a = t2
            else:
                b = t2
        pairs.append((a, b))
    ans = harness.rt_run(exe, [["merge", a, b] for a, b in pairs])
    impl = ["O" + x[1] if x[0] == "OK" else "P" for x in ans]
    body = """From TsRs Require Import Base.Str Base.Outcome Gen.Tables Model.Merge Tools.Digest.
Definition can (o : outcome str) : str := match o with Ok s => 79 :: s | _ => [80] end.
Eval vm_compute in map (fun ab => dg_list [can (merge (fst ab) (snd ab))]) %s.
""" % coq_list(["(%s, %s)" % (coq_str(a), coq_str(b)) for a, b in pairs], sep=";\n ")
    ok, out = vlib.coq_eval("cases_C05_merge", body)
    if not ok:
        raise vlib.HarnessError("cases_C05_merge failed: " + out[-2000:])
    dig = [int(x) for x in re.findall(r"(\d+)%Z", out)]
    bad = [k for k, (d, o) in enumerate(zip(dig, impl)) if d != vlib.dg_list([o])]
    if len(dig) != len(impl):
        raise vlib.HarnessError("cases_C05_merge: %d digests for %d pairs" % (len(dig), len(impl)))
    if bad:
        k = bad[0]
        ctx.fail("merge(): model and implementation disagree", dict(
            kind="correspondence-broken", broken="Corr/cases_C05_merge.v: Model/Merge.v merge vs ts_rs::verif::merge",
            original=pairs[k][0], new=pairs[k][1], implementation=impl[k], count=len(bad)), no_input=True)
    return {"pairs": len(pairs), "panics": sum(1 for o in impl if o == "P"), "disagreements": len(bad)}


def threads(ctx, rng, exe, items, nuni):
    """the same sets exported from real concurrent threads, perturbed at the yield points"""
    runs = 120 if ctx.quick else 1500
    base = list(range(nuni))
    reqs, sets = [], []
    for r in range(runs):
        k = rng.randint(2, 6)
        s = rng.sample(base, k)
        sets.append(s)
        reqs.append(["rawthreads", FILE, str(rng.randrange(1 << 60)), ",".join(map(str, s))])
    ans = harness.rt_run(exe, [["rawitem", it["ident"], item_text(it)] for it in items] + reqs)[len(items):]
    # serial reference for each set (real code, one thread) -- and by the correspondence above, the model
    ref = harness.rt_run(exe, [["rawitem", it["ident"], item_text(it)] for it in items] +
                         [["rawhist", FILE, "-", ",".join(map(str, sorted(s)))] for s in sets])[len(items):]
    valid, bad_trace, bad_content = 0, [], []
    orders = set()
    for s, a, rf in zip(sets, ans, ref):
        if a[0] != "OK" or rf[0] != "OK" or len(a) < 4:
            # a panic in an earlier run poisoned the registry lock of the harness process
            bad_content.append(dict(set=[items[i]["ident"] for i in s], steps="P", content=" ".join(a[:2]), serial=" ".join(rf[:3]), trace=""))
            continue
        steps, content, trace = a[1], a[2], a[3]
        ev = [e.rsplit(":", 1) for e in trace.split(",") if e]
        crit = [(n, int(k)) for n, k in ev if int(k) >= 1]
        # a trace of the locked micro-step model: blocks [T:1] or [T:1, T:2, T:3], one per thread
        i, ok = 0, True
        seen = []
        while i < len(crit):
            n, k = crit[i]
            if k != 1 or n in seen:
                ok = False
                break
            seen.append(n)
            if i + 2 < len(crit) + 0 and crit[i + 1] == (n, 2):
                if i + 2 >= len(crit) or crit[i + 2] != (n, 3):
                    ok = False
                    break
                i += 3
            else:
                i += 1
        if ok and len(seen) == len(s):
            valid += 1
            orders.add(tuple(seen))
        else:
            bad_trace.append(dict(set=[items[i]["ident"] for i in s], trace=trace))
        if set(steps) != {"O"} or content != rf[2]:
            bad_content.append(dict(set=[items[i]["ident"] for i in s], steps=steps, content=content, serial=rf[2], trace=trace))
    for b in bad_content[:1]:
        ctx.fail("concurrent exports produced a different file than the serial export", dict(kind="property-violated", **b))
    for b in bad_trace[:1]:
        if not bad_content:
            ctx.fail("recorded trace is not a trace of the locked micro-step model (critical sections interleave)",
                     dict(kind="correspondence-broken", broken="trace validation against the lock discipline of Model/MergeSpec (export_raw atomic under EXPORT_PATHS)", **b), no_input=True)
    return {"runs": runs, "traces_valid": valid, "distinct_lock_orders": len(orders), "content_mismatches": len(bad_content)}
