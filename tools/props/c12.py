"""C12 — built-in impls describe serde's representation of library types."""
import itertools
import json
import os
import random

import corpus as C
import corpus_gen as G
import corpus_run as CR
import sem_run as S
import tsparse
import vlib

LEAVES = ["u8", "i32", "u64", "i128", "f64", "bool", "char", "String", "()", "usize", "i16"]
KEYS = ["String", "char", "u8", "i64"]


def unary(t):
    return [("option", t), ("vec", t), ("array", 0, t), ("array", 2, t), ("wrap", "Box", t), ("wrap", "std::cell::RefCell", t),
            ("wrap", "std::sync::Mutex", t), ("range", t) if t[0] == "leaf" and t[1] in ("u8", "i32", "u64") else ("vec", t),
            ("tuple", [t]), ("tuple", [t, ("leaf", "bool")]), ("map", ("leaf", "String"), t, "BTreeMap"), ("map", ("leaf", "String"), t, "HashMap"),
            ("result", t, ("leaf", "String")), ("result", ("leaf", "u8"), t)]


def named_in(t, acc):
    if t[0] == "named":
        acc.add(t[1])
    for x in t[1:]:
        for y in (x if isinstance(x, list) else [x]):
            if isinstance(y, tuple):
                named_in(y, acc)
    return acc


def inline_deps(t):
    """inline() of a library type inlines its arguments; an inlined derived type contributes what its own fields
    refer to by name (Dw<T> { t: T }: the argument and everything below it), not itself"""
    if t[0] == "named":
        return named_in(("tuple", list(t[2])), set())
    acc = set()
    for x in t[1:]:
        for y in (x if isinstance(x, list) else [x]):
            if isinstance(y, tuple):
                acc |= inline_deps(y)
    return acc


def dep_universe(ctx, rng, viol):
    """every container around derived types at either argument position and at depth 1..3: dependencies() is
    exactly the set of derived types occurring in the type expression; model vs real on name/inline/deps"""
    from corpus import mk_struct, mk_field, mk_enum, mk_variant
    defs = [mk_enum("De", [mk_variant("Red", "unit"), mk_variant("Green", "unit")], as_key=True),
            mk_struct("Dx", "named", [mk_field("a", ("leaf", "u8"))]), mk_struct("Dy", "named", [mk_field("b", ("leaf", "bool"))]),
            mk_struct("Dz", "tuple", [mk_field("_0", ("leaf", "String"))]),
            mk_struct("Dw", "named", [mk_field("t", ("param", 0))], params=[("T", None)])]
    nx, ny, nz = ("named", "Dx", []), ("named", "Dy", []), ("named", "Dz", [])
    nw = ("named", "Dw", [ny])
    ne = ("named", "De", [])
    base = [nx, nw]
    d1 = []
    for t in base:
        d1 += unary(t)
    d1 += [("result", nx, ny), ("tuple", [nx, ny, nz]), ("map", ("leaf", "String"), nw, "BTreeMap"), ("named", "Dw", [("vec", nz)]),
           # maps keyed by a derived (unit) enum: the key type is a dependency by name, and is inlined by inline()
           ("map", ne, ("leaf", "u32"), "HashMap"), ("map", ne, nx, "BTreeMap")]
    d2 = []
    for t in d1:
        # the other side of every binary constructor holds a leaf: a missing visit cannot be masked
        d2 += [("result", ("leaf", "u32"), t), ("result", t, ("leaf", "u32")), ("tuple", [("leaf", "u8"), t]), ("option", t), ("vec", t),
               ("map", ("leaf", "String"), t, "HashMap"), ("array", 3, t), ("wrap", "Box", t), ("named", "Dw", [t])]
    d3 = []
    for t in rng.sample(d2, min(len(d2), 60 if ctx.quick else 300)):
        d3 += [("result", ("leaf", "u32"), t), ("result", t, ("leaf", "bool")), ("vec", ("tuple", [t, ("leaf", "u8")]))]
    seen, types = set(), []
    for t in base + d1 + d2 + d3:
        k = C.rust_ty(t)
        if k not in seen:
            seen.add(k)
            types.append(t)
    # dependencies() of a library type is what its arguments depend on; what the type CONTRIBUTES is seen where it is
    # used: as the type of a field of a derived type (by name, and inlined)
    hosts = []
    for k, t in enumerate(types):
        hosts.append(mk_struct("H%d" % k, "named", [mk_field("f", t)]))
        hosts.append(mk_struct("I%d" % k, "named", [mk_field("f", t, inline=True)]))
    queries = [("named", h["ident"], []) for h in hosts]
    res = CR.run_given("c12d", defs + hosts, queries, {})
    kept = {q[1] for q in res["queries"]}
    bad = 0
    try:
        mism = [m for m in res["mismatches"] if m["field"] in ("name", "inline", "deps", "decl")]
        for i, q in enumerate(res["queries"]):
            t = types[int(q[1][1:])]
            real = sorted(x.split("@")[0] for x in CR.canon_real("deps", res["q"][i]["deps"]).split("|") if x)
            want = named_in(t, set())
            if q[1][0] == "I":
                if res["q"][i]["decl"].startswith("\x00"):
                    continue     # tuples (and what contains them) cannot be inlined: inline() panics, documented
                want = inline_deps(t)
            if q[1][0] == "I":
                # the inline text of a field names only types that are reported as dependencies
                import re as _re
                text = res["q"][i]["decl"]
                named_there = {d0["ident"] for d0 in defs if _re.search(r"(?<![A-Za-z0-9_\"])%s(?![A-Za-z0-9_\"])" % d0["ident"], text.split("=", 1)[1])}
                if not named_there <= set(real):
                    bad += 1
                    viol.append(dict(kind="property-violated", what="the inlined text of a library type names a type that is not among the dependencies",
                                     field_type=C.rust_ty(t), host=C.to_rust([h for h in hosts if h["ident"] == q[1]][0]), declaration=text,
                                     dependencies=real, named_in_the_text=sorted(named_there)))
                    continue
            if real != sorted(want):
                bad += 1
                viol.append(dict(kind="property-violated", what="a library type does not contribute exactly its type arguments as dependencies",
                                 field_type=C.rust_ty(t), host=C.to_rust([h for h in hosts if h["ident"] == q[1]][0]),
                                 dependencies=real, derived_types_in_the_expression=sorted(want)))
        if mism and not bad:
            ctx.fail("model and implementation disagree on library types over derived types (correspondence)", dict(
                kind="correspondence-broken", broken="Corr/corpus_env_c12d: Model/Gen.v name_of/lib_inline/dependencies_of vs the real impls",
                first=mism[0], count=len(mism)), no_input=True)
    finally:
        CR.corpus_done(res)
    types = res["queries"]
    return {"types": len(types), "violations": bad}


def type_universe(rng, quick):
    ts = [("leaf", l) for l in LEAVES]
    d1 = []
    for t in ts:
        d1 += unary(t)
    d1 += [("map", ("leaf", k), ("leaf", "i32"), "BTreeMap") for k in KEYS]
    d1 += [("array", 64, ("leaf", "u8")), ("array", 65, ("leaf", "u8")), ("tuple", [("leaf", "u8")] * 10)]
    # long texts: the tuple form must not depend on how large the element's text is
    d1 += [("array", 13, ("array", 13, ("array", 13, ("leaf", "u8")))), ("array", 32, ("array", 32, ("tuple", [("leaf", "u8"), ("leaf", "u16"), ("leaf", "u32")]))),
           ("array", 32, ("array", 32, ("leaf", "String"))), ("option", ("array", 20, ("array", 20, ("array", 3, ("leaf", "bool")))))]
    d2 = []
    base2 = [t for t in d1 if t[0] in ("option", "vec", "tuple", "map", "result", "array", "wrap")]
    for t in rng.sample(base2, min(len(base2), 40 if quick else 120)):
        d2 += unary(t)
    d3 = []
    for t in rng.sample(d2, min(len(d2), 60 if quick else 400)):
        d3 += [("option", t), ("vec", t), ("tuple", [t, ("option", ("leaf", "u8"))]), ("map", ("leaf", "String"), t, "BTreeMap"), ("result", t, ("option", ("leaf", "bool")))]
    seen, out = set(), []
    for t in ts + d1 + d2 + d3:
        k = C.rust_ty(t)
        if k not in seen:
            seen.add(k)
            out.append(t)
    return out


# feature-gated and std types outside the fragment of Model/Rust.v: (Rust type, value expressions)
FEATURE_ROWS = [
    ("std::num::NonZeroU8", ["std::num::NonZeroU8::new(7).unwrap()"]),
    ("std::num::NonZeroI64", ["std::num::NonZeroI64::new(-9).unwrap()"]),
    ("std::num::NonZeroU128", ["std::num::NonZeroU128::new(u128::MAX).unwrap()"]),
    ("std::path::PathBuf", ["std::path::PathBuf::from(\"a/b.txt\")"]),
    ("std::net::Ipv4Addr", ["std::net::Ipv4Addr::new(127, 0, 0, 1)"]),
    ("std::net::IpAddr", ["std::net::IpAddr::from([1, 2, 3, 4])"]),
    ("std::net::SocketAddr", ["std::net::SocketAddr::from(([127, 0, 0, 1], 80))"]),
    ("std::collections::HashSet<u8>", ["std::collections::HashSet::from([1u8])", "std::collections::HashSet::<u8>::new()"]),
    ("std::collections::BTreeSet<String>", ["std::collections::BTreeSet::from([String::from(\"a\"), String::from(\"b\")])"]),
    ("std::ops::RangeInclusive<u8>", ["(1u8..=9u8)"]),
    ("std::rc::Rc<u8>", ["std::rc::Rc::new(3u8)"]),
    ("std::sync::Arc<String>", ["std::sync::Arc::new(String::from(\"x\"))"]),
    ("std::borrow::Cow<'static, str>", ["std::borrow::Cow::Borrowed(\"cow\")"]),
    ("std::cell::Cell<u8>", ["std::cell::Cell::new(3u8)"]),
    ("std::sync::RwLock<u8>", ["std::sync::RwLock::new(3u8)"]),
    ("std::marker::PhantomData<u8>", ["std::marker::PhantomData::<u8>"]),
    ("chrono::NaiveDate", ["chrono::NaiveDate::from_ymd_opt(2024, 2, 29).unwrap()"]),
    ("chrono::NaiveDateTime", ["chrono::NaiveDate::from_ymd_opt(2024, 2, 29).unwrap().and_hms_opt(1, 2, 3).unwrap()"]),
    ("chrono::NaiveTime", ["chrono::NaiveTime::from_hms_opt(1, 2, 3).unwrap()"]),
    ("chrono::DateTime<chrono::Utc>", ["chrono::DateTime::<chrono::Utc>::from_timestamp(0, 0).unwrap()"]),
    ("chrono::Weekday", ["chrono::Weekday::Mon"]),
    ("chrono::Month", ["chrono::Month::March"]),
    ("uuid::Uuid", ["uuid::Uuid::nil()"]),
    ("url::Url", ["url::Url::parse(\"https://example.com/a?b=c\").unwrap()"]),
    ("semver::Version", ["semver::Version::new(1, 2, 3)"]),
    ("bytes::Bytes", ["bytes::Bytes::from_static(b\"ab\")", "bytes::Bytes::new()"]),
    ("indexmap::IndexSet<u8>", ["indexmap::IndexSet::from([1u8, 2u8])"]),
    ("indexmap::IndexMap<String, bool>", ["indexmap::IndexMap::from([(String::from(\"k\"), true)])"]),
    ("heapless::Vec<u8, 4>", ["heapless::Vec::<u8, 4>::from_slice(&[1, 2]).unwrap()"]),
    ("smol_str::SmolStr", ["smol_str::SmolStr::new(\"smol\")"]),
    ("ordered_float::OrderedFloat<f64>", ["ordered_float::OrderedFloat(1.5f64)"]),
    ("bigdecimal::BigDecimal", ["\"12.50\".parse::<bigdecimal::BigDecimal>().unwrap()"]),
    ("bson::oid::ObjectId", ["bson::oid::ObjectId::from_bytes([1; 12])"]),
    ("bson::Uuid", ["bson::Uuid::from_bytes([2; 16])"]),
    ("serde_json::Number", ["serde_json::Number::from(3)"]),
    ("Option<uuid::Uuid>", ["None::<uuid::Uuid>", "Some(uuid::Uuid::nil())"]),
    ("Vec<chrono::NaiveDate>", ["vec![chrono::NaiveDate::from_ymd_opt(2024, 2, 29).unwrap()]"]),
    ("std::sync::Weak<u8>", ["std::sync::Weak::<u8>::new()"]),
]
KNOWN_ROWS = {"std::marker::PhantomData<u8>": "phantom_data", "bson::oid::ObjectId": "bson_object_id", "std::sync::Weak<u8>": "weak"}

FEATURE_TOML_EXTRA = """chrono = { version = "0.4", features = ["serde"] }
uuid = { version = "1", features = ["serde"] }
url = { version = "2", features = ["serde"] }
semver = { version = "1", features = ["serde"] }
bytes = { version = "1", features = ["serde"] }
indexmap = { version = "2", features = ["serde"] }
heapless = { version = "0.8", features = ["serde"] }
smol_str = { version = "0.3", features = ["serde"] }
ordered-float = { version = "4", features = ["serde"] }
bigdecimal = { version = "0.4", features = ["serde"] }
bson = { version = "2" }
"""
FEATURES = ("chrono-impl", "bigdecimal-impl", "uuid-impl", "bson-uuid-impl", "bytes-impl", "url-impl", "indexmap-impl", "ordered-float-impl",
            "heapless-impl", "semver-impl", "smol_str-impl", "serde-json-impl")

FEATURE_MAIN = r'''#![allow(unused, clippy::all)]
use std::panic::{catch_unwind, AssertUnwindSafe};
use ts_rs::TS;
fn g<F: FnOnce() -> String>(f: F) -> String { catch_unwind(AssertUnwindSafe(f)).unwrap_or_else(|_| "\u{0}PANIC".to_owned()) }
fn row<T: TS + 'static + ?Sized>(ix: usize) {
    println!("R\u{2}{}\u{2}{}\u{2}{}\u{2}{}", ix, g(|| T::name()), g(|| T::inline()),
             g(|| T::dependencies().iter().map(|d| d.ts_name.clone()).collect::<Vec<_>>().join("|")));
}
fn val<T: serde::Serialize>(ix: usize, k: usize, x: T) {
    let s = match serde_json::to_string(&x) { Ok(s) => s, Err(_) => "\u{0}ERR".to_owned() };
    println!("V\u{2}{}\u{2}{}\u{2}{}", ix, k, s);
}
fn main() {
    std::panic::set_hook(Box::new(|_| ()));
%s
}
'''


def feature_run():
    body = []
    for i, (ty, vals) in enumerate(FEATURE_ROWS):
        body.append("    row::<%s>(%d);" % (ty, i))
        for k, v in enumerate(vals):
            body.append("    val::<%s>(%d, %d, %s);" % (ty, i, k, v))
    toml = vlib.harness_toml("c12_features", deps=("ts-rs", "serde", "serde_json"), ts_features=FEATURES, extra=FEATURE_TOML_EXTRA, serde_features=("derive", "rc"))
    exe = vlib.build_crate("c12_features", toml, {"src/main.rs": FEATURE_MAIN % "\n".join(body)}, target="target-c12", hooks=False)
    p = vlib.run([exe], timeout=600)
    if p.returncode != 0:
        raise vlib.HarnessError("feature harness failed: " + p.stderr[-2000:])
    rows, vals = {}, {}
    for line in p.stdout.split("\n"):
        f = line.split("\x02")
        if f[0] == "R":
            rows[int(f[1])] = dict(name=f[2], inline=f[3], deps=f[4])
        elif f[0] == "V":
            vals[(int(f[1]), int(f[2]))] = f[3]
    return rows, vals


def member_real(cases, tag):
    """cases: (type text, json text) -> bool, decided by Coq on the parsed real type text (no declarations needed)"""
    terms = []
    for ty, js in cases:
        terms.append("bit (memberb [] 100 %s %s)" % (tsparse.coq_ty(tsparse.parse_type(ty)), S.coq_json(S.parse_json(js))))
    body = ("From TsRs Require Import Base.Str Model.TsAst Spec.TsFree Spec.TsSem.\nDefinition bit (b : bool) : N := if b then 49 else 48.\n"
            "Eval vm_compute in [%s].\n" % "; ".join(terms))
    ok, out = vlib.coq_eval("cases_c12_%s" % tag, body, timeout=1200)
    if not ok:
        raise vlib.HarnessError("membership file failed: " + out[-3000:])
    vals = vlib.parse_coq_str_list("[" + out.split("=", 1)[1].rsplit(":", 1)[0] + "]")
    bits = vals[0] if vals else ""
    return [b == "1" for b in bits]


def run(ctx):
    ctx.prove()
    rng = random.Random(ctx.seed)
    ok, out = vlib.coq_make(["theories/Spec/TsSem.vo", "theories/Spec/Serde.vo"])
    if not ok:
        raise vlib.HarnessError("Spec does not build: " + out[-2000:])
    # (A) compositions of the std containers over the leaves: model correspondence + membership of real JSON
    types = type_universe(rng, ctx.quick)
    g = G.Gen(ctx.seed)
    vg = G.Values(g, ctx.seed + 1)
    values = {}
    for i, t in enumerate(types):
        vs = []
        for someness in (False, True, None):
            for _ in range(2):
                v = vg.value(t, 0, someness=someness)
                if v is not None and v[0] not in [x[0] for x in vs]:
                    vs.append(v)
        values[i] = vs[:4]
    res = CR.run_given("c12", [], types, values)
    types = res["queries"]     # rustc may have rejected a few generated expressions
    viol = []
    try:
        mism = [m for m in res["mismatches"] if m["field"] in ("name", "inline", "deps")]
        nser, ser_mism = S.ser_corr(res, "c12ser")
        cases = [(qi, text) for (qi, k), text in sorted(res["v"].items()) if not text.startswith("\x00")]
        r = S.membership(res, cases, "c12")
        distinct = set()
        for (qi, text), rr in zip(cases, r):
            distinct.add((C.rust_ty(types[qi]), text))
            if rr is None or not rr[0]:
                viol.append(dict(kind="property-violated", what="serde_json output of a library type is not a member of the type TS::name() reports",
                                 type=C.rust_ty(types[qi]), json=text, reported=res["q"][qi]["name"]))
            elif not rr[1] and not res["q"][qi]["inline"].startswith("\x00"):
                viol.append(dict(kind="property-violated", what="serde_json output of a library type is not a member of the type TS::inline() reports",
                                 type=C.rust_ty(types[qi]), json=text, reported=res["q"][qi]["inline"]))
        # nothing of a different shape: a fixed-length array with its last element dropped is not a member
        neg = []
        for (qi, k), text in sorted(res["v"].items()):
            t = types[qi]
            if t[0] == "array" and 1 <= t[1] <= 64 and not text.startswith("\x00"):
                j = json.loads(text)
                if isinstance(j, list) and len(j) == t[1]:
                    neg.append((qi, json.dumps(j[:-1], separators=(",", ":"), ensure_ascii=False)))
        rn = S.membership(res, neg, "c12neg") if neg else []
        for (qi, text), rr in zip(neg, rn):
            if rr is not None and (rr[0] or (rr[1] and not res["q"][qi]["inline"].startswith("\x00"))):
                viol.append(dict(kind="property-violated", what="a fixed-length array type admits an array of another length",
                                 type=C.rust_ty(types[qi]), json_of_wrong_length=text[:200], reported_name=res["q"][qi]["name"][:200],
                                 reported_inline=res["q"][qi]["inline"][:200], member_by_name=rr[0], member_by_inline=rr[1]))
        for i, t in enumerate(types):
            if res["q"][i]["deps"] != "":
                viol.append(dict(kind="property-violated", what="a library type over leaves reports dependencies", type=C.rust_ty(t), deps=res["q"][i]["deps"]))
    finally:
        CR.corpus_done(res)
    # (C) library containers over DERIVED types: each contributes exactly its type arguments as dependencies
    dep_stats = dep_universe(ctx, rng, viol)
    # (B) the feature-gated and remaining std rows, on the real impls with all features
    rows, vals = feature_run()
    fcases, fidx = [], []
    for (i, k), js in sorted(vals.items()):
        if js.startswith("\x00"):
            continue
        fcases.append((rows[i]["name"], js))
        fidx.append((i, k))
    fres = member_real(fcases, "features")
    known = 0
    for (i, k), okm, (ty, js) in zip(fidx, fres, fcases):
        rust = FEATURE_ROWS[i][0]
        distinct.add((rust, js))
        if not okm:
            data = dict(kind="property-violated", what="serde_json output of a built-in type is not a member of the type it reports", type=rust,
                        value=FEATURE_ROWS[i][1][k], json=js, reported=ty)
            if rust in KNOWN_ROWS:
                known += 1
                ctx.known_class(KNOWN_ROWS[rust], "%s: %s is not in %s" % (rust, js, ty), data)
            else:
                viol.append(data)
    for v in viol[:3]:
        ctx.fail(v["what"], v)
    if (mism or ser_mism) and not viol:
        first = mism[0] if mism else ser_mism[0]
        ctx.fail("model and implementation disagree (correspondence)", dict(
            kind="correspondence-broken", broken="Corr/corpus_env_c12: Model/Gen.v name_of/lib_inline/visit_generics or Spec/Serde.v vs the real impls", first=first,
            count=len(mism) + len(ser_mism)), no_input=True)
    ctx.finish_proof()
    ctx.coverage.update({
        "evaluations": len(cases) + len(fcases) + 3 * len(types) + dep_stats["types"],
        "dependencies_over_derived_types": dict(dep_stats, rule="every container (Option, Vec, arrays, Box/RefCell/Mutex, tuples, maps, Result at either side, a derived generic) around derived types at depth 1..3, the other side of every binary constructor holding a leaf: dependencies() = exactly the derived types occurring in the expression; name()/inline()/dependencies() vs Model/Gen.v"),
        "distinct_nontrivial": len(distinct),
        "rule": "(A) %d library type expressions: every leaf of an 11-leaf set under every container (Option, Vec, [T;0], [T;2], [u8;64], [u8;65], Box/RefCell/Mutex, Range, 1-/2-/10-tuples, BTreeMap/HashMap with String/char/u8/i64 keys, Result both ways), sampled depth-2 and depth-3 compositions (Option around containers that hold Options, ...), with values built for None/Some, empty/non-empty (and, for fixed-length arrays, the same JSON with the last element dropped, which must NOT be a member): real name()/inline()/dependencies() vs Model/Gen.v byte for byte, Spec/Serde.v vs real serde_json text, and Coq-decided membership of the real JSON in the parsed real name() and inline(); (B) %d rows of std and feature-gated types (NonZero*, PathBuf, IpAddr/SocketAddr, HashSet/BTreeSet, RangeInclusive, Rc/Arc/Cow/Cell/RwLock/Weak/PhantomData, chrono, uuid, url, semver, bytes, indexmap, heapless, smol_str, ordered-float, bigdecimal, bson, serde_json::Number) built with all features: Coq-decided membership of real serde_json output in the reported type; non-trivial = distinct (type, JSON) pairs" % (len(types), len(FEATURE_ROWS)),
        "samples": [dict(type=C.rust_ty(types[k]), reported=res["q"][k]["name"]) for k in (len(types) // 2, len(types) - 1)],
        "correspondence": {"types": len(types), "ser_values": nser, "text_breaks": len(mism), "ser_breaks": len(ser_mism)},
        "oracle": {"composition_values": len(cases), "feature_values": len(fcases), "violations": len(viol), "known": known},
    })
    ctx.assumptions += ["tokio's Mutex/RwLock/OnceCell and chrono::Duration have no Serialize impl (vacuous)", "floats are finite"]
