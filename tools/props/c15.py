"""C15 — doc comments are carried over, contained, and never alter the type."""
import re

import corpus as C
import corpus_run as CR
import tsmini
import tsparse
import vlib


def esc(line):
    """the text of one doc attribute as it stands in the comment: `*/` escaped, a leading `/` kept off the star, and
    empty lines filled with ` *` (an empty line would split the block when the file is shared, C05)"""
    t = line.replace("*/", "*\\/")
    t = " " + t if t.startswith("/") else t
    while "\n\n" in t:
        t = t.replace("\n\n", "\n *\n")
    return t


def run(ctx):
    ctx.prove()
    ndefs = 160 if ctx.quick else 500
    seeds = [ctx.seed] if ctx.quick else [ctx.seed, ctx.seed + 1, ctx.seed + 2]
    st = dict(files=0, comments=0, doc_twins=0, documented_types=0, documented_fields=0, text_cases=0, known=0)
    samples, distinct = [], set()
    for seed in seeds:
        res = CR.corpus(seed, ndefs, log=vlib.log)
        try:
            check_one(ctx, res, seed, st, samples, distinct)
        finally:
            CR.corpus_done(res)
    ctx.finish_proof()
    ctx.coverage.update({
        "evaluations": st["files"] + st["doc_twins"] + st["text_cases"],
        "distinct_nontrivial": len(distinct),
        "rule": "generated corpus with documentation on types and named fields drawn from an adversarial pool (text with `*/`, lines beginning with `/`, `/**/`, a lone `/`, trailing `*`, multi-line block docs with such lines, quotes and backslashes, the object-merge pattern ` } & { `, `export type` inside docs, empty docs, non-ASCII), compiled against /repo; every real export_to_string() is parsed by the independent parser with comments kept: it must parse, every comment block must stand immediately before `export` or before a property name and contain the (escaped) doc text; every documented definition has a generated twin without any documentation, and the real declarations must be equal after removing comments; model text vs real text byte for byte; non-trivial = distinct documented definitions",
        "samples": samples[:6],
        "distribution": st,
    })
    ctx.assumptions += ["docs of enum variants, of tuple-struct fields and of flattened fields are dropped by ts-rs (allowed by the property: it speaks of types and named fields)"]


def check_one(ctx, res, seed, st, samples, distinct):
    qs = res["queries"]
    by = {d["ident"]: d for d in res["defs"]}
    mism = [m for m in res["mismatches"] if m["field"] in ("export", "docs", "decl", "inline")]
    st["text_cases"] += 2 * len(qs)
    viol = []
    first_q = {}
    for i, t in enumerate(qs):
        if t[0] == "named":
            first_q.setdefault(t[1], i)
    for ident, i in first_q.items():
        d = by[ident]
        q = res["q"][i]
        text = q["export"]
        if text.startswith("\x00"):
            continue
        fs = d["fields"] if d["kind"] == "struct" else [f for v in d["variants"] for f in v["fields"]]
        documented = bool(d["docs"]) or any(f["docs"] for f in fs)
        st["files"] += 1
        # O2: the file parses with comments kept; comments are attached
        try:
            toks = tsparse.lex(text[len(tsmini.NOTE):]) if text.startswith(tsmini.NOTE) else None
            if toks is None:
                raise tsparse.ParseError("no notice")
            tsparse.parse_module(text, tsmini.NOTE)
        except tsparse.ParseError as e:
            if not documented:
                continue     # nothing documented here: whether the text parses is C04's question
            data = dict(kind="property-violated", what="the exported text does not parse (documentation read as code?)", error=str(e),
                        type=C.rust_ty(qs[i]), text=text, definition=C.to_rust(d), seed=seed)
            cls = classify(d, by, text)
            if cls:
                st["known"] += 1
                ctx.known_class(cls, ident, data)
            else:
                viol.append(data)
            continue
        ncom = 0
        for k, tk in enumerate(toks):
            if tk[0] != "comment":
                continue
            ncom += 1
            st["comments"] += 1
            if "\n\n" in tk[1]:
                viol.append(dict(kind="property-violated", what="a comment block contains an empty line: merged into a shared file, the declaration is torn from its documentation",
                                 comment=tk[1], type=C.rust_ty(qs[i]), text=text, definition=C.to_rust(d), seed=seed))
            nxt = toks[k + 1] if k + 1 < len(toks) else ("eof", "", -1)
            after = toks[k + 2] if k + 2 < len(toks) else ("eof", "", -1)
            attached = (nxt[:2] == ("id", "export")) or (nxt[0] in ("id", "str") and after[0] == "punct" and after[1] in (":", "?"))
            if not attached:
                viol.append(dict(kind="property-violated", what="a comment block does not stand immediately before a declaration or a property",
                                 comment=tk[1], next_token=nxt[1], type=C.rust_ty(qs[i]), text=text, definition=C.to_rust(d), seed=seed))
        if d["docs"]:
            st["documented_types"] += 1
            distinct.add(ident)
            m = [k for k, tk in enumerate(toks) if tk[:2] == ("id", "export")]
            doc_tok = toks[m[0] - 1] if m and m[0] > 0 and toks[m[0] - 1][0] == "comment" else None
            if doc_tok is None:
                viol.append(dict(kind="property-violated", what="the documentation of the type is not the comment immediately before its declaration",
                                 type=C.rust_ty(qs[i]), docs=d["docs"], text=text, definition=C.to_rust(d), seed=seed))
            else:
                for line in d["docs"]:
                    if esc(line) not in doc_tok[1]:
                        viol.append(dict(kind="property-violated", what="the comment before the declaration does not contain the documentation text",
                                         missing=line, comment=doc_tok[1], type=C.rust_ty(qs[i]), definition=C.to_rust(d), seed=seed))
        st["documented_fields"] += sum(1 for f in fs if f["docs"])
        comments = [tk[1] for tk in toks if tk[0] == "comment"]
        named_fields = [f for f in (d["fields"] if d["kind"] == "struct" and d["shape"] == "named" else
                                    [f for v in d.get("variants", []) if v["shape"] == "named" and not v["skip"] and not v.get("type") and not v.get("as_") for f in v["fields"]])
                        if f["docs"] and not f["skip"] and not f["flatten"]]
        if not d.get("type") and not d.get("as_"):
            for f in named_fields:
                for line in f["docs"]:
                    if not any(esc(line) in c for c in comments):
                        data = dict(kind="property-violated", what="no comment block of the file contains the documentation text of a named field",
                                    field=f["ident"], missing=line, comments=comments, type=C.rust_ty(qs[i]), definition=C.to_rust(d), seed=seed)
                        if " } & { " in line:
                            st["known"] += 1
                            ctx.known_class("docs_contain_merge_pattern", "%s.%s" % (ident, f["ident"]), data)
                        else:
                            viol.append(data)
        if documented and len(samples) < 6:
            samples.append(dict(type=ident, comments=ncom, text=text[len(tsmini.NOTE):][:240]))
    # O0: documentation never decides whether an item compiles: a documented definition that rustc turns away while its twin
    # without documentation is accepted
    for d in res["defs"]:
        if d.get("twin_kind") == "docs" and d["twin_of"] in res["rejected"]:
            viol.append(dict(kind="property-violated", what="a documented definition does not compile while the same definition without documentation does",
                             definition=d["twin_of"], rustc=res["rejected"][d["twin_of"]], undocumented_twin=C.to_rust(d), seed=seed))
    # O1: the twin without documentation has the same declaration
    for d in res["defs"]:
        if d.get("twin_kind") != "docs" or d["twin_of"] not in first_q or d["ident"] not in first_q:
            continue
        a, b = res["q"][first_q[d["twin_of"]]], res["q"][first_q[d["ident"]]]
        if a["decl"].startswith("\x00") or b["decl"].startswith("\x00"):
            continue
        st["doc_twins"] += 1
        try:
            sa = re.sub(r"\s+", " ", tsmini.strip_comments_strings_keep(a["decl"]))
            sb = re.sub(r"\s+", " ", tsmini.strip_comments_strings_keep(b["decl"]))
        except Exception as e:
            raise vlib.HarnessError("comment stripping failed: %s" % e)
        if sa != sb:
            data = dict(kind="property-violated", what="removing the documentation changes the declared type",
                        documented=a["decl"], undocumented=b["decl"], definition=C.to_rust(by[d["twin_of"]]), seed=seed)
            cls = classify(by[d["twin_of"]], by, a["decl"])
            if cls:
                st["known"] += 1
                ctx.known_class(cls, d["twin_of"], data)
            else:
                viol.append(data)
    # O2: every declaration, with its comments removed, is the declaration Coq computes for the SAME environment with
    # all documentation erased (Model/Gen.v on the doc-free definitions): documentation never changes a type
    import copy
    nodocs = copy.deepcopy(res["defs"])
    for d in nodocs:
        d["docs"] = []
        for f in (d["fields"] if d["kind"] == "struct" else [f for v in d["variants"] for f in v["fields"]]):
            f["docs"] = []
    nd_env = res["envname"] + "_nodocs"
    okc, outc = CR.coq_keep(nd_env, CR.env_file(nodocs))
    if not okc:
        raise vlib.HarnessError("doc-free environment does not compile in Coq: " + outc[-2000:])
    try:
        named = [i for i, t in enumerate(qs) if t[0] == "named" and not res["q"][i]["decl"].startswith("\x00")]
        plain = CR.model_exact(nd_env, qs, [(i, 3) for i in named])
    finally:
        CR.coq_cleanup(nd_env)
        CR.C.register(res["defs"])
    unparsable = set(res.get("real_errors", []))
    for i, m in zip(named, plain):
        d = by[qs[i][1]]
        if m.startswith("\x00") or has_bad_strings(d, by):
            continue
        st["doc_free_comparisons"] = st.get("doc_free_comparisons", 0) + 1
        real = re.sub(r"\s+", " ", tsmini.strip_comments_strings_keep(res["q"][i]["decl"])).strip()
        want = re.sub(r"\s+", " ", m).strip()
        if real != want:
            data = dict(kind="property-violated", what="documentation changes the declared type: the declaration without its comments is not the declaration of the doc-free definitions",
                        type=C.rust_ty(qs[i]), declaration=res["q"][i]["decl"], without_comments=real, doc_free_declaration=want,
                        definition=C.to_rust(d), seed=seed)
            cls = classify(d, by, res["q"][i]["decl"])
            if cls:
                st["known"] += 1
                ctx.known_class(cls, C.rust_ty(qs[i]), data)
            else:
                viol.append(data)
    for v in viol[:3]:
        ctx.fail(v["what"], v)
    if mism and not viol:
        ctx.fail("model and implementation disagree on generated text (correspondence)", dict(
            kind="correspondence-broken", broken="Corr/corpus_env: Model/Gen.v + Docs.v vs real export_to_string()", first=mism[0], count=len(mism), seed=seed),
            no_input=True)


def has_bad_strings(d, by, seen=None):
    """a rename / tag string with a quote or backslash anywhere below (C04 known class): comment stripping is not reliable there"""
    seen = seen if seen is not None else set()
    if d["ident"] in seen:
        return False
    seen.add(d["ident"])
    strs = [d.get("rename"), d.get("tag")] + list(d.get("tagging", ())[1:])
    for f in (d["fields"] if d["kind"] == "struct" else [f for v in d["variants"] for f in v["fields"]]):
        strs += [f.get("rename"), f.get("type")]
    for v in d.get("variants", []):
        strs += [v.get("rename"), v.get("type")]
    if any(x and isinstance(x, str) and any(ch in x for ch in '"\\\n') for x in strs):
        return True
    return any(has_bad_strings(by[r], by, seen) for r in CR.def_refs(d) if r in by)


def classify(d, by, text):
    """known class of C15: documentation containing the object-merge pattern is rewritten by the textual merge"""
    def has_pat(dd, seen):
        if dd["ident"] in seen:
            return False
        seen.add(dd["ident"])
        fs = dd["fields"] if dd["kind"] == "struct" else [f for v in dd["variants"] for f in v["fields"]]
        if any(" } & { " in l for f in fs for l in f["docs"]):
            return True
        return any(has_pat(by[r], seen) for r in CR.def_refs(dd) if r in by)
    if has_pat(d, set()):
        return "docs_contain_merge_pattern"
    return None
