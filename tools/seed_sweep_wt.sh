#!/bin/bash
# like seed_sweep.sh, but every seeded change is applied to a scratch worktree of /repo (tools/try_seed_wt.sh), so /repo is
# never touched.  usage: tools/seed_sweep_wt.sh [name-prefix ...]   (default: every directory under seeded/)
cd /verif
sel="$*"
for d in seeded/*/; do
  n=$(basename $d)
  if [ -n "$sel" ]; then ok=0; for s in $sel; do case $n in $s*) ok=1;; esac; done; [ $ok = 1 ] || continue; fi
  [ -f $d/patch.diff ] || continue
  id=$(python3 -c "import json;print(json.load(open('$d/meta.json'))['property'])" 2>/dev/null || echo ${n%%_*})
  out=$(tools/try_seed_wt.sh /verif/$d/patch.diff $id 2>&1)
  if echo "$out" | grep -q "patch does not apply"; then echo "$n $id DOES-NOT-APPLY"; continue; fi
  if echo "$out" | grep "^VIOLATION" | grep -vq "no-failing-input-found"; then echo "$n $id CAUGHT";
  elif echo "$out" | grep -q "^VIOLATION"; then echo "$n $id CAUGHT(no-input)";
  else echo "$n $id MISSED"; fi
done
