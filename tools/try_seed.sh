#!/bin/bash
# usage: tools/try_seed.sh <patch.diff> <PROP> [tier]   — applies the patch to /repo, runs the check, reverts.
set -u
patch=$1; prop=$2; tier=${3:-quick}
cd /repo || exit 2
if ! git diff --quiet; then echo "repo dirty"; exit 2; fi
git apply "$patch" || { echo "patch does not apply"; exit 2; }
cd /verif
python3 tools/check.py "$prop" --tier "$tier"; rc=$?
git -C /repo checkout -- . 
echo "EXIT=$rc"
