#!/usr/bin/env python3
"""Translator for the table-like code of ts-rs: regenerates coq/theories/Gen/Tables.v from /repo's
current working tree on every run.  Tokenizer-level scanning only; fails closed (exit 2) when an
expected item cannot be read."""
import os
import re
import sys

sys.path.insert(0, os.path.dirname(os.path.abspath(__file__)))
import vlib


class TranslatorError(Exception):
    pass


def read(rel):
    return open(os.path.join(vlib.REPO, rel), encoding="utf-8").read()


def rust_str_literal(lit):
    """Value of a Rust string literal token (plain or raw)."""
    m = re.fullmatch(r'r(#*)"(.*)"\1', lit, re.S)
    if m:
        return m.group(2)
    assert lit[0] == '"' and lit[-1] == '"', lit
    body = lit[1:-1]
    out = []
    i = 0
    while i < len(body):
        c = body[i]
        if c == "\\":
            n = body[i + 1]
            if n == "n":
                out.append("\n")
            elif n == "t":
                out.append("\t")
            elif n == "r":
                out.append("\r")
            elif n == "0":
                out.append("\0")
            elif n in "\\\"'":
                out.append(n)
            elif n == "\n":
                i += 2
                while i < len(body) and body[i] in " \t\n":
                    i += 1
                continue
            elif n == "u":
                j = body.index("}", i)
                out.append(chr(int(body[i + 3:j], 16)))
                i = j + 1
                continue
            else:
                raise TranslatorError("escape \\%s" % n)
            i += 2
        else:
            out.append(c)
            i += 1
    return "".join(out)


def first_literal(text, start=0):
    """The first Rust string literal token (plain or raw) in text[start:], or None."""
    m = re.compile(r'r(#*)"|"').search(text, start)
    if not m:
        return None
    if m.group(0) == '"':
        i = m.end()
        while text[i] != '"':
            i += 2 if text[i] == "\\" else 1
        return text[m.start():i + 1]
    end = text.index('"' + m.group(1), m.end())
    return text[m.start():end + 1 + len(m.group(1))]


def const_str(src, name, where):
    m = re.search(r'const\s+%s\s*:\s*&str\s*=\s*' % name, src, re.S)
    lit = first_literal(src, m.end()) if m else None
    if not lit:
        raise TranslatorError("translator could not read const %s in %s" % (name, where))
    return rust_str_literal(lit)


def balanced(src, start, open_ch="{", close_ch="}"):
    """Text between the delimiter at src[start] and its match (string/char literals skipped)."""
    assert src[start] == open_ch
    depth = 0
    i = start
    while i < len(src):
        c = src[i]
        if c == '"':
            i += 1
            while src[i] != '"':
                i += 2 if src[i] == "\\" else 1
        elif c == "/" and src[i + 1] == "/":
            i = src.index("\n", i)
        elif c == open_ch:
            depth += 1
        elif c == close_ch:
            depth -= 1
            if depth == 0:
                return src[start + 1:i], i
        i += 1
    raise TranslatorError("unbalanced delimiter at offset %d" % start)


def impl_primitives(src):
    """rows of every impl_primitives! { tys => "name", ... } invocation: (feature or None, rust type, ts name)"""
    rows = []
    for m in re.finditer(r'((?:#\[cfg\(feature\s*=\s*"([^"]+)"\)\]\s*)?)impl_primitives!\s*\{', src):
        if src[max(0, m.start() - 13):m.start()].strip().endswith("macro_rules!"):
            continue
        feature = m.group(2)
        body, _ = balanced(src, m.end() - 1)
        for group in re.finditer(r'((?:[^=,"]|,)+?)=>\s*("(?:[^"\\]|\\.)*")', body, re.S):
            tys = [t.strip() for t in split_top(group.group(1)) if t.strip()]
            for t in tys:
                rows.append((feature, re.sub(r"\s+", "", t), rust_str_literal(group.group(2))))
    if not rows:
        raise TranslatorError("translator could not read impl_primitives! in ts-rs/src/lib.rs")
    return rows


def split_top(s):
    out, depth, cur = [], 0, []
    for c in s:
        if c in "<([":
            depth += 1
        elif c in ">)]":
            depth -= 1
        if c == "," and depth == 0:
            out.append("".join(cur))
            cur = []
        else:
            cur.append(c)
    out.append("".join(cur))
    return out


def macro_invocations(src, name):
    """(feature, argument text) of every `name!( .. );` invocation outside macro_rules"""
    out = []
    for m in re.finditer(r'((?:#\[cfg\(feature\s*=\s*"([^"]+)"\)\]\s*)?)%s!\s*\(' % name, src):
        before = src[max(0, m.start() - 40):m.start()]
        if "macro_rules!" in before:
            continue
        body, _ = balanced(src, m.end() - 1, "(", ")")
        out.append((m.group(2), re.sub(r"\s+", " ", body.strip())))
    return out


def impl_parse_tables():
    """key tables of the eight impl_parse! invocations: {(pos, spelling): [(keys, handler text)]}"""
    tables = {}
    for pos, rel in (("Struct", "macros/src/attr/struct.rs"), ("Enum", "macros/src/attr/enum.rs"),
                     ("Variant", "macros/src/attr/variant.rs"), ("Field", "macros/src/attr/field.rs")):
        src = read(rel)
        found = 0
        for m in re.finditer(r"impl_parse!\s*\{\s*(Serde<)?(\w+)>?\s*\(\s*input\s*,\s*out\s*\)\s*\{", src):
            body, _ = balanced(src, m.end() - 1)
            body = re.sub(r"//[^\n]*", "", body)
            arms = []
            i = 0
            while True:
                mm = re.compile(r'\s*((?:"[^"]*"\s*\|?\s*)+)=>\s*').match(body, i)
                if not mm:
                    if body[i:].strip():
                        raise TranslatorError("translator could not read impl_parse! arm in %s near %r" % (rel, body[i:i + 40]))
                    break
                keys = re.findall(r'"([^"]*)"', mm.group(1))
                j = mm.end()
                if body[j] == "{":
                    _, e = balanced(body, j)
                    handler = body[j:e + 1]
                    j = e + 1
                    if j < len(body) and body[j:].lstrip().startswith(","):
                        j = body.index(",", j) + 1
                else:
                    depth = 0
                    k = j
                    while k < len(body):
                        c = body[k]
                        if c in "([{":
                            depth += 1
                        elif c in ")]}":
                            depth -= 1
                        elif c == "," and depth == 0:
                            break
                        k += 1
                    handler = body[j:k]
                    j = k + 1
                handler = re.sub(r"\s+", " ", handler.strip())
                handler = handler.replace("out.0.", "out.")  # Serde<X> wraps X
                arms.append((keys, handler))
                i = j
            tables[(pos, "serde" if m.group(1) else "ts")] = arms
            found += 1
        if found != 2:
            raise TranslatorError("translator expected 2 impl_parse! invocations in %s, found %d" % (rel, found))
    return tables


def syn_errs():
    out = []
    for root, _, names in os.walk(os.path.join(vlib.REPO, "macros", "src")):
        for n in sorted(names):
            if not n.endswith(".rs") or n == "verif_hook.rs":
                continue
            rel = os.path.relpath(os.path.join(root, n), vlib.REPO)
            src = read(rel)
            for m in re.finditer(r'syn_err(?:_spanned)?!\s*\(', src):
                if "macro_rules!" in src[max(0, m.start() - 30):m.start()]:
                    continue
                body, _ = balanced(src, m.end() - 1, "(", ")")
                lit = first_literal(body)
                if lit is None:
                    continue  # the macro's own definition ($l:literal)
                out.append((rel, rust_str_literal(lit)))
    return out


# ---- the assert_validity functions as decision rows ------------------------------------------------
def _atoms(cond, where):
    """a condition of assert_validity as a conjunction of atoms (fails closed on anything it does not know)"""
    cond = " ".join(cond.split())
    out = []
    for part in split_and(cond):
        part = part.strip()
        m = re.fullmatch(r"self\.(\w+)\.is_some\(\)", part)
        if m:
            out.append(("has", m.group(1)))
            continue
        m = re.fullmatch(r"self\.(\w+)", part)
        if m:
            out.append(("has", m.group(1)))
            continue
        m = re.fullmatch(r"let Optional::Optional \{ \.\. \} = self\.(\w+)", part)
        if m:
            out.append(("has", m.group(1)))
            continue
        if re.fullmatch(r"!matches!\(item(?:\.fields)?, Fields::Named\(_\)\)", part):
            out.append(("notnamed",))
            continue
        if part == "field.ident.is_none()":
            out.append(("notnamed",))
            continue
        if re.fullmatch(r'cfg!\(feature = "serde-compat"\)', part):
            out.append(("compat",))
            continue
        m = re.fullmatch(r"!\((.*)\)", part)
        if m and "||" in m.group(1):
            ks = []
            for q in m.group(1).split("||"):
                mm = re.fullmatch(r"self\.(\w+)\.is_some\(\)", q.strip())
                if not mm:
                    raise TranslatorError("assert_validity in %s: unknown disjunct %r" % (where, q))
                ks.append(mm.group(1))
            out += [("not", k) for k in ks]
            continue
        raise TranslatorError("assert_validity in %s: unknown condition %r" % (where, part))
    return out


def split_and(cond):
    parts, depth, cur = [], 0, ""
    i = 0
    while i < len(cond):
        c = cond[i]
        if c in "([{":
            depth += 1
        elif c in ")]}":
            depth -= 1
        if depth == 0 and cond.startswith("&&", i):
            parts.append(cur)
            cur = ""
            i += 2
            continue
        cur += c
        i += 1
    return parts + [cur]


def _stmts(body, where, outer, rows):
    """walk `if COND { .. }` statements (nested one level deep), `match (..) { arms }` and syn_err! calls"""
    i = 0
    while i < len(body):
        m = re.compile(r"\s*(if|match)\b").match(body, i)
        if m and m.group(1) == "if":
            j = body.index("{", m.end())
            # `if let Optional::Optional { .. } = self.x {`: the first brace belongs to the pattern
            while re.search(r"Optional::Optional\s*$", body[m.end():j]):
                j = body.index("{", body.index("}", j) + 1)
            cond = body[m.end():j]
            inner, end = balanced(body, j)
            atoms = _atoms(cond, where)
            _stmts(inner, where, outer + atoms, rows)
            i = end + 1
            continue
        if m and m.group(1) == "match":
            j = body.index("(", m.end())
            scrut, e1 = balanced(body, j, "(", ")")
            comps = [re.sub(r"^&?self\.", "", x.strip()) for x in scrut.split(",")]
            j2 = body.index("{", e1)
            arms, end = balanced(body, j2)
            for am in re.finditer(r"\(([^()]*(?:\([^()]*\)[^()]*)*)\)\s*=>\s*(syn_err(?:_spanned)?!\s*\()", arms):
                pats = [x.strip() for x in split_top(am.group(1))]
                if len(pats) != len(comps):
                    raise TranslatorError("assert_validity in %s: match arm %r does not fit %r" % (where, am.group(1), comps))
                atoms = []
                for comp, pat in zip(comps, pats):
                    if pat in ("true", "Some(_)"):
                        atoms.append(("has", comp))
                    elif pat in ("false", "None"):
                        atoms.append(("not", comp))
                    elif pat != "_":
                        raise TranslatorError("assert_validity in %s: unknown pattern %r" % (where, pat))
                call, _ = balanced(arms, am.end(2) - 1, "(", ")")
                rows.append((outer + atoms, rust_str_literal(first_literal(call))))
            i = end + 1
            continue
        m = re.compile(r"\s*syn_err(?:_spanned)?!\s*\(").match(body, i)
        if m:
            call, end = balanced(body, m.end() - 1, "(", ")")
            rows.append((outer, rust_str_literal(first_literal(call))))
            i = end + 1
            continue
        i += 1


def validity_rows():
    """{position: [(atoms, message)]} read from the four assert_validity functions, in source order"""
    out = {}
    for pos, rel in (("struct", "macros/src/attr/struct.rs"), ("enum", "macros/src/attr/enum.rs"), ("variant", "macros/src/attr/variant.rs"),
                     ("field", "macros/src/attr/field.rs")):
        src = read(rel)
        m = re.search(r"fn assert_validity\s*\([^)]*\)\s*->\s*Result<\(\)>\s*\{", src)
        if not m:
            raise TranslatorError("translator could not find assert_validity in %s" % rel)
        body, _ = balanced(src, m.end() - 1)
        rows = []
        _stmts(body, rel, [], rows)
        if not rows:
            raise TranslatorError("translator read no rows from assert_validity in %s" % rel)
        out[pos] = rows
    return out


def merge_rows():
    """{position: [(field, kind)]} read from the four Attr::merge functions.  kind: `or` (self.x.or(other.x)), `bool_or`
    (self.x || other.x), `other` (other.x), `chain` (maps chained), `match` (anything else that is a match on both)"""
    out = {}
    for pos, rel in (("struct", "macros/src/attr/struct.rs"), ("enum", "macros/src/attr/enum.rs"), ("variant", "macros/src/attr/variant.rs"),
                     ("field", "macros/src/attr/field.rs")):
        src = read(rel)
        m = re.search(r"fn merge\s*\(self, other: Self\)\s*->\s*Self\s*\{", src)
        if not m:
            raise TranslatorError("translator could not find Attr::merge in %s" % rel)
        body, _ = balanced(src, m.end() - 1)
        k = body.index("Self {")
        fields, _ = balanced(body, body.index("{", k))
        rows = []
        fields = re.sub(r"//[^\n]*", "", fields)      # line comments between the fields
        parts, depth, cur = [], 0, ""
        for ch in fields:
            if ch in "([{":
                depth += 1
            elif ch in ")]}":
                depth -= 1
            if ch == "," and depth == 0:
                parts.append(cur)
                cur = ""
            else:
                cur += ch
        for part in parts + [cur]:
            part = " ".join(part.split())
            if not part:
                continue
            mm = re.match(r"(?:#\[[^\]]*\]\s*)?(\w+)\s*:\s*(.*)$", part)
            if not mm:
                raise TranslatorError("Attr::merge in %s: unreadable field %r" % (rel, part[:60]))
            f, e = mm.group(1), mm.group(2)
            if e == "self.%s.or(other.%s)" % (f, f):
                kind = "or"
            elif e == "self.%s || other.%s" % (f, f):
                kind = "bool_or"
            elif e == "other.%s" % f:
                kind = "other"
            elif e == "self.%s.into_iter().chain(other.%s).collect()" % (f, f):
                kind = "chain"
            elif e.startswith("match (self.%s, other.%s)" % (f, f)):
                kind = "match"
            elif re.fullmatch(r"self\.%s\.or\(other\.%s\)" % (f, f), e):
                kind = "or"
            else:
                kind = "unknown: " + e[:80]
            rows.append((f, kind))
        out[pos] = rows
    return out


def lib_formats():
    """[(constructor, method, format literal)] of the container impls of ts-rs/src/lib.rs (Option, Result, Vec, HashMap, Range):
    the first string literal of the first format! call in name() / inline()"""
    lib = read("ts-rs/src/lib.rs")
    out = []
    for ctor, head in (("Option", r"impl<T: TS> TS for Option<T>"), ("Result", r"impl<T: TS, E: TS> TS for Result<T, E>"),
                       ("Vec", r"impl<T: TS> TS for Vec<T>"), ("HashMap", r"impl<K: TS, V: TS, H> TS for HashMap<K, V, H>"),
                       ("Range", r"impl<I: TS> TS for Range<I>")):
        k = lib.find(head)
        if k < 0:
            raise TranslatorError("translator could not find `%s` in ts-rs/src/lib.rs" % head)
        body, _ = balanced(lib, lib.index("{", k))
        for fn in ("name", "inline"):
            m = re.search(r"fn %s\(\)\s*->\s*String\s*\{" % fn, body)
            if not m:
                if ctor == "Range" and fn == "inline":
                    continue
                raise TranslatorError("translator could not find %s::%s() in ts-rs/src/lib.rs" % (ctor, fn))
            fbody, _ = balanced(body, m.end() - 1)
            fm = re.search(r"format!\s*\(", fbody)
            if not fm:
                if ctor == "Range" and fn == "inline":
                    continue      # Range::inline() panics (not a format)
                raise TranslatorError("%s::%s(): no format! call" % (ctor, fn))
            call, _ = balanced(fbody, fm.end() - 1, "(", ")")
            out.append((ctor, fn, rust_str_literal(first_literal(call))))
    return out


def macro_formats():
    """[(file, format literal)]: every literal format string of macros/src/types/{enum,named,tuple}.rs, in source order
    (format strings with inline `{name}` arguments are kept as they are)"""
    out = []
    for rel in ("macros/src/types/enum.rs", "macros/src/types/named.rs", "macros/src/types/tuple.rs"):
        src = read(rel)
        for m in re.finditer(r"format!\s*\(", src):
            call, _ = balanced(src, m.end() - 1, "(", ")")
            lit = first_literal(call)
            if lit is None or not call.lstrip().startswith(("\"", "r#", "r\"")):
                raise TranslatorError("format! without a literal format string in %s" % rel)
            text = rust_str_literal(lit)
            # inline arguments (`{text}`) are holes like `{}`; `{{` / `}}` stay
            text = re.sub(r"(?<!\{)\{[A-Za-z_][A-Za-z_0-9]*\}(?!\})", "{}", text)
            out.append((os.path.basename(rel), text))
    return out


def documented_serde_keys():
    src = read("ts-rs/src/lib.rs")
    m = re.search(r"//! ## serde compatability(.*?)\n//! ##", src, re.S) or re.search(r"serde-compat(.*?)Supported serde attributes:(.*?)\n//!\s*\n//! ", src, re.S)
    sec = re.search(r"Supported serde attributes:(.*?)\n//!\s*\n", src, re.S)
    if not sec:
        raise TranslatorError("translator could not read the supported serde attribute list in ts-rs/src/lib.rs")
    # the documentation writes `rename-all`; the attribute key is `rename_all`
    return [k.replace("-", "_") for k in re.findall(r"`([a-z_-]+)`", sec.group(1))]


def generate():
    from vlib import coq_str, coq_list
    export = read("ts-rs/src/export.rs")
    lib = read("ts-rs/src/lib.rs")
    L = ["(* GENERATED by tools/tables_from_source.py from /repo's working tree -- do not edit. *)",
         "From TsRs Require Import Base.Str.", ""]
    for name in ("NOTE", "HEADER_ERROR_MESSAGE", "DECLARATION_START"):
        L.append("Definition %s : str := %s." % (name, coq_str(const_str(export, name, "ts-rs/src/export.rs"))))
    m = re.search(r'Err\(\.\.\)\s*=>\s*Cow::Borrowed\(Path::new\("([^"]*)"\)\)', export)
    if not m:
        raise TranslatorError("translator could not read the default export directory in ts-rs/src/export.rs")
    L.append("Definition DEFAULT_EXPORT_DIR : str := %s." % coq_str(m.group(1)))
    m = re.search(r"const\s+ARRAY_TUPLE_LIMIT\s*:\s*usize\s*=\s*(\d+)\s*;", lib)
    if not m:
        raise TranslatorError("translator could not read ARRAY_TUPLE_LIMIT in ts-rs/src/lib.rs")
    L.append("Definition ARRAY_TUPLE_LIMIT : nat := %s." % m.group(1))
    rows = impl_primitives(lib)
    L.append("(* impl_primitives! rows: (cargo feature or [], Rust type, TypeScript name) *)")
    L.append("Definition primitive_rows : list (str * str * str) :=\n  %s." % coq_list(
        ["(%s, %s, %s)" % (coq_str(f or ""), coq_str(t), coq_str(n)) for f, t, n in rows], sep=";\n   "))
    wr = macro_invocations(lib, "impl_wrapper")
    L.append("Definition wrapper_rows : list (str * str) :=\n  %s." % coq_list(
        ["(%s, %s)" % (coq_str(f or ""), coq_str(a)) for f, a in wr], sep=";\n   "))
    sh = macro_invocations(lib, "impl_shadow")
    L.append("Definition shadow_rows : list (str * str) :=\n  %s." % coq_list(
        ["(%s, %s)" % (coq_str(f or ""), coq_str(a)) for f, a in sh], sep=";\n   "))
    tu = macro_invocations(lib, "impl_tuples")
    tu = [a for _, a in tu if not a.startswith("impl") and "$" not in a]
    if len(tu) != 1:
        raise TranslatorError("translator could not read the impl_tuples! invocation")
    L.append("Definition tuple_max_arity : nat := %d." % len(tu[0].split(",")))
    tables = impl_parse_tables()
    L.append("(* impl_parse! tables: keys and normalised handler text per position and spelling *)")
    for (pos, sp), arms in sorted(tables.items()):
        L.append("Definition keys_%s_%s : list (str * str) :=\n  %s." % (pos, sp, coq_list(
            ["(%s, %s)" % (coq_str(k), coq_str(h)) for keys, h in arms for k in keys], sep=";\n   ")))
    errs = syn_errs()
    L.append("Definition syn_err_messages : list (str * str) :=\n  %s." % coq_list(
        ["(%s, %s)" % (coq_str(f), coq_str(msg)) for f, msg in errs], sep=";\n   "))
    # assert_validity: the decision rows (atoms: VHas key | VNot key | VNotNamed | VCompat)
    L.append("Inductive vatom := VHas (k : str) | VNot (k : str) | VNotNamed | VCompat.")
    for pos, rows in sorted(validity_rows().items()):
        def atom(a):
            return {"has": lambda: "VHas %s" % coq_str(a[1]), "not": lambda: "VNot %s" % coq_str(a[1]), "notnamed": lambda: "VNotNamed",
                    "compat": lambda: "VCompat"}[a[0]]()
        L.append("Definition validity_rows_%s : list (list vatom * str) :=\n  %s." % (pos, coq_list(
            ["(%s, %s)" % (coq_list([atom(a) for a in atoms]), coq_str(msg)) for atoms, msg in rows], sep=";\n   ")))
    L.append("Definition macro_formats : list (str * str) :=\n  %s." % coq_list(
        ["(%s, %s)" % (coq_str(f), coq_str(lit)) for f, lit in macro_formats()], sep=";\n   "))
    L.append("Definition lib_formats : list (str * str * str) :=\n  %s." % coq_list(
        ["(%s, %s, %s)" % (coq_str(c), coq_str(f), coq_str(lit)) for c, f, lit in lib_formats()], sep=";\n   "))
    for pos, rows in sorted(merge_rows().items()):
        L.append("Definition merge_rows_%s : list (str * str) :=\n  %s." % (pos, coq_list(
            ["(%s, %s)" % (coq_str(f), coq_str(k)) for f, k in rows], sep=";\n   ")))
    L.append("Definition documented_serde_keys : list str := %s." % coq_list([coq_str(k) for k in documented_serde_keys()]))
    return "\n".join(L) + "\n"


def main():
    try:
        text = generate()
    except TranslatorError as e:
        print(str(e))
        sys.exit(2)
    path = os.path.join(vlib.THEORIES, "Gen", "Tables.v")
    changed = vlib.write_if_changed(path, text)
    print("Gen/Tables.v %s" % ("rewritten" if changed else "unchanged"))


if __name__ == "__main__":
    main()
