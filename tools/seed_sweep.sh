#!/bin/bash
# runs every seeded change against the quick check of its property; prints CAUGHT / CAUGHT(no-input) / MISSED per seed
cd /verif
for d in seeded/*/; do
  n=$(basename $d); id=$(python3 -c "import json;print(json.load(open('$d/meta.json'))['property'])" 2>/dev/null || echo ${n%%_*})
  out=$(tools/try_seed.sh /verif/$d/patch.diff $id 2>&1)
  if echo "$out" | grep -q "patch does not apply"; then echo "$n $id DOES-NOT-APPLY"; continue; fi
  if echo "$out" | grep "^VIOLATION" | grep -vq "no-failing-input-found"; then echo "$n $id CAUGHT";
  elif echo "$out" | grep -q "^VIOLATION"; then echo "$n $id CAUGHT(no-input)";
  else echo "$n $id MISSED"; fi
done
