#!/usr/bin/env python3
"""Writes /verif/MANIFEST.json from the table below (run by hand after changing what is claimed)."""
import json
import os

ROOT = os.path.dirname(os.path.dirname(os.path.abspath(__file__)))
HOOK_COMMITS = ["138b461"]

CLAIMS = {
    "C05": dict(
        text="Coq theorems about the string-level transcription of export::merge and of export_and_merge (Model/Merge.v, MergeSpec.v): on well-formed declaration texts the textual merge computes the structured merge (bridge), the final file of EVERY history is the canonical file of the exported set (sorted de-duplicated import groups, blocks in key order, each once, intact), hence permutation- and prefix-independent; re-export is a no-op; the in-place rewrite never leaves a stale tail. Tied to the code on every run: the model and the real export_and_merge are run on all permutations of all subsets of an 8-item universe (plus histories with repetitions, a malformed stream for merge(), known-class items) and compared byte for byte; real threads with yield points are validated against the lock discipline.",
        note="Trusted: Coq kernel/vm_compute; the transcription of merge (correspondence is sampling); file system model (first touch truncates, in-place rewrite). Partial: real thread interleavings are validated on recorded traces, not proved about the Rust mutex. Known classes excluded from the theorems are listed in known_findings.json (doc_blank_line, import_named_from, export_type_in_body).",
        technique="Coq proof (string-level bridge + sorted-list algebra + induction over histories) + exhaustive permutation/prefix correspondence on the real export_and_merge + trace validation of real threads",
        ref="DESIGN.md section 5 C05, section 10"),
    "C06": dict(
        text="Coq state machine of file system x registry with export / export_all / export_all_to (Model/ExportSM.v, after the fix that normalises in export_to); theorems: a failed step changes neither files nor registry, registry entries are never lost, every written file is determined by its registry entry. Tied to the code on every run: ~3000 histories over 8 types (shared file, cycle, generic with two instantiations, ../ escape) x 5 directory spellings x 5 TS_RS_EXPORT_DIR settings x stale/empty trees, run on a real directory and in Coq, trees compared byte for byte; oracle on the real trees: histories exporting the same set end with the same tree.",
        note="Trusted: Coq kernel/vm_compute; modelled (not verified): file system, cwd, environment variable, TypeId injectivity; what TS reports for the universe types is read from the real code each run. Theorems proved so far are listed in evidence.theorems; the full history-independence statement is composed from C05 (per-file confluence) and the registry invariant.",
        technique="Coq proof over an executable state machine + history correspondence on a real directory tree + grouping oracle on real trees",
        ref="DESIGN.md section 5 C06, section 10"),
    "C08": dict(
        text="Coq theorems for paths of ANY depth and any component names (Model/Path.v): the specifier import_path writes is relative, backslash-free, without .ts (ending in .js exactly under ESM) and resolves, by the TypeScript rules, from the importing file's directory to exactly the dependency's file; diff_paths is base-independent; the same-file test is exact; absolute yields root + normal names, never panics, is idempotent and rejects paths above the root. Tied to the code on every run by exhaustive enumeration of path pairs over a component alphabet x bases x ESM (both sides: Coq model and ts_rs::verif::import_path), digests compared, plus the resolution oracle evaluated by Coq.",
        note="Trusted: Coq kernel/vm_compute; transcription of Path::components/join/parent and of path.rs/import_path (pinned by ~56k cases per run); Unix rules only (Windows branch not modelled); TypeScript resolution rule as specified in Model/Path.v `resolve`. Known class: file stems ending in .ts/.js (known_findings.json).",
        technique="Coq proof (induction over component lists and strings) + exhaustive model/implementation correspondence by vm_compute digests + resolution oracle",
        ref="DESIGN.md section 5 C08"),
    "C09": dict(
        text="Theorem C09_rename_agrees (Coq, closed): for every classification of upper-case characters, position, rule and every identifier (any list of scalar values), if serde's rename function yields a name then ts-rs's yields the same. Both functions are transcribed arm by arm from macros/src/attr/mod.rs and serde_derive 1.0.215 case.rs and tied to the code on every run by exhaustive enumeration over a mixed alphabet (both sides evaluated in Coq and in the real code) plus compiled end-to-end comparison of decl() keys with serde_json keys.",
        note="Trusted: Coq kernel + vm_compute; the two transcriptions (checked by correspondence on ~2*10^5 cases per run, sampling); char::is_uppercase is universally quantified in the theorem. No axioms.",
        technique="Coq proof (induction over the identifier) + model/implementation correspondence by vm_compute digests + serde_derive case.rs as oracle",
        ref="DESIGN.md section 5 C09"),
    "C11": dict(
        text="Coq state machine (Model/ExportSM.v) with recursive_export and its seen-set: theorems about which registry entries / files an export_all adds (only output locations of visited exportable types; nothing else is touched). Tied to the code on every run: every type of the universe (cycles, dependencies only through generic arguments, inlined/flattened fields, parameter defaults, non-exportable roots) as root of export_all / export_all_to / export under several base settings with pre-existing unrelated files; the real directory is snapshotted before/after and compared with the model and with the set computed from what TS reports (root + reachable exportable types).",
        note="Trusted: Coq kernel/vm_compute; file system model; the visit lists are read from the real code each run. The documented output_path rule is validated on the universe's export_to forms (absent, directory, file, nested, ../).",
        technique="Coq proof over the export state machine + before/after snapshot correspondence on a real directory",
        ref="DESIGN.md section 5 C11, section 10"),
    "C01": dict(
        text="Coq: (1) the meaning of the generated TypeScript types as sets of JSON values (Spec/TsSem.v: exact objects, bigint = JSON integer, references unfolded with parameters substituted, intersections in disjunctive normal form) and serde's serialisation of the fragment (Spec/Serde.v) are executable Gallina definitions; (2) theorem C01_library_layer: for library type expressions of ANY nesting depth, arrays of every length, maps with string/char/integer keys, and every value, what serde_json emits is a member of the type TS::name() reports (induction over the type grammar); (3) the derive layer is tied to the theorems of C07/C14 (the declaration body instantiated at the arguments IS the inline form) and is decided on every run by evaluating the Coq membership predicate on the REAL serde_json output of systematically built values of every corpus type (every variant, Some/None, empty/non-empty collections) against the declared types, whose model ASTs are compared with the real decl()/name()/inline() text byte for byte; Spec/Serde.v itself is compared with the real serde_json text on every value.",
        note="PARTIAL proof: the unbounded theorem covers the library layer only; for derived types (structs/enums x representations x attributes x generics) membership is decided by Coq per generated case (sampling: ~500 values quick, ~5000 thorough), not proved for all definitions. Trusted: Coq kernel/vm_compute; the reading of TypeScript types in Spec/TsSem.v; Spec/Serde.v (pinned against real serde_json each run); the Python JSON-to-Coq converter. Known classes: optional without skip_serializing_if, newtype struct with a skipped field, textual merge (known_findings.json); non-finite floats and user-asserted bindings (`as`, `type`) are outside the generated fragment.",
        technique="Coq proof (library layer, induction over the type grammar) + membership decided by Coq (vm_compute of memberb) on real serde_json output of a compiled corpus + model/implementation text correspondence + serde model correspondence",
        ref="DESIGN.md section 5 C01, section 10"),
    "C02": dict(
        text="Coq theorems, for every definition and all type arguments, that the binding corresponds exactly to the item (the structural half of the property): the union has one arm per non-skipped variant in source order and nothing else (C02_union_arms_are_the_live_variants), tuples have one element per non-skipped field (C02_tuple_length), `?` appears only for optional on the field or optional_fields with an Option type (C02_optional_mark), property names are serde's names (C02_property_key with C09), empty shapes are null / never[] / Record<string, never> / never (C02_empty_shapes, C02_empty_enum_is_never). Acceptance by serde's Deserialize is decided on every run: Coq enumerates inhabitants of the REAL declared type of every corpus type (Spec/TsSem.v witnesses on the independently parsed real text: every union arm, optional properties present/absent, arrays of length 0..2, index-signature keys, leaf values every Rust leaf can represent), re-checks each with memberb, the real serde_json::from_str::<T> must accept each, and the re-serialised value must again be a member.",
        note="PARTIAL proof: no model of serde's Deserialize is verified; `every inhabitant deserializes` is decided by the real serde on Coq-enumerated witnesses (sampling by structure, ~1100 witnesses quick), the theorems cover the structural correspondence only. Soundness of the witness enumeration is re-checked per witness by memberb (not yet proved for all types). Known classes: 128-bit integers behind serde's buffered deserialisation, newtype struct with skipped field, optional without skip_serializing_if (re-serialisation). Refined-string leaves (IpAddr, Uuid, ..) are outside the generated fragment.",
        technique="Coq proof (structural correspondence of the derive layer) + Coq-enumerated inhabitants of the real declared types fed to the real serde_json::from_str, re-serialisation re-checked by the Coq membership predicate",
        ref="DESIGN.md section 5 C02, section 10"),
    "C03": dict(
        text="Coq theorems, for all environments of definitions, attribute combinations, nesting depths and type arguments: every type name that a generated declaration / inline form / flattened form refers to is the identifier of an exportable type handed to the visitor by the generated visit_dependencies() (C03_used_names_are_dependencies, C03_inline_names_are_dependencies, C03_name_refs: induction over the type grammar, case analysis of the derive layer, induction on generator fuel with gen and deps side by side); and for ANY dependency list the import statements generate_imports builds are sound (each imported name is a non-self dependency that is not in the same file, under exactly the specifier import_path computes for its file), name every name in one place only, and are complete up to equal names (C03_imports). With C08 (the specifier resolves to that file) and C11 (export_all writes the file of every visited exportable type). Tied to the code on every run: model dependencies()/export_to_string() vs real byte for byte on the corpus, and every exportable corpus type is exported with export_all_to into a real directory whose every file is read back by an independent reader: used names = imported + declared + parameters, every import resolves to a written file declaring the name, no self-import, no duplicates, no unused import.",
        note="Trusted: Coq kernel/vm_compute; transcription of deps.rs call sites and of generate_imports (pinned by the corpus correspondence); the Python reader of real files (tools/tsmini.py). Partial: `imports nothing it does not use` is NOT proved (it is false: known class inlined_generic_default) — it is decided by the oracle on the real trees only; the composition of the dependency-level and import-level theorems across the dummy renaming of WithoutGenerics is by correspondence. `type = \"..\"` overrides are opaque.",
        technique="Coq proof (induction over the Rust type grammar + derive case analysis + fuel induction; fold invariants over sorted association lists) + compiled corpus correspondence + closed-module oracle on real export_all_to trees",
        ref="DESIGN.md section 5 C03, section 10"),
    "C07": dict(
        text="Coq theorems about the derive model (Model/Gen.v: open-recursion transcription of macros/src/types/*.rs, lib.rs generate_decl_fn/format_generics and the container impls of ts-rs/src/lib.rs) for ALL environments of definitions, all nesting depths and all type arguments: the body of a declaration mentions only the parameters its header binds, the header lists the definition's type parameters in order with the names of their defaults (C07_scoped, C07_params); a reference to an instantiation is the identifier applied to the arguments' names (C07_name); and the generic declaration's body instantiated at the arguments IS the inline form at those arguments — parameters in name position replaced by the arguments' names, in flattened position by their flattened forms, nothing else changed (C07_instantiate, by induction over the type grammar and the fuel of the generator). Tied to the code on every run by the corpus run: generated definitions compiled against /repo, model text vs real name()/inline()/decl()/decl_concrete() byte for byte at 3 instantiations of every generic definition, plus oracles on the real texts (decl identical across instantiations; expansion computed by Coq equals the real decl_concrete()).",
        note="Trusted: Coq kernel/vm_compute; the hand transcription of the derive (pinned by the corpus correspondence, sampling); rustc. decl() taking no arguments is true of the model by construction and of the implementation by the correspondence only. Known classes (known_findings.json): a parameter under #[ts(inline)] makes decl() panic; optional/optional_fields on a bare parameter. Const parameters, lifetimes and #[ts(concrete)] are not in the generated fragment.",
        technique="Coq proof (induction over the Rust type grammar, case analysis of the derive layer, induction on generator fuel) + compiled corpus correspondence (model text vs real decl()/decl_concrete()/name()/inline()) + substitution oracle evaluated by Coq on the real declarations",
        ref="DESIGN.md section 5 C07, section 10"),
    "C14": dict(
        text="Coq theorems: the inline form of ANY type of ANY environment is the body of its own declaration instantiated at its arguments (C14_inline_is_instantiated_body = the instantiation theorem of C07, by induction over the type grammar and the generator's fuel); a reference by name denotes exactly what the declaration body denotes at the arguments, so an inlined field and a named field have the same inhabitants (C14_reference_denotes_body); an intersection of object types denotes the object with the merged property lists and distributes over the arms of a flattened enum (C14_flatten_merges, C14_flatten_enum_distributes) — i.e. `flatten` means merging the properties under the reading of Spec/TsSem.v; decl_concrete() is `type N = inline();` (C14_decl_concrete). `as = U` is the binding for U by construction of the model (f_ty is the `as` type) and is tied to the code by generated twins: every definition with a field-level `as` has a twin whose field has type U, and the two REAL declarations must be equal; every definition with `inline` fields has a twin without, and the same real serde_json values must be members of both real declarations (membership decided by Coq on the independently parsed real text); membership by real name() and by real inline() must agree on every value.",
        note="Trusted: Coq kernel/vm_compute; the reading of TypeScript types (Spec/TsSem.v); the Python parser of real text (tools/tsparse.py); the corpus generator. The semantic theorems are about the AST: that the printed text denotes the AST is checked per generated case (norm_ok: textual merge = structural merge) — known class textual_merge where it is not. Variant- and container-level `as` are covered by the model/implementation text correspondence only.",
        technique="Coq proof (instantiation theorem; semantic lemmas about intersections/references under an executable denotation) + twin-definition oracle on real declarations + Coq-decided membership of real serde_json values in real (parsed) declarations",
        ref="DESIGN.md section 5 C14, section 10"),
    "C15": dict(
        text="Coq theorems for EVERY list of doc strings (any characters, any number of lines; Model/Docs.v = parse_docs + escape_doc after fix 44c978d): the rendered JSDoc block opens with `/**`, ends with `*/` + newline and contains the terminator `*/` exactly once, at its end — no documentation text can end its comment early (C15_contained, C15_block_shape, by induction over the strings with a boundary lemma for concatenation); no docs, no comment (C15_no_docs_no_comment); changing the documentation of a field changes its property's comment and nothing else, changing the documentation of a type changes neither its inline nor its flattened form (C15_field_docs_do_not_change_the_type, C15_type_docs_do_not_change_the_type). Tied to the code on every run: corpus definitions documented from an adversarial pool are compiled against /repo; every real export_to_string() must parse under the independent parser with comments kept, every comment block must stand immediately before `export` or a property name and contain the escaped doc text; every documented definition has a generated twin without documentation whose real declaration must equal the documented one after removing comments; model text vs real text byte for byte.",
        note="Trusted: Coq kernel; transcription of parse_docs/escape_doc (pinned by the text correspondence); the Python lexer/parser. Docs of variants, tuple fields and flattened fields are dropped by ts-rs (allowed by the property). Known class: docs containing the object-merge pattern ` } & { ` are rewritten by the textual merge (known_findings.json). That block docs survive merging of several types into one file is C05's known class doc_blank_line.",
        technique="Coq proof (induction over doc strings: exactly one terminator; independence of the type from docs) + independent parse of real exported text with comment attachment check + documentation-free twin definitions",
        ref="DESIGN.md section 5 C15, section 10"),
    "C17": dict(
        text="Coq state machine (Model/ExportSM.v) with Ok/Err/Panic outcomes: theorems that a failing export_to changes neither the registry nor any file, that paths above the root and non-exportable roots are errors (with C08_absolute_above_root). Tied to the code on every run: histories with one obstacle (target is a directory, parent component is a regular file, above-root path, non-exportable root, export_all failing half-way) before each step, removal and retry, on a real directory under catch_unwind: no panic, and the tree after retry equals the fault-free tree; model and implementation compared byte for byte.",
        note="Trusted: Coq kernel/vm_compute; file system model (errors exactly where the property lists obstacles). Partial: I/O faults below File::create (short writes, sync_all) cannot be injected offline; the model has the insert-after-success branch, the implementation side of it is not exercised.",
        technique="Coq proof over the export state machine + fault-injection correspondence on a real directory",
        ref="DESIGN.md section 5 C17, section 10"),
}


def main():
    props = [json.loads(l) for l in open(os.path.join(ROOT, "properties.jsonl"))]
    m = {
        "version": 1,
        "setup_cmd": "python3 tools/setup.py",
        "hooks": {
            "guard": "--cfg ts_rs_verif (RUSTFLAGS)",
            "enable": "RUSTFLAGS='--cfg ts_rs_verif' cargo build/test --offline with CARGO_TARGET_DIR under /verif/.cache (tools/vlib.py: macro_hook, build_crate)",
            "baseline_off_cmd": "cd /repo && cargo test --workspace --no-fail-fast --offline",
            "source_commits": HOOK_COMMITS,
            "add_only": True,
        },
        "engines": [{
            "name": "coq-proof+correspondence", "path": "tools/check.py", "serves_properties": sorted(CLAIMS),
            "kind_free_text": "Coq 8.16 theorems about executable Gallina models (coq/theories), re-checked on every run with pinned statements and Print Assumptions; models tied to /repo by a translator for table-like code (tools/tables_from_source.py -> Gen/Tables.v) and by a correspondence run (vm_compute of the model vs the implementation built from the working tree with hooks), plus oracles evaluated on the implementation's real outputs"}],
        "checks": [],
        "notes": "See DESIGN.md. Entry point: python3 tools/check.py <id> --tier quick|thorough | --replay <file>. Known findings: known_findings.json (committed, never written at run time).",
        "not_applicable": [],
    }
    for p in props:
        pid = p["id"]
        if pid in CLAIMS:
            c = CLAIMS[pid]
            m["checks"].append({
                "property_id": pid,
                "quick_cmd": "python3 tools/check.py %s --tier quick" % pid,
                "thorough_cmd": "python3 tools/check.py %s --tier thorough" % pid,
                "evidence_file": "/verif/evidence/%s.json" % pid,
                "replay_cmd_template": "python3 tools/check.py %s --replay {path}" % pid,
                "engine": "coq-proof+correspondence",
                "level_claimed": {"category": "proof", "text": c["text"], "design_ref": c["ref"]},
                "level_note": c["note"],
                "technique": c["technique"],
            })
        else:
            m["not_applicable"].append({"property_id": pid, "reason": "not claimed yet: check under construction (DESIGN.md section 9, build order); it will be claimed once its Coq theorems and correspondence run exist"})
    json.dump(m, open(os.path.join(ROOT, "MANIFEST.json"), "w"), indent=1)
    print("MANIFEST.json: %d checks, %d not claimed" % (len(m["checks"]), len(m["not_applicable"])))


if __name__ == "__main__":
    main()
