"""Systematic + random generation of corpus definitions, queries (closed types to evaluate) and
values; and the source of the corpus crate that prints what the real code says about them."""
import random

import corpus as C
from corpus import mk_field, mk_struct, mk_variant, mk_enum

LEAF_POOL = ["i32", "u8", "String", "bool", "f64", "u64", "i64", "char", "()", "u32", "i128", "f32", "usize", "u16", "i8"]
DEFAULTABLE = ["i32", "u8", "String", "bool", "f64", "u64", "char", "u32"]
FIELD_IDENTS = ["a", "b", "foo_bar", "x1", "some_long_name", "id", "type", "value", "inner", "data", "k", "opt", "list", "fooBar", "_lead", "trail_", "dou__ble", "ref", "Up"]
VARIANT_IDENTS = ["A", "B", "Foo", "FooBar", "Unit", "New", "Tup", "Named", "Foo_Bar", "X1", "lower", "HTTPServer", "Self_"]
RENAMES = ["renamed", "my-key", "1st", "with space", "$dollar", "snake_case", "ünï", "a.b", ""]
RULES = list(C.RULES)
DOCS = [["/etc/leading/slash"], [" ends with a star *"], ["*/"], [" first", "/second starts with a slash", " third */ closes"],
        ["\n block with\n/slash/line\n and */ inside\n"], [" merge pattern } & { inside"], ["/**/"], ["/"],
        [" one line"], [" first", " second"], [" with `code` and <b>tags</b>"], ["no leading space"], [" contains */ a terminator"],
        [" quote \" and backslash \\ "], ["\n multi\n line block\n "], [" unicode ü → ✓"], [""], [" export type Fake = 1;"],
        # one attribute holding several lines (the `/** .. */` branch of parse_docs) x what it begins / ends with
        ["/etc/app/limits.toml\nsecond line"], ["/\n"], ["/**/\n/"], ["*/\n/"], [" a\n/b\n*/c"], ["*\n"], ["/*\n*/"], [" x\n *"],
        # several attributes, one of them holding several lines x what the continuation line begins with
        [" Where:", " first, then\n/etc/app/config.toml"], [" a", "b\n/"], [" x\n/**", " y"], ["\n/", ""], [" p\n*/ q", "/r"], [" k\n\n/ after blank", " z"],
        # empty lines: inside one attribute, at its ends, across attributes, nothing but newlines
        [" block\n\n with an empty line "], [" ends with a newline\n", "\nbegins with one"], ["\n\n\n"], [" x\n\n\n/y\n", "", "\n"], ["\n", "\n"],
        # braces: documentation is text, never a format template
        [" rendered as {{name}} with {0} and {1}"], [" json {\"a\": 1} and a lone { and }"]]
EXPORT_TO = [None, None, None, "sub/", "nested/deep/", "custom/File.ts", "../up/", "shared.ts", "shared.ts", "sub/shared2.ts", ".dot/", "sub/.hidden.ts"]


class Gen:
    def __init__(self, seed, profile="quick"):
        self.rng = random.Random(seed)
        self.defs = []          # in dependency order
        self.by_id = {}
        self.n = 0
        self.profile = profile

    # ---- helpers -------------------------------------------------------------------------
    def fresh(self, prefix="T"):
        self.n += 1
        return "%s%d" % (prefix, self.n)

    def add(self, d):
        # some fields are written through a type alias (`type A7 = Vec<Foo>;`): the derive sees a bare identifier
        if not d.get("no_alias"):
            fs = d["fields"] if d["kind"] == "struct" else [f for v in d["variants"] for f in v["fields"]]
            for k, f in enumerate(fs):
                t = f.get("serde_ty", f["ty"])
                if f.get("alias") is None and not f["flatten"] and f.get("as_") is None and f.get("type") is None and not self.contains_kind(t, ("param",)) \
                        and t[0] in ("vec", "option", "map", "wrap", "tuple", "array") and self.contains_kind(t, ("named",)) and self.rng.random() < 0.25:
                    f["alias"] = "Al_%s_%d" % (d["ident"].replace("r#", ""), k)
        self.defs.append(d)
        self.by_id[d["ident"]] = d
        return d

    def flags(self, d):
        """what a definition can be used for"""
        return d.setdefault("flags", {})

    def object_like(self, d):
        """serializes as a JSON object for every value and has inline_flattened: flatten target"""
        if d["type"] or d["as_"]:
            return False
        if d["kind"] == "struct":
            return d["shape"] == "named" and (d["fields"] or d["tag"])
        return False

    def named_candidates(self, pred=None, nparams=None):
        out = [d for d in self.defs if (pred is None or pred(d)) and not d.get("no_ref")]
        return out

    def ty(self, depth, params=(), named_ok=True, default_only=False, key=False):
        r = self.rng
        if key:
            return ("leaf", r.choice(["String", "String", "String", "i32", "char", "u8"]))
        if default_only:
            k = r.random()
            if k < 0.6:
                return ("leaf", r.choice(DEFAULTABLE))
            if k < 0.8:
                return ("option", self.ty(depth - 1, params, named_ok))
            return ("vec", self.ty(depth - 1, params, named_ok))
        if depth <= 0:
            k = r.random()
            if params and k < 0.25:
                return ("param", r.randrange(len(params)))
            return ("leaf", r.choice(LEAF_POOL))
        k = r.random()
        if k < 0.30:
            return ("leaf", r.choice(LEAF_POOL))
        if k < 0.40:
            return ("option", self.ty(depth - 1, params, named_ok))
        if k < 0.50:
            return ("vec", self.ty(depth - 1, params, named_ok))
        if k < 0.55:
            return ("array", r.choice([0, 1, 2, 3]), self.ty(depth - 1, params, named_ok))
        if k < 0.62:
            return ("tuple", [self.ty(depth - 1, params, named_ok) for _ in range(r.choice([1, 2, 2, 3]))])
        if k < 0.69:
            return ("map", self.ty(0, key=True), self.ty(depth - 1, params, named_ok), r.choice(["BTreeMap", "BTreeMap", "HashMap"]))
        if k < 0.74:
            return ("wrap", r.choice(["Box", "std::cell::RefCell", "std::sync::Mutex"]), self.ty(depth - 1, params, named_ok))
        if k < 0.77:
            return ("result", self.ty(depth - 1, params, named_ok), self.ty(depth - 1, params, named_ok))
        if k < 0.79:
            return ("range", ("leaf", r.choice(["i32", "u8", "u64"])))
        if params and k < 0.86:
            return ("param", r.randrange(len(params)))
        if named_ok:
            cands = self.named_candidates()
            if cands:
                d = r.choice(cands)
                return ("named", d["ident"], [self.ty(depth - 1, params, named_ok) for _ in d["params"]])
        return ("leaf", r.choice(LEAF_POOL))

    def obj_named(self, params=()):
        """a type usable as a flatten target: named struct (maybe generic) or enum"""
        cands = [d for d in self.defs if d.get("flatten_ok") and not d.get("no_ref")]
        if not cands:
            return None
        d = self.rng.choice(cands)
        return ("named", d["ident"], [self.obj_arg(p) for p in d["params"]])

    def obj_arg(self, p):
        # an argument that keeps flattened parameters object-like
        cands = [d for d in self.defs if d.get("flatten_ok") and not d["params"] and d["kind"] == "struct" and not d.get("no_ref")]
        if cands and self.rng.random() < 0.5:
            return ("named", self.rng.choice(cands)["ident"], [])
        return ("leaf", self.rng.choice(["i32", "String", "bool"]))

    # ---- fields --------------------------------------------------------------------------
    def field(self, ident, params, named, depth=2, attrs=True):
        """independent attribute draws, within what FieldAttr::assert_validity and serde accept"""
        r = self.rng
        f = mk_field(ident, self.ty(depth, params))
        if not attrs:
            return f
        if r.random() < 0.08:                       # skip: nothing else matters; serde needs Default
            f["ty"] = self.ty(1, params, default_only=True)
            f["skip"] = True
            return f
        if named and r.random() < 0.10:             # flatten: excludes as / rename / inline / optional / type
            t = self.obj_named(params)
            if t is not None:
                f["ty"] = t
                f["flatten"] = True
                if r.random() < 0.15:
                    f["docs"] = r.choice(DOCS)
                return f
        if r.random() < 0.05:                       # type override: excludes as / inline / flatten / optional
            f["type"] = r.choice(["string", "Array<number>", "{ a: number }", "unknown"])
            if r.random() < 0.7:                    # an assertion that is true of what serde writes: values stay checkable
                f["ty"], f["type"] = r.choice([(("leaf", "String"), "string"), (("vec", ("leaf", "i32")), "Array<number>"),
                                               (("leaf", "bool"), "boolean"), (("option", ("leaf", "u8")), "number | null"),
                                               (("tuple", [("leaf", "u8"), ("leaf", "String")]), "[number, string]")])
                f["sound"] = True
            if named and r.random() < 0.3:
                f["rename"] = r.choice(RENAMES[:-1])
            return f
        if named and r.random() < 0.14:             # optional (needs Option), with or without skip_serializing_if
            f["ty"] = ("option", self.ty(depth - 1, params))
            f["optional"] = r.choice([False, False, True])
            f["skip_none"] = r.random() < 0.7
        if r.random() < 0.16:
            if not self.contains_kind(f["ty"], ("tuple", "range", "param")) or r.random() < 0.1:
                f["inline"] = True
        if named and r.random() < 0.12:
            f["rename"] = r.choice(RENAMES[:-1])
        if r.random() < 0.05 and f["optional"] is None:
            f["as_"] = self.ty(1, params)
            if r.random() < 0.6:                    # a type with the same representation: values stay checkable
                f["as_"] = ("wrap", "Box", f["ty"])
                f["sound"] = True
            f["as_text"] = C.rust_ty(f["as_"], [p for p in params])
        if named and r.random() < 0.15:
            f["docs"] = r.choice(DOCS)
        return f

    def contains_kind(self, t, kinds):
        if t[0] in kinds:
            return True
        for x in t[1:]:
            if isinstance(x, tuple) and self.contains_kind(x, kinds):
                return True
            if isinstance(x, list) and any(self.contains_kind(y, kinds) for y in x if isinstance(y, tuple)):
                return True
        return False

    def fields(self, n, params, named, depth=2, attrs=True):
        idents = self.rng.sample(FIELD_IDENTS, n) if named else ["_%d" % i for i in range(n)]
        fs = [self.field(i, params, named, depth, attrs) for i in idents]
        seen_rn = set()
        for f in fs:   # serde (and JSON) need distinct keys
            if f["rename"] is not None and f["rename"] in seen_rn:
                f["rename"] = None
            if f["rename"] is not None:
                seen_rn.add(f["rename"])
        # the same type used twice in different modes (inline / flatten first, by name later, and the reverse):
        # the derive's dependency bookkeeping is keyed by the syntactic type
        if attrs and n >= 1 and self.rng.random() < 0.35:
            cands = self.named_candidates(lambda d: not d["params"])
            if cands:
                d = self.rng.choice(cands)
                t = ("named", d["ident"], [])
                modes = self.rng.choice([("inline", "plain"), ("plain", "inline"), ("flatten", "plain"), ("plain", "flatten"),
                                         ("inline", "plain", "inline")])
                used = {f["ident"] for f in fs}
                extra_names = [x for x in (["dup_a", "dup_b", "dup_c"] if named else ["_%d" % (n + k) for k in range(3)]) if x not in used]
                for mode, nm in zip(modes, extra_names):
                    f = mk_field(nm, t)
                    if mode == "inline":
                        f["inline"] = True
                    elif mode == "flatten":
                        if not (named and d.get("flatten_ok")):
                            continue
                        f["flatten"] = True
                    fs.append(f)
                self.rng.shuffle(fs) if self.rng.random() < 0.3 else None
                if not named:
                    for k, f in enumerate(fs):
                        f["ident"] = "_%d" % k
        # a flattened type must not bring a key the host (or another flattened type) already has: serde would write it twice
        by = {d["ident"]: d for d in self.defs}

        def keys_of(t, depth=0):
            out = set()
            if t[0] in ("wrap",):
                return keys_of(t[-1], depth)
            if t[0] != "named" or t[1] not in by or depth > 4:
                return out
            d = by[t[1]]
            if d.get("tag"):
                out.add(d["tag"])
            tg = d.get("tagging")
            if tg and tg[0] in ("internal", "adjacent"):
                out.update(tg[1:])
            for g in (d["fields"] if d["kind"] == "struct" else [g for v in d["variants"] for g in v["fields"]]):
                if g["flatten"]:
                    out |= keys_of(g["ty"], depth + 1)
                else:
                    out.update(x for x in (g["ident"].replace("r#", ""), g["rename"]) if x is not None)
            if d["kind"] == "enum":
                out.update(x for v in d["variants"] for x in (v["ident"].replace("r#", ""), v.get("rename")) if x is not None)
            return out
        taken = set()
        for f in fs:
            if not f["flatten"]:
                taken.update(x for x in (f["ident"].replace("r#", ""), f["rename"]) if x is not None)
        for f in fs:
            if f["flatten"]:
                ks = keys_of(f["ty"])
                if {k.lower().replace("_", "").replace("-", "") for k in ks} & {k.lower().replace("_", "").replace("-", "") for k in taken}:
                    f["flatten"] = False
                else:
                    taken |= ks
        return fs

    # ---- definitions ---------------------------------------------------------------------
    def params(self):
        r = self.rng
        k = r.random()
        if k < 0.7:
            return []
        if k < 0.85:
            return [("T", None)]
        if k < 0.95:
            return [("T", None), ("U", r.choice([None, ("leaf", "i32"), ("leaf", "String"), ("param", 0), ("vec", ("param", 0))] + [("named", d["ident"], []) for d in self.defs[:3] if not d["params"] and not d.get("no_ref")]))]
        return [("A", None), ("B", None), ("C", ("leaf", "bool"))]

    def struct(self, shape=None, n=None, **kw):
        r = self.rng
        shape = shape or r.choice(["named", "named", "named", "tuple", "tuple", "unit"])
        params = kw.pop("params", None)
        if params is None:
            params = self.params() if shape != "unit" else []
        pn = [p for p, _ in params]
        if n is None:
            n = {"unit": 0, "tuple": r.choice([0, 1, 1, 2, 3]), "named": r.choice([0, 1, 2, 3, 4])}[shape]
        d = mk_struct(self.fresh("S"), shape, self.fields(n, pn, shape == "named"), params=params, **kw)
        if shape == "named" and n > 0:
            k = r.random()
            if k < 0.25:
                d["rename_all"] = r.choice(RULES)
            if r.random() < 0.12:
                d["tag"] = r.choice(["type", "kind", "t"])
            if r.random() < 0.12:
                d["optional_fields"] = r.choice([False, True])
        if r.random() < 0.12:
            d["rename"] = r.choice(["Renamed%d" % self.n, "Other%d" % self.n])
        if r.random() < 0.2:
            d["docs"] = r.choice(DOCS)
        d["export_to"] = r.choice(EXPORT_TO)
        if r.random() < 0.15:
            d["spelling"] = "serde_split"     # each container attribute in a #[serde(..)] of its own, in reverse order
        self.finish(d)
        return self.add(d)

    @staticmethod
    def clear_aliases(t):
        """a copy of a definition gets type aliases of its own (or none): alias names are unique per crate"""
        for f in (t["fields"] if t["kind"] == "struct" else [f for v in t["variants"] for f in v["fields"]]):
            f["alias"] = None
        t["no_alias"] = True

    @staticmethod
    def params_used(d):
        used = set()

        def walk(t):
            if t[0] == "param":
                used.add(t[1])
            for x in t[1:]:
                for y in (x if isinstance(x, list) else [x]):
                    if isinstance(y, tuple):
                        walk(y)
        for f in (d["fields"] if d["kind"] == "struct" else [f for v in d["variants"] for f in v["fields"]]):
            walk(f["ty"])
        return all(i in used for i in range(len(d["params"])))

    def finish(self, d):
        """every type parameter must be used (Rust requires it); record capabilities"""
        pn = [p for p, _ in d["params"]]
        used = set()

        def walk(t):
            if t[0] == "param":
                used.add(t[1])
            for x in t[1:]:
                if isinstance(x, tuple):
                    walk(x)
                elif isinstance(x, list):
                    for y in x:
                        if isinstance(y, tuple):
                            walk(y)
        allf = d["fields"] if d["kind"] == "struct" else [f for v in d["variants"] for f in v["fields"]]
        # a field whose key is the tag key makes serde write the key twice (and ts-rs declare the property twice): not a type
        # any property speaks about; the tag moves out of the way
        tag = d.get("tag") if d["kind"] == "struct" else (d["tagging"][1] if d["tagging"][0] == "internal" else None)
        if tag is not None and any((f["rename"] if f["rename"] is not None else f["ident"].replace("r#", "")) == tag for f in allf):
            tag2 = next(t for t in ("kind", "type", "tag_") if t != tag and
                        not any((f["rename"] if f["rename"] is not None else f["ident"].replace("r#", "")) == t for f in allf))
            if d["kind"] == "struct":
                d["tag"] = tag2
            else:
                d["tagging"] = ("internal", tag2)
        for f in allf:
            walk(f["ty"])
        missing = [i for i in range(len(pn)) if i not in used]
        if missing:
            extra = [mk_field("p%d" % i, ("vec", ("param", i))) for i in missing]
            if d["kind"] == "struct":
                if d["shape"] == "unit":
                    d["params"] = []
                elif d["shape"] == "tuple":
                    d["fields"] += [mk_field("_p%d" % i, ("vec", ("param", i))) for i in missing]
                else:
                    d["fields"] += extra
            else:
                d["variants"].append(mk_variant("Phantom", "named", extra))
        # flatten target? (object for every value, and inline_flattened exists)
        if d["kind"] == "struct":
            live = [f for f in d["fields"] if not f["skip"]]
            d["flatten_ok"] = bool(d["shape"] == "named" and not d["type"] and not d["as_"] and (live or d["tag"])
                                   and not any(f["ty"][0] == "map" and f["flatten"] for f in d["fields"]))
        else:
            d["flatten_ok"] = bool(not d["type"] and not d["as_"] and d["variants"] and d["tagging"][0] != "untagged"
                                   and all(v["shape"] == "named" or (d["tagging"][0] in ("adjacent",) or (d["tagging"][0] == "external" and v["shape"] != "unit"))
                                           for v in d["variants"] if not v["skip"]) and any(not v["skip"] for v in d["variants"])
                                   and not any(v["untagged"] for v in d["variants"]))

    def enum(self, tagging=None, shapes=None, **kw):
        r = self.rng
        tagging = tagging or r.choice([("external",), ("external",), ("internal", r.choice(["type", "kind"])),
                                       ("adjacent", r.choice(["t", "tag"]), r.choice(["c", "content"])), ("untagged",)])
        params = kw.pop("params", None)
        if params is None:
            params = self.params()
        pn = [p for p, _ in params]
        nv = r.choice([1, 2, 3, 4])
        idents = r.sample(VARIANT_IDENTS, nv)
        vs = []
        for k, vid in enumerate(idents):
            allowed = ["unit", "newtype", "tuple", "named", "named", "named0", "tuple0"]
            if tagging[0] == "internal":
                allowed = ["unit", "named", "named", "newtype_obj", "named0"]
            sh = shapes[k % len(shapes)] if shapes else r.choice(allowed)
            if sh == "unit":
                v = mk_variant(vid, "unit")
            elif sh == "newtype":
                v = mk_variant(vid, "tuple", self.fields(1, pn, False))
            elif sh == "newtype_obj":
                t = self.obj_named(pn) or ("map", ("leaf", "String"), ("leaf", "i32"), "BTreeMap")
                v = mk_variant(vid, "tuple", [mk_field("_0", t)])
            elif sh == "tuple":
                v = mk_variant(vid, "tuple", self.fields(r.choice([2, 3]), pn, False))
            elif sh == "tuple0":
                v = mk_variant(vid, "tuple", [])
            elif sh == "named0":
                v = mk_variant(vid, "named", [])
            else:
                v = mk_variant(vid, "named", self.fields(r.choice([1, 2, 3]), pn, True))
                if r.random() < 0.2:
                    v["rename_all"] = r.choice(RULES)
            if r.random() < 0.15:
                cand = r.choice(RENAMES[:-1])
                if cand not in [x["rename"] for x in vs]:    # serde requires distinct variant names
                    v["rename"] = cand
            if r.random() < 0.07 and nv > 1:
                v["skip"] = True
            if r.random() < 0.05:
                v["type"] = r.choice(["string", "{ raw: true }"])
            vs.append(v)
        if tagging[0] != "untagged" and r.random() < 0.15:
            vs[-1]["untagged"] = True
        d = mk_enum(self.fresh("E"), vs, tagging=tagging, params=params, **kw)
        if r.random() < 0.3:
            d["rename_all"] = r.choice(RULES)
        if r.random() < 0.2:
            d["rename_all_fields"] = r.choice(RULES)
        if r.random() < 0.1:
            d["rename"] = "RenamedE%d" % self.n
        if r.random() < 0.2:
            d["docs"] = r.choice(DOCS)
        d["export_to"] = r.choice(EXPORT_TO)
        if r.random() < 0.2:
            d["spelling"] = "serde_split"
        self.finish(d)
        return self.add(d)

    # ---- corpus --------------------------------------------------------------------------
    def seed_defs(self):
        """a few hand-written definitions every other one may refer to"""
        self.add(mk_struct("Foo", "named", [mk_field("x", ("leaf", "i32")), mk_field("y", ("option", ("leaf", "String")))], flatten_ok=True))
        self.add(mk_struct("Pair", "named", [mk_field("first", ("param", 0)), mk_field("second", ("param", 1))],
                           params=[("A", None), ("B", ("leaf", "i32"))], flatten_ok=True))
        self.add(mk_enum("Color", [mk_variant("Red", "unit"), mk_variant("Green", "unit"), mk_variant("DarkBlue", "unit")],
                         rename_all="kebab-case", flatten_ok=False))
        self.add(mk_enum("Shape", [mk_variant("Circle", "named", [mk_field("radius", ("leaf", "f64"))]),
                                   mk_variant("Rect", "named", [mk_field("w", ("leaf", "u32")), mk_field("h", ("leaf", "u32"))])],
                         tagging=("internal", "kind"), flatten_ok=True))
        self.add(mk_struct("Tree", "named", [mk_field("value", ("leaf", "i32")), mk_field("children", ("vec", ("named", "Tree", []))),
                                             mk_field("parent", ("option", ("wrap", "Box", ("named", "Tree", []))))], flatten_ok=True))
        self.add(mk_struct("Batch", "named", [mk_field("first", ("param", 0)), mk_field("rest", ("param", 1))],
                           params=[("T", None), ("C", ("vec", ("param", 0)))], flatten_ok=False))
        self.add(mk_struct("Wrapper", "tuple", [mk_field("_0", ("param", 0))], params=[("T", None)], flatten_ok=False))
        # witnesses of the known classes (known_findings.json); `no_ref`: never used by generated definitions
        self.add(mk_struct("KfInline", "named", [mk_field("t", ("vec", ("param", 0)), inline=True)], params=[("T", None)],
                           flatten_ok=False, no_ref=True))
        self.add(mk_enum("TagInline", [mk_variant("A", "tuple", [mk_field("_0", ("named", "Foo", []), inline=True)]),
                                       mk_variant("B", "tuple", [mk_field("_0", ("named", "Color", []))])],
                         tagging=("adjacent", "t", "c"), flatten_ok=False, no_ref=True))
        self.add(mk_enum("TagInline2", [mk_variant("A", "tuple", [mk_field("_0", ("named", "Foo", []), inline=True)])],
                         tagging=("internal", "t"), flatten_ok=False, no_ref=True))
        # a struct carrying its own tag, flattened into a host, alone and next to other fields, and inlined
        self.add(mk_struct("TagSt", "named", [mk_field("w", ("leaf", "u8"))], tag="kind", flatten_ok=True, no_ref=True))
        self.add(mk_struct("TagSt0", "named", [], tag="kind", flatten_ok=True, no_ref=True))
        self.add(mk_struct("TagHost", "named", [mk_field("id", ("leaf", "i32")), mk_field("t", ("named", "TagSt", []), flatten=True)],
                           flatten_ok=False, no_ref=True))
        self.add(mk_struct("TagHost0", "named", [mk_field("t", ("named", "TagSt0", []), flatten=True)], flatten_ok=False, no_ref=True))
        self.add(mk_struct("TagHost2", "named", [mk_field("t", ("named", "TagSt", []), flatten=True), mk_field("u", ("named", "TagSt", []), inline=True),
                                                 mk_field("v", ("vec", ("named", "TagSt0", [])))], flatten_ok=False, no_ref=True))
        # #[ts(concrete(..))]: the first, the last, the middle, every parameter; a default next to it; used by reference and inlined
        self.add(mk_struct("HeadFixed", "named", [mk_field("a", ("param", 0)), mk_field("b", ("vec", ("param", 1)))],
                           params=[("A", None), ("B", None)], concrete=[(0, ("leaf", "i32"))], flatten_ok=False, no_ref=True))
        self.add(mk_struct("TailFixed", "named", [mk_field("a", ("option", ("param", 0))), mk_field("b", ("param", 1))],
                           params=[("A", None), ("B", None)], concrete=[(1, ("named", "Foo", []))], flatten_ok=False, no_ref=True))
        self.add(mk_enum("MidFixed", [mk_variant("X", "tuple", [mk_field("_0", ("param", 0))]), mk_variant("Y", "named", [mk_field("m", ("param", 1)), mk_field("c", ("param", 2))])],
                         params=[("A", None), ("B", None), ("C", ("leaf", "bool"))], concrete=[(1, ("leaf", "String"))], tagging=("adjacent", "t", "c"),
                         flatten_ok=False, no_ref=True))
        # a concretised parameter that also has a default: it leaves the header all the same
        self.add(mk_struct("PinnedDef", "named", [mk_field("t", ("param", 0)), mk_field("ts", ("vec", ("param", 0)))],
                           params=[("T", ("leaf", "String"))], concrete=[(0, ("leaf", "i32"))], flatten_ok=False, no_ref=True))
        self.add(mk_struct("MixedDef", "named", [mk_field("a", ("param", 0)), mk_field("d", ("param", 1)), mk_field("b", ("param", 2))],
                           params=[("A", None), ("D", ("leaf", "String")), ("B", ("leaf", "bool"))], concrete=[(1, ("leaf", "i32"))], flatten_ok=False, no_ref=True))
        self.add(mk_struct("AllFixed", "tuple", [mk_field("_0", ("param", 0)), mk_field("_1", ("param", 1))],
                           params=[("A", None), ("B", None)], concrete=[(0, ("leaf", "u8")), (1, ("leaf", "bool"))], flatten_ok=False, no_ref=True))
        self.add(mk_struct("FixedHost", "named", [mk_field("h", ("named", "HeadFixed", [("leaf", "i32"), ("leaf", "String")])),
                                                  mk_field("t", ("named", "TailFixed", [("leaf", "u8"), ("named", "Foo", [])]), inline=True),
                                                  mk_field("m", ("vec", ("named", "MidFixed", [("leaf", "u8"), ("leaf", "String"), ("leaf", "bool")]))),
                                                  mk_field("z", ("named", "AllFixed", [("leaf", "u8"), ("leaf", "bool")]))], flatten_ok=False, no_ref=True))
        # one root reaching the same generic at two instantiations: its file declares the generic once
        self.add(mk_struct("PageG", "named", [mk_field("items", ("vec", ("param", 0))), mk_field("next", ("option", ("leaf", "u32")))],
                           params=[("T", None)], flatten_ok=False, no_ref=True))
        self.add(mk_struct("ListingG", "named", [mk_field("users", ("named", "PageG", [("named", "Foo", [])])),
                                                 mk_field("names", ("named", "PageG", [("leaf", "String")])),
                                                 mk_field("more", ("vec", ("named", "PageG", [("option", ("leaf", "bool"))])))],
                           flatten_ok=False, no_ref=True))
        # two parameters concretised by two separate attributes (the maps of the attributes are merged)
        self.add(mk_struct("TwoFixed", "named", [mk_field("a", ("param", 0)), mk_field("b", ("vec", ("param", 1))), mk_field("c", ("option", ("param", 2)))],
                           params=[("A", None), ("B", None), ("C", None)], concrete=[(0, ("leaf", "i32")), (1, ("leaf", "String"))], concrete_split=True,
                           flatten_ok=False, no_ref=True))
        self.add(mk_enum("TwoFixedE", [mk_variant("X", "tuple", [mk_field("_0", ("param", 0))]), mk_variant("Y", "named", [mk_field("m", ("param", 1)), mk_field("c", ("param", 2))])],
                         params=[("A", None), ("B", None), ("C", None)], concrete=[(2, ("leaf", "bool")), (0, ("leaf", "u8"))], concrete_split=True,
                         flatten_ok=False, no_ref=True))
        self.add(mk_struct("TwoFixedHost", "named", [mk_field("h", ("named", "TwoFixed", [("leaf", "i32"), ("leaf", "String"), ("leaf", "bool")])),
                                                     mk_field("e", ("vec", ("named", "TwoFixedE", [("leaf", "u8"), ("leaf", "String"), ("leaf", "bool")])))],
                           flatten_ok=False, no_ref=True))
        # a serde key ts-rs does not know and must leave alone: serde still writes a `skip_deserializing` field
        self.add(mk_struct("SkipDe", "named", [mk_field("id", ("leaf", "u32")), mk_field("created_at", ("leaf", "String"), skip_de=True),
                                               mk_field("tags", ("vec", ("leaf", "String")), skip_de=True, rename="Tags")], flatten_ok=True, no_ref=True, no_de=True))
        self.add(mk_enum("SkipDeE", [mk_variant("Stamp", "tuple", [mk_field("_0", ("leaf", "u32"), skip_de=True)]),
                                     mk_variant("Pair", "tuple", [mk_field("_0", ("leaf", "u8")), mk_field("_1", ("leaf", "bool"), skip_de=True)]),
                                     mk_variant("Rec", "named", [mk_field("x", ("leaf", "u8"), skip_de=True)])], tagging=("adjacent", "t", "c"),
                         flatten_ok=False, no_ref=True, no_de=True))
        self.add(mk_struct("SkipDeHost", "named", [mk_field("s", ("named", "SkipDe", []), flatten=True), mk_field("e", ("named", "SkipDeE", []))],
                           flatten_ok=False, no_ref=True, no_de=True))
        # an empty named struct is `Record<string, never>`; serde flattens it to nothing (ts-rs: inline_flattened() panics, documented)
        self.add(mk_struct("EmptyN", "named", [], flatten_ok=False, no_ref=True))
        self.add(mk_struct("FlatEmptyHost", "named", [mk_field("a", ("leaf", "i32")), mk_field("m", ("named", "EmptyN", []), flatten=True)],
                           flatten_ok=False, no_ref=True))
        # tuple struct / tuple variant with two or more fields, all of them skipped
        self.add(mk_struct("AllSkipT", "tuple", [mk_field("_0", ("leaf", "i32"), skip=True), mk_field("_1", ("leaf", "String"), skip=True)],
                           flatten_ok=False, no_ref=True))
        self.add(mk_enum("AllSkipV", [mk_variant("A", "tuple", [mk_field("_0", ("leaf", "i32"), skip=True), mk_field("_1", ("leaf", "bool"), skip=True)]),
                                      mk_variant("B", "unit")], flatten_ok=False, no_ref=True))
        # containers named by raw identifiers (the TypeScript name is the identifier without `r#`)
        self.add(mk_enum("r#match", [mk_variant("Alpha", "unit"), mk_variant("Beta", "named", [mk_field("x", ("leaf", "u8"))])], flatten_ok=False, no_ref=True))
        self.add(mk_struct("r#struct", "named", [mk_field("x", ("leaf", "u8"))], flatten_ok=False, no_ref=True))
        self.add(mk_struct("RawHost", "named", [mk_field("m", ("named", "r#match", [])), mk_field("t", ("vec", ("named", "r#struct", [])))],
                           flatten_ok=False, no_ref=True))
        # internally tagged enum / tagged struct whose only field is a flattened one
        self.add(mk_enum("TagOnlyFlat", [mk_variant("Move", "named", [mk_field("to", ("named", "Foo", []), flatten=True)]),
                                         mk_variant("Say", "named", [mk_field("text", ("leaf", "String"))]), mk_variant("Stop", "unit")],
                         tagging=("internal", "kind"), flatten_ok=False, no_ref=True))
        self.add(mk_struct("TagStFlat", "named", [mk_field("f", ("named", "Foo", []), flatten=True)], tag="kind", flatten_ok=True, no_ref=True))
        self.add(mk_struct("TagStFlatHost", "named", [mk_field("a", ("named", "TagStFlat", [])), mk_field("b", ("named", "TagStFlat", []), inline=True),
                                                     mk_field("c", ("named", "TagOnlyFlat", []), inline=True)], flatten_ok=False, no_ref=True))
        # tag and content of an adjacently tagged enum in two #[serde(..)] attributes
        self.add(mk_enum("SplitAdj", [mk_variant("New", "tuple", [mk_field("_0", ("named", "Foo", []))]), mk_variant("Unit", "unit"),
                                      mk_variant("St", "named", [mk_field("a", ("leaf", "u8"))])],
                         tagging=("adjacent", "t", "c"), rename_all="snake_case", spelling="serde_split", flatten_ok=False, no_ref=True))
        # object literals that meet INSIDE a field type (an internally tagged newtype variant whose payload is inlined):
        # the host's merge of its own operands must leave them alone
        self.add(mk_enum("TagNew", [mk_variant("A", "tuple", [mk_field("_0", ("named", "Foo", []), inline=True)]), mk_variant("B", "unit")],
                         tagging=("internal", "kind"), flatten_ok=False, no_ref=True))
        self.add(mk_struct("MergeHost", "named", [mk_field("e", ("named", "TagNew", []), inline=True), mk_field("z", ("leaf", "u8")),
                                                  mk_field("f", ("named", "Foo", []), flatten=True)], flatten_ok=False, no_ref=True))
        self.add(mk_struct("MergeHost2", "named", [mk_field("v", ("vec", ("named", "TagNew", [])), inline=True)], flatten_ok=False, no_ref=True))
        # a lone flattened field whose text begins and ends with a parenthesis that do not belong together
        self.add(mk_struct("TwoEnums", "named", [mk_field("a", ("named", "Shape", []), flatten=True), mk_field("b", ("named", "OneArm2", []), flatten=True)],
                           flatten_ok=True, no_ref=True))
        self.add(mk_struct("LoneFlat", "named", [mk_field("t", ("named", "TwoEnums", []), flatten=True)], flatten_ok=False, no_ref=True))
        # the same with documentation that holds an unbalanced parenthesis and an odd number of quotes
        self.add(mk_enum("DocParen", [mk_variant("Pipe", "named", [mk_field("d", ("leaf", "u8"), docs=[" 5\" pipe :-) and (one open"])]),
                                      mk_variant("Unknown", "named", [mk_field("z", ("leaf", "bool"), docs=[" closes ) early"])])],
                         tagging=("internal", "k"), flatten_ok=True, no_ref=True))
        self.add(mk_struct("TwoEnums2", "named", [mk_field("a", ("named", "DocParen", []), flatten=True), mk_field("b", ("named", "Shape", []), flatten=True)],
                           flatten_ok=True, no_ref=True))
        self.add(mk_struct("LoneFlat2", "named", [mk_field("t", ("named", "TwoEnums2", []), flatten=True)], flatten_ok=False, no_ref=True))
        self.add(mk_struct("LoneFlat3", "named", [mk_field("t", ("named", "DocParen", []), flatten=True)], flatten_ok=False, no_ref=True))
        # enums with ONE live variant, flattened next to other fields: the single arm is itself a union
        self.add(mk_enum("OneArm", [mk_variant("S", "tuple", [mk_field("_0", ("named", "Shape", []), inline=True)])],
                         tagging=("untagged",), flatten_ok=True, no_ref=True))
        self.add(mk_enum("OneArm2", [mk_variant("A", "named", [mk_field("c", ("named", "Color", []), inline=True)]),
                                     mk_variant("Gone", "unit", skip=True)], tagging=("external",), flatten_ok=True, no_ref=True))
        self.add(mk_struct("OneHost", "named", [mk_field("id", ("leaf", "u32")), mk_field("payload", ("named", "OneArm", []), flatten=True)],
                           flatten_ok=False, no_ref=True))
        self.add(mk_struct("OneHost2", "named", [mk_field("id", ("leaf", "u32")), mk_field("payload", ("named", "OneArm2", []), flatten=True),
                                                 mk_field("more", ("named", "OneArm", []), flatten=True)], flatten_ok=False, no_ref=True))
        self.add(mk_struct("KfG1", "named", [mk_field("t", ("param", 0)), mk_field("u", ("option", ("param", 1)))],
                           params=[("T", None), ("U", ("named", "Foo", []))], flatten_ok=False, no_ref=True))
        self.add(mk_struct("KfG2", "named", [mk_field("h", ("named", "KfG1", [("leaf", "i32"), ("param", 0)]), inline=True)],
                           params=[("T", None)], flatten_ok=False, no_ref=True))
        self.add(mk_struct("OptInline", "named", [
            mk_field("a", ("option", ("named", "Foo", [])), optional=False, inline=True),
            mk_field("b", ("option", ("named", "Foo", [])), optional=True, inline=True),
            mk_field("c", ("option", ("named", "Foo", [])), optional=False, inline=True, skip_none=True),
            mk_field("d", ("option", ("vec", ("named", "Color", []))), optional=False, skip_none=True)], flatten_ok=False, no_ref=True))
        self.add(mk_struct("KfQuote", "named", [mk_field("x", ("leaf", "i32"), rename='a"b'), mk_field("y", ("leaf", "bool"), rename="back\\slash")],
                           flatten_ok=False, no_ref=True))
        self.add(mk_struct("KfReserved", "unit", [], rename="break", flatten_ok=False, no_ref=True))
        # one file shared by a generic type and a type whose name extends the generic's name with a character below `<`
        self.add(mk_struct("Point", "named", [mk_field("x", ("param", 0)), mk_field("y", ("param", 0))], params=[("T", None)],
                           export_to="geo/geometry.ts", flatten_ok=False, no_ref=True))
        self.add(mk_struct("Point2", "named", [mk_field("x", ("leaf", "f64")), mk_field("y", ("leaf", "f64"))],
                           export_to="geo/geometry.ts", flatten_ok=False, no_ref=True))
        self.add(mk_struct("Origin", "unit", [], export_to="geo/geometry.ts", flatten_ok=False, no_ref=True))
        # names that differ only in case, and a name that is a prefix of another, in one file
        self.add(mk_struct("CaseTwinA", "named", [mk_field("v", ("leaf", "u8"))], rename="Id", export_to="case/ids.ts", flatten_ok=False, no_ref=True))
        self.add(mk_struct("CaseTwinB", "tuple", [mk_field("_0", ("leaf", "String"))], rename="ID", export_to="case/ids.ts", flatten_ok=False, no_ref=True))
        self.add(mk_struct("CaseTwinC", "named", [mk_field("a", ("named", "CaseTwinA", [])), mk_field("b", ("named", "CaseTwinB", []))], rename="iD",
                           export_to="case/ids.ts", flatten_ok=False, no_ref=True))
        # the same shared file under another spelling (a `..` component), referring to its file-mates and to a type elsewhere
        self.add(mk_struct("Segment", "named", [mk_field("a", ("named", "Point2", [])), mk_field("b", ("named", "Point", [("leaf", "i32")])),
                                                mk_field("o", ("named", "Origin", [])), mk_field("c", ("named", "Color", []))],
                           export_to="geo/sub/../geometry.ts", flatten_ok=False, no_ref=True))
        # list-form doc attributes (`#[doc(hidden)]`, `#[doc(alias = "..")]`) are legal on items and fields and carry no documentation (C16)
        self.add(mk_struct("DocListForm", "named", [mk_field("a", ("leaf", "i32"), docs=[" kept"], doc_alias=True), mk_field("b", ("named", "Foo", []), doc_alias=True)],
                           docs=[" documented"], doc_list=True, flatten_ok=False, no_ref=True))
        self.add(mk_enum("DocListFormE", [mk_variant("A", "unit", []), mk_variant("B", "named", [mk_field("x", ("leaf", "bool"), doc_alias=True)])],
                         tagging=("internal", "t"), doc_list=True, no_ref=True))
        # two types in one file importing different names from one other file: the merged import line is the union (C03)
        self.add(mk_struct("DepA2", "named", [mk_field("x", ("leaf", "i32"))], export_to="merged/deps2.ts", flatten_ok=False, no_ref=True))
        self.add(mk_struct("DepB2", "named", [mk_field("y", ("leaf", "bool"))], export_to="merged/deps2.ts", flatten_ok=False, no_ref=True))
        self.add(mk_struct("UseA2", "named", [mk_field("a", ("named", "DepA2", []))], export_to="merged/uses2.ts", flatten_ok=False, no_ref=True))
        self.add(mk_struct("UseB2", "named", [mk_field("b", ("vec", ("named", "DepB2", [])))], export_to="merged/uses2.ts", flatten_ok=False, no_ref=True))
        self.add(mk_struct("RootAB2", "named", [mk_field("a", ("named", "UseA2", [])), mk_field("b", ("option", ("named", "UseB2", [])))], flatten_ok=False, no_ref=True))
        # `as` on a variant that is printed as its bare name (unit): the `as` type is visited all the same (C03 known class as_on_bare_variant)
        self.add(mk_enum("KfAsUnit", [mk_variant("A", "unit", [], as_=("named", "Foo", [])), mk_variant("B", "tuple", [mk_field("_0", ("leaf", "i32"))])], no_ref=True))
        self.add(mk_struct("DocBraces", "named", [mk_field("a", ("leaf", "i32"), docs=[" rendered as {{name}} with {0} and {1}"]),
                                                  mk_field("b", ("named", "Foo", []), docs=[" json {\"a\": 1} and a lone { and }"], inline=True)],
                           docs=[" type level {0} {{x}}"], flatten_ok=False, no_ref=True))
        # `#[ts(optional)]` on Option fields that mention the type parameters of a generic definition (the Option check sits inside the impl)
        self.add(mk_struct("OptGenField", "named", [mk_field("a", ("option", ("param", 0)), optional=False, skip_none=True),
                                                    mk_field("b", ("option", ("vec", ("param", 1))), optional=True),
                                                    mk_field("c", ("param", 0))],
                           params=[("T", None), ("U", None)], flatten_ok=False, no_ref=True))
        # a zero-length array of a named type: its text `[]` mentions nothing, so nothing may be imported for it (C03)
        self.add(mk_struct("ZeroArr", "named", [mk_field("none", ("array", 0, ("named", "Foo", []))),
                                                mk_field("maybe", ("option", ("array", 0, ("named", "Foo", [])))), mk_field("n", ("leaf", "u8"))],
                           flatten_ok=False, no_ref=True))
        self.add(mk_struct("KfOpt", "named", [mk_field("x", ("param", 0))], params=[("T", None)], optional_fields=True,
                           flatten_ok=False, no_ref=True))
        # the non-nullable spelling takes the field type through `<T as TS>::OptionInnerType`: the impl needs that bound (fix 9c750a6)
        self.add(mk_struct("KfOptInner", "named", [mk_field("r", ("param", 0)), mk_field("k", ("option", ("leaf", "u8")), skip_none=True), mk_field("v", ("vec", ("param", 0)))],
                           params=[("T", None)], optional_fields=False, flatten_ok=False, no_ref=True))

    def systematic(self):
        for shape, n in (("unit", 0), ("tuple", 0), ("tuple", 1), ("tuple", 2), ("named", 0), ("named", 1), ("named", 3)):
            self.struct(shape, n)
        for tg in (("external",), ("internal", "type"), ("adjacent", "t", "c"), ("untagged",)):
            shapes = ["unit", "named", "newtype_obj", "named0"] if tg[0] == "internal" else ["unit", "newtype", "tuple", "named", "tuple0", "named0"]
            self.enum(tg, shapes=shapes, params=[])
            self.enum(tg)
        for rule in RULES:
            d = self.struct("named", 3, params=[])
            d["rename_all"] = rule
            used = {f["ident"] for f in d["fields"]}
            if "created_at" not in used:   # a type-overridden field goes through its own naming code path
                d["fields"].append(mk_field("created_at", ("leaf", "String"), type="string"))
            e = self.enum(("external",), shapes=["unit", "named"], params=[])
            e["rename_all"] = rule
            e["rename_all_fields"] = self.rng.choice(RULES)

    def systematic2(self):
        """attribute precedence pairs: variant rename_all vs enum rename_all_fields, variant rename vs enum rename_all,
        field rename vs rename_all — with multi-word identifiers so that every rule shows"""
        pairs = [("camelCase", "SCREAMING_SNAKE_CASE"), ("kebab-case", "PascalCase"), ("UPPERCASE", "camelCase"), ("PascalCase", "kebab-case")]
        for k, (r1, r2) in enumerate(pairs):
            tg = [("external",), ("internal", "type"), ("adjacent", "t", "c"), ("untagged",)][k]
            vs = [mk_variant("PlainOne", "named", [mk_field("foo_bar", ("leaf", "i32")), mk_field("some_long_name", ("leaf", "bool"))]),
                  mk_variant("OwnRule", "named", [mk_field("foo_bar", ("leaf", "i32")), mk_field("some_long_name", ("leaf", "bool"))], rename_all=r2),
                  mk_variant("RenamedOne", "named", [mk_field("foo_bar", ("leaf", "i32"), rename="explicit_name"), mk_field("x1", ("leaf", "u8"))],
                             rename="custom-variant"),
                  mk_variant("UnitOne", "unit")]
            d = mk_enum(self.fresh("E"), vs, tagging=tg, rename_all_fields=r1, rename_all=r2 if k % 2 else None, flatten_ok=False)
            self.finish(d)
            self.add(d)

    def generate(self, n):
        self.seed_defs()
        self.systematic()
        self.systematic2()
        while len(self.defs) < n:
            if self.rng.random() < 0.55:
                self.struct()
            else:
                self.enum()
        self.twins()
        return self.defs

    def twins(self):
        """presentation twins (C14): the same item with `as = U` replaced by the type U itself, and with
        `inline` removed; `twin_of` / `twin_kind` record the relation"""
        import copy
        for d in list(self.defs):
            if d.get("no_ref") and not d["ident"].startswith(("Opt", "OneHost", "TagHost")):
                continue
            fs = d["fields"] if d["kind"] == "struct" else [f for v in d["variants"] for f in v["fields"]]
            if any(f["as_"] is not None for f in fs):
                t = copy.deepcopy(d)
                self.clear_aliases(t)
                t["ident"] = d["ident"] + "TwAs"
                t["rename"] = d["rename"] if d["rename"] is not None else d["ident"]   # same TypeScript name (tags carry it)
                t["export_to"] = "twins/%sTwAs.ts" % d["ident"]
                for f in (t["fields"] if t["kind"] == "struct" else [f for v in t["variants"] for f in v["fields"]]):
                    if f["as_"] is not None:
                        f["ty"] = f["as_"]
                        f["as_"] = None
                t["twin_of"], t["twin_kind"], t["no_ref"] = d["ident"], "as", True
                if self.params_used(t):     # dropping the `as` field's own type must not leave a parameter unused (rustc E0392)
                    self.add(t)
            if d["docs"] or any(f["docs"] for f in fs):
                t = copy.deepcopy(d)
                self.clear_aliases(t)
                t["ident"] = d["ident"] + "TwDoc"
                t["rename"] = d["rename"] if d["rename"] is not None else d["ident"]
                t["export_to"] = "twins/%sTwDoc.ts" % d["ident"]
                t["docs"] = []
                for f in (t["fields"] if t["kind"] == "struct" else [f for v in t["variants"] for f in v["fields"]]):
                    f["docs"] = []
                t["twin_of"], t["twin_kind"], t["no_ref"] = d["ident"], "docs", True
                self.add(t)
            if d["kind"] == "struct" and d["shape"] == "named" and not d["params"] and not d["tag"] and not d["type"] and not d["as_"] \
                    and any(f["flatten"] for f in d["fields"]) and any(not f["flatten"] and not f["skip"] for f in d["fields"]) \
                    and all(f["ty"][0] == "named" and not f["ty"][2] for f in d["fields"] if f["flatten"]):
                # flatten twin (C14): the host without its flattened fields, under a name of its own; the host must denote
                # the intersection of this twin with the flattened types
                t = copy.deepcopy(d)
                self.clear_aliases(t)
                t["ident"] = d["ident"] + "TwFl"
                t["rename"] = None
                t["export_to"] = "twins/%sTwFl.ts" % d["ident"]
                t["fields"] = [f for f in t["fields"] if not f["flatten"]]
                t["twin_of"], t["twin_kind"], t["no_ref"], t["flatten_ok"] = d["ident"], "flatten", True, False
                t["flattened"] = [f["ty"][1] for f in d["fields"] if f["flatten"]]
                self.add(t)
            if any(f["inline"] for f in fs) and not any(f["as_"] is not None or f["type"] is not None for f in fs):
                t = copy.deepcopy(d)
                self.clear_aliases(t)
                t["ident"] = d["ident"] + "TwIn"
                t["rename"] = d["rename"] if d["rename"] is not None else d["ident"]
                t["export_to"] = "twins/%sTwIn.ts" % d["ident"]
                for f in (t["fields"] if t["kind"] == "struct" else [f for v in t["variants"] for f in v["fields"]]):
                    f["inline"] = False
                t["twin_of"], t["twin_kind"], t["no_ref"] = d["ident"], "inline", True
                self.add(t)

    # ---- queries: closed types at which everything is evaluated ----------------------------
    def queries(self):
        qs = []
        simple = [("leaf", "i32"), ("leaf", "String"), ("option", ("leaf", "bool")), ("vec", ("leaf", "u64"))]
        nongen = [d for d in self.defs if not d["params"] and not d.get("no_ref")]
        for d in self.defs:
            if not d["params"]:
                qs.append(("named", d["ident"], []))
                continue
            insts = []
            for k in range(3):
                args = []
                conc = {int(i): t for i, t in (d.get("concrete") or [])}
                for pi, (pn, dflt) in enumerate(d["params"]):
                    if pi in conc:
                        args.append(conc[pi])
                        continue
                    needs_obj = any(f["flatten"] and f["ty"] == ("param", i) for i, (q, _) in enumerate(d["params"]) if q == pn
                                    for f in (d["fields"] if d["kind"] == "struct" else [f for v in d["variants"] for f in v["fields"]]))
                    if needs_obj:
                        args.append(("named", "Foo", []))
                    elif k == 0:
                        args.append(self.rng.choice(simple))
                    elif k == 1 and nongen:
                        args.append(("named", self.rng.choice(nongen[:40])["ident"], []))
                    else:
                        args.append(self.ty(1))
                insts.append(("named", d["ident"], args))
            qs += insts
        qs.append(("named", "KfOpt", [("option", ("leaf", "i32"))]))
        qs.append(("named", "KfOptInner", [("option", ("leaf", "bool"))]))   # the C14 witness of optional_on_bare_param: `r: null` by name, not by inline
        # compositions of library types around user types
        for _ in range(40):
            qs.append(self.ty(2))
        # arrays around the tuple limit (no values: serde has no impls beyond 32), by name and inline
        for n in (63, 64, 65):
            qs.append(("array", n, ("named", "Foo", [])))
            qs.append(("option", ("array", n, ("leaf", "u8"))))
        return qs


# ---- values ----------------------------------------------------------------------------------
class Values:
    """values of a closed type, as (Rust expression, Coq `value` term)"""

    def __init__(self, gen, seed):
        self.g = gen
        self.rng = random.Random(seed)

    def leaf(self, name):
        r = self.rng
        if name in C.INT_RANGE:
            lo, hi = C.INT_RANGE[name]
            z = r.choice([0, 1, hi, lo, 7, 42] if lo < 0 else [0, 1, hi, 7, 42])
            suffix = name
            return ("(%d as %s)" % (z, name) if z >= 0 else "(%d%s)" % (z, suffix), "(VInt (%d))" % z)
        if name in ("f32", "f64"):
            tok = r.choice(["1.5", "-2.25", "0.0", "100.0"])
            return ("(%s%s)" % (tok, name), "(VFloat %s)" % C.coq_str(tok))
        if name == "bool":
            b = r.random() < 0.5
            return ("true" if b else "false", "(VBool %s)" % C.coq_bool(b))
        if name == "String":
            s = r.choice(["", "hello", "with \"quote\"", "ünï ✓", "line\nbreak", "tab\t\\"])
            return ("String::from(%s)" % C.rust_str_lit(s), "(VStr %s)" % C.coq_str(s))
        if name == "char":
            c = r.choice(["a", "Z", "é", "\""])
            return ("'%s'" % ("\\\"" if c == "\"" else c), "(VStr %s)" % C.coq_str(c))
        if name == "()":
            return ("()", "VUnit")
        raise ValueError(name)

    def value(self, t, depth=0, variant=None, someness=None):
        """returns (rust, coq) or None when no value can be built (depth exhausted on recursive types)"""
        r = self.rng
        k = t[0]
        if k == "leaf":
            return self.leaf(t[1])
        if k == "option":
            fs_ = getattr(self, "force_some", None)
            some = someness if someness is not None else (fs_ if (fs_ is not None and depth <= 1) else (r.random() < 0.6 and depth < 6))
            if not some:
                return ("None", "VNone")
            v = self.value(t[1], depth + 1)
            return ("None", "VNone") if v is None else ("Some(%s)" % v[0], "(VSome %s)" % v[1])
        if k == "vec":
            n = 0 if depth > 5 else r.choice([0, 1, 2])
            vs = [self.value(t[1], depth + 1) for _ in range(n)]
            vs = [v for v in vs if v is not None]
            return ("vec![%s]" % ", ".join(v[0] for v in vs), "(VSeq %s)" % C.coq_list([v[1] for v in vs]))
        if k == "array":
            if t[1] > 32:
                return None      # serde implements Serialize for arrays of up to 32 elements only
            vs = [self.value(t[2], depth + 1) for _ in range(t[1])]
            if any(v is None for v in vs):
                return None
            return ("[%s]" % ", ".join(v[0] for v in vs), "(VSeq %s)" % C.coq_list([v[1] for v in vs]))
        if k == "tuple":
            vs = [self.value(x, depth + 1) for x in t[1]]
            if any(v is None for v in vs):
                return None
            return ("(%s,)" % ", ".join(v[0] for v in vs), "(VSeq %s)" % C.coq_list([v[1] for v in vs]))
        if k == "map":
            n = 0 if depth > 5 else r.choice([0, 1])
            if n:
                kv, vv = self.value(t[1], depth + 1), self.value(t[2], depth + 1)
                if kv is None or vv is None:
                    n = 0
            ctor = "std::collections::%s" % (t[3] if len(t) > 3 else "BTreeMap")
            if not n:
                return ("%s::new()" % ctor, "(VMap [])")
            return ("%s::from([(%s, %s)])" % (ctor, kv[0], vv[0]), "(VMap [(%s, %s)])" % (kv[1], vv[1]))
        if k == "wrap":
            v = self.value(t[2], depth + 1)
            return None if v is None else ("%s::new(%s)" % (t[1], v[0]), v[1])
        if k == "result":
            ok = r.random() < 0.5
            v = self.value(t[1] if ok else t[2], depth + 1)
            return None if v is None else ("%s(%s)" % ("Ok" if ok else "Err", v[0]), "(VVariant %d [%s])" % (0 if ok else 1, v[1]))
        if k == "range":
            a, b = self.value(t[1], depth + 1), self.value(t[1], depth + 1)
            return ("(%s..%s)" % (a[0], b[0]), "(VStruct [%s; %s])" % (a[1], b[1]))
        if k == "named":
            d = self.g.by_id[t[1]]
            if depth > 7:
                return None
            if d["kind"] == "struct":
                fs = [self.value(C.subst(f.get("serde_ty", f["ty"]), t[2]), depth + 1) for f in d["fields"]]
                if any(v is None for v in fs):
                    return None
                return (self.struct_expr(d["ident"], d["shape"], d["fields"], fs), "(VStruct %s)" % C.coq_list([v[1] for v in fs]))
            if variant is not None:
                idx = variant
            else:
                # nested enums rotate through their variants (every arm is reached within a few values), with some noise
                rot = self.__dict__.setdefault("rot", {})
                rot[d["ident"]] = rot.get(d["ident"], -1) + 1
                idx = rot[d["ident"]] % len(d["variants"]) if r.random() < 0.8 else r.randrange(len(d["variants"]))
            v = d["variants"][idx]
            fs = [self.value(C.subst(f.get("serde_ty", f["ty"]), t[2]), depth + 1) for f in v["fields"]]
            if any(x is None for x in fs):
                return None
            return (self.struct_expr("%s::%s" % (d["ident"], v["ident"]), v["shape"], v["fields"], fs),
                    "(VVariant %d %s)" % (idx, C.coq_list([x[1] for x in fs])))
        raise ValueError(t)

    def struct_expr(self, path, shape, fields, vals):
        if shape == "unit":
            return path
        if shape == "tuple":
            return "%s(%s)" % (path, ", ".join(v[0] for v in vals))
        return "%s { %s }" % (path, ", ".join(("r#" if f["ident"] in C.KEYWORDS else "") + f["ident"] + ": " + v[0] for f, v in zip(fields, vals)))

    def values_for(self, t, count=3):
        """systematic first (every variant, Some and None), then random"""
        out = []
        if t[0] == "named":
            d = self.g.by_id[t[1]]
            if d["kind"] == "enum":
                for i in range(len(d["variants"])):
                    out.append(self.value(t, 0, variant=i))
            elif any(f["ty"][0] == "option" for f in d["fields"]):
                for some in (False, True):
                    self.force_some = some
                    out.append(self.value(t, 0))
                self.force_some = None
        for _ in range(count):
            out.append(self.value(t, 0))
        seen, res = set(), []
        for v in out:
            if v is not None and v[0] not in seen:
                seen.add(v[0])
                res.append(v)
        return res


# ---- the crate --------------------------------------------------------------------------------
MAIN_PRELUDE = r'''#![allow(non_snake_case, non_camel_case_types, dead_code, unused, uncommon_codepoints, mixed_script_confusables, clippy::all)]
use serde::{Deserialize, Serialize};
use std::panic::{catch_unwind, AssertUnwindSafe};
use ts_rs::TS;

fn g<F: FnOnce() -> String>(f: F) -> String {
    catch_unwind(AssertUnwindSafe(f)).unwrap_or_else(|_| "\u{0}PANIC".to_owned())
}
fn q<T: TS + 'static + ?Sized>(ix: usize) {
    let deps = g(|| T::dependencies().iter().map(|d| format!("{}@{}", d.ts_name, d.output_path.to_string_lossy())).collect::<Vec<_>>().join("|"));
    let fields = vec![
        ix.to_string(), g(|| T::name()), g(|| T::inline()), g(|| T::inline_flattened()), g(|| T::decl()), g(|| T::decl_concrete()), deps,
        T::output_path().map(|p| p.to_string_lossy().into_owned()).unwrap_or_else(|| "-".to_owned()),
        g(|| match T::export_to_string() { Ok(s) => s, Err(e) => format!("\u{0}ERR {e:?}") }),
        T::DOCS.unwrap_or("").to_owned(), g(|| T::ident()),
    ];
    println!("Q\u{2}{}", fields.join("\u{2}").replace('\n', "\u{3}"));
}
fn v<T: Serialize>(ix: usize, k: usize, x: T) {
    let s = match catch_unwind(AssertUnwindSafe(|| serde_json::to_string(&x))) { Ok(Ok(s)) => s, Ok(Err(_)) => "\u{0}ERR".to_owned(), Err(_) => "\u{0}PANIC".to_owned() };
    println!("V\u{2}{}\u{2}{}\u{2}{}", ix, k, s.replace('\n', "\u{3}"));
}
fn x<T: TS + 'static + ?Sized>(ix: usize, dir: &str) {
    let r = catch_unwind(AssertUnwindSafe(|| T::export_all_to(format!("{dir}/{ix}"))));
    println!("X\u{2}{}\u{2}{}", ix, match r { Ok(Ok(())) => "OK".to_owned(), Ok(Err(e)) => format!("ERR {e:?}").replace('\n', " "), Err(_) => "PANIC".to_owned() });
}
fn xo<T: TS + 'static + ?Sized>() -> String {
    match catch_unwind(AssertUnwindSafe(|| T::export())) { Ok(Ok(())) => "OK".to_owned(), Ok(Err(e)) => format!("ERR {e:?}").replace('\n', " "), Err(_) => "PANIC".to_owned() }
}
fn xd<T: TS + 'static + ?Sized>() -> String {
    match catch_unwind(AssertUnwindSafe(|| T::export_all())) { Ok(Ok(())) => "OK".to_owned(), Ok(Err(e)) => format!("ERR {e:?}").replace('\n', " "), Err(_) => "PANIC".to_owned() }
}
fn xa<T: TS + 'static + ?Sized>(dir: &str) -> String {
    match catch_unwind(AssertUnwindSafe(|| T::export_all_to(dir))) { Ok(Ok(())) => "OK".to_owned(), Ok(Err(e)) => format!("ERR {e:?}").replace('\n', " "), Err(_) => "PANIC".to_owned() }
}
fn d<T: for<'a> Deserialize<'a> + Serialize>(ix: usize, k: usize, json: &str) {
    let s = match serde_json::from_str::<T>(json) {
        Ok(x) => match serde_json::to_string(&x) { Ok(s) => s, Err(_) => "\u{0}SERERR".to_owned() },
        Err(_) => "\u{0}ERR".to_owned(),
    };
    println!("D\u{2}{}\u{2}{}\u{2}{}", ix, k, s.replace('\n', "\u{3}"));
}
'''


def crate_source(defs, queries, values, with_de=True):
    """values: {query index: [(rust expr, coq value)]}"""
    items = "\n\n".join(C.to_rust(d) for d in defs)
    body = []
    for i, t in enumerate(queries):
        body.append("    q::<%s>(%d);" % (C.rust_ty(t), i))
    for i, vs in sorted(values.items()):
        for k, (expr, _) in enumerate(vs):
            body.append("    v::<%s>(%d, %d, %s);" % (C.rust_ty(queries[i]), i, k, expr))
    de = []
    if with_de:
        de.append("    if let Ok(path) = std::env::var(\"CORPUS_WITNESSES\") {")
        de.append("        for line in std::fs::read_to_string(path).unwrap().lines() {")
        de.append("            let mut it = line.splitn(3, '\\t'); let ix: usize = it.next().unwrap().parse().unwrap(); let k: usize = it.next().unwrap().parse().unwrap(); let json = it.next().unwrap();")
        de.append("            match ix {")
        for i, t in enumerate(queries):
            if not has_refcell_or_mutex(t, defs):
                de.append("                %d => d::<%s>(ix, k, json)," % (i, C.rust_ty(t)))
        de.append("                _ => (),")
        de.append("            }")
        de.append("        }")
        de.append("        return;")
        de.append("    }")
    return "%s\n%s\n\nfn main() {\n    std::panic::set_hook(Box::new(|_| ()));\n%s\n%s\n}\n" % (MAIN_PRELUDE, items, "\n".join(de), "\n".join(body))


def has_refcell_or_mutex(t, defs):
    return False
