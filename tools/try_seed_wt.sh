#!/bin/bash
# usage: tools/try_seed_wt.sh <patch.diff> <PROP> [tier]  — like try_seed.sh, but on a scratch worktree of /repo (VERIF_REPO), so
# that /repo itself is not touched (usable while a `vp run` reads /repo).  Not for the checks that use /tmp/v (C05 C06 C08 C11 C17)
# while another run of them is in progress.
set -u
patch=$(realpath "$1"); prop=$2; tier=${3:-quick}
wt=/tmp/mw_$prop
git -C /repo worktree remove --force "$wt" >/dev/null 2>&1; rm -rf "$wt"
git -C /repo worktree add --detach "$wt" HEAD >/dev/null 2>&1 || { echo "worktree failed"; exit 2; }
git -C "$wt" apply "$patch" || { echo "patch does not apply"; git -C /repo worktree remove --force "$wt"; exit 2; }
cd /verif
VERIF_REPO=$wt python3 tools/check.py "$prop" --tier "$tier"; rc=$?
git -C /repo worktree remove --force "$wt"; rm -rf "$wt"
rm -rf "/verif/.cache-$(python3 -c "import hashlib,sys;print(hashlib.md5(sys.argv[1].encode()).hexdigest()[:8])" "$wt")"
git -C /verif checkout -- evidence
echo "EXIT=$rc"
