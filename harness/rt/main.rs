// Runtime harness: drives ts-rs (built with --cfg ts_rs_verif) from request lines on stdin.
// One tab-separated, backslash-escaped request per line; one answer line per request.
#![allow(dead_code)]
use std::io::{BufRead, Write};
use std::panic::{catch_unwind, AssertUnwindSafe};
use std::path::Path;

use ts_rs::verif;

mod universe;

pub fn esc(s: &str) -> String {
    s.replace('\\', "\\\\").replace('\t', "\\t").replace('\n', "\\n").replace('\r', "\\r")
}
pub fn unesc(s: &str) -> String {
    let mut out = String::new();
    let mut it = s.chars();
    while let Some(c) = it.next() {
        if c == '\\' {
            match it.next() {
                Some('t') => out.push('\t'),
                Some('n') => out.push('\n'),
                Some('r') => out.push('\r'),
                Some(c) => out.push(c),
                None => (),
            }
        } else {
            out.push(c)
        }
    }
    out
}

fn res<T: ToString, E: std::fmt::Debug>(r: Result<T, E>) -> Result<Vec<String>, String> {
    r.map(|x| vec![x.to_string()]).map_err(|e| format!("{e:?}"))
}

fn run(f: &[String]) -> Result<Vec<String>, String> {
    let arg = |i: usize| f.get(i).cloned().ok_or("missing argument".to_owned());
    match f[0].as_str() {
        "cwd" => res(std::env::set_current_dir(arg(1)?).map(|_| "")),
        "esm" => Ok(vec![verif::esm().to_string()]),
        "abs" => res(verif::absolute(Path::new(&arg(1)?)).map(|p| p.to_string_lossy().into_owned())),
        "diff" => res(verif::diff_paths(Path::new(&arg(1)?), Path::new(&arg(2)?)).map(|p| p.to_string_lossy().into_owned())),
        "imp" => res(verif::import_path(Path::new(&arg(1)?), Path::new(&arg(2)?))),
        // import_path(base.join(f), base.join(t)) as generate_imports calls it
        "impj" => {
            let base = Path::new(&arg(1)?).to_owned();
            res(verif::import_path(&base.join(arg(2)?), &base.join(arg(3)?)))
        }
        "merge" => Ok(vec![verif::merge(arg(1)?, arg(2)?)]),
        _ => universe::run(f),
    }
}

fn main() {
    std::panic::set_hook(Box::new(|_| ()));
    let stdin = std::io::stdin();
    let out = std::io::stdout();
    let mut out = std::io::BufWriter::new(out.lock());
    for line in stdin.lock().lines() {
        let line = line.unwrap();
        let fields: Vec<String> = line.split('\t').map(unesc).collect();
        let text = match catch_unwind(AssertUnwindSafe(|| run(&fields))) {
            Ok(Ok(v)) => {
                let mut s = "OK".to_owned();
                for x in v {
                    s.push('\t');
                    s.push_str(&esc(&x));
                }
                s
            }
            Ok(Err(e)) => format!("ERR\t{}", esc(&e)),
            Err(p) => {
                let msg = p
                    .downcast_ref::<String>()
                    .cloned()
                    .or_else(|| p.downcast_ref::<&str>().map(|s| s.to_string()))
                    .unwrap_or_default();
                format!("PANIC\t{}", esc(&msg))
            }
        };
        writeln!(out, "{text}").unwrap();
    }
    out.flush().unwrap();
}
