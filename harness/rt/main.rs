// Runtime harness: drives ts-rs (built with --cfg ts_rs_verif) from request lines on stdin.
// One tab-separated, backslash-escaped request per line; one answer line per request.
#![allow(dead_code)]
use std::io::{BufRead, Write};
use std::panic::{catch_unwind, AssertUnwindSafe};
use std::path::Path;

use ts_rs::verif;

mod universe;

static RAW_ITEMS: std::sync::Mutex<Vec<(String, String)>> = std::sync::Mutex::new(Vec::new());

pub fn esc(s: &str) -> String {
    s.replace('\\', "\\\\").replace('\t', "\\t").replace('\n', "\\n").replace('\r', "\\r")
}
pub fn unesc(s: &str) -> String {
    let mut out = String::new();
    let mut it = s.chars();
    while let Some(c) = it.next() {
        if c == '\\' {
            match it.next() {
                Some('t') => out.push('\t'),
                Some('n') => out.push('\n'),
                Some('r') => out.push('\r'),
                Some(c) => out.push(c),
                None => (),
            }
        } else {
            out.push(c)
        }
    }
    out
}

fn res<T: ToString, E: std::fmt::Debug>(r: Result<T, E>) -> Result<Vec<String>, String> {
    r.map(|x| vec![x.to_string()]).map_err(|e| format!("{e:?}"))
}

fn run(f: &[String]) -> Result<Vec<String>, String> {
    let arg = |i: usize| f.get(i).cloned().ok_or("missing argument".to_owned());
    match f[0].as_str() {
        "cwd" => res(std::env::set_current_dir(arg(1)?).map(|_| "")),
        "esm" => Ok(vec![verif::esm().to_string()]),
        "abs" => res(verif::absolute(Path::new(&arg(1)?)).map(|p| p.to_string_lossy().into_owned())),
        "diff" => res(verif::diff_paths(Path::new(&arg(1)?), Path::new(&arg(2)?)).map(|p| p.to_string_lossy().into_owned())),
        "imp" => res(verif::import_path(Path::new(&arg(1)?), Path::new(&arg(2)?))),
        // import_path(base.join(f), base.join(t)) as generate_imports calls it
        "impj" => {
            let base = Path::new(&arg(1)?).to_owned();
            res(verif::import_path(&base.join(arg(2)?), &base.join(arg(3)?)))
        }
        "merge" => Ok(vec![verif::merge(arg(1)?, arg(2)?)]),
        // raw export histories on one file: `rawitem <ident> <text>` registers an item,
        // `rawhist <file> <stale|-> <i,j,k>` runs export_and_merge for the items in that order
        // (fresh registry; the file is removed or pre-filled with stale text first) and returns the
        // per-step results and the final file content
        "rawitem" => {
            RAW_ITEMS.lock().unwrap().push((arg(1)?, arg(2)?));
            Ok(vec![])
        }
        "rawhist" => {
            let file = std::path::PathBuf::from(arg(1)?);
            let items = RAW_ITEMS.lock().unwrap().clone();
            verif::reset_registry();
            let _ = std::fs::remove_file(&file);
            if arg(2)? != "-" {
                std::fs::write(&file, arg(2)?).map_err(|e| e.to_string())?;
            }
            let mut steps = String::new();
            for ix in arg(3)?.split(',').filter(|x| !x.is_empty()) {
                let (ident, text) = items[ix.parse::<usize>().map_err(|e| e.to_string())?].clone();
                let r = catch_unwind(AssertUnwindSafe(|| verif::export_and_merge(file.clone(), ident, text)));
                steps.push(match r {
                    Ok(Ok(())) => 'O',
                    Ok(Err(_)) => 'E',
                    Err(_) => 'P',
                });
                if !steps.ends_with('O') {
                    break;
                }
            }
            let content = std::fs::read(&file).map(|b| String::from_utf8_lossy(&b).into_owned()).unwrap_or_default();
            Ok(vec![steps, content])
        }
        // the same items exported from concurrent threads; a seeded perturbation at the yield
        // points; returns the recorded (thread, point) trace and the final content
        "rawthreads" => {
            let file = std::path::PathBuf::from(arg(1)?);
            let items = RAW_ITEMS.lock().unwrap().clone();
            let seed: u64 = arg(2)?.parse().map_err(|_| "seed")?;
            let ixs: Vec<usize> = arg(3)?.split(',').filter(|x| !x.is_empty()).map(|x| x.parse().unwrap()).collect();
            verif::reset_registry();
            let _ = std::fs::remove_file(&file);
            let trace = std::sync::Arc::new(std::sync::Mutex::new(Vec::<(String, u32)>::new()));
            let t2 = trace.clone();
            verif::set_yield_hook(Some(std::sync::Arc::new(move |n, _p: &Path, name: &str| {
                t2.lock().unwrap().push((name.to_owned(), n));
                // seeded perturbation: spin/yield a pseudo-random number of times
                let mut h = seed ^ (n as u64).wrapping_mul(0x9E3779B97F4A7C15);
                for b in name.bytes() {
                    h = (h ^ b as u64).wrapping_mul(0x100000001B3);
                }
                for _ in 0..(h >> 60) {
                    std::thread::yield_now();
                }
                if (h >> 55) & 3 == 0 {
                    std::thread::sleep(std::time::Duration::from_micros((h >> 50) & 127));
                }
            })));
            let barrier = std::sync::Arc::new(std::sync::Barrier::new(ixs.len()));
            let mut handles = vec![];
            for ix in ixs {
                let (ident, text) = items[ix].clone();
                let file = file.clone();
                let barrier = barrier.clone();
                handles.push(std::thread::spawn(move || {
                    barrier.wait();
                    match catch_unwind(AssertUnwindSafe(|| verif::export_and_merge(file, ident, text))) {
                        Ok(Ok(())) => 'O',
                        Ok(Err(_)) => 'E',
                        Err(_) => 'P',
                    }
                }));
            }
            let steps: String = handles.into_iter().map(|h| h.join().unwrap_or('P')).collect();
            verif::set_yield_hook(None);
            let content = std::fs::read(&file).map(|b| String::from_utf8_lossy(&b).into_owned()).unwrap_or_default();
            let tr: Vec<String> = trace.lock().unwrap().iter().map(|(n, k)| format!("{n}:{k}")).collect();
            Ok(vec![steps, content, tr.join(",")])
        }
        _ => universe::run(f),
    }
}

fn main() {
    std::panic::set_hook(Box::new(|_| ()));
    let stdin = std::io::stdin();
    let out = std::io::stdout();
    let mut out = std::io::BufWriter::new(out.lock());
    for line in stdin.lock().lines() {
        let line = line.unwrap();
        let fields: Vec<String> = line.split('\t').map(unesc).collect();
        let text = match catch_unwind(AssertUnwindSafe(|| run(&fields))) {
            Ok(Ok(v)) => {
                let mut s = "OK".to_owned();
                for x in v {
                    s.push('\t');
                    s.push_str(&esc(&x));
                }
                s
            }
            Ok(Err(e)) => format!("ERR\t{}", esc(&e)),
            Err(p) => {
                let msg = p
                    .downcast_ref::<String>()
                    .cloned()
                    .or_else(|| p.downcast_ref::<&str>().map(|s| s.to_string()))
                    .unwrap_or_default();
                format!("PANIC\t{}", esc(&msg))
            }
        };
        writeln!(out, "{text}").unwrap();
    }
    out.flush().unwrap();
}
