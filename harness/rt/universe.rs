// Types and export histories (filled in by later checks).
pub fn run(_f: &[String]) -> Result<Vec<String>, String> {
    Err("unknown command".to_owned())
}
