// A universe of exportable types (shared files, mutual dependencies, cycles, generics with two
// instantiations, directory / file / nested / `../` export_to forms, a non-exportable root) and
// commands to describe them and to run export histories on a real directory tree.
#![allow(dead_code)]
use std::panic::{catch_unwind, AssertUnwindSafe};
use std::path::{Path, PathBuf};

use ts_rs::{ExportError, TypeVisitor, TS};

/// shares `shared.ts` with B; depends on B (same file) and on C
#[derive(TS)]
#[ts(export_to = "shared.ts")]
pub struct A {
    b: Option<B>,
    c: Vec<C>,
}

/// doc comment of B
#[derive(TS)]
#[ts(export_to = "shared.ts")]
pub struct B {
    x: i32,
    d: Box<D>,
}

/// default location; cycle C -> D -> C
#[derive(TS)]
pub struct C {
    d: Option<Box<D>>,
    e: E,
}

/// directory form
#[derive(TS)]
#[ts(export_to = "sub/")]
pub struct D {
    c: Vec<C>,
    g: G<i32>,
}

/// escapes the base directory by one level and comes back
#[derive(TS)]
#[ts(export_to = "../out/nested/E.ts")]
pub enum E {
    Unit,
    New(String),
}

/// generic with a default; two instantiations in the universe
#[derive(TS)]
#[ts(export_to = "sub/generic/G.ts")]
pub struct G<T, U = F> {
    t: T,
    u: Option<U>,
    f: F,
}

#[derive(TS)]
pub struct F {
    v: (i32, String),
}

#[derive(TS)]
pub struct U1 {
    g: G<i32>,
    #[ts(inline)]
    f: F,
}

#[derive(TS)]
#[ts(export_to = "shared.ts")]
pub struct U2 {
    g: G<C, A>,
    #[ts(flatten)]
    f: F,
}

/// a file-mate of U2 whose TypeScript name differs from it in case only (the order of declarations in a shared file is by bytes)
#[derive(TS)]
#[ts(export_to = "shared.ts", rename = "u2")]
pub struct U2low {
    x: i32,
}

/// climbs above the file-system root
#[derive(TS)]
#[ts(export_to = "../../../../../../../../../../../../../../../../up.ts")]
pub struct Up {
    x: i32,
}

/// depends on Up: exporting it with dependencies fails half-way
#[derive(TS)]
pub struct H {
    f: F,
    up: Up,
    c: C,
}

/// four levels up: above the root from a shallow base directory only
#[derive(TS)]
#[ts(export_to = "../../../../up4.ts")]
pub struct Up4 {
    x: i32,
}

/// depends on Up4, between two ordinary dependencies
#[derive(TS)]
pub struct H4 {
    a: A,
    up: Up4,
    b: B,
}

/// the same file name in another directory as C
#[derive(TS)]
#[ts(export_to = "sub/C.ts", rename = "C2")]
pub struct C2 {
    c: C,
}

// documented types whose real declaration blocks join the C05 universe of file-mates (tools/props/c05.py):
// documentation with empty lines, in every way the derive can receive one
/** block doc

with a blank line, and one at a field */
#[derive(TS)]
pub struct DocBlank {
    /** field

    doc */
    pub a: i32,
    /// line doc
    ///
    /// after an empty `///` line
    pub b: Option<A>,
}

#[doc = "ends with a newline\n"]
#[doc = "\nbegins with one"]
#[doc = ""]
#[doc = "\n\n\n"]
#[derive(TS)]
pub enum DocNl {
    /// variant doc
    ///
    A,
    B { x: C },
}

fn doc_info<T: TS + 'static + ?Sized>() -> String {
    format!(
        "{}\u{2}{}",
        guard(|| T::ident()),
        guard(|| match T::export_to_string() {
            Ok(s) => s,
            Err(e) => format!("\u{0}ERR {e:?}"),
        })
    )
}

/// leaves the base directory and imports types inside it, next to it and in its own directory
#[derive(TS)]
#[ts(export_to = "../esc/Esc.ts")]
pub struct Esc {
    a: A,
    d: Vec<D>,
    e: Option<E>,
    s: EscSib,
}

#[derive(TS)]
#[ts(export_to = "../esc/")]
pub struct EscSib {
    c2: C2,
}

struct Rec(Vec<String>);
impl TypeVisitor for Rec {
    fn visit<T: TS + 'static + ?Sized>(&mut self) {
        // `+` marks exportable types
        self.0.push(format!(
            "{}{}",
            if T::output_path().is_some() { "+" } else { "" },
            std::any::type_name::<T>()
        ));
    }
}

fn opt<T: ToString>(x: Option<T>) -> String {
    x.map(|x| x.to_string()).unwrap_or_else(|| "-".to_owned())
}

fn guard<F: FnOnce() -> String>(f: F) -> String {
    catch_unwind(AssertUnwindSafe(f)).unwrap_or_else(|_| "\u{0}PANIC".to_owned())
}

fn info<T: TS + 'static + ?Sized>() -> Vec<String> {
    let mut rec = Rec(vec![]);
    T::visit_dependencies(&mut rec);
    vec![
        std::any::type_name::<T>().to_owned(),
        guard(|| T::ident()),
        opt(T::output_path().map(|p| p.to_string_lossy().into_owned())),
        guard(|| format!("{}export {}", T::DOCS.unwrap_or(""), T::decl())),
        rec.0.join("|"),
        std::any::type_name::<T::WithoutGenerics>().to_owned(),
        guard(|| match T::export_to_string() {
            Ok(s) => s,
            Err(e) => format!("\u{0}ERR {e:?}"),
        }),
        opt(T::default_output_path().map(|p| p.to_string_lossy().into_owned())),
        guard(|| T::name()),
    ]
}

fn classify(r: std::thread::Result<Result<(), ExportError>>) -> String {
    match r {
        Ok(Ok(())) => "OK".to_owned(),
        Ok(Err(ExportError::CannotBeExported(_))) => "ERR CannotBeExported".to_owned(),
        Ok(Err(ExportError::Io(e))) => format!("ERR Io {:?}", e.kind()),
        Ok(Err(e)) => format!("ERR {e:?}"),
        Err(_) => "PANIC".to_owned(),
    }
}

fn op<T: TS + 'static + ?Sized>(kind: &str, dir: &str) -> String {
    classify(catch_unwind(AssertUnwindSafe(|| match kind {
        "export" => T::export(),
        "export_all" => T::export_all(),
        _ => T::export_all_to(dir),
    })))
}

macro_rules! universe {
    ($($t:ty),* $(,)?) => {
        fn all_info() -> Vec<Vec<String>> { vec![$(info::<$t>()),*] }
        fn run_op(ix: usize, kind: &str, dir: &str) -> String {
            let mut k = 0usize;
            $( if k == ix { return op::<$t>(kind, dir); } k += 1; )*
            let _ = k;
            "ERR no such type".to_owned()
        }
    };
}

universe!(
    A, B, C, D, E, F, G<i32>, G<C, A>, G<ts_rs::Dummy, ts_rs::Dummy>, U1, U2, Up, H, C2, Up4, H4, Esc, EscSib,
    Vec<A>, Option<B>, i32, (C, D), std::collections::HashMap<String, E>, Box<A>, U2low,
);

fn snapshot(root: &Path, rel: &Path, out: &mut Vec<String>) {
    let mut entries: Vec<PathBuf> = match std::fs::read_dir(root.join(rel)) {
        Ok(rd) => rd.filter_map(|e| e.ok()).map(|e| e.file_name().into()).collect(),
        Err(_) => return,
    };
    entries.sort();
    for name in entries {
        let r = rel.join(&name);
        let p = root.join(&r);
        if p.is_dir() {
            out.push(format!("D {}", r.to_string_lossy()));
            snapshot(root, &r, out);
        } else {
            let content = std::fs::read(&p).map(|b| String::from_utf8_lossy(&b).into_owned()).unwrap_or_default();
            out.push(format!("F {}\u{1}{}", r.to_string_lossy(), content));
        }
    }
}

pub fn run(f: &[String]) -> Result<Vec<String>, String> {
    let arg = |i: usize| f.get(i).cloned().ok_or("missing argument".to_owned());
    match f[0].as_str() {
        // one line of `\u{2}`-separated fields per type
        "info" => Ok(all_info().into_iter().map(|v| v.join("\u{2}")).collect()),
        "docinfo" => Ok(vec![doc_info::<DocBlank>(), doc_info::<DocNl>()]),
        "env" => {
            if arg(1)? == "-" {
                std::env::remove_var("TS_RS_EXPORT_DIR");
            } else {
                std::env::set_var("TS_RS_EXPORT_DIR", arg(1)?);
            }
            Ok(vec![])
        }
        "reset" => {
            ts_rs::verif::reset_registry();
            Ok(vec![])
        }
        "op" => Ok(vec![run_op(arg(2)?.parse().map_err(|_| "index")?, &arg(1)?, &f.get(3).cloned().unwrap_or_default())]),
        "mkdir" => std::fs::create_dir_all(arg(1)?).map(|_| vec![]).map_err(|e| e.to_string()),
        "mkfile" => {
            let p = PathBuf::from(arg(1)?);
            if let Some(d) = p.parent() {
                std::fs::create_dir_all(d).map_err(|e| e.to_string())?;
            }
            std::fs::write(&p, arg(2)?).map(|_| vec![]).map_err(|e| e.to_string())
        }
        "rm" => {
            let p = PathBuf::from(arg(1)?);
            if p.is_dir() {
                std::fs::remove_dir_all(&p).map_err(|e| e.to_string())?;
            } else if p.exists() {
                std::fs::remove_file(&p).map_err(|e| e.to_string())?;
            }
            Ok(vec![])
        }
        "snapshot" => {
            let mut out = vec![];
            snapshot(Path::new(&arg(1)?), Path::new(""), &mut out);
            Ok(out)
        }
        _ => Err("unknown command".to_owned()),
    }
}
