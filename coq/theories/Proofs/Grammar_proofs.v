(* C04: the text of every well-formed syntax tree is derivable in the grammar of Spec/TsGrammar.v. *)
From TsRs Require Import Base.Str Base.Outcome Gen.Tables Model.TsAst Model.Merge Model.MergeSpec Spec.TsGrammar Spec.TsSyn Spec.TsFree Spec.TsSem Proofs.Sem_base_proofs.
From Coq Require Import List NArith Bool Lia.
Import ListNotations.
Open Scope N_scope.

Section G.
Variable is_alnum is_numeric : char -> bool.
Hypothesis Hcls : classes_ok is_alnum is_numeric = true.

Notation ident := (ident is_alnum is_numeric).
Notation type_name := (type_name is_alnum is_numeric).
Notation decl_name := (decl_name is_alnum is_numeric).
Notation ty := (ty is_alnum is_numeric).
Notation inter := (inter is_alnum is_numeric).
Notation postfix := (postfix is_alnum is_numeric).
Notation primary := (primary is_alnum is_numeric).
Notation targs := (targs is_alnum is_numeric).
Notation members := (members is_alnum is_numeric).
Notation syn_ok := (syn_ok is_alnum is_numeric).

(* ---- reflection of the boolean checks ---------------------------------------------------------- *)
Lemma identb_ok s : identb is_alnum is_numeric s = true -> ident s.
Proof.
  unfold identb, TsGrammar.ident. intros H. apply andb_true_iff in H as [H1 H2]. split; [exact H1|].
  destruct s; [discriminate|]. apply negb_true_iff. exact H2.
Qed.

Lemma str_eqb_eq' a b : str_eqb a b = true -> a = b.
Proof. apply str_eqb_true. Qed.

Lemma type_nameb_ok s : type_nameb is_alnum is_numeric s = true -> type_name s.
Proof.
  unfold type_nameb, TsGrammar.type_name. intros H. apply orb_true_iff in H as [H|H].
  - apply andb_true_iff in H as [H1 H2]. left. split; [apply identb_ok; exact H1 | apply negb_true_iff; exact H2].
  - right. apply str_eqb_eq'. exact H.
Qed.

Lemma decl_nameb_ok s : decl_nameb is_alnum is_numeric s = true -> decl_name s.
Proof.
  unfold decl_nameb, TsGrammar.decl_name. intros H. apply andb_true_iff in H as [H H3]. apply andb_true_iff in H as [H1 H2].
  split; [apply identb_ok; exact H1|]. split; apply negb_true_iff; assumption.
Qed.

Lemma quotedb_ok s : quotedb s = true -> string_lit s.
Proof.
  unfold quotedb, string_lit. destruct s as [|c r]; [discriminate|]. intros H.
  apply andb_true_iff in H as [Hc H]. apply N.eqb_eq in Hc. subst c.
  destruct (rev r) as [|c2 b] eqn:Hr; [discriminate|].
  apply andb_true_iff in H as [Hc2 H]. apply N.eqb_eq in Hc2. subst c2.
  exists (rev b). split.
  - assert (Hrr : r = rev (rev r)) by (rewrite rev_involutive; reflexivity). rewrite Hr in Hrr. rewrite Hrr. cbn [rev]. reflexivity.
  - unfold cleanb in H. rewrite forallb_forall in *. intros x Hx. apply H. apply in_rev. exact Hx.
Qed.

(* an ASCII word is an identifier *)
Definition ascii_word (s : str) : bool := forallb (fun c => existsb (N.eqb c) letters) s && negb (is_nil s).
Lemma letters_ok c : existsb (N.eqb c) letters = true -> is_alnum c = true /\ is_numeric c = false.
Proof.
  intros H. apply existsb_exists in H as (x & Hx & He). apply N.eqb_eq in He. subst x.
  unfold classes_ok in Hcls. rewrite forallb_forall in Hcls. specialize (Hcls c Hx).
  apply andb_true_iff in Hcls as [H1 H2]. split; [exact H1 | apply negb_true_iff; exact H2].
Qed.
Lemma ascii_word_ident s : ascii_word s = true -> ident s.
Proof.
  unfold ascii_word. intros H. apply andb_true_iff in H as [H1 H2]. rewrite forallb_forall in H1. split.
  - apply forallb_forall. intros c Hc. unfold id_char. rewrite (proj1 (letters_ok c (H1 c Hc))). reflexivity.
  - destruct s as [|c r]; [discriminate|]. apply (proj2 (letters_ok c (H1 c (or_introl eq_refl)))).
Qed.

(* ---- trivia ---------------------------------------------------------------------------------- *)
Lemma tr_sp : trivia [32].
Proof. apply tr_ws; [reflexivity | apply tr_nil]. Qed.

Lemma trivia_app a b : trivia a -> trivia b -> trivia (a ++ b).
Proof.
  induction 1 as [|c s Hc _ IH|body s Hb _ IH|body s Hb _ IH]; intros Hb'; cbn [app].
  - exact Hb'.
  - apply tr_ws; [exact Hc | apply IH; exact Hb'].
  - change (trivia ([47; 42] ++ body ++ [42; 47] ++ s ++ b)) with (trivia ([47; 42] ++ body ++ [42; 47] ++ (s ++ b))).
    rewrite <- ?app_assoc. apply (tr_block body (s ++ b) Hb (IH Hb')).
  - rewrite <- ?app_assoc. apply (tr_line body (s ++ b) Hb (IH Hb')).
Qed.

(* ---- coercions and closure under the separators the printer writes ---------------------------- *)
Lemma ty_of_primary s : primary s -> ty s.
Proof. intros H. apply ty_inter, in_post, po_prim. exact H. Qed.

Lemma inter_and x y : inter x -> inter y -> inter (x ++ [32; 38; 32] ++ y).
Proof.
  intros Hx Hy. induction Hy as [s Hs|s1 w1 w2 s2 _ IH Hw1 Hw2 Hs2].
  - apply (in_and _ _ x [32] [32] s Hx tr_sp tr_sp Hs).
  - replace (x ++ [32; 38; 32] ++ s1 ++ w1 ++ [38] ++ w2 ++ s2) with ((x ++ [32; 38; 32] ++ s1) ++ w1 ++ [38] ++ w2 ++ s2)
      by (rewrite <- ?app_assoc; reflexivity).
    apply in_and; assumption.
Qed.

Lemma ty_and_inter a s : ty a -> inter s -> ty (a ++ [32; 38; 32] ++ s).
Proof.
  intros Ha Hs. induction Ha as [sa Hsa|a1 w1 w2 a2 Ha1 IH Hw1 Hw2 Ha2].
  - apply ty_inter. apply inter_and; assumption.
  - replace ((a1 ++ w1 ++ [124] ++ w2 ++ a2) ++ [32; 38; 32] ++ s) with (a1 ++ w1 ++ [124] ++ w2 ++ (a2 ++ [32; 38; 32] ++ s))
      by (rewrite <- ?app_assoc; reflexivity).
    apply ty_union; [assumption | assumption | assumption | apply inter_and; assumption].
Qed.

Lemma ty_and a b : ty a -> ty b -> ty (a ++ [32; 38; 32] ++ b).
Proof.
  intros Ha Hb. induction Hb as [s Hs|s1 w1 w2 s2 _ IH Hw1 Hw2 Hs2].
  - apply ty_and_inter; assumption.
  - replace (a ++ [32; 38; 32] ++ s1 ++ w1 ++ [124] ++ w2 ++ s2) with ((a ++ [32; 38; 32] ++ s1) ++ w1 ++ [124] ++ w2 ++ s2)
      by (rewrite <- ?app_assoc; reflexivity).
    apply ty_union; assumption.
Qed.

Lemma ty_or a b : ty a -> ty b -> ty (a ++ [32; 124; 32] ++ b).
Proof.
  intros Ha Hb. induction Hb as [s Hs|s1 w1 w2 s2 _ IH Hw1 Hw2 Hs2].
  - apply (ty_union _ _ a [32] [32] s Ha tr_sp tr_sp Hs).
  - replace (a ++ [32; 124; 32] ++ s1 ++ w1 ++ [124] ++ w2 ++ s2) with ((a ++ [32; 124; 32] ++ s1) ++ w1 ++ [124] ++ w2 ++ s2)
      by (rewrite <- ?app_assoc; reflexivity).
    apply ty_union; assumption.
Qed.

Lemma join_cons2 sep (x y : str) r : join sep (x :: y :: r) = x ++ sep ++ join sep (y :: r).
Proof. reflexivity. Qed.

Lemma join_closed (P : str -> Prop) sep : (forall a b, P a -> P b -> P (a ++ sep ++ b)) ->
  forall l, l <> [] -> Forall P l -> P (join sep l).
Proof.
  intros Hc. induction l as [|x [|y r] IH]; intros Hne Hall; [contradiction| |].
  - inversion Hall; assumption.
  - rewrite join_cons2. inversion Hall as [|? ? Hx Hr]; subst. apply Hc; [exact Hx | apply IH; [discriminate | exact Hr]].
Qed.

Lemma targs_join l : l <> [] -> Forall ty l -> targs (join [44; 32] l).
Proof.
  induction l as [|x [|y r] IH]; intros Hne Hall; [contradiction| |].
  - inversion Hall; subst. apply ta_one. assumption.
  - rewrite join_cons2. inversion Hall as [|? ? Hx Hr]; subst.
    apply (ta_more _ _ x [] [32] _ Hx (tr_nil) tr_sp). apply IH; [discriminate | exact Hr].
Qed.

(* ---- documentation blocks are trivia ---------------------------------------------------------- *)
Lemma block_body_eq d b : block_body d = Some b -> d = [47; 42] ++ b ++ [42; 47; 10].
Proof.
  unfold block_body. destruct d as [|c1 [|c2 r]]; try discriminate.
  destruct ((c1 =? 47) && (c2 =? 42)) eqn:H12; [|discriminate].
  apply andb_true_iff in H12 as [H1 H2]. apply N.eqb_eq in H1, H2. subst c1 c2.
  destruct (rev r) as [|x1 [|x2 [|x3 b']]] eqn:Hr; try discriminate.
  destruct ((x1 =? 10) && (x2 =? 47) && (x3 =? 42)) eqn:H123; [|discriminate].
  apply andb_true_iff in H123 as [H123 H3]. apply andb_true_iff in H123 as [H1 H2]. apply N.eqb_eq in H1, H2, H3. subst x1 x2 x3.
  intros H. inversion H; subst b.
  assert (Hrr : r = rev (rev r)) by (rewrite rev_involutive; reflexivity). rewrite Hr in Hrr. rewrite Hrr.
  cbn [rev]. rewrite <- ?app_assoc. reflexivity.
Qed.

Lemma docs_trivia d : docs_okb d = true -> trivia (match d with [] => [] | c :: l => nl :: c :: l end).
Proof.
  unfold docs_okb. destruct d as [|c r]; [intros _; apply tr_nil|].
  destruct (block_body (c :: r)) as [b|] eqn:Hb; [|discriminate]. intros Hnc.
  rewrite (block_body_eq _ _ Hb). apply tr_ws; [reflexivity|].
  change ([47; 42] ++ b ++ [42; 47; 10]) with ([47; 42] ++ b ++ [42; 47] ++ [10]).
  apply tr_block; [exact Hnc | apply tr_ws; [reflexivity | apply tr_nil]].
Qed.

(* ---- object members ----------------------------------------------------------------------------- *)
Definition sprop (p : phead * tsty) : str :=
  (match p_docs (fst p) with [] => [] | d => nl :: d end) ++ p_text (fst p) ++
  (if p_optional (fst p) then lit "?" else []) ++ lit ": " ++ print (snd p) ++ lit ",".
Definition vprop (p : phead * tsty) : str := p_text (fst p) ++ lit ": " ++ print (snd p).

Lemma head_name p : head_okb is_alnum is_numeric p = true -> (ident (p_text p) \/ string_lit (p_text p)) /\ docs_okb (p_docs p) = true.
Proof.
  unfold head_okb. intros H. apply andb_true_iff in H as [H1 H2]. split; [|exact H2].
  apply orb_true_iff in H1 as [H1|H1]; [left; apply identb_ok; exact H1 | right; apply quotedb_ok; exact H1].
Qed.

Definition pdocs (p : phead * tsty) : str := match p_docs (fst p) with [] => [] | d => nl :: d end.
Definition pq (p : phead * tsty) : str := if p_optional (fst p) then [63] else [].

(* the members of `{ a: T, b: U, }` and of `{ "k": T, "c": U }`, right-nested *)
Fixpoint smem (ps : list (phead * tsty)) : str :=
  match ps with
  | [] => [32]
  | p :: r => [32] ++ pdocs p ++ p_text (fst p) ++ pq p ++ [58; 32] ++ print (snd p) ++ [44] ++ smem r
  end.
Fixpoint vmem (ps : list (phead * tsty)) : str :=
  match ps with
  | [] => [32]
  | [p] => [32] ++ p_text (fst p) ++ [58; 32] ++ print (snd p) ++ [32]
  | p :: r => [32] ++ p_text (fst p) ++ [58; 32] ++ print (snd p) ++ [44] ++ vmem r
  end.

Lemma smem_eq ps : ps <> [] -> [32] ++ join [sp] (map sprop ps) ++ [32] = smem ps.
Proof.
  induction ps as [|p [|q r] IH]; intros Hne; [contradiction| |].
  - cbn [map join smem]. unfold sprop, pdocs, pq. destruct (p_optional (fst p)); cbn [lit]; rewrite <- ?app_assoc; reflexivity.
  - cbn [map]. rewrite join_cons2.
    change (smem (p :: q :: r)) with ([32] ++ pdocs p ++ p_text (fst p) ++ pq p ++ [58; 32] ++ print (snd p) ++ [44] ++ smem (q :: r)).
    rewrite <- IH by discriminate. cbn [map].
    unfold sprop at 1, pdocs, pq, sp. destruct (p_optional (fst p)); cbn [lit]; rewrite <- ?app_assoc; reflexivity.
Qed.

Lemma vmem_eq ps : ps <> [] -> [32] ++ join [44; 32] (map vprop ps) ++ [32] = vmem ps.
Proof.
  induction ps as [|p [|q r] IH]; intros Hne; [contradiction| |].
  - cbn [map join vmem]. unfold vprop. cbn [lit]. rewrite <- ?app_assoc. reflexivity.
  - cbn [map]. rewrite join_cons2. change (vmem (p :: q :: r)) with ([32] ++ p_text (fst p) ++ [58; 32] ++ print (snd p) ++ [44] ++ vmem (q :: r)).
    rewrite <- IH by discriminate. cbn [map]. unfold vprop at 1. cbn [lit]. rewrite <- ?app_assoc. reflexivity.
Qed.

Lemma pq_ok p : pq p = [] \/ pq p = [63].
Proof. unfold pq. destruct (p_optional (fst p)); [right | left]; reflexivity. Qed.

Lemma members_smem ps :
  Forall (fun p => head_okb is_alnum is_numeric (fst p) = true /\ ty (print (snd p))) ps -> members (smem ps).
Proof.
  induction ps as [|p r IH]; intros Hall; cbn [smem].
  - apply me_nil. apply tr_sp.
  - inversion Hall as [|? ? [Hh Ht] Hr]; subst. destruct (head_name _ Hh) as [Hn Hd].
    apply (me_prop _ _ ([32] ++ pdocs p) (p_text (fst p)) (pq p) [] [32] (print (snd p)) [] (smem r)); try apply tr_nil; try apply tr_sp; try assumption.
    + apply trivia_app; [apply tr_sp | unfold pdocs; apply docs_trivia; exact Hd].
    + apply pq_ok.
    + apply IH. exact Hr.
Qed.

Lemma members_vmem ps :
  Forall (fun p => head_okb is_alnum is_numeric (fst p) = true /\ ty (print (snd p))) ps -> members (vmem ps).
Proof.
  induction ps as [|p [|q r] IH]; intros Hall.
  - apply me_nil. apply tr_sp.
  - inversion Hall as [|? ? [Hh Ht] Hr]; subst. destruct (head_name _ Hh) as [Hn Hd]. cbn [vmem].
    apply (me_last _ _ [32] (p_text (fst p)) [] [] [32] (print (snd p)) [32]); try apply tr_nil; try apply tr_sp; try assumption. left; reflexivity.
  - inversion Hall as [|? ? [Hh Ht] Hr]; subst. destruct (head_name _ Hh) as [Hn Hd].
    change (vmem (p :: q :: r)) with ([32] ++ p_text (fst p) ++ [58; 32] ++ print (snd p) ++ [44] ++ vmem (q :: r)).
    apply (me_prop _ _ [32] (p_text (fst p)) [] [] [32] (print (snd p)) [] (vmem (q :: r))); try apply tr_nil; try apply tr_sp; try assumption.
    + left; reflexivity.
    + apply IH. exact Hr.
Qed.

(* ---- the words the printer writes itself ------------------------------------------------------- *)
Lemma word_name w : ascii_word w = true -> reserved w = false -> type_name w.
Proof. intros H1 H2. left. split; [apply ascii_word_ident; exact H1 | exact H2]. Qed.

Lemma Forall_ty_map ts :
  Forall (fun t => syn_ok t = true -> ty (print t)) ts -> forallb syn_ok ts = true -> Forall ty (map print ts).
Proof.
  induction 1 as [|t r Ht _ IH]; cbn [forallb map]; intros H; [constructor|].
  apply andb_true_iff in H as [H1 H2]. constructor; [apply Ht; exact H1 | apply IH; exact H2].
Qed.

Lemma map_nonempty {A B} (f : A -> B) l : l <> [] -> map f l <> [].
Proof. destruct l; [contradiction | discriminate]. Qed.

Theorem print_in_grammar : forall t, syn_ok t = true -> ty (print t).
Proof.
  induction t as [n|n|n|n args IH|u IH| | |ts IH|st ps IH|k v IHk IHv|a b IHa IHb|ts IH|ts IH|u IH|l|r|u IH|u IH] using tsty_ind';
    cbn [TsSyn.syn_ok]; intros H; try discriminate.
  - cbn [print]. apply ty_of_primary, pr_name, type_nameb_ok. exact H.
  - cbn [print]. apply ty_of_primary, pr_name, type_nameb_ok. exact H.
  - cbn [print]. apply ty_of_primary, pr_name, type_nameb_ok. exact H.
  - apply andb_true_iff in H as [Hn Ha]. apply type_nameb_ok in Hn. destruct args as [|x xs].
    + cbn [print]. apply ty_of_primary, pr_name. exact Hn.
    + change (print (TRef n (x :: xs))) with (n ++ lit "<" ++ join (lit ", ") (map print (x :: xs)) ++ lit ">").
      apply ty_of_primary.
      apply (pr_app _ _ n [] [] (join [44; 32] (map print (x :: xs))) [] Hn (tr_nil) (tr_nil)); [|apply tr_nil].
      apply targs_join; [discriminate | apply Forall_ty_map; assumption].
  - cbn [print]. apply ty_of_primary.
    apply (pr_app _ _ (lit "Array") [] [] (print u) []); try apply tr_nil; [apply word_name; reflexivity | apply ta_one, IH; exact H].
  - cbn [print]. apply ty_inter, in_post.
    apply (po_array _ _ (lit "never") []); [apply po_prim, pr_name, word_name; reflexivity | apply tr_nil].
  - cbn [print]. apply ty_of_primary.
    apply (pr_app _ _ (lit "Record") [] [] (lit "string, never") []); try apply tr_nil; [apply word_name; reflexivity|].
    apply (ta_more _ _ (lit "string") [] [32] (lit "never")); [|apply tr_nil | apply tr_sp |].
    + apply ty_of_primary, pr_name, word_name; reflexivity.
    + apply ta_one, ty_of_primary, pr_name, word_name; reflexivity.
  - destruct ts as [|x xs].
    + cbn. apply ty_of_primary. apply (pr_tuple0 _ _ []). apply tr_nil.
    + change (print (TTuple (x :: xs))) with (lit "[" ++ join (lit ", ") (map print (x :: xs)) ++ lit "]").
      apply ty_of_primary. apply (pr_tuple _ _ [] (join [44; 32] (map print (x :: xs))) []); try apply tr_nil.
      apply targs_join; [discriminate | apply Forall_ty_map; assumption].
  - assert (Hall : Forall (fun p => head_okb is_alnum is_numeric (fst p) = true /\ ty (print (snd p))) ps).
    { clear -IH H. induction IH as [|p r Hp _ IHr]; cbn [forallb] in H; [constructor|].
      apply andb_true_iff in H as [H1 H2]. apply andb_true_iff in H1 as [Hh Hs]. constructor; [split; [exact Hh | apply Hp; exact Hs] | apply IHr; exact H2]. }
    apply ty_of_primary. destruct st.
    + change (print (TObj OStruct ps)) with (lit "{ " ++ join [sp] (map sprop ps) ++ lit " }").
      destruct ps as [|p r].
      * cbn. apply (pr_obj _ _ [32; 32]). apply me_nil. apply tr_ws; [reflexivity | apply tr_sp].
      * replace (lit "{ " ++ join [sp] (map sprop (p :: r)) ++ lit " }") with ([123] ++ ([32] ++ join [sp] (map sprop (p :: r)) ++ [32]) ++ [125])
          by (cbn [lit]; rewrite <- ?app_assoc; reflexivity).
        rewrite smem_eq by discriminate. apply pr_obj. apply members_smem. exact Hall.
    + change (print (TObj OVariant ps)) with (lit "{ " ++ join (lit ", ") (map vprop ps) ++ lit " }").
      destruct ps as [|p r].
      * cbn. apply (pr_obj _ _ [32; 32]). apply me_nil. apply tr_ws; [reflexivity | apply tr_sp].
      * replace (lit "{ " ++ join (lit ", ") (map vprop (p :: r)) ++ lit " }") with ([123] ++ ([32] ++ join [44; 32] (map vprop (p :: r)) ++ [32]) ++ [125])
          by (cbn [lit]; rewrite <- ?app_assoc; reflexivity).
        rewrite vmem_eq by discriminate. apply pr_obj. apply members_vmem. exact Hall.
  - apply andb_true_iff in H as [Hk Hv]. cbn [print]. apply ty_of_primary.
    replace (lit "{ [key in " ++ print k ++ lit "]?: " ++ print v ++ lit " }")
      with ([123] ++ [32] ++ [91] ++ [] ++ lit "key" ++ [32] ++ [] ++ [105; 110; 32] ++ [] ++ print k ++ [] ++ [93] ++ [] ++ [63; 58] ++ [32] ++ print v ++ [32] ++ [125])
      by (cbn [lit]; rewrite <- ?app_assoc; reflexivity).
    apply pr_mapped; try apply tr_nil; try apply tr_sp; [apply ascii_word_ident; reflexivity | apply IHk; exact Hk | apply IHv; exact Hv].
  - apply andb_true_iff in H as [Ha Hb]. cbn [print].
    replace (lit "{ Ok : " ++ print a ++ lit " } | { Err : " ++ print b ++ lit " }")
      with (([123] ++ ([32] ++ lit "Ok" ++ [] ++ [32] ++ [58] ++ [32] ++ print a ++ [32]) ++ [125]) ++ [32; 124; 32] ++
            ([123] ++ ([32] ++ lit "Err" ++ [] ++ [32] ++ [58] ++ [32] ++ print b ++ [32]) ++ [125]))
      by (cbn [lit]; rewrite <- ?app_assoc; reflexivity).
    apply ty_or; apply ty_of_primary, pr_obj.
    + apply (me_last _ _ [32] (lit "Ok") [] [32] [32] (print a) [32]); try apply tr_sp; [left; apply ascii_word_ident; reflexivity | left; reflexivity | apply IHa; exact Ha].
    + apply (me_last _ _ [32] (lit "Err") [] [32] [32] (print b) [32]); try apply tr_sp; [left; apply ascii_word_ident; reflexivity | left; reflexivity | apply IHb; exact Hb].
  - apply andb_true_iff in H as [Hne Hs]. cbn [print]. change (lit " | ") with [32; 124; 32].
    apply (join_closed ty [32; 124; 32] ty_or).
    + apply map_nonempty. destruct ts; [discriminate | discriminate].
    + apply Forall_ty_map; assumption.
  - apply andb_true_iff in H as [Hne Hs]. cbn [print]. change (lit " & ") with [32; 38; 32].
    apply (join_closed ty [32; 38; 32] ty_and).
    + apply map_nonempty. destruct ts; [discriminate | discriminate].
    + apply Forall_ty_map; assumption.
  - cbn [print]. apply ty_of_primary. apply (pr_paren _ _ [] (print u) []); try apply tr_nil. apply IH. exact H.
  - cbn [print]. apply ty_of_primary, pr_lit. exists l. split; [reflexivity | exact H].
Qed.

Corollary print_in_grammar_n t : syn_okn is_alnum is_numeric t = true -> ty (print t).
Proof.
  unfold syn_okn. intros H. apply orb_true_iff in H as [H|H]; [apply print_in_grammar; exact H|].
  apply andb_true_iff in H as [Hn Hs]. unfold norm_ok in Hn. apply str_eqb_true in Hn. rewrite <- Hn. apply print_in_grammar. exact Hs.
Qed.

(* ---- declarations ------------------------------------------------------------------------------ *)
Notation tparam := (tparam is_alnum is_numeric).
Notation alias := (alias is_alnum is_numeric).

Definition pparam (p : str * option tsty) : str :=
  match snd p with None => fst p | Some d => fst p ++ lit " = " ++ print d end.

Lemma tparam_ok p : param_ok is_alnum is_numeric p = true -> tparam (pparam p).
Proof.
  unfold param_ok, pparam, TsGrammar.tparam. intros H. apply andb_true_iff in H as [Hn Hd]. apply decl_nameb_ok in Hn.
  destruct (snd p) as [d|]; [|left; exact Hn].
  right. exists (fst p), [32], [32], (print d). split; [exact Hn|]. split; [apply tr_sp|]. split; [apply tr_sp|]. split; [apply print_in_grammar_n; exact Hd | reflexivity].
Qed.

Lemma comma_list_join (P : str -> Prop) l : l <> [] -> Forall P l -> comma_list P (join [44; 32] l).
Proof.
  induction l as [|x [|y r] IH]; intros Hne Hall; [contradiction| |].
  - inversion Hall; subst. apply cl_one. assumption.
  - rewrite join_cons2. inversion Hall as [|? ? Hx Hr]; subst.
    apply (cl_more P x [] [32] _ Hx tr_nil tr_sp). apply IH; [discriminate | exact Hr].
Qed.

Theorem decl_in_grammar d : decl_ok is_alnum is_numeric d = true -> alias (print_decl d).
Proof.
  unfold decl_ok. intros H. apply andb_true_iff in H as [H Hb]. apply andb_true_iff in H as [Hn Hp].
  apply decl_nameb_ok in Hn. apply print_in_grammar_n in Hb. destruct (d_params d) as [|p ps] eqn:Hps.
  - unfold print_decl, print_params. rewrite Hps.
    apply (al_plain _ _ (d_name d) [] [32] [32] (print (d_body d)) []); try apply tr_nil; try apply tr_sp; assumption.
  - assert (Heq : print_decl d = lit "type" ++ [32] ++ [] ++ d_name d ++ [] ++ [60] ++ [] ++ join [44; 32] (map pparam (p :: ps)) ++ [] ++ [62] ++
                                 [32] ++ [61] ++ [32] ++ print (d_body d) ++ [] ++ [59]).
    { unfold print_decl, print_params. rewrite Hps. cbn [lit]. rewrite <- ?app_assoc. reflexivity. }
    rewrite Heq. apply al_generic; try apply tr_nil; try apply tr_sp; try assumption.
    apply comma_list_join; [discriminate|].
    rewrite forallb_forall in Hp. apply Forall_forall. intros x Hx. apply in_map_iff in Hx as (q & <- & Hq). apply tparam_ok. apply Hp. exact Hq.
Qed.

(* ---- modules: what export_to_string writes ----------------------------------------------------- *)
Notation import_stmt := (import_stmt is_alnum is_numeric).
Notation module := (module is_alnum is_numeric).
Notation exports := (exports is_alnum is_numeric).

Definition import_text (e : str * list str) : str :=
  lit "import type { " ++ join (lit ", ") (snd e) ++ lit " } from """ ++ fst e ++ lit """;".

Lemma render_import_eq e : render_import e = import_text e ++ [nl].
Proof. unfold render_import, import_text, s_import_open, s_comma_sp. rewrite <- ?app_assoc. reflexivity. Qed.

Lemma import_in_grammar e :
  cleanb (fst e) && negb (is_nil (snd e)) && forallb (decl_nameb is_alnum is_numeric) (snd e) = true -> import_stmt (import_text e).
Proof.
  intros H. apply andb_true_iff in H as [H Hn]. apply andb_true_iff in H as [Hc Hne]. unfold import_text.
  replace (lit "import type { " ++ join (lit ", ") (snd e) ++ lit " } from """ ++ fst e ++ lit """;")
    with (lit "import" ++ [32] ++ [] ++ lit "type" ++ [32] ++ [123] ++ [32] ++ join [44; 32] (snd e) ++ [32] ++ [125] ++ [32] ++ lit "from" ++ [32] ++
          ([34] ++ fst e ++ [34]) ++ [] ++ [59])
    by (cbn [lit]; rewrite <- ?app_assoc; reflexivity).
  apply im_stmt; try apply tr_nil; try apply tr_sp.
  - apply comma_list_join; [destruct (snd e); [discriminate | discriminate]|].
    rewrite forallb_forall in Hn. apply Forall_forall. intros x Hx. apply decl_nameb_ok. apply Hn. exact Hx.
  - exists (fst e). split; [reflexivity | exact Hc].
Qed.

Lemma docs_block_trivia d : docs_okb d = true -> trivia d.
Proof.
  intros H. pose proof (docs_trivia d H) as Ht. destruct d as [|c l]; [apply tr_nil|].
  inversion Ht as [|c' s' _ Hs| |]; subst; try discriminate. exact Hs.
Qed.

Lemma NOTE_trivia : trivia NOTE.
Proof.
  assert (H : NOTE = [47; 47] ++ removelast (skipn 2 NOTE) ++ [10] ++ []) by (vm_compute; reflexivity).
  rewrite H. apply tr_line; [vm_compute; reflexivity | apply tr_nil].
Qed.

Lemma module_tail m docs a : forall w,
  trivia w -> imports_okb is_alnum is_numeric m = true -> docs_okb docs = true -> alias a ->
  module (w ++ (render_imports m ++ [nl]) ++ (docs ++ lit "export " ++ a) ++ [nl]).
Proof.
  unfold render_imports. induction m as [|e r IH]; intros w Hw Hm Hd Ha.
  - apply mo_exports.
    match goal with |- TsGrammar.exports _ _ ?x => replace x with ((w ++ [nl] ++ docs) ++ lit "export" ++ [32] ++ [] ++ a ++ [nl])
      by (cbn [map concat lit app]; rewrite <- ?app_assoc; reflexivity) end.
    apply ex_more; [|apply tr_nil | exact Ha | apply ex_nil; apply tr_ws; [reflexivity | apply tr_nil]].
    apply trivia_app; [exact Hw|]. apply tr_ws; [reflexivity|]. apply docs_block_trivia. exact Hd.
  - cbn [map concat]. rewrite render_import_eq. cbn [imports_okb forallb] in Hm. apply andb_true_iff in Hm as [He Hr].
    match goal with |- TsGrammar.module _ _ ?x =>
      replace x with (w ++ import_text e ++ ([nl] ++ (concat (map render_import r) ++ [nl]) ++ (docs ++ lit "export " ++ a) ++ [nl]))
      by (rewrite <- ?app_assoc; reflexivity) end.
    apply mo_import; [exact Hw | apply import_in_grammar; exact He|].
    apply IH; [apply tr_ws; [reflexivity | apply tr_nil] | exact Hr | exact Hd | exact Ha].
Qed.

(* the text export_to_string produces (C04_export_layout gives this shape) *)
Theorem export_text_in_grammar m docs dc :
  imports_okb is_alnum is_numeric m = true -> docs_okb docs = true -> decl_ok is_alnum is_numeric dc = true ->
  module (NOTE ++ (render_imports m ++ [nl]) ++ (docs ++ lit "export " ++ print_decl dc) ++ [nl]).
Proof.
  intros Hm Hd Hdc. apply module_tail; [apply NOTE_trivia | exact Hm | exact Hd | apply decl_in_grammar; exact Hdc].
Qed.

(* ---- files holding several declarations (what export_and_merge leaves: Model/MergeSpec.v) ------- *)
(* a block: a doc comment (or nothing), `export `, a type alias *)
Definition block_ok (b : str) : Prop := exists docs a, b = docs ++ lit "export " ++ a /\ trivia docs /\ alias a.

Lemma exports_blocks bs : forall w, trivia w -> Forall block_ok bs -> exports (w ++ render_body bs).
Proof.
  unfold render_body. induction bs as [|b r IH]; intros w Hw Hall; cbn [map concat].
  - rewrite app_nil_r. apply ex_nil. exact Hw.
  - inversion Hall as [|? ? (docs & a & -> & Hd & Ha) Hr]; subst.
    match goal with |- TsGrammar.exports _ _ ?x =>
      replace x with ((w ++ [nl] ++ docs) ++ lit "export" ++ [32] ++ [] ++ a ++ ([nl] ++ concat (map (fun b => [nl] ++ b ++ [nl]) r)))
      by (cbn [lit app]; rewrite <- ?app_assoc; reflexivity) end.
    apply ex_more; [|apply tr_nil | exact Ha | apply IH; [apply tr_ws; [reflexivity | apply tr_nil] | exact Hr]].
    apply trivia_app; [exact Hw|]. apply tr_ws; [reflexivity | exact Hd].
Qed.

Lemma module_imports_then m rest : forall w,
  trivia w -> imports_okb is_alnum is_numeric m = true -> (forall w', trivia w' -> exports (w' ++ rest)) ->
  module (w ++ render_imports m ++ rest).
Proof.
  unfold render_imports. induction m as [|e r IH]; intros w Hw Hm Hrest.
  - cbn [map concat app]. apply mo_exports. apply Hrest. exact Hw.
  - cbn [map concat]. rewrite render_import_eq. cbn [imports_okb forallb] in Hm. apply andb_true_iff in Hm as [He Hr].
    match goal with |- TsGrammar.module _ _ ?x =>
      replace x with (w ++ import_text e ++ ([nl] ++ concat (map render_import r) ++ rest)) by (rewrite <- ?app_assoc; reflexivity) end.
    apply mo_import; [exact Hw | apply import_in_grammar; exact He|].
    apply IH; [apply tr_ws; [reflexivity | apply tr_nil] | exact Hr | exact Hrest].
Qed.

Theorem file_in_grammar im bs :
  imports_okb is_alnum is_numeric im = true -> Forall block_ok bs -> module (render_file im bs).
Proof.
  intros Hm Hb. unfold render_file. apply module_imports_then; [apply NOTE_trivia | exact Hm|].
  intros w' Hw'. apply exports_blocks; assumption.
Qed.

(* the declaration part of an export is such a block *)
Lemma export_block docs dc : docs_okb docs = true -> decl_ok is_alnum is_numeric dc = true -> block_ok (docs ++ lit "export " ++ print_decl dc).
Proof. intros Hd Hdc. exists docs, (print_decl dc). split; [reflexivity|]. split; [apply docs_block_trivia; exact Hd | apply decl_in_grammar; exact Hdc]. Qed.

(* ---- the canonical file of a set of items (Model/MergeSpec.v) --------------------------------- *)
Lemma set_insert_all (P : str -> bool) x l : P x = true -> forallb P l = true -> forallb P (set_insert x l) = true.
Proof.
  intros Hx. induction l as [|y r IH]; cbn [set_insert forallb]; intros H; [rewrite Hx; reflexivity|].
  apply andb_true_iff in H as [Hy Hr]. destruct (str_compare x y); cbn [forallb]; rewrite ?Hx, ?Hy, ?Hr, ?IH; auto.
Qed.
Lemma set_insert_nonempty x l : set_insert x l <> [].
Proof. destruct l as [|y r]; cbn [set_insert]; [discriminate|]. destruct (str_compare x y); discriminate. Qed.

Lemma fold_set_insert_all (P : str -> bool) tys : forall s, forallb P tys = true -> forallb P s = true ->
  forallb P (fold_left (fun s t => set_insert t s) tys s) = true.
Proof.
  induction tys as [|t r IH]; cbn [fold_left forallb]; intros s Ht Hs; [exact Hs|].
  apply andb_true_iff in Ht as [H1 H2]. apply IH; [exact H2 | apply set_insert_all; assumption].
Qed.
Lemma fold_set_insert_nonempty tys : forall s, (tys <> [] \/ s <> []) -> fold_left (fun s t => set_insert t s) tys s <> [].
Proof.
  induction tys as [|t r IH]; cbn [fold_left]; intros s H; [destruct H as [H|H]; [contradiction | exact H]|].
  apply IH. right. apply set_insert_nonempty.
Qed.

Definition group_okb (e : str * list str) : bool :=
  cleanb (fst e) && negb (is_nil (snd e)) && forallb (decl_nameb is_alnum is_numeric) (snd e).

Lemma nonnil_true {A} (l : list A) : l <> [] -> negb (is_nil l) = true.
Proof. destruct l; [contradiction | reflexivity]. Qed.
Lemma nonnil_of {A} (l : list A) : negb (is_nil l) = true -> l <> [].
Proof. destruct l; [discriminate | discriminate]. Qed.

Lemma map_insert_ok path tys m : group_okb (path, tys) = true -> forallb group_okb m = true -> forallb group_okb (map_insert path tys m) = true.
Proof.
  unfold group_okb at 1. cbn [fst snd]. intros H. apply andb_true_iff in H as [H Hn]. apply andb_true_iff in H as [Hc Hne].
  induction m as [|[p s0] r IH]; cbn [map_insert forallb]; intros Hm.
  - unfold group_okb. cbn [fst snd]. rewrite Hc. rewrite (nonnil_true _ (fold_set_insert_nonempty tys [] (or_introl (nonnil_of _ Hne)))).
    rewrite (fold_set_insert_all _ tys [] Hn eq_refl). reflexivity.
  - apply andb_true_iff in Hm as [Hp Hr]. destruct (str_compare path p); cbn [forallb].
    + unfold group_okb in Hp. unfold group_okb at 1. cbn [fst snd] in *. apply andb_true_iff in Hp as [Hp Hpn]. apply andb_true_iff in Hp as [Hpc Hpne].
      rewrite Hpc, Hr. rewrite (nonnil_true _ (fold_set_insert_nonempty tys s0 (or_introl (nonnil_of _ Hne)))).
      rewrite (fold_set_insert_all _ tys s0 Hn Hpn). reflexivity.
    + rewrite Hp, Hr. unfold group_okb at 1. cbn [fst snd]. rewrite Hc.
      rewrite (nonnil_true _ (fold_set_insert_nonempty tys [] (or_introl (nonnil_of _ Hne)))).
      rewrite (fold_set_insert_all _ tys [] Hn eq_refl). reflexivity.
    + rewrite Hp. cbn [andb]. apply IH. exact Hr.
Qed.

Lemma norm_imports_ok l : forallb group_okb l = true -> imports_okb is_alnum is_numeric (norm_imports l) = true.
Proof.
  unfold norm_imports. change (imports_okb is_alnum is_numeric) with (forallb group_okb).
  assert (G : forall m, forallb group_okb l = true -> forallb group_okb m = true ->
              forallb group_okb (fold_left (fun m e => map_insert (fst e) (snd e) m) l m) = true).
  { induction l as [|e r IH]; cbn [fold_left forallb]; intros m Hl Hm; [exact Hm|].
    apply andb_true_iff in Hl as [He Hr]. apply IH; [exact Hr|]. apply map_insert_ok; [destruct e; exact He | exact Hm]. }
  intros H. apply G; [exact H | reflexivity].
Qed.

Lemma insert_block_all (P : str -> Prop) b bs : P b -> Forall P bs -> Forall P (insert_block b bs).
Proof.
  intros Hb. induction bs as [|x r IH]; cbn [insert_block]; intros H; [constructor; [exact Hb | constructor]|].
  inversion H as [|? ? Hx Hr]; subst. destruct (str_ltb (key_of x) (key_of b)); [constructor; [exact Hx | apply IH; exact Hr] | constructor; [exact Hb | exact H]].
Qed.
Lemma sort_blocks_all (P : str -> Prop) bs : Forall P bs -> Forall P (sort_blocks bs).
Proof.
  unfold sort_blocks. assert (G : forall acc, Forall P bs -> Forall P acc -> Forall P (fold_left (fun acc b => insert_block b acc) bs acc)).
  { induction bs as [|b r IH]; cbn [fold_left]; intros acc Hb Ha; [exact Ha|].
    inversion Hb as [|? ? H1 H2]; subst. apply IH; [exact H2 | apply insert_block_all; assumption]. }
  intros H. apply G; [exact H | constructor].
Qed.

(* the file every history exporting these items ends with (C05) is a module *)
Theorem canonical_file_in_grammar items :
  Forall (fun i => forallb group_okb (it_imports i) = true /\ block_ok (it_block i)) items ->
  module (canonical_file items).
Proof.
  intros H. unfold canonical_file. apply file_in_grammar.
  - apply norm_imports_ok. apply forallb_forall. intros e He. apply in_flat_map in He as (i & Hi & Hei).
    rewrite Forall_forall in H. destruct (H i Hi) as [Hg _]. rewrite forallb_forall in Hg. apply Hg. exact Hei.
  - apply sort_blocks_all. apply Forall_forall. intros b Hb. apply in_map_iff in Hb as (i & <- & Hi).
    rewrite Forall_forall in H. apply (H i Hi).
Qed.
End G.
