(* C02 (structure): the binding is not wider than the Rust item — union arms, tuple lengths,
   `?` marks and empty shapes correspond exactly to the item, for every definition and all
   type arguments. *)
From TsRs Require Import Base.Str Base.Outcome Gen.Tables Model.Case Model.TsAst Model.Rust Model.Docs Model.Gen
  Spec.TsFree Proofs.Gen_base_proofs.
From Coq Require Import List Lia Bool.
Import ListNotations.

Section Shape.
Variable is_upper is_alnum is_numeric : char -> bool.
Variable R : env.
Variable inl flt : rty -> outcome tsty.

Lemma Forall2_length {A B} (P : A -> B -> Prop) l l' : Forall2 P l l' -> length l = length l'.
Proof. induction 1; cbn; congruence. Qed.

(* one union arm per variant that is not skipped, in source order: skipped variants are omitted,
   nothing is added *)
Theorem enum_arms : forall a tg raf vs args t fl,
  vs <> [] ->
  c_type a = None -> c_as a = None ->
  def_body is_upper is_alnum is_numeric R inl flt (DEnum a tg raf vs) args = Ok (t, fl) ->
  exists arms, Forall2 (fun v x => variant_gen is_upper is_alnum is_numeric R inl flt args a tg raf v = Ok x) (live_variants vs) arms /\
               match arms with
               | [] => t = TPrim (lit "never") /\ fl = None        (* every variant is skipped *)
               | _ => t = TUnion arms /\ fl = Some (TParen (TUnion arms))
               end.
Proof.
  intros a tg raf vs args t fl Hne Ht Ha H. unfold def_body in H. cbn [attrs_of] in H. rewrite Ht, Ha in H.
  destruct vs as [|v vs]; [contradiction|].
  apply bind_ok in H as (l & Hl & H). exists l. split; [apply omap_list_ok; exact Hl|].
  destruct l; inversion H; subst; split; reflexivity.
Qed.

(* an enum without variants is `never` *)
Theorem empty_enum_never : forall a tg raf args,
  c_type a = None -> c_as a = None ->
  def_body is_upper is_alnum is_numeric R inl flt (DEnum a tg raf []) args = Ok (TPrim (lit "never"), None).
Proof. intros a tg raf args Ht Ha. unfold def_body. cbn [attrs_of]. rewrite Ht, Ha. reflexivity. Qed.

(* a tuple struct / tuple variant with at least two fields is a tuple with one element per
   field that is not skipped *)
Theorem tuple_length : forall args ra opt tag f1 f2 fs r,
  shape_gen is_alnum is_numeric R inl flt args ra opt tag (STuple (f1 :: f2 :: fs)) = Ok r ->
  exists items, r = (TTuple items, None) /\ length items = length (live (f1 :: f2 :: fs)).
Proof.
  intros args ra opt tag f1 f2 fs r H. cbn [shape_gen] in H.
  apply bind_ok in H as (l & Hl & H). inversion H; subst. exists l. split; [reflexivity|].
  apply omap_list_ok in Hl. symmetry. eapply Forall2_length. exact Hl.
Qed.

(* the empty shapes: unit -> null, `S()` -> never[], `S {}` -> Record<string, never> *)
Theorem empty_shapes : forall args ra opt,
  shape_gen is_alnum is_numeric R inl flt args ra opt None SUnit = Ok (TPrim (lit "null"), None) /\
  shape_gen is_alnum is_numeric R inl flt args ra opt None (STuple []) = Ok (TNeverArr, None) /\
  shape_gen is_alnum is_numeric R inl flt args ra opt None (SNamed []) = Ok (TRecordNever, None).
Proof. intros; repeat split. Qed.

(* `?` is emitted only for `#[ts(optional)]` on the field, or `optional_fields` on the container
   when the field's type is an Option *)
Theorem optional_mark : forall args ra opt fl p,
  prop_of is_alnum is_numeric R inl args ra opt fl = Ok p ->
  p_optional (fst p) = true ->
  f_type fl = None /\
  (f_optional fl <> NotOptional \/ (opt <> NotOptional /\ is_option (rsubst args (f_ty fl)) = true)).
Proof.
  intros args ra opt fl p H Hq. unfold prop_of in H. destruct (f_type fl).
  - inversion H; subst. discriminate Hq.
  - split; [reflexivity|]. apply bind_ok in H as (x & _ & H). inversion H; subst. cbn [fst p_optional] in Hq.
    unfold field_optional in Hq. destruct opt as [|on]; destruct (f_optional fl) as [|fn]; cbn [fst] in Hq.
    + discriminate.
    + left; discriminate.
    + right. split; [discriminate|exact Hq].
    + left; discriminate.
Qed.

(* property names: the explicit rename, else the container's rule applied to the field, else the
   identifier — the same function serde uses (C09) *)
Theorem property_key : forall args ra opt fl p,
  prop_of is_alnum is_numeric R inl args ra opt fl = Ok p ->
  p_key (fst p) = field_key ra fl.
Proof.
  intros args ra opt fl p H. unfold prop_of in H. destruct (f_type fl).
  - inversion H; reflexivity.
  - apply bind_ok in H as (x & _ & H). inversion H; reflexivity.
Qed.

End Shape.
