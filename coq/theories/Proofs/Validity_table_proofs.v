(* C16: the four assert_validity functions of Model/Validity.v ARE the decision rows the translator reads from
   macros/src/attr/{struct,enum,variant,field}.rs on every run (Gen/Tables.v: the validity_rows tables): the first row all of
   whose conditions hold gives the error, otherwise the attributes are accepted.  Re-proved against the regenerated
   rows on every run: a change of a condition, a message or the order in the source breaks these theorems. *)
From TsRs Require Import Base.Str Base.Outcome Gen.Tables Model.Attr Model.Validity.
From Coq Require Import List Bool.
Import ListNotations.

Definition eval_atom (compat notnamed : bool) (r : parsed) (a : vatom) : bool :=
  match a with
  | VHas k => has_field k r
  | VNot k => negb (has_field k r)
  | VNotNamed => notnamed
  | VCompat => compat
  end.

Fixpoint run_rows (compat notnamed : bool) (r : parsed) (rows : list (list vatom * str)) : outcome unit :=
  match rows with
  | [] => Ok tt
  | (atoms, msg) :: rest => if forallb (eval_atom compat notnamed r) atoms then Err msg else run_rows compat notnamed r rest
  end.

Definition not_named (sh : fshape) : bool := match sh with FNamed => false | _ => true end.

Ltac by_bits r :=
  cbv -[has_field];
  repeat match goal with |- context [has_field ?k r] => destruct (has_field k r) end;
  reflexivity.

Theorem struct_validity_is_table r sh : struct_validity r sh = run_rows false (not_named sh) r validity_rows_struct.
Proof. destruct sh; by_bits r. Qed.

Theorem enum_validity_is_table r : enum_validity r = run_rows false false r validity_rows_enum.
Proof. by_bits r. Qed.

Theorem variant_validity_is_table r sh : variant_validity r sh = run_rows false (not_named sh) r validity_rows_variant.
Proof. destruct sh; by_bits r. Qed.

Theorem field_validity_is_table compat r named : field_validity compat r named = run_rows compat (negb named) r validity_rows_field.
Proof. destruct compat, named; by_bits r. Qed.

(* ---- Attr::merge ------------------------------------------------------------------------------ *)
(* every field of the four attribute records is merged left-biased (`self.x.or(other.x)`, `self.x || other.x`), except
   the documentation and the two collections (`concrete`, `bound`): read from the four merge functions on every run *)
Definition left_biased (row : str * str) : bool :=
  str_eqb (snd row) (lit "or") || str_eqb (snd row) (lit "bool_or") ||
  existsb (str_eqb (fst row)) [lit "docs"; lit "concrete"; lit "bound"].

Theorem merge_rows_left_biased :
  forallb left_biased (merge_rows_struct ++ merge_rows_enum ++ merge_rows_variant ++ merge_rows_field) = true.
Proof. vm_compute. reflexivity. Qed.

(* the model's merge: records are association lists read first-match, merging is concatenation *)
Lemma value_of_app f a b :
  value_of f (a ++ b) = match value_of f a with Some v => Some v | None => value_of f b end.
Proof.
  induction a as [|[x v] a IH]; cbn [app value_of]; [reflexivity|]. destruct (str_eqb x f); [reflexivity | exact IH].
Qed.
