(* C10: the attribute layer.  Table facts are finite sweeps over Gen/Tables.v — regenerated from
   the source on every run, so these are re-proved against what the code says now.  Parser facts
   are by induction over token lists. *)
From TsRs Require Import Base.Str Base.Outcome Gen.Tables Model.Attr.
From Coq Require Import List Lia Bool.
Import ListNotations.

(* ---- table facts ------------------------------------------------------------------------------ *)
Definition shared_handlers_agree : bool :=
  forallb (fun p =>
    forallb (fun e =>
      match tlookup (fst e) (ts_table p) with
      | None => true
      | Some h => match handler_of h, handler_of (snd e) with
                  | Some (f, k), Some (f', k') => str_eqb f f' && hkind_eqb k k'
                  | _, _ => false
                  end
      end) (serde_table p)) all_positions.

Definition documented_keys_supported : bool :=
  forallb (fun k => existsb (fun p => match tlookup k (serde_table p) with Some _ => true | None => false end) all_positions)
          documented_serde_keys.

(* no handler consumes `=` twice *)
Definition no_double_assign : bool :=
  forallb (fun p => forallb (fun e => match handler_of (snd e) with Some (_, HIgnoreAssign2) => false | _ => true end)
                            (ts_table p ++ serde_table p)) all_positions.

Lemma tables_ok_true : tables_ok = true.
Proof. vm_compute. reflexivity. Qed.
Lemma shared_handlers_agree_true : shared_handlers_agree = true.
Proof. vm_compute. reflexivity. Qed.
Lemma documented_keys_supported_true : documented_keys_supported = true.
Proof. vm_compute. reflexivity. Qed.
Lemma no_double_assign_true : no_double_assign = true.
Proof. vm_compute. reflexivity. Qed.

(* ---- merging: ts wins ----------------------------------------------------------------------- *)
Lemma value_of_app_l f t s : has_field f t = true -> value_of f (t ++ s) = value_of f t.
Proof.
  induction t as [|[x v] t IH]; cbn [has_field value_of app]; [discriminate|].
  destruct (str_eqb x f); [reflexivity|]. cbn [orb]. exact IH.
Qed.

Lemma value_of_app_r f t s : has_field f t = false -> value_of f (t ++ s) = value_of f s.
Proof.
  induction t as [|[x v] t IH]; cbn [has_field value_of app]; [reflexivity|].
  destruct (str_eqb x f); [discriminate|]. cbn [orb]. exact IH.
Qed.

Theorem ts_wins : forall pos attrs t r f,
  parse_ts_attrs pos attrs = Ok t -> from_attrs true pos attrs = Ok r ->
  has_field f t = true -> value_of f r = value_of f t.
Proof.
  intros pos attrs t r f Ht Hr Hf. unfold from_attrs in Hr. rewrite Ht in Hr. cbn [bind] in Hr.
  destruct (true && negb _); inversion Hr; subst; [apply value_of_app_l; exact Hf | reflexivity].
Qed.

(* a key the ts attributes do not set falls through to the serde attributes *)
Theorem serde_fills_in : forall pos attrs t r f,
  parse_ts_attrs pos attrs = Ok t -> from_attrs true pos attrs = Ok r ->
  has_field f t = false ->
  value_of f r = (if match pos with PField | PVariant => has_field (lit "skip") t | _ => false end then None
                  else value_of f (parse_serde_attrs pos attrs)).
Proof.
  intros pos attrs t r f Ht Hr Hf. unfold from_attrs in Hr. rewrite Ht in Hr. cbn [bind andb] in Hr.
  destruct (match pos with PField | PVariant => has_field (lit "skip") t | _ => false end); cbn [negb] in Hr; inversion Hr; subst.
  - clear -Hf. induction r as [|[x v] r IH]; cbn [has_field value_of] in *; [reflexivity|].
    destruct (str_eqb x f); [discriminate|]. apply IH. exact Hf.
  - apply value_of_app_r. exact Hf.
Qed.

(* ---- serde compatibility switched off -------------------------------------------------------- *)
Lemma parse_ts_attrs_filter pos attrs : parse_ts_attrs pos (filter fst attrs) = parse_ts_attrs pos attrs.
Proof.
  induction attrs as [|[[|] toks] r IH]; cbn [filter fst parse_ts_attrs]; [reflexivity| |exact IH].
  rewrite IH. reflexivity.
Qed.

Theorem compat_off : forall pos attrs, from_attrs false pos attrs = from_attrs false pos (filter fst attrs).
Proof.
  intros pos attrs. unfold from_attrs. rewrite parse_ts_attrs_filter.
  destruct (parse_ts_attrs pos attrs); reflexivity.
Qed.

Theorem compat_off_is_ts_only : forall pos attrs, from_attrs false pos attrs = parse_ts_attrs pos attrs.
Proof. intros pos attrs. unfold from_attrs. destruct (parse_ts_attrs pos attrs); reflexivity. Qed.

(* ---- unknown serde entries are inert ----------------------------------------------------------- *)
Definition comma_free (l : list tok) : bool := forallb (fun t => negb (is_comma t)) l.

Lemma skip_comma_free junk rest : comma_free junk = true -> skip_until_next_comma (junk ++ KComma :: rest) = KComma :: rest.
Proof.
  induction junk as [|t junk IH]; cbn [comma_free forallb app skip_until_next_comma]; intros H; [reflexivity|].
  apply andb_true_iff in H as [Ht Hj]. destruct t; try discriminate Ht; apply IH; exact Hj.
Qed.

Lemma skip_comma_free_end junk : comma_free junk = true -> skip_until_next_comma junk = [].
Proof.
  induction junk as [|t junk IH]; cbn [comma_free forallb skip_until_next_comma]; intros H; [reflexivity|].
  apply andb_true_iff in H as [Ht Hj]. destruct t; try discriminate Ht; apply IH; exact Hj.
Qed.

(* an unsupported entry at the front of a serde list (or in a list of its own) changes nothing *)
Theorem unknown_first_inert : forall f table out u junk rest,
  tlookup u table = None -> comma_free junk = true -> rest <> [] ->
  parse_serde (S f) table out (KId u :: junk ++ KComma :: rest) = parse_serde f table out rest.
Proof.
  intros f table out u junk rest Hu Hj Hr. cbn [parse_serde]. rewrite Hu, (skip_comma_free _ _ Hj).
  destruct rest; [contradiction | reflexivity].
Qed.

Theorem unknown_alone_inert : forall f table out u junk,
  tlookup u table = None -> comma_free junk = true ->
  parse_serde (S f) table out (KId u :: junk) = Ok out /\
  parse_serde (S f) table out (KId u :: junk ++ [KComma]) = Ok out.
Proof.
  intros f table out u junk Hu Hj. split; cbn [parse_serde]; rewrite Hu.
  - rewrite (skip_comma_free_end _ Hj). reflexivity.
  - rewrite (skip_comma_free _ _ Hj). reflexivity.
Qed.

(* handlers are local: what follows the next top-level comma does not influence them *)
Lemma until_comma_app e rest : comma_free e = true -> until_comma (e ++ KComma :: rest) = (e, KComma :: rest).
Proof.
  induction e as [|t e IH]; cbn [comma_free forallb app until_comma]; intros H; [reflexivity|].
  apply andb_true_iff in H as [Ht He]. rewrite (IH He). destruct t; try discriminate Ht; reflexivity.
Qed.

Lemma until_comma_free e : comma_free e = true -> until_comma e = (e, []).
Proof.
  induction e as [|t e IH]; cbn [comma_free forallb until_comma]; intros H; [reflexivity|].
  apply andb_true_iff in H as [Ht He]. rewrite (IH He). destruct t; try discriminate Ht; reflexivity.
Qed.

Lemma comma_free_cons_tl t e : comma_free (t :: e) = true -> comma_free e = true.
Proof. cbn. intros H. apply andb_true_iff in H. tauto. Qed.

Lemma handler_local kind args X : comma_free args = true ->
  run_handler kind (args ++ KComma :: X) =
  match run_handler kind args with
  | Ok r => Ok (fst r, snd r ++ KComma :: X)
  | Err m => Err m
  | Panic m => Panic m
  end.
Proof.
  intros Hc. destruct kind.
  3: { (* HExpr *) cbn [run_handler]. destruct args as [|t1 rest]; cbn [app]; [reflexivity|]. destruct t1; try reflexivity.
       apply comma_free_cons_tl in Hc. rewrite (until_comma_app _ _ Hc), (until_comma_free _ Hc). destruct rest; reflexivity. }
  all: cbn [run_handler]; destruct args as [|t1 [|t2 rest]]; cbn [app];
       [reflexivity | destruct t1; reflexivity | destruct t1; try reflexivity; destruct t2; try reflexivity].
  all: try (destruct (valid_rule s); reflexivity).
  all: try (destruct (str_eqb s (lit "nullable")); reflexivity).
Qed.

Lemma until_comma_split l : forall e r, until_comma l = (e, r) -> l = e ++ r.
Proof.
  induction l as [|t l IH]; cbn [until_comma]; intros e r H; [inversion H; reflexivity|].
  destruct t; try (destruct (until_comma l) as [a b2] eqn:E; inversion H; subst; cbn [app]; f_equal; apply IH; reflexivity).
  all: try (inversion H; reflexivity).
Qed.

Ltac suffix_done :=
  match goal with
  | |- exists pre, ?a :: ?b :: ?r = pre ++ ?r => exists [a; b]; reflexivity
  | |- exists pre, ?a :: ?r = pre ++ ?r => exists [a]; reflexivity
  | |- exists pre, ?r = pre ++ ?r => exists []; reflexivity
  end.

(* what a handler leaves is a suffix of what it was given *)
Lemma handler_rest_suffix kind args v r : run_handler kind args = Ok (v, r) -> exists pre, args = pre ++ r.
Proof.
  destruct kind.
  3: { (* HExpr *) cbn [run_handler]. destruct args as [|t1 rest]; [discriminate|]. destruct t1; try discriminate.
       destruct (until_comma rest) as [e rest'] eqn:E. destruct e; [discriminate|]. intros H; inversion H; subst.
       apply until_comma_split in E. exists (KEq :: t :: e). rewrite E. reflexivity. }
  all: cbn [run_handler]; destruct args as [|t1 [|t2 rest]].
  all: try (destruct t1); try (destruct t2).
  all: try (destruct (valid_rule s)); try (destruct (str_eqb s (lit "nullable"))).
  all: cbn [bind]; intros H; try discriminate H; inversion H; subst; suffix_done.
Qed.

Lemma comma_free_app a b : comma_free (a ++ b) = comma_free a && comma_free b.
Proof. unfold comma_free. apply forallb_app. Qed.

Lemma handler_rest_comma_free kind args v r : comma_free args = true ->
  run_handler kind args = Ok (v, r) -> comma_free r = true.
Proof.
  intros Hc H. apply handler_rest_suffix in H as [pre ->]. rewrite comma_free_app in Hc. apply andb_true_iff in Hc. tauto.
Qed.

(* ---- the serde parser refines an entry-by-entry specification ---------------------------------- *)
(* what ONE entry (the tokens between two top-level commas) does to the record *)
Definition entry_step (table : list (str * str)) (out : parsed) (e : list tok) : outcome parsed :=
  match e with
  | KId k :: args =>
      match tlookup k table with
      | None => Ok out                                   (* unsupported key: skipped *)
      | Some h =>
          match handler_of h with
          | None => Err (lit "unclassified handler")
          | Some (field, kind) =>
              bind (run_handler kind args) (fun r =>
              match snd r with
              | [] => Ok (match fst r with Some v => (field, v) :: out | None => out end)
              | _ => Err e_comma
              end)
          end
      end
  | _ => Err e_ident
  end.

Fixpoint parse_entries (table : list (str * str)) (out : parsed) (es : list (list tok)) : outcome parsed :=
  match es with
  | [] => Ok out
  | e :: r => bind (entry_step table out e) (fun out' => parse_entries table out' r)
  end.

Fixpoint join_c (es : list (list tok)) : list tok :=
  match es with
  | [] => []
  | [e] => e
  | e :: r => e ++ KComma :: join_c r
  end.

Lemma join_c_cons e r : r <> [] -> join_c (e :: r) = e ++ KComma :: join_c r.
Proof. destruct r; [contradiction | reflexivity]. Qed.

Lemma join_c_nonempty es : es <> [] -> Forall (fun e => e <> []) es -> join_c es <> [].
Proof.
  destruct es as [|e r]; [contradiction|]. intros _ H. inversion H; subst.
  destruct r; cbn [join_c]; [assumption|]. destruct e; [contradiction | discriminate].
Qed.

Lemma first_not_comma r X : comma_free r = true -> r <> [] -> exists t l, r ++ KComma :: X = t :: l /\ is_comma t = false.
Proof.
  destruct r as [|t l]; [contradiction|]. intros Hc _. exists t, (l ++ KComma :: X). split; [reflexivity|].
  cbn in Hc. apply andb_true_iff in Hc as [Ht _]. apply negb_true_iff in Ht. exact Ht.
Qed.

(* the token-level loop on a comma-separated list = the entry-level specification *)
Theorem parse_serde_refines : forall table es fuel out,
  Forall (fun e => comma_free e = true /\ e <> []) es -> es <> [] -> (length es <= fuel)%nat ->
  parse_serde fuel table out (join_c es) = parse_entries table out es.
Proof.
  intros table es. induction es as [|e r IH]; intros fuel out Hes Hne Hf; [contradiction|].
  inversion Hes as [|? ? [Hce Hene] Hr]; subst.
  destruct fuel as [|f]; [cbn in Hf; lia|].
  destruct r as [|e2 r2].
  - (* last entry *)
    cbn [join_c parse_entries]. destruct e as [|t args]; [contradiction|].
    cbn [parse_serde entry_step]. destruct t; try reflexivity.
    destruct (tlookup s table) as [h|].
    + destruct (handler_of h) as [[field kind]|]; [|reflexivity].
      apply comma_free_cons_tl in Hce.
      destruct (run_handler kind args) as [[v rest]|m|m] eqn:Hh; cbn [bind fst snd]; try reflexivity.
      pose proof (handler_rest_comma_free _ _ _ _ Hce Hh) as Hrc.
      destruct rest as [|t rest]; [reflexivity|]. destruct t; try reflexivity. cbn in Hrc. discriminate Hrc.
    + apply comma_free_cons_tl in Hce. rewrite (skip_comma_free_end _ Hce). reflexivity.
  - (* e, then more entries *)
    rewrite join_c_cons by discriminate. cbn [parse_entries].
    assert (Hrest_ne : join_c (e2 :: r2) <> []).
    { apply join_c_nonempty; [discriminate|]. eapply Forall_impl; [|exact Hr]. cbn. tauto. }
    assert (IH' : forall out', parse_serde f table out' (join_c (e2 :: r2)) = parse_entries table out' (e2 :: r2)).
    { intros out'. apply IH; [exact Hr | discriminate | cbn in Hf |- *; lia]. }
    destruct e as [|t args]; [contradiction|]. cbn [app].
    cbn [parse_serde entry_step]. destruct t; try reflexivity.
    apply comma_free_cons_tl in Hce.
    destruct (tlookup s table) as [h|].
    + destruct (handler_of h) as [[field kind]|]; [|reflexivity].
      rewrite (handler_local _ _ _ Hce).
      destruct (run_handler kind args) as [[v rest]|m|m] eqn:Hh; cbn [bind fst snd]; try reflexivity.
      pose proof (handler_rest_comma_free _ _ _ _ Hce Hh) as Hrc.
      destruct rest as [|t rest].
      * cbn [app]. destruct (join_c (e2 :: r2)) as [|t0 l0] eqn:Ej; [contradiction|]. apply IH'.
      * destruct (first_not_comma (t :: rest) (join_c (e2 :: r2)) Hrc ltac:(discriminate)) as (t' & l' & Ht' & Hnc).
        rewrite Ht'. destruct t'; try reflexivity. discriminate Hnc.
    + rewrite (skip_comma_free _ _ Hce).
      destruct (join_c (e2 :: r2)) as [|t0 l0] eqn:Ej; [contradiction|]. apply IH'.
Qed.

(* on the entry-level specification an unsupported entry is visibly inert, wherever it stands *)
Lemma entry_step_unknown table out u junk : tlookup u table = None -> entry_step table out (KId u :: junk) = Ok out.
Proof. intros H. cbn [entry_step]. rewrite H. reflexivity. Qed.

Lemma parse_entries_app table es1 es2 out :
  parse_entries table out (es1 ++ es2) = bind (parse_entries table out es1) (fun o => parse_entries table o es2).
Proof.
  revert out. induction es1 as [|e r IH]; intros out; cbn [app parse_entries bind]; [reflexivity|].
  destruct (entry_step table out e); cbn [bind]; [apply IH | reflexivity | reflexivity].
Qed.

Theorem unknown_entry_inert_spec : forall table out es1 es2 u junk,
  tlookup u table = None ->
  parse_entries table out (es1 ++ (KId u :: junk) :: es2) = parse_entries table out (es1 ++ es2).
Proof.
  intros table out es1 es2 u junk Hu. rewrite !parse_entries_app. destruct (parse_entries table out es1); cbn [bind]; try reflexivity.
  cbn [parse_entries]. rewrite (entry_step_unknown _ _ _ _ Hu). reflexivity.
Qed.

(* ... hence on the token-level parser: inserting an unsupported entry at ANY position of a serde
   list (between entries, first or last) does not change what the list contributes *)
Theorem unknown_entry_inert : forall table out es1 es2 u junk,
  tlookup u table = None -> comma_free junk = true ->
  Forall (fun e => comma_free e = true /\ e <> []) (es1 ++ es2) -> es1 ++ es2 <> [] ->
  parse_serde (S (length (es1 ++ es2))) table out (join_c (es1 ++ (KId u :: junk) :: es2)) =
  parse_serde (length (es1 ++ es2)) table out (join_c (es1 ++ es2)).
Proof.
  intros table out es1 es2 u junk Hu Hj Hall Hne.
  rewrite parse_serde_refines.
  - rewrite parse_serde_refines by (try assumption; lia). apply unknown_entry_inert_spec. exact Hu.
  - apply Forall_app in Hall as [H1 H2]. apply Forall_app. split; [exact H1|]. constructor; [|exact H2].
    split; [cbn; exact Hj | discriminate].
  - destruct es1; discriminate.
  - rewrite !app_length. cbn [length]. lia.
Qed.
