From TsRs Require Import Base.Str Base.Outcome Model.Case Spec.SerdeCase.

Section WithUnicode.
Variable is_upper : char -> bool.

Lemma utf8_len_pos c : 0 < utf8_len c.
Proof. unfold utf8_len. repeat (destruct (_ <? _)); lia. Qed.

Lemma snake_loop_serde_pos i s : 0 < i -> serde_snake is_upper i s = snake_loop is_upper false s.
Proof.
  revert i; induction s as [|ch r IH]; intros i Hi; cbn [serde_snake snake_loop]; [reflexivity|].
  assert (Hlt : (0 <? i) = true) by (apply N.ltb_lt; exact Hi).
  rewrite Hlt. cbn [negb andb]. f_equal. f_equal.
  apply IH. pose proof (utf8_len_pos ch). lia.
Qed.

Lemma snake_loop_serde s : serde_snake is_upper 0 s = snake_loop is_upper true s.
Proof.
  destruct s as [|ch r]; cbn [serde_snake snake_loop]; [reflexivity|].
  replace (0 <? 0) with false by reflexivity. cbn [negb andb app]. f_equal.
  apply snake_loop_serde_pos. pose proof (utf8_len_pos ch). lia.
Qed.

Lemma pascal_loop_serde b s : serde_pascal b s = pascal_loop b s.
Proof.
  revert b; induction s as [|ch r IH]; intros b; cbn [serde_pascal pascal_loop]; [reflexivity|].
  rewrite !IH. reflexivity.
Qed.

Lemma slice_lower_first_ok s n : slice_lower_first s = Ok n -> lowercase_first s = n.
Proof.
  destruct s as [|c r]; cbn; [discriminate|].
  destruct (utf8_len c =? 1); [|discriminate]. intros H; injection H as <-. reflexivity.
Qed.

(* The binding's name is the name serde puts on the wire, whenever serde produces one. *)
Lemma rename_agrees p r id n :
  serde_rename is_upper p r id = Ok n -> ts_rename is_upper p r id = n.
Proof.
  destruct p, r; cbn [serde_rename serde_field serde_variant ts_rename apply_to_field apply_to_variant];
    rewrite ?snake_loop_serde, ?pascal_loop_serde;
    try (intros H; injection H as <-; reflexivity);
    apply slice_lower_first_ok.
Qed.

(* serde fails (panics while deriving) exactly on camelCase with an empty or non-ASCII head *)
Lemma serde_rename_fails p r id m :
  serde_rename is_upper p r id = Panic m ->
  r = Camel /\ match (match p with Field => pascal_loop true id | Variant => id end) with
               | [] => True | c :: _ => utf8_len c <> 1 end.
Proof.
  destruct p, r; cbn [serde_rename serde_field serde_variant]; try discriminate;
    rewrite ?pascal_loop_serde; unfold slice_lower_first;
    (destruct (_ : str) as [|c rest]; [intros _; split; [reflexivity|exact I]|]);
    destruct (N.eqb_spec (utf8_len c) 1); try discriminate; intros _; split; auto.
Qed.

Lemma serde_rename_never_err p r id m : serde_rename is_upper p r id <> Err m.
Proof.
  destruct p, r; cbn [serde_rename serde_field serde_variant]; try discriminate;
    unfold slice_lower_first; destruct (_ : str) as [|c rest]; try discriminate;
    destruct (utf8_len c =? 1); discriminate.
Qed.

(* Characterisations used as regression anchors: what conventional identifiers become. *)
Lemma field_snake_identity id : ts_rename is_upper Field Snake id = id.
Proof. reflexivity. Qed.
Lemma variant_pascal_identity id : ts_rename is_upper Variant Pascal id = id.
Proof. reflexivity. Qed.

Lemma length_to_ascii_uppercase s : length (to_ascii_uppercase s) = length s.
Proof. apply map_length. Qed.
Lemma length_to_ascii_lowercase s : length (to_ascii_lowercase s) = length s.
Proof. apply map_length. Qed.

End WithUnicode.
