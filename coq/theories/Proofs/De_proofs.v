(* C02, acceptance: every JSON value (objects with distinct keys) that is a member of the TypeScript type generated
   for a Rust type is NOT REJECTED by the model of serde's Deserialize (Spec/SerdeDe.v) — it is read as a value, or it
   is one of the leaf misfits the property sets aside (a number the Rust integer type cannot hold, a string of more or
   fewer than one character for `char`).  Library layer by induction on the type expression; one derived definition
   (parametrised by what holds of its field types); the knot by induction on the evaluation depth of `memberb`.
   The converse direction of Proofs/Sem_derive_proofs.v (C01). *)
From TsRs Require Import Base.Str Base.Outcome Gen.Tables Model.Case Model.TsAst Model.Rust Model.Docs Model.Gen
  Spec.TsFree Spec.TsSem Spec.Serde Spec.SerdeDe Spec.RtyInd Proofs.Gen_base_proofs Proofs.Sem_base_proofs Proofs.Sem_lib_proofs
  Proofs.Sem_alt_proofs Proofs.Gen_scoped_proofs Proofs.Sem_derive_proofs Model.Path Model.Merge Model.GenExport.
From Coq Require Import List Lia Bool ZArith.
Import ListNotations.
Local Open Scope nat_scope.

(* JSON values whose objects have distinct keys, at every depth (what a JSON parser hands over) *)
Fixpoint wf_json (j : json) : bool :=
  match j with
  | JArr l => forallb wf_json l
  | JObj es => nodupb (map fst es) && forallb (fun e => match e with (_, v) => wf_json v end) es
  | _ => true
  end.

Lemma wf_arr l x : wf_json (JArr l) = true -> In x l -> wf_json x = true.
Proof. cbn [wf_json]. intros H Hin. rewrite forallb_forall in H. auto. Qed.

Lemma wf_obj_nodup es : wf_json (JObj es) = true -> NoDup (map fst es).
Proof. cbn [wf_json]. intros H. apply andb_true_iff in H as [H _]. apply nodupb_NoDup. exact H. Qed.

Lemma wf_obj_in es k v : wf_json (JObj es) = true -> In (k, v) es -> wf_json v = true.
Proof.
  cbn [wf_json]. intros H Hin. apply andb_true_iff in H as [_ H]. rewrite forallb_forall in H. exact (H (k, v) Hin).
Qed.

Lemma assoc_in {A} k (l : list (str * A)) v : assoc k l = Some v -> In (k, v) l.
Proof.
  induction l as [|[x y] l IH]; cbn [assoc]; intros H; [discriminate|].
  destruct (str_eqb x k) eqn:E; [apply str_eqb_true in E; inversion H; subst; left; reflexivity | right; apply IH; exact H].
Qed.

Lemma wf_obj_assoc es k v : wf_json (JObj es) = true -> assoc k es = Some v -> wf_json v = true.
Proof. intros H Ha. eapply wf_obj_in; [exact H | apply assoc_in; exact Ha]. Qed.

(* ---- not rejected ------------------------------------------------------------------------------ *)
Definition acc (r : dres) : Prop := r <> DReject.

Lemma acc_ok v : acc (DOk v).
Proof. discriminate. Qed.
Lemma acc_misfit : acc DMisfit.
Proof. discriminate. Qed.

Lemma dbind_acc r k : acc r -> (forall v, acc (k v)) -> acc (dbind r k).
Proof. destruct r; cbn [dbind]; intros Hr Hk; [apply Hk | exact Hr | exact Hr]. Qed.

Lemma dall_acc rs : Forall acc rs -> (exists vs, dall rs = inl (Some vs)) \/ dall rs = inr false.
Proof.
  induction 1 as [|r rs Hr _ IH]; cbn [dall]; [left; eexists; reflexivity|].
  destruct r as [v| |]; [| |exfalso; apply Hr; reflexivity].
  - destruct IH as [[vs ->]| ->]; [left; eexists; reflexivity | right; reflexivity].
  - destruct IH as [[vs ->]| ->]; right; reflexivity.
Qed.

Lemma dseq_acc rs k : Forall acc rs -> acc (dseq rs k).
Proof. intros H. unfold dseq. destruct (dall_acc rs H) as [[vs ->]| ->]; discriminate. Qed.

(* ---- arrays: the tuple reading (up to ARRAY_TUPLE_LIMIT elements) is the one with the exact length --------------- *)
Fixpoint small_arr (t : rty) : bool :=
  match t with
  | RLeaf _ | RParam _ | RDummy _ => true
  | ROption u | RVec u | RWrap u | RRange u => small_arr u
  | RArray n u => Nat.leb n ARRAY_TUPLE_LIMIT && small_arr u
  | RTuple ts => forallb small_arr ts
  | RMap k v | RResult k v => small_arr k && small_arr v
  | RNamed _ args => forallb small_arr args
  end.

Lemma small_arr_subst args : forallb small_arr args = true -> forall t, small_arr t = true -> small_arr (rsubst args t) = true.
Proof.
  intros Hargs.
  induction t as [l|t IH|t IH|m t IH|ts IH|k v IHk IHv|t IH|t e IHt IHe|t IH|id targs IH|i|m] using rty_ind';
    cbn [small_arr rsubst]; intros H; auto.
  - apply andb_true_iff in H as [H1 H2]. rewrite H1, (IH H2). reflexivity.
  - rewrite forallb_forall in *. rewrite Forall_forall in IH. intros x Hx. apply in_map_iff in Hx as (y & <- & Hy). auto.
  - apply andb_true_iff in H as [H1 H2]. rewrite (IHk H1), (IHv H2). reflexivity.
  - apply andb_true_iff in H as [H1 H2]. rewrite (IHt H1), (IHe H2). reflexivity.
  - rewrite forallb_forall in *. rewrite Forall_forall in IH. intros x Hx. apply in_map_iff in Hx as (y & <- & Hy). auto.
  - destruct (nth_error args i) as [u|] eqn:Hu.
    + rewrite (nth_error_nth _ _ _ Hu). rewrite forallb_forall in Hargs. apply Hargs. eapply nth_error_In; exact Hu.
    + rewrite nth_overflow by (apply nth_error_None; exact Hu). reflexivity.
Qed.

(* ---- inversion of membership ------------------------------------------------------------------- *)
Lemma prim_null j : prim_member (lit "null") j = true -> j = JNull.
Proof. destruct j; cbn; intros H; try discriminate; reflexivity. Qed.

Lemma forall2b_length {A B} (f : A -> B -> bool) : forall l m, forall2b f l m = true -> length l = length m.
Proof.
  induction l as [|x l IH]; intros [|y m] H; cbn [forall2b] in H; try discriminate; [reflexivity|].
  apply andb_true_iff in H as [_ H]. cbn [length]. f_equal. apply IH. exact H.
Qed.

Lemma forall2b_repeat {A B} (f : A -> B -> bool) a : forall n m, forall2b f (repeat a n) m = true -> length m = n /\ forallb (f a) m = true.
Proof.
  induction n as [|n IH]; intros [|y m] H; cbn [repeat forall2b] in H; try discriminate; [split; reflexivity|].
  apply andb_true_iff in H as [H1 H2]. destruct (IH m H2) as [Hl Hf]. cbn [length forallb]. rewrite H1, Hf, Hl. split; reflexivity.
Qed.

(* an object all of whose keys are k, with distinct keys and k present, is the single entry *)
Lemma single_entry (es : list (str * json)) k v :
  NoDup (map fst es) -> (forall e, In e es -> fst e = k) -> assoc k es = Some v -> es = [(k, v)].
Proof.
  intros Hnd Hall Ha. destruct es as [|[k1 v1] es]; [discriminate|].
  pose proof (Hall (k1, v1) (or_introl eq_refl)) as Hk1. cbn [fst] in Hk1. subst k1.
  cbn [assoc] in Ha. rewrite str_eqb_refl' in Ha. inversion Ha; subst.
  destruct es as [|[k2 v2] es]; [reflexivity|]. exfalso.
  pose proof (Hall (k2, v2) (or_intror (or_introl eq_refl))) as Hk2. cbn [fst] in Hk2. subst k2.
  cbn [map fst] in Hnd. inversion Hnd as [|? ? Hnin _]; subst. apply Hnin. left. reflexivity.
Qed.

(* ---- exact object membership, read backwards ---------------------------------------------------- *)
Section AltInv.
Variable mem : tsty -> json -> bool.

Lemma alt_member_props ps ms l : alt_member mem (ps, ms) l = true ->
  forall p t, In (p, t) ps -> match assoc (p_key p) l with Some v => mem t v = true | None => p_optional p = true end.
Proof.
  unfold alt_member. cbn [fst snd]. intros H p t Hin. apply andb_true_iff in H as [H _].
  rewrite forallb_forall in H. specialize (H (p, t) Hin). cbn [fst snd] in H. destruct (assoc (p_key p) l); exact H.
Qed.

Lemma alt_member_keys ps l : alt_member mem (ps, []) l = true ->
  forall e, In e l -> exists p t, In (p, t) ps /\ p_key p = fst e.
Proof.
  unfold alt_member. cbn [fst snd]. intros H e Hin. apply andb_true_iff in H as [_ H].
  rewrite forallb_forall in H. specialize (H e Hin).
  destruct (assoc (fst e) (map (fun p => (p_key (fst p), snd p)) ps)) as [t|] eqn:Ha; [|discriminate].
  apply assoc_in in Ha. apply in_map_iff in Ha as ([p t'] & Heq & Hp). cbn [fst snd] in Heq. inversion Heq; subst.
  exists p, t. split; [exact Hp | reflexivity].
Qed.

Lemma alt_member_mapped k v l : alt_member mem ([], [(k, v)]) l = true ->
  forall e, In e l -> key_ok k (fst e) = true /\ mem v (snd e) = true.
Proof.
  unfold alt_member. cbn [fst snd map]. intros H e Hin. apply andb_true_iff in H as [_ H].
  rewrite forallb_forall in H. specialize (H e Hin). cbn [assoc forallb fst snd] in H.
  rewrite andb_true_r in H. apply andb_true_iff in H. exact H.
Qed.
End AltInv.

Lemma two_entries (es : list (str * json)) a b x y :
  NoDup (map fst es) -> (forall e, In e es -> fst e = a \/ fst e = b) -> a <> b ->
  assoc a es = Some x -> assoc b es = Some y -> length es = 2.
Proof.
  intros Hnd Hall Hne Ha Hb. rewrite <- (map_length fst es).
  assert (H1 : length (map fst es) <= length [a; b]).
  { apply NoDup_incl_length; [exact Hnd|]. intros k Hk. apply in_map_iff in Hk as (e & <- & He).
    destruct (Hall e He) as [-> | ->]; [left | right; left]; reflexivity. }
  assert (H2 : length [a; b] <= length (map fst es)).
  { apply NoDup_incl_length.
    - constructor; [intros [Heq|[]]; apply Hne; symmetry; exact Heq|]. constructor; [intros []|constructor].
    - intros k [<-|[<-|[]]].
      + apply assoc_in in Ha. change a with (fst (a, x)). apply in_map. exact Ha.
      + apply assoc_in in Hb. change b with (fst (b, y)). apply in_map. exact Hb. }
  cbn [length] in *. lia.
Qed.

Lemma s_eq_true a b : s_eq a b = true -> b = lit a.
Proof. unfold s_eq. intros H. apply str_eqb_true in H. symmetry. exact H. Qed.

Lemma parse_int_digits s : is_digit_str s = true -> exists z, parse_int s = Some z.
Proof. intros H. unfold parse_int. destruct s as [|c r]; [discriminate|]. destruct c; rewrite ?H; try (eexists; reflexivity). destruct p; rewrite ?H; try (eexists; reflexivity);
  repeat (match goal with |- context [match ?p with xI _ => _ | xO _ => _ | xH => _ end] => destruct p end; rewrite ?H; try (eexists; reflexivity)). Qed.

(* ============================ library layer ===================================================== *)
Section LibDe.
Variable R : env.
Variable E : denv.
Variable dd : typedef -> list rty -> json -> dres.
Variable F : nat.
Notation mono_ty := (mono_ty R).
Notation de_ty := (de_ty R dd).

(* what is known of derived types: a member of the reference, up to evaluation depth F, is not rejected *)
Hypothesis Hdd : forall id d args l j f, lookup R id = Some d ->
  length args = length (c_params (attrs_of d)) -> forallb mono_ty args = true -> forallb small_arr args = true ->
  omap_list (name_of R) args = Ok l -> f <= F -> memberb E f (TRef (ts_ident d) l) j = true -> wf_json j = true ->
  acc (dd d args j).

Lemma leaf_acc l j f : memberb E f (leaf_ts l) j = true -> acc (leaf_de l j).
Proof.
  unfold acc. destruct f as [|f]; [discriminate|].
  destruct l as [big lo hi| | | | |]; [destruct big|..]; cbn [leaf_ts prim memberb]; intros H; destruct j; cbn in H; try discriminate; cbn [leaf_de];
    try discriminate.
  - destruct ((lo <=? z)%Z && (z <=? hi)%Z); discriminate.
  - destruct ((lo <=? z)%Z && (z <=? hi)%Z); discriminate.
  - destruct s as [|c [|? ?]]; discriminate.
Qed.

Lemma key_acc k a s : key_leaf k = true -> name_of R k = Ok a -> key_ok a s = true -> acc (key_de k s).
Proof.
  unfold acc. destruct k as [l| | | | | | | | | | |]; try discriminate. intros Hkl Ha Hk. cbn [Gen.name_of] in Ha. inversion Ha; subst; clear Ha.
  destruct l as [big lo hi| | | | |]; cbn [key_de]; try discriminate.
  - assert (Hd : is_digit_str s = true).
    { destruct big; cbn [leaf_ts prim key_ok] in Hk; vm_compute s_eq in Hk; cbn [orb andb] in Hk; rewrite ?orb_false_r in Hk; exact Hk. }
    destruct (parse_int_digits s Hd) as [z ->]. destruct ((lo <=? z)%Z && (z <=? hi)%Z); discriminate.
  - destruct s as [|c [|? ?]]; discriminate.
Qed.

Theorem lib_de : forall t a j f,
  mono_ty t = true -> small_arr t = true -> name_of R t = Ok a -> f <= F -> memberb E f a j = true -> wf_json j = true ->
  acc (de_ty t j).
Proof.
  induction t as [l|t IH|t IH|n t IH|ts IH|k vt IHk IHv|t IH|t e IHt IHe|t IH|id args IH|i|n] using rty_ind';
    intros a j f Hm Hsm Ha Hf Hmem Hwf; unfold Sem_derive_proofs.mono_ty in Hm; cbn [pmono] in Hm; fold (Sem_derive_proofs.mono_ty R) in *;
    try discriminate; cbn [Gen.name_of] in Ha; cbn [SerdeDe.de_ty]; cbn [small_arr] in Hsm.
  - inversion Ha; subst. eapply leaf_acc; exact Hmem.
  - apply bind_ok in Ha as (x & Hx & Ha). inversion Ha; subst; clear Ha. destruct f as [|f]; [discriminate|].
    cbn [memberb existsb] in Hmem. rewrite orb_false_r in Hmem.
    destruct j; try apply acc_ok;
      (apply dbind_acc; [|intros; apply acc_ok]; apply orb_true_iff in Hmem as [Hmem|Hmem];
       [eapply IH; [exact Hm | exact Hsm | exact Hx | | exact Hmem | exact Hwf]; lia
       | destruct f; [discriminate | cbn [prim memberb] in Hmem; apply prim_null in Hmem; discriminate]]).
  - apply bind_ok in Ha as (x & Hx & Ha). inversion Ha; subst; clear Ha. destruct f as [|f]; [discriminate|].
    cbn [memberb] in Hmem. destruct j; try discriminate. apply dseq_acc. apply Forall_forall. intros r Hr.
    apply in_map_iff in Hr as (y & <- & Hy). rewrite forallb_forall in Hmem.
    eapply IH; [exact Hm | exact Hsm | exact Hx | | apply Hmem; exact Hy | eapply wf_arr; eassumption]. lia.
  - apply andb_true_iff in Hsm as [Hn Hsm]. destruct n as [|n'].
    { inversion Ha; subst. destruct f as [|f]; [discriminate|]. cbn [memberb] in Hmem. destruct j; try discriminate.
      destruct l; [|discriminate]. cbn. apply acc_ok. }
    apply bind_ok in Ha as (x & Hx & Ha). inversion Ha; subst; clear Ha. destruct f as [|f]; [discriminate|].
    unfold array_ts in Hmem. apply Nat.leb_le in Hn. replace (Nat.ltb ARRAY_TUPLE_LIMIT (S n')) with false in Hmem by (symmetry; apply Nat.ltb_ge; exact Hn).
    cbn [memberb] in Hmem. destruct j; try discriminate. apply forall2b_repeat in Hmem as [Hlen Hall]. rewrite Hlen, Nat.eqb_refl.
    apply dseq_acc. apply Forall_forall. intros r Hr.
    apply in_map_iff in Hr as (y & <- & Hy). rewrite forallb_forall in Hall.
    eapply IH; [exact Hm | exact Hsm | exact Hx | | apply Hall; exact Hy | eapply wf_arr; eassumption]. lia.
  - apply bind_ok in Ha as (xs & Hxs & Ha). inversion Ha; subst; clear Ha. destruct f as [|f]; [discriminate|].
    cbn [memberb] in Hmem. destruct j; try discriminate. apply omap_list_ok in Hxs.
    rewrite forallb_forall in Hm, Hsm. rewrite Forall_forall in IH.
    assert (Hgo : exists rs, dmap2 de_ty ts l = Some rs /\ Forall acc rs).
    { assert (Hwl : forall y, In y l -> wf_json y = true) by (intros; eapply wf_arr; eassumption).
      clear Hwf. revert l Hmem Hwl. induction Hxs as [|u x ts xs Hux _ IHx]; intros l Hmem Hwl.
      - destruct l; [|discriminate]. exists []. split; [reflexivity | constructor].
      - destruct l as [|y l]; [discriminate|]. cbn [forall2b] in Hmem. apply andb_true_iff in Hmem as [H1 H2].
        destruct IHx with (l := l) as (rs & Hrs & Hacc); [intros; eapply IH; [right|..]; eassumption
          | intros; apply Hm; right; assumption | intros; apply Hsm; right; assumption | exact H2 | intros; apply Hwl; right; assumption|].
        cbn [dmap2]. rewrite Hrs. eexists. split; [reflexivity|]. constructor; [|exact Hacc].
        eapply IH; [left; reflexivity | apply Hm; left; reflexivity | apply Hsm; left; reflexivity | exact Hux | | exact H1 | apply Hwl; left; reflexivity]. lia. }
    destruct Hgo as (rs & -> & Hacc). apply dseq_acc. exact Hacc.
  - apply bind_ok in Ha as (x & Hx & Ha). apply bind_ok in Ha as (y & Hy & Ha). inversion Ha; subst; clear Ha.
    apply andb_true_iff in Hm as [Hkl Hvm]. apply andb_true_iff in Hsm as [_ Hsv]. destruct f as [|f]; [discriminate|].
    cbn [memberb] in Hmem. destruct j; try discriminate. apply dseq_acc. apply Forall_forall. intros r Hr.
    apply in_map_iff in Hr as (e & <- & He). destruct (alt_member_mapped _ _ _ _ Hmem e He) as [Hk Hv].
    apply dbind_acc; [eapply key_acc; eassumption|]. intros kv. apply dbind_acc; [|intros; apply acc_ok].
    eapply IHv; [exact Hvm | exact Hsv | exact Hy | | exact Hv | destruct e; eapply wf_obj_in; eassumption]. lia.
  - eapply IH; eassumption.
  - apply bind_ok in Ha as (x & Hx & Ha). apply bind_ok in Ha as (y & Hy & Ha). inversion Ha; subst; clear Ha.
    apply andb_true_iff in Hm as [Ht He]. apply andb_true_iff in Hsm as [Hst Hse]. destruct f as [|f]; [discriminate|].
    cbn [memberb] in Hmem. destruct j; try discriminate. destruct l as [|[k z] [|? ?]]; try discriminate.
    assert (Hwz : wf_json z = true) by (eapply wf_obj_in; [exact Hwf | left; reflexivity]).
    destruct (s_eq "Ok" k) eqn:Hok.
    + apply dbind_acc; [|intros; apply acc_ok]. apply s_eq_true in Hok. subst k. cbn [andb orb] in Hmem.
      replace (s_eq "Err" (lit "Ok")) with false in Hmem by reflexivity. cbn [andb] in Hmem. rewrite orb_false_r in Hmem.
      eapply IHt; [exact Ht | exact Hst | exact Hx | | exact Hmem | exact Hwz]. lia.
    + cbn [andb orb] in Hmem. destruct (s_eq "Err" k); [|discriminate]. cbn [andb] in Hmem.
      apply dbind_acc; [|intros; apply acc_ok]. eapply IHe; [exact He | exact Hse | exact Hy | | exact Hmem | exact Hwz]. lia.
  - apply bind_ok in Ha as (x & Hx & Ha). inversion Ha; subst; clear Ha. destruct f as [|f]; [discriminate|].
    cbn [memberb] in Hmem. destruct j; try discriminate.
    pose proof (alt_member_props _ _ _ _ Hmem (plain_head (lit "start")) x (or_introl eq_refl)) as H1.
    pose proof (alt_member_props _ _ _ _ Hmem (plain_head (lit "end")) x (or_intror (or_introl eq_refl))) as H2.
    cbn [plain_head p_key p_optional] in H1, H2.
    destruct (assoc (lit "start") l) as [v1|] eqn:Ha1; [|discriminate]. destruct (assoc (lit "end") l) as [v2|] eqn:Ha2; [|discriminate].
    assert (Hlen : length l = 2).
    { eapply (two_entries l (lit "start") (lit "end")); [apply wf_obj_nodup; exact Hwf | | discriminate | exact Ha1 | exact Ha2].
      intros e' He'. destruct (alt_member_keys _ _ _ Hmem e' He') as (p & t' & [Heq|[Heq|[]]] & Hk); inversion Heq; subst; cbn in Hk; [left | right]; symmetry; exact Hk. }
    rewrite Hlen. cbn [Nat.eqb]. apply dseq_acc. constructor; [|constructor; [|constructor]].
    + eapply IH; [exact Hm | exact Hsm | exact Hx | | exact H1 | eapply wf_obj_assoc; eassumption]. lia.
    + eapply IH; [exact Hm | exact Hsm | exact Hx | | exact H2 | eapply wf_obj_assoc; eassumption]. lia.
  - destruct (lookup R id) as [d|] eqn:Hlk; [|discriminate]. apply andb_true_iff in Hm as [Hlen Hargs]. apply Nat.eqb_eq in Hlen.
    apply bind_ok in Ha as (l & Hl & Ha). inversion Ha; subst. eapply Hdd; eassumption.
Qed.
(* the same for TS::inline(): derived leaves are inlined (their body at the arguments); tuples and ranges cannot be *)
Variable g : dgen.
Hypothesis Hgd : forall id d args r j f, lookup R id = Some d ->
  length args = length (c_params (attrs_of d)) -> forallb mono_ty args = true -> forallb small_arr args = true ->
  g d args = Ok r -> f <= F -> memberb E f (fst r) j = true -> wf_json j = true ->
  acc (dd d args j).

Theorem lib_inline_de : forall t a j f,
  mono_ty t = true -> small_arr t = true -> lib_inline R g t = Ok a -> f <= F -> memberb E f a j = true -> wf_json j = true ->
  acc (de_ty t j).
Proof.
  induction t as [l|t IH|t IH|n t IH|ts IH|k vt IHk IHv|t IH|t e IHt IHe|t IH|id args IH|i|n] using rty_ind';
    intros a j f Hm Hsm Ha Hf Hmem Hwf; unfold Sem_derive_proofs.mono_ty in Hm; cbn [pmono] in Hm; fold (Sem_derive_proofs.mono_ty R) in *;
    try discriminate; cbn [Gen.lib_inline] in Ha; try discriminate; cbn [SerdeDe.de_ty]; cbn [small_arr] in Hsm.
  - inversion Ha; subst. eapply leaf_acc; exact Hmem.
  - apply bind_ok in Ha as (x & Hx & Ha). inversion Ha; subst; clear Ha. destruct f as [|f]; [discriminate|].
    cbn [memberb existsb] in Hmem. rewrite orb_false_r in Hmem.
    destruct j; try apply acc_ok;
      (apply dbind_acc; [|intros; apply acc_ok]; apply orb_true_iff in Hmem as [Hmem|Hmem];
       [eapply IH; [exact Hm | exact Hsm | exact Hx | | exact Hmem | exact Hwf]; lia
       | destruct f; [discriminate | cbn [prim memberb] in Hmem; apply prim_null in Hmem; discriminate]]).
  - apply bind_ok in Ha as (x & Hx & Ha). inversion Ha; subst; clear Ha. destruct f as [|f]; [discriminate|].
    cbn [memberb] in Hmem. destruct j; try discriminate. apply dseq_acc. apply Forall_forall. intros r Hr.
    apply in_map_iff in Hr as (y & <- & Hy). rewrite forallb_forall in Hmem.
    eapply IH; [exact Hm | exact Hsm | exact Hx | | apply Hmem; exact Hy | eapply wf_arr; eassumption]. lia.
  - apply andb_true_iff in Hsm as [Hn Hsm]. destruct n as [|n'].
    { inversion Ha; subst. destruct f as [|f]; [discriminate|]. cbn [memberb] in Hmem. destruct j; try discriminate.
      destruct l; [|discriminate]. cbn. apply acc_ok. }
    apply bind_ok in Ha as (x & Hx & Ha). inversion Ha; subst; clear Ha. destruct f as [|f]; [discriminate|].
    unfold array_ts in Hmem. apply Nat.leb_le in Hn. replace (Nat.ltb ARRAY_TUPLE_LIMIT (S n')) with false in Hmem by (symmetry; apply Nat.ltb_ge; exact Hn).
    cbn [memberb] in Hmem. destruct j; try discriminate. apply forall2b_repeat in Hmem as [Hlen Hall]. rewrite Hlen, Nat.eqb_refl.
    apply dseq_acc. apply Forall_forall. intros r Hr.
    apply in_map_iff in Hr as (y & <- & Hy). rewrite forallb_forall in Hall.
    eapply IH; [exact Hm | exact Hsm | exact Hx | | apply Hall; exact Hy | eapply wf_arr; eassumption]. lia.
  - apply bind_ok in Ha as (x & Hx & Ha). apply bind_ok in Ha as (y & Hy & Ha). inversion Ha; subst; clear Ha.
    apply andb_true_iff in Hm as [Hkl Hvm]. apply andb_true_iff in Hsm as [_ Hsv]. destruct f as [|f]; [discriminate|].
    cbn [memberb] in Hmem. destruct j; try discriminate. apply dseq_acc. apply Forall_forall. intros r Hr.
    apply in_map_iff in Hr as (e & <- & He). destruct (alt_member_mapped _ _ _ _ Hmem e He) as [Hk Hv].
    assert (Hxn : name_of R k = Ok x) by (destruct k; try discriminate; exact Hx).
    apply dbind_acc; [eapply key_acc; eassumption|]. intros kv. apply dbind_acc; [|intros; apply acc_ok].
    eapply IHv; [exact Hvm | exact Hsv | exact Hy | | exact Hv | destruct e; eapply wf_obj_in; eassumption]. lia.
  - eapply IH; eassumption.
  - apply bind_ok in Ha as (x & Hx & Ha). apply bind_ok in Ha as (y & Hy & Ha). inversion Ha; subst; clear Ha.
    apply andb_true_iff in Hm as [Ht He]. apply andb_true_iff in Hsm as [Hst Hse]. destruct f as [|f]; [discriminate|].
    cbn [memberb] in Hmem. destruct j; try discriminate. destruct l as [|[k z] [|? ?]]; try discriminate.
    assert (Hwz : wf_json z = true) by (eapply wf_obj_in; [exact Hwf | left; reflexivity]).
    destruct (s_eq "Ok" k) eqn:Hok.
    + apply dbind_acc; [|intros; apply acc_ok]. apply s_eq_true in Hok. subst k. cbn [andb orb] in Hmem.
      replace (s_eq "Err" (lit "Ok")) with false in Hmem by reflexivity. cbn [andb] in Hmem. rewrite orb_false_r in Hmem.
      eapply IHt; [exact Ht | exact Hst | exact Hx | | exact Hmem | exact Hwz]. lia.
    + cbn [andb orb] in Hmem. destruct (s_eq "Err" k); [|discriminate]. cbn [andb] in Hmem.
      apply dbind_acc; [|intros; apply acc_ok]. eapply IHe; [exact He | exact Hse | exact Hy | | exact Hmem | exact Hwz]. lia.
  - destruct (lookup R id) as [d|] eqn:Hlk; [|discriminate]. apply andb_true_iff in Hm as [Hlen Hargs]. apply Nat.eqb_eq in Hlen.
    destruct (g d args) as [r| |] eqn:Hr; try discriminate. cbn [omap] in Ha. inversion Ha; subst. eapply Hgd; eassumption.
Qed.
End LibDe.

(* ============================ membership, one step backwards ==================================== *)
Section MemInv.
Variable E : denv.

Lemma mem_merged f t j : memberb E f (TMerged t) j = true -> exists f', f = S f' /\ memberb E f' t j = true.
Proof. destruct f as [|f']; [discriminate|]. cbn [memberb]. eauto. Qed.

Lemma mem_obj f st ps j : memberb E f (TObj st ps) j = true ->
  exists f' l, f = S f' /\ j = JObj l /\ alt_member (memberb E f') (ps, []) l = true.
Proof. destruct f as [|f']; [discriminate|]. cbn [memberb]. destruct j; try discriminate. eauto. Qed.

Lemma mem_lit f s j : memberb E f (TLit s) j = true -> j = JStr s.
Proof.
  destruct f as [|f']; [discriminate|]. cbn [memberb]. destruct j; try discriminate. intros H. apply str_eqb_true in H. subst. reflexivity.
Qed.

Lemma mem_union f ts j : memberb E f (TUnion ts) j = true -> exists f' u, f = S f' /\ In u ts /\ memberb E f' u j = true.
Proof.
  destruct f as [|f']; [discriminate|]. cbn [memberb]. intros H. apply existsb_exists in H as (u & Hu & Hm). eauto.
Qed.

Lemma mem_tuple f ts j : memberb E f (TTuple ts) j = true -> exists f' l, f = S f' /\ j = JArr l /\ forall2b (memberb E f') ts l = true.
Proof. destruct f as [|f']; [discriminate|]. cbn [memberb]. destruct j; try discriminate. eauto. Qed.

Lemma mem_null f j : memberb E f (TPrim (lit "null")) j = true -> j = JNull.
Proof. destruct f as [|f']; [discriminate|]. cbn [memberb]. apply prim_null. Qed.

Lemma mem_never f j : memberb E f (TPrim (lit "never")) j = false.
Proof. destruct f as [|f']; [reflexivity|]. cbn [memberb]. destruct j; reflexivity. Qed.

Lemma mem_neverarr f j : memberb E f TNeverArr j = true -> j = JArr [].
Proof. destruct f as [|f']; [discriminate|]. cbn [memberb]. destruct j; try discriminate. destruct l; [reflexivity | discriminate]. Qed.

Lemma mem_recnever f j : memberb E f TRecordNever j = true -> j = JObj [].
Proof. destruct f as [|f']; [discriminate|]. cbn [memberb]. destruct j; try discriminate. destruct l; [reflexivity | discriminate]. Qed.
End MemInv.

Lemma assoc_remove_key k t (es : list (str * json)) : k <> t -> assoc k (remove_key t es) = assoc k es.
Proof.
  intros Hne. unfold remove_key. induction es as [|[x v] es IH]; [reflexivity|]. cbn [filter fst assoc].
  destruct (str_eqb x t) eqn:Ext; cbn [negb].
  - apply str_eqb_true in Ext. subst x. destruct (str_eqb t k) eqn:Etk; [apply str_eqb_true in Etk; subst; contradiction|]. exact IH.
  - cbn [assoc]. destruct (str_eqb x k); [reflexivity | exact IH].
Qed.

Lemma wf_remove_key t es : wf_json (JObj es) = true -> forall k v, assoc k (remove_key t es) = Some v -> wf_json v = true.
Proof.
  intros Hwf k v Ha. apply assoc_in in Ha. unfold remove_key in Ha. apply filter_In in Ha as [Hin _]. eapply wf_obj_in; eassumption.
Qed.

Definition shape_fields (s : shape) : list field := match s with SUnit => [] | STuple fs | SNamed fs => fs end.

(* ============================ the fragment ====================================================== *)
(* definitions the acceptance theorem speaks about: structs and enums of every shape, generic or not, rename / rename_all /
   rename_all_fields / skip / struct-level tag, all four enum representations, `inline`, `optional` (field and container
   level, nullable or not) on Option fields; no flatten / type / as overrides; arrays read as tuples; a tag key is not a
   field key; variants of a tagged enum have distinct names on the wire *)
Section Fragment.
Variable is_upper : char -> bool.
Variable R : env.

Definition not_param (t : rty) : Prop := match t with RParam _ => False | _ => True end.

Definition dfield (n : nat) (opt : optional) (fl : field) : Prop :=
  f_flatten fl = false /\ f_type fl = None /\ f_serde_ty fl = f_ty fl /\ pmono R n (f_ty fl) = true /\
  (f_inline fl = true -> pmono R 0 (f_ty fl) = true) /\ small_arr (f_ty fl) = true /\
  match f_optional fl with NotOptional => True | Optional _ => is_option (f_ty fl) = true end /\
  match opt with NotOptional => True | Optional _ => not_param (f_ty fl) end.

(* a flattened field: a struct with named fields (no tag, no flattened field of its own) in a definition without parameters *)
Definition dflat (n : nat) (f : field) : Prop :=
  f_flatten f = true /\ f_type f = None /\ f_serde_ty f = f_ty f /\ pmono R n (f_ty f) = true /\ pmono R 0 (f_ty f) = true /\
  f_optional f = NotOptional /\ small_arr (f_ty f) = true /\ flat_struct R (f_ty f).
Definition dnfield (n : nat) (opt : optional) (f : field) : Prop := dfield n opt f \/ dflat n f.

Definition dshape (n : nat) (opt : optional) (s : shape) : Prop :=
  match s with
  | SUnit => True
  | STuple [f] => dfield n opt f /\ f_skip f = false        (* a skipped newtype field is a known class *)
  | STuple fs => Forall (dfield n opt) fs
  | SNamed fs => Forall (dnfield n opt) fs
  end.

(* the keys of a named shape: own keys and the keys of the flattened structs; a tag key is none of them *)
Definition all_keys (ra : option rule) (fs : list field) : list str :=
  map (Gen.field_key ra) (filter (fun fl => negb (is_flat fl)) (live fs)) ++
  concat (map (fun f => flat_keys R (f_ty f)) (filter is_flat (live fs))).
Definition tag_free (t : str) (ra : option rule) (s : shape) : Prop :=
  match s with SNamed fs => ~ In t (all_keys ra fs) | _ => True end.

Definition dvariant (n : nat) (tg : tagging) (raf : option rule) (v : variant) : Prop :=
  v_type v = None /\ v_as v = None /\ v_untagged v = false /\ dshape n NotOptional (v_shape v) /\
  match tg with
  | Internal t =>
      match v_shape v with
      | STuple [f] => f_inline f = false /\ struct_content R t (f_ty f)   (* a newtype around a struct: `{ tag } & Struct` *)
      | STuple _ => False
      | s => tag_free t (variant_rename_all raf v) s
      end
  | _ => True
  end.

Definition names_distinct (a : cattrs) (tg : tagging) (vs : list variant) : Prop :=
  match tg with Untagged => True | _ => NoDup (map (fun v => Gen.variant_name is_upper (c_rename_all a) v) (live_variants vs)) end.

Definition def_ok (n : nat) (d : typedef) : Prop :=
  let a := attrs_of d in
  c_type a = None /\ c_as a = None /\ length (c_params a) = n /\
  match d with
  | DStruct a s =>
      dshape n (c_optional_fields a) s /\
      match c_tag a with
      | None => True
      | Some t => exists fs, s = SNamed fs /\ ~ In t (all_keys (c_rename_all a) fs)
      end
  | DEnum a tg raf vs => Forall (fun v => v_skip v = false -> dvariant n tg raf v) vs /\ names_distinct a tg vs
  end.

(* ---- the same, decidable ---- *)
Definition not_paramb (t : rty) : bool := match t with RParam _ => false | _ => true end.

Definition dfieldb (n : nat) (opt : optional) (fl : field) : bool :=
  negb (f_flatten fl) && is_none (f_type fl) && rty_eqb (f_serde_ty fl) (f_ty fl) && pmono R n (f_ty fl) &&
  (negb (f_inline fl) || pmono R 0 (f_ty fl)) && small_arr (f_ty fl) &&
  match f_optional fl with NotOptional => true | Optional _ => is_option (f_ty fl) end &&
  match opt with NotOptional => true | Optional _ => not_paramb (f_ty fl) end.

Lemma dfieldb_ok n opt fl : dfieldb n opt fl = true -> dfield n opt fl.
Proof.
  unfold dfieldb, dfield. intros H.
  repeat match type of H with (_ && _) = true => let H' := fresh "H" in apply andb_true_iff in H as [H H'] end.
  repeat split.
  - apply negb_true_iff; assumption.
  - apply is_none_eq; assumption.
  - apply rty_eqb_eq; assumption.
  - assumption.
  - intros Hi. match goal with Hx : (negb (f_inline fl) || pmono R 0 (f_ty fl))%bool = true |- _ => rewrite Hi in Hx; cbn [negb orb] in Hx; exact Hx end.
  - assumption.
  - destruct (f_optional fl); [exact I | assumption].
  - destruct opt; [exact I|]. destruct (f_ty fl); try exact I. discriminate.
Qed.

Definition dflatb (n : nat) (f : field) : bool :=
  f_flatten f && is_none (f_type f) && rty_eqb (f_serde_ty f) (f_ty f) && pmono R n (f_ty f) && pmono R 0 (f_ty f) &&
  match f_optional f with NotOptional => true | _ => false end && small_arr (f_ty f) && flat_structb R (f_ty f).

Lemma dflatb_ok n f : dflatb n f = true -> dflat n f.
Proof.
  unfold dflatb, dflat. intros H.
  repeat match type of H with (_ && _) = true => let H' := fresh "H" in apply andb_true_iff in H as [H H'] end.
  repeat split; try assumption.
  - apply is_none_eq; assumption.
  - apply rty_eqb_eq; assumption.
  - destruct (f_optional f); [reflexivity | discriminate].
  - apply flat_structb_ok; assumption.
Qed.

Definition dnfieldb (n : nat) (opt : optional) (f : field) : bool := dfieldb n opt f || dflatb n f.
Lemma dnfieldb_ok n opt f : dnfieldb n opt f = true -> dnfield n opt f.
Proof. unfold dnfieldb, dnfield. intros H. apply orb_true_iff in H as [H|H]; [left; apply dfieldb_ok | right; apply dflatb_ok]; exact H. Qed.

Definition dshapeb (n : nat) (opt : optional) (s : shape) : bool :=
  match s with
  | SUnit => true
  | STuple [f] => dfieldb n opt f && negb (f_skip f)
  | STuple fs => forallb (dfieldb n opt) fs
  | SNamed fs => forallb (dnfieldb n opt) fs
  end.

Lemma dshapeb_ok n opt s : dshapeb n opt s = true -> dshape n opt s.
Proof.
  destruct s as [|fs|fs]; cbn [dshapeb dshape]; intros H.
  - exact I.
  - destruct fs as [|f [|g r]].
    + constructor.
    + apply andb_true_iff in H as [H1 H2]. split; [apply dfieldb_ok; exact H1 | apply negb_true_iff; exact H2].
    + eapply forallb_Forall'; [apply dfieldb_ok | exact H].
  - eapply forallb_Forall'; [apply dnfieldb_ok | exact H].
Qed.

Definition tag_freeb (t : str) (ra : option rule) (s : shape) : bool :=
  match s with SNamed fs => negb (existsb (str_eqb t) (all_keys ra fs)) | _ => true end.

Lemma tag_freeb_ok t ra s : tag_freeb t ra s = true -> tag_free t ra s.
Proof.
  destruct s as [| |fs]; cbn [tag_freeb tag_free]; intros H; try exact I. intros Hin. apply negb_true_iff in H.
  rewrite (existsb_in (str_eqb t) t _ Hin (str_eqb_refl' t)) in H. discriminate.
Qed.

Definition dvariantb (n : nat) (tg : tagging) (raf : option rule) (v : variant) : bool :=
  is_none (v_type v) && is_none (v_as v) && negb (v_untagged v) && dshapeb n NotOptional (v_shape v) &&
  match tg with
  | Internal t =>
      match v_shape v with
      | STuple [f] => negb (f_inline f) && struct_contentb R t (f_ty f)
      | STuple _ => false
      | s => tag_freeb t (variant_rename_all raf v) s
      end
  | _ => true
  end.

Lemma dvariantb_ok n tg raf v : dvariantb n tg raf v = true -> dvariant n tg raf v.
Proof.
  unfold dvariantb, dvariant. intros H.
  repeat match type of H with (_ && _) = true => let H' := fresh "H" in apply andb_true_iff in H as [H H'] end.
  repeat split; try (apply is_none_eq; assumption); try (apply negb_true_iff; assumption).
  - apply dshapeb_ok; assumption.
  - destruct tg; try exact I. destruct (v_shape v) as [|[|f [|f2 fs]]|fs]; try exact I; try discriminate.
    + match goal with Hx : (negb (f_inline f) && struct_contentb R _ (f_ty f))%bool = true |- _ => apply andb_true_iff in Hx as [Hx1 Hx2] end.
      split; [apply negb_true_iff; exact Hx1 | apply struct_contentb_ok; exact Hx2].
    + apply tag_freeb_ok. assumption.
Qed.

Definition def_okb (d : typedef) : bool :=
  let a := attrs_of d in
  let n := nparams d in
  is_none (c_type a) && is_none (c_as a) && nodupb (map fst (c_params a)) &&
  match d with
  | DStruct a s =>
      dshapeb n (c_optional_fields a) s &&
      match c_tag a with
      | None => true
      | Some t => match s with SNamed fs => tag_freeb t (c_rename_all a) (SNamed fs) | _ => false end
      end
  | DEnum a tg raf vs =>
      forallb (fun v => v_skip v || dvariantb n tg raf v) vs &&
      match tg with
      | Untagged => true
      | _ => nodupb (map (fun v => Gen.variant_name is_upper (c_rename_all a) v) (live_variants vs))
      end
  end.

Lemma def_okb_ok d : def_okb d = true -> def_ok (nparams d) d /\ NoDup (map fst (c_params (attrs_of d))).
Proof.
  unfold def_okb, def_ok. intros H.
  apply andb_true_iff in H as [H Hd]. apply andb_true_iff in H as [H Hps]. apply andb_true_iff in H as [Hty Has].
  split; [|apply nodupb_NoDup; exact Hps].
  split; [apply is_none_eq; exact Hty|]. split; [apply is_none_eq; exact Has|]. split; [reflexivity|].
  destruct d as [a s|a tg raf vs].
  - apply andb_true_iff in Hd as [Hsh Htag]. split; [apply dshapeb_ok; exact Hsh|].
    destruct (c_tag a) as [t|]; [|exact I].
    destruct s as [|fs|fs]; try discriminate. exists fs. split; [reflexivity | exact (tag_freeb_ok t _ (SNamed fs) Htag)].
  - apply andb_true_iff in Hd as [Hvs Hnm]. split.
    + eapply forallb_Forall'; [|exact Hvs]. intros v Hv Hskip. cbn beta in Hv. rewrite Hskip in Hv. cbn [orb] in Hv. apply dvariantb_ok; exact Hv.
    + unfold names_distinct. destruct tg; try exact I; apply nodupb_NoDup; exact Hnm.
Qed.
End Fragment.

(* ============================ one derived definition ============================================ *)
Section DeLayer.
Variable is_upper is_alnum is_numeric : char -> bool.
Variable R : env.
Variable E : denv.
Variable inl flt : rty -> outcome tsty.
Variable n : nat.
Variable sargs gargs : list rty.
Variable sn sf : str -> option tsty.
Variable dt : rty -> json -> dres.
Variable F : nat.

Notation dfield := (dfield R n).
Notation dshape := (dshape R n).
Notation ts := (tsubst sn sf).
Notation mem := (memberb E).

(* the text of a type of the definition: inline() or name(), at the generator's arguments *)
Definition tytext (b : bool) (t : rty) : outcome tsty :=
  if b then inl (rsubst gargs t) else name_of R (rsubst gargs t).

(* what is known of the types of the definition *)
Hypothesis Hty : forall b t a j f, pmono R n t = true -> small_arr t = true -> (b = true -> pmono R 0 t = true) -> tytext b t = Ok a ->
  f <= F -> mem f (ts a) j = true -> wf_json j = true -> acc (dt (rsubst sargs t) j).
(* ... and of Option *)
Hypothesis Hopt : forall u j, acc (dt u j) -> acc (dt (ROption u) j).
(* ... and of a struct that is the content of a newtype variant of an internally tagged enum *)
Hypothesis Hcontent : forall tg nm t a j f, struct_content R tg t -> pmono R n t = true -> small_arr t = true ->
  name_of R (rsubst gargs t) = Ok a -> f <= F ->
  mem f (TInter [TObj OVariant [(quoted_head tg, TLit nm)]; ts a]) j = true -> wf_json j = true ->
  exists es, j = JObj es /\ assoc tg es = Some (JStr nm) /\ acc (dt (rsubst sargs t) (JObj (remove_key tg es))).

(* ... and of a struct flattened into the definition: its flattened form denotes one exact alternative `ps`, membership in
   it is membership in that alternative, and an object whose entries inhabit `ps` is read as the struct *)
Definition conds (ps : list (phead * tsty)) (es : list (str * json)) (f : nat) : Prop :=
  forall p t0, In (p, t0) ps -> match assoc (p_key p) es with Some v => mem f t0 v = true | None => p_optional p = true end.

Hypothesis Hflatd : forall t x, flat_struct R t -> pmono R n t = true -> small_arr t = true -> pmono R 0 t = true ->
  flt (rsubst gargs t) = Ok x ->
  exists ps, pkeys ps = flat_keys R t /\
    (forall k alts, dnf E k (ts x) = Some alts -> alts = [(ps, [])]) /\
    (forall j f, mem f (ts x) j = true -> exists es f', j = JObj es /\ f' < f /\ alt_member (mem f') (ps, []) es = true) /\
    (forall es f, f <= F -> conds ps es f -> (forall k v, assoc k es = Some v -> wf_json v = true) ->
       acc (dt (rsubst sargs t) (JObj es))).

Notation dflat := (dflat R n).
Notation dnfield := (dnfield R n).

Lemma mem_union_null f a j : mem f (TUnion [a; prim "null"]) j = true -> j = JNull \/ exists f', f = S f' /\ mem f' a j = true.
Proof.
  intros H. apply mem_union in H as (f' & u & -> & [<-|[<-|[]]] & Hm); [right; eauto | left; eapply mem_null; exact Hm].
Qed.

(* a field read from a present value *)
Lemma field_present opt fl ra p x f :
  dfield opt fl -> prop_of is_alnum is_numeric R inl gargs ra opt fl = Ok p ->
  f <= F -> mem f (ts (snd p)) x = true -> wf_json x = true -> acc (dt (rsubst sargs (f_ty fl)) x).
Proof.
  intros (Hfl & Hty0 & Hsty & Hmono & Hinl0 & Hsm & Hfo & Hnp) H Hf Hm Hwf. unfold prop_of in H. rewrite Hty0 in H.
  unfold field_ty in H. apply bind_ok in H as (a & Ha & H). inversion H; subst p; clear H. cbn [snd] in Hm.
  assert (Hplain : (if f_inline fl then inl (rsubst gargs (f_ty fl)) else name_of R (rsubst gargs (f_ty fl))) = Ok a ->
                   acc (dt (rsubst sargs (f_ty fl)) x)).
  { intros Ha'. eapply (Hty (f_inline fl) (f_ty fl) a x f); eassumption. }
  assert (Hoption : forall u, f_ty fl = ROption u ->
                   (if f_inline fl then inl (rsubst gargs u) else name_of R (rsubst gargs u)) = Ok a ->
                   acc (dt (rsubst sargs (f_ty fl)) x)).
  { intros u Hu Ha'. rewrite Hu. cbn [rsubst]. apply Hopt. rewrite Hu in Hmono, Hsm, Hinl0. cbn [pmono small_arr] in Hmono, Hsm, Hinl0.
    eapply (Hty (f_inline fl) u a x f); eassumption. }
  unfold field_optional in Ha. destruct opt as [|on]; destruct (f_optional fl) as [|fn] eqn:Hfopt; cbn [snd] in Ha.
  - apply Hplain. exact Ha.
  - destruct (f_ty fl) as [| u | | | | | | | | | |] eqn:Hft; try discriminate Hfo. cbn [rsubst option_inner] in Ha.
    destruct fn; [apply Hplain; exact Ha | eapply (Hoption u eq_refl); exact Ha].
  - destruct (f_ty fl) as [| u | | | | | | | | | |] eqn:Hft; cbn [rsubst option_inner is_option] in Ha;
      try (apply Hplain; destruct on; exact Ha); try contradiction.
    destruct on; [apply Hplain; exact Ha | eapply (Hoption u eq_refl); exact Ha].
  - destruct (f_ty fl) as [| u | | | | | | | | | |] eqn:Hft; try discriminate Hfo. cbn [rsubst option_inner] in Ha.
    destruct fn; [apply Hplain; exact Ha | eapply (Hoption u eq_refl); exact Ha].
Qed.

(* a field whose property may be absent is an Option *)
Lemma field_absent opt fl ra p :
  dfield opt fl -> prop_of is_alnum is_numeric R inl gargs ra opt fl = Ok p -> p_optional (fst p) = true ->
  is_option_ty (rsubst sargs (f_serde_ty fl)) = true.
Proof.
  intros (Hfl & Hty0 & Hsty & Hmono & Hinl0 & Hsm & Hfo & Hnp) H Hq. unfold prop_of in H. rewrite Hty0 in H.
  apply bind_ok in H as (a & Ha & H). inversion H; subst p; clear H. cbn [fst p_optional] in Hq. rewrite Hsty.
  unfold field_optional in Hq. destruct opt as [|on]; destruct (f_optional fl) as [|fn]; cbn [fst] in Hq; try discriminate.
  - destruct (f_ty fl); try discriminate Hfo. reflexivity.
  - destruct (f_ty fl); cbn [rsubst is_option] in Hq; try discriminate; try contradiction. reflexivity.
  - destruct (f_ty fl); try discriminate Hfo. reflexivity.
Qed.

Lemma prop_of_key ra opt fl p : prop_of is_alnum is_numeric R inl gargs ra opt fl = Ok p -> p_key (fst p) = Gen.field_key ra fl.
Proof.
  unfold prop_of. destruct (f_type fl); [intros H; inversion H; reflexivity|]. intros H. apply bind_ok in H as (x & _ & H). inversion H; reflexivity.
Qed.

(* named fields read from the entries of an object *)
Lemma named_acc ra opt : forall fs props es f,
  Forall (dfield opt) fs ->
  omap_list (prop_of is_alnum is_numeric R inl gargs ra opt) (live fs) = Ok props ->
  f <= F ->
  (forall p t, In (p, t) props -> match assoc (p_key p) es with Some v => mem f (ts t) v = true | None => p_optional p = true end) ->
  (forall k v, assoc k es = Some v -> wf_json v = true) ->
  acc (named_de dt sargs ra fs es).
Proof.
  intros fs props es f Hd Hp Hf Hprops Hwf. unfold named_de. apply dseq_acc.
  revert props Hp Hprops. induction fs as [|fl fs IH]; intros props Hp Hprops; cbn [map]; [constructor|].
  inversion Hd as [|? ? Hdf Hdfs]; subst.
  unfold live in Hp. cbn [filter] in Hp. destruct (f_skip fl) eqn:Hskip; cbn [negb] in Hp.
  - constructor; [apply acc_ok | eapply IH; eassumption].
  - cbn [omap_list] in Hp. apply bind_ok in Hp as (p & Hpp & Hp). apply bind_ok in Hp as (ps & Hps & Hp). inversion Hp; subst; clear Hp.
    constructor; [|eapply IH; [assumption | exact Hps | intros p0 t0 Hin; apply Hprops; right; exact Hin]].
    pose proof Hdf as (Hnoflat & _). rewrite Hnoflat.
    change (Serde.field_key ra fl) with (Gen.field_key ra fl).
    specialize (Hprops (fst p) (snd p)). rewrite <- surjective_pairing in Hprops. specialize (Hprops (or_introl eq_refl)).
    rewrite (prop_of_key ra opt fl p Hpp) in Hprops. destruct (assoc (Gen.field_key ra fl) es) as [x|] eqn:Ha.
    + pose proof Hdf as (_ & _ & Hsty & _). rewrite Hsty.
      eapply field_present; [exact Hdf | exact Hpp | exact Hf | exact Hprops | eapply Hwf; exact Ha].
    + rewrite (field_absent opt fl ra p Hdf Hpp Hprops). apply acc_ok.
Qed.

Lemma value_ty_d opt fl : dfield opt fl -> value_ty R inl gargs fl = tytext (f_inline fl) (f_ty fl).
Proof. intros (Hfl & Hty0 & _). unfold value_ty, tytext. rewrite Hty0. reflexivity. Qed.

(* the items of a tuple *)
Lemma tuple_acc opt : forall fs tys l f,
  Forall (dfield opt) fs ->
  omap_list (value_ty R inl gargs) (live fs) = Ok tys -> f <= F ->
  forall2b (mem f) (map ts tys) l = true -> (forall y, In y l -> wf_json y = true) ->
  exists rs, tuple_de dt sargs fs l = Some rs /\ Forall acc rs.
Proof.
  induction fs as [|fl fs IH]; intros tys l f Hd Hp Hf Hm Hwf.
  - cbn in Hp. inversion Hp; subst. destruct l; [|discriminate]. exists []. split; [reflexivity | constructor].
  - inversion Hd as [|? ? Hdf Hdfs]; subst.
    unfold live in Hp. cbn [filter] in Hp. cbn [tuple_de]. destruct (f_skip fl) eqn:Hskip; cbn [negb] in Hp.
    + destruct (IH tys l f Hdfs Hp Hf Hm Hwf) as (rs & -> & Hacc). eexists. split; [reflexivity|]. constructor; [apply acc_ok | exact Hacc].
    + cbn [omap_list] in Hp. apply bind_ok in Hp as (a & Ha & Hp). apply bind_ok in Hp as (tys' & Htys & Hp). inversion Hp; subst; clear Hp.
      cbn [map] in Hm. destruct l as [|x l]; [discriminate|]. cbn [forall2b] in Hm. apply andb_true_iff in Hm as [H1 H2].
      destruct (IH tys' l f Hdfs Htys Hf H2 (fun y Hy => Hwf y (or_intror Hy))) as (rs & -> & Hacc).
      eexists. split; [reflexivity|]. constructor; [|exact Hacc].
      rewrite (value_ty_d opt fl Hdf) in Ha.
      pose proof Hdf as (_ & _ & Hsty & Hmono & Hinl0 & Hsm & _). rewrite Hsty.
      eapply (Hty (f_inline fl) (f_ty fl) a x f); [exact Hmono | exact Hsm | exact Hinl0 | exact Ha | exact Hf | exact H1 | apply Hwf; left; reflexivity].
Qed.

Lemma is_flat_d opt fl : dfield opt fl -> is_flat fl = false.
Proof. intros (Hf & _). unfold is_flat. rewrite Hf. reflexivity. Qed.

Lemma live_d opt fs : Forall (dfield opt) fs -> Forall (dfield opt) (live fs).
Proof. intros H. unfold live. rewrite Forall_forall in *. intros x Hx. apply H. eapply filter_incl_in; exact Hx. Qed.

(* the generated type of a named shape with at least one field or a tag *)
Lemma named_gen ra opt tag fs r : Forall (dfield opt) fs -> (fs <> [] \/ tag <> None) ->
  shape_gen is_alnum is_numeric R inl flt gargs ra opt tag (SNamed fs) = Ok r ->
  exists props, omap_list (prop_of is_alnum is_numeric R inl gargs ra opt) (live fs) = Ok props /\
    fst r = TMerged (TObj OStruct (match tag with Some (t, nm) => (quoted_head t, TLit nm) :: props | None => props end)) /\
    snd r = Some (fst r).
Proof.
  intros Hpl Hne Hg. cbn [shape_gen] in Hg.
  assert (Hg' : bind (omap_list (prop_of is_alnum is_numeric R inl gargs ra opt) (filter (fun fl => negb (is_flat fl)) (live fs))) (fun props =>
          bind (omap_list (fun fl => flt (field_ty gargs opt fl)) (filter is_flat (live fs))) (fun flats =>
          let props := match tag with Some (t, n0) => (quoted_head t, TLit n0) :: props | None => props end in
          let obj := TObj OStruct props in
          match props, flats with
          | _, [] => Ok (TMerged obj, Some (TMerged obj))
          | [], [x] => Ok (TMerged (TUnwrap x), Some (TMerged (TInter flats)))
          | [], _ => Ok (TMerged (TInter flats), Some (TMerged (TInter flats)))
          | _, _ => Ok (TMerged (TInter (obj :: flats)), Some (TMerged (TInter (obj :: flats))))
          end)) = Ok r).
  { destruct fs as [|f0 fs0]; [|exact Hg]. destruct tag; [exact Hg | destruct Hne as [H|H]; contradiction]. }
  clear Hg.
  rewrite (filter_all (fun fl => negb (is_flat fl)) (live fs)) in Hg'
    by (intros x Hx; rewrite (is_flat_d opt x); [reflexivity | pose proof (live_d opt _ Hpl) as Hl; rewrite Forall_forall in Hl; auto]).
  rewrite (filter_none is_flat (live fs)) in Hg'
    by (intros x Hx; apply (is_flat_d opt); pose proof (live_d opt _ Hpl) as Hl; rewrite Forall_forall in Hl; auto).
  apply bind_ok in Hg' as (props & Hp & Hg). cbn [omap_list bind] in Hg. exists props. split; [exact Hp|].
  destruct tag as [[t nm]|]; [inversion Hg; split; reflexivity | destruct props; inversion Hg; (split; reflexivity)].
Qed.

Lemma props_keys ra opt : forall fs props,
  omap_list (prop_of is_alnum is_numeric R inl gargs ra opt) (live fs) = Ok props ->
  map (fun p => p_key (fst p)) props = map (Gen.field_key ra) (live fs).
Proof.
  intros fs props Hp. apply omap_list_ok in Hp.
  induction Hp as [|fl p fs' ps Hfp _ IH]; [reflexivity|]. cbn [map]. f_equal; [|exact IH]. apply (prop_of_key ra opt fl p Hfp).
Qed.

(* ---- named fields, some of them flattened structs ------------------------------------------------ *)
Lemma conds_of_alt ps es f : alt_member (mem f) (ps, []) es = true -> conds ps es f.
Proof. intros H p t0 Hin. exact (alt_member_props _ _ _ _ H p t0 Hin). Qed.

Lemma conds_app_l ps qs es f : conds (ps ++ qs) es f -> conds ps es f.
Proof. intros H p t0 Hin. apply H. apply in_or_app. left. exact Hin. Qed.
Lemma conds_app_r ps qs es f : conds (ps ++ qs) es f -> conds qs es f.
Proof. intros H p t0 Hin. apply H. apply in_or_app. right. exact Hin. Qed.

Lemma conds_transfer ps es es' f : conds ps es f -> (forall k, In k (pkeys ps) -> assoc k es' = assoc k es) -> conds ps es' f.
Proof.
  intros H Hsame p t0 Hin. rewrite Hsame; [apply H; exact Hin|]. unfold pkeys.
  change (p_key p) with ((fun q : phead * tsty => p_key (fst q)) (p, t0)). apply in_map. exact Hin.
Qed.

Lemma is_flat_dflat fl : dflat fl -> is_flat fl = true.
Proof. intros (Hf & Hty0 & _). unfold is_flat. rewrite Hf, Hty0. reflexivity. Qed.

Lemma dnfield_noflat opt fl : dnfield opt fl -> f_flatten fl = false -> dfield opt fl.
Proof. intros [H|H] Hf; [exact H|]. destruct H as (Hfl & _). congruence. Qed.

Lemma field_ty_dflat opt fl : dflat fl -> field_ty gargs opt fl = rsubst gargs (f_ty fl).
Proof.
  intros (_ & _ & _ & _ & _ & Hfo & _ & Hfs). unfold field_ty, field_optional. rewrite Hfo.
  destruct (f_ty fl); try contradiction. destruct opt as [|[|]]; reflexivity.
Qed.

(* the fields read from an object: the own ones as before, a flattened struct by whoever knows that it is read *)
Lemma named_acc2 ra opt : forall fs props es f,
  Forall (dnfield opt) fs ->
  omap_list (prop_of is_alnum is_numeric R inl gargs ra opt) (filter (fun fl => negb (is_flat fl)) (live fs)) = Ok props ->
  f <= F -> conds (map (fun p => (fst p, ts (snd p))) props) es f ->
  (forall fl, In fl fs -> dflat fl -> f_skip fl = false -> acc (dt (rsubst sargs (f_ty fl)) (JObj es))) ->
  (forall k v, assoc k es = Some v -> wf_json v = true) ->
  acc (named_de dt sargs ra fs es).
Proof.
  intros fs props es f Hd Hp Hf Hprops Hflat Hwf. unfold named_de. apply dseq_acc.
  revert props Hp Hprops Hflat. induction fs as [|fl fs IH]; intros props Hp Hprops Hflat; cbn [map]; [constructor|].
  inversion Hd as [|? ? Hdf Hdfs]; subst.
  unfold live in Hp. cbn [filter] in Hp. destruct (f_skip fl) eqn:Hskip; cbn [negb] in Hp.
  - constructor; [apply acc_ok | eapply IH; [assumption | exact Hp | exact Hprops | intros fl0 Hin; apply Hflat; right; exact Hin]].
  - cbn [filter] in Hp. destruct Hdf as [Hdf|Hdf].
    + rewrite (is_flat_d opt fl Hdf) in Hp. cbn [negb filter] in Hp.
      cbn [omap_list] in Hp. apply bind_ok in Hp as (p & Hpp & Hp). apply bind_ok in Hp as (ps & Hps & Hp). inversion Hp; subst; clear Hp.
      constructor; [|eapply IH; [assumption | exact Hps | intros p0 t0 Hin; apply Hprops; right; exact Hin | intros fl0 Hin; apply Hflat; right; exact Hin]].
      pose proof Hdf as (Hnoflat & _). rewrite Hnoflat.
      change (Serde.field_key ra fl) with (Gen.field_key ra fl).
      specialize (Hprops (fst p) (ts (snd p)) (or_introl eq_refl)). cbn [fst] in Hprops.
      rewrite (prop_of_key ra opt fl p Hpp) in Hprops. destruct (assoc (Gen.field_key ra fl) es) as [x|] eqn:Ha.
      * pose proof Hdf as (_ & _ & Hsty & _). rewrite Hsty.
        eapply field_present; [exact Hdf | exact Hpp | exact Hf | exact Hprops | eapply Hwf; exact Ha].
      * rewrite (field_absent opt fl ra p Hdf Hpp Hprops). apply acc_ok.
    + rewrite (is_flat_dflat fl Hdf) in Hp. cbn [negb filter] in Hp.
      constructor; [|eapply IH; [assumption | exact Hp | exact Hprops | intros fl0 Hin; apply Hflat; right; exact Hin]].
      pose proof Hdf as (Hfl1 & _ & Hsty & _). rewrite Hfl1, Hsty. apply Hflat; [left; reflexivity | exact Hdf | exact Hskip].
Qed.

(* every operand denotes one alternative: so does the intersection *)
Lemma inter_fold_singletons k : forall tys pss alts,
  Forall2 (fun t ps => forall a, dnf E k t = Some a -> a = [(ps, [])]) tys pss ->
  inter_fold E k tys = Some alts -> alts = [(concat pss, [])].
Proof.
  induction tys as [|t tys IH]; intros pss alts H Hf; inversion H as [|? ps ? pss' Ht Hrest]; subst.
  - cbn in Hf. inversion Hf. reflexivity.
  - cbn [inter_fold fold_right] in Hf. change (fold_right _ _ tys) with (inter_fold E k tys) in Hf.
    destruct (dnf E k t) as [a|] eqn:Hd; [|discriminate]. destruct (inter_fold E k tys) as [b|] eqn:Hb; [|discriminate].
    rewrite (Ht a eq_refl) in Hf. rewrite (IH pss' b Hrest eq_refl) in Hf. cbn [flat_map map app] in Hf. unfold alt_merge in Hf. cbn [fst snd app] in Hf.
    inversion Hf. reflexivity.
Qed.

Definition okeys (ra : option rule) (fs : list field) : list str := map (Gen.field_key ra) (filter (fun fl => negb (is_flat fl)) (live fs)).
Definition fkeys (fs : list field) : list str := concat (map (fun f => flat_keys R (f_ty f)) (filter is_flat (live fs))).

Lemma props_keys2 ra opt : forall fs props,
  omap_list (prop_of is_alnum is_numeric R inl gargs ra opt) (filter (fun fl => negb (is_flat fl)) (live fs)) = Ok props ->
  map (fun p => p_key (fst p)) props = okeys ra fs.
Proof.
  intros fs props Hp. unfold okeys. apply omap_list_ok in Hp.
  induction Hp as [|fl p fs' ps Hfp _ IH]; [reflexivity|]. cbn [map]. f_equal; [|exact IH]. apply (prop_of_key ra opt fl p Hfp).
Qed.

(* what is known of each flattened field, with its alternative *)
Lemma flats_info opt : forall fs flats,
  Forall (dnfield opt) fs ->
  omap_list (fun fl => flt (field_ty gargs opt fl)) (filter is_flat (live fs)) = Ok flats ->
  exists pss,
    Forall2 (fun x ps => forall k a, dnf E k (ts x) = Some a -> a = [(ps, [])]) flats pss /\
    map pkeys pss = map (fun f => flat_keys R (f_ty f)) (filter is_flat (live fs)) /\
    (forall es f, f <= F -> conds (concat pss) es f -> (forall k v, assoc k es = Some v -> wf_json v = true) ->
       forall fl, In fl fs -> dflat fl -> f_skip fl = false -> acc (dt (rsubst sargs (f_ty fl)) (JObj es))) /\
    (forall x, flats = [x] -> exists ps, pss = [ps] /\
       forall j f, mem f (ts x) j = true -> exists es f', j = JObj es /\ f' < f /\ alt_member (mem f') (ps, []) es = true).
Proof.
  induction fs as [|fl fs IH]; intros flats Hd Hfl.
  - cbn in Hfl. inversion Hfl; subst. exists []. repeat split; try constructor. + intros es f _ _ _ fl0 []. + intros x Hx. discriminate.
  - inversion Hd as [|? ? Hdf Hdfs]; subst. unfold live in *. cbn [filter] in Hfl |- *. destruct (f_skip fl) eqn:Hskip; cbn [negb] in Hfl |- *.
    + destruct (IH flats Hdfs Hfl) as (pss & H1 & H2 & H3 & H4). exists pss. repeat split; try assumption.
      intros es f Hf Hc Hwf fl0 [<-|Hin] Hdfl Hsk; [congruence | eapply H3; eassumption].
    + cbn [filter] in Hfl |- *. destruct Hdf as [Hdf|Hdf].
      * rewrite (is_flat_d opt fl Hdf) in Hfl |- *. cbn [filter] in Hfl |- *.
        destruct (IH flats Hdfs Hfl) as (pss & H1 & H2 & H3 & H4). exists pss. repeat split; try assumption.
        intros es f Hf Hc Hwf fl0 [<-|Hin] Hdfl Hsk; [destruct Hdf as (Hn & _); destruct Hdfl as (Hy & _); congruence | eapply H3; eassumption].
      * rewrite (is_flat_dflat fl Hdf) in Hfl |- *. cbn [filter] in Hfl |- *.
        cbn [omap_list] in Hfl. apply bind_ok in Hfl as (x & Hx & Hfl). apply bind_ok in Hfl as (xs & Hxs & Hfl). inversion Hfl; subst flats; clear Hfl.
        rewrite (field_ty_dflat opt fl Hdf) in Hx.
        pose proof Hdf as (_ & _ & _ & Hmono & Hn0 & _ & Hsm & Hfs).
        destruct (Hflatd (f_ty fl) x Hfs Hmono Hsm Hn0 Hx) as (ps & Hpk & Hdnf & Hmem & Hacc).
        destruct (IH xs Hdfs Hxs) as (pss & H1 & H2 & H3 & H4).
        exists (ps :: pss). repeat split.
        -- constructor; [exact Hdnf | exact H1].
        -- cbn [map]. f_equal; [exact Hpk | exact H2].
        -- intros es f Hf Hc Hwf fl0 [<-|Hin] Hdfl Hsk.
           ++ apply (Hacc es f Hf); [cbn [concat] in Hc; eapply conds_app_l; exact Hc | exact Hwf].
           ++ eapply H3; [exact Hf | cbn [concat] in Hc; eapply conds_app_r; exact Hc | exact Hwf | exact Hin | exact Hdfl | exact Hsk].
        -- intros x0 Hx0. inversion Hx0; subst. destruct pss as [|? ?]; [|inversion H1]. exists ps. split; [reflexivity | exact Hmem].
Qed.

(* a named shape, maybe with a tag property, maybe with flattened structs: a member is an object that carries the tag, and
   every object that agrees with it on the keys of the shape is read *)
Lemma named_host ra opt fs tag r j f :
  Forall (dnfield opt) fs -> (fs <> [] \/ tag <> None) ->
  shape_gen is_alnum is_numeric R inl flt gargs ra opt tag (SNamed fs) = Ok r ->
  f <= F -> mem f (ts (fst r)) j = true -> wf_json j = true ->
  exists es, j = JObj es /\
    (forall t nm, tag = Some (t, nm) -> assoc t es = Some (JStr nm)) /\
    (forall es', (forall k, In k (okeys ra fs ++ fkeys fs) -> assoc k es' = assoc k es) ->
                 (forall k v, assoc k es' = Some v -> wf_json v = true) -> acc (named_de dt sargs ra fs es')) /\
    exists y, snd r = Some y.
Proof.
  intros Hd Hne Hg Hf Hm Hwf. cbn [shape_gen] in Hg.
  assert (Hg' : bind (omap_list (prop_of is_alnum is_numeric R inl gargs ra opt) (filter (fun fl => negb (is_flat fl)) (live fs))) (fun props =>
          bind (omap_list (fun fl => flt (field_ty gargs opt fl)) (filter is_flat (live fs))) (fun flats =>
          let props := match tag with Some (t, n0) => (quoted_head t, TLit n0) :: props | None => props end in
          let obj := TObj OStruct props in
          match props, flats with
          | _, [] => Ok (TMerged obj, Some (TMerged obj))
          | [], [x] => Ok (TMerged (TUnwrap x), Some (TMerged (TInter flats)))
          | [], _ => Ok (TMerged (TInter flats), Some (TMerged (TInter flats)))
          | _, _ => Ok (TMerged (TInter (obj :: flats)), Some (TMerged (TInter (obj :: flats))))
          end)) = Ok r).
  { destruct fs as [|f0 fs0]; [|exact Hg]. destruct tag; [exact Hg | destruct Hne as [H|H]; contradiction]. }
  clear Hg. apply bind_ok in Hg' as (props & Hp & Hg). apply bind_ok in Hg as (flats & Hfl & Hg). cbv zeta in Hg.
  destruct (flats_info opt fs flats Hd Hfl) as (pss & Hdn & Hpk & Hfacc & Hlone).
  set (xprops := match tag with Some (t, n0) => [(quoted_head t, TLit n0)] | None => [] end).
  assert (Hxp : match tag with Some (t, n0) => (quoted_head t, TLit n0) :: props | None => props end = xprops ++ props) by (unfold xprops; destruct tag as [[? ?]|]; reflexivity).
  rewrite Hxp in Hg.
  set (tsm := fun ps : list (phead * tsty) => map (fun p => (fst p, ts (snd p))) ps).
  assert (Hfk : pkeys (concat pss) = fkeys fs).
  { unfold fkeys. rewrite <- Hpk. clear. induction pss as [|ps pss IH]; cbn [concat map]; [reflexivity|]. rewrite pkeys_app, IH. reflexivity. }
  assert (Hok : pkeys (tsm props) = okeys ra fs).
  { unfold tsm, pkeys. rewrite map_map. cbn [fst]. exact (props_keys2 ra opt fs props Hp). }
  (* from what is known of the entries: the conclusion *)
  assert (Hfin : forall es f0, f0 <= F -> conds (tsm (xprops ++ props)) es f0 -> conds (concat pss) es f0 ->
            (forall t nm, tag = Some (t, nm) -> assoc t es = Some (JStr nm)) /\
            (forall es', (forall k, In k (okeys ra fs ++ fkeys fs) -> assoc k es' = assoc k es) ->
                         (forall k v, assoc k es' = Some v -> wf_json v = true) -> acc (named_de dt sargs ra fs es'))).
  { intros es f0 Hf0 Hco Hcf. split.
    - intros t nm ->. unfold xprops in Hco. specialize (Hco (quoted_head t) (TLit nm) (or_introl eq_refl)). cbn [quoted_head p_key p_optional] in Hco.
      destruct (assoc t es) as [tv|]; [|discriminate]. apply mem_lit in Hco. subst. reflexivity.
    - intros es' Hsame Hwf'.
      eapply (named_acc2 ra opt fs props es' f0 Hd Hp Hf0).
      + apply (conds_transfer _ es); [unfold tsm in Hco; rewrite map_app in Hco; eapply conds_app_r; exact Hco|].
        intros k Hk. apply Hsame. apply in_or_app. left. fold (tsm props) in Hk. rewrite Hok in Hk. exact Hk.
      + apply (Hfacc es' f0 Hf0); [|exact Hwf'].
        apply (conds_transfer _ es); [exact Hcf|]. intros k Hk. apply Hsame. apply in_or_app. right. rewrite <- Hfk. exact Hk.
      + exact Hwf'. }
  destruct flats as [|x flats'].
  - (* nothing flattened *)
    inversion Hdn; subst pss.
    assert (Hr : r = (TMerged (TObj OStruct (xprops ++ props)), Some (TMerged (TObj OStruct (xprops ++ props))))) by (destruct (xprops ++ props); inversion Hg; reflexivity).
    subst r. cbn [fst snd tsubst] in Hm |- *. apply mem_merged in Hm as (f1 & -> & Hm). apply mem_obj in Hm as (f2 & es & -> & -> & Hm).
    exists es. split; [reflexivity|]. destruct (Hfin es f2 ltac:(lia) (conds_of_alt _ _ _ Hm) (fun p t0 (H0 : In (p, t0) (concat [])) => match H0 with end)) as [H1 H2].
    split; [exact H1|]. split; [exact H2 | eauto].
  - destruct (xprops ++ props) as [|p0 ps0] eqn:Hxpp.
    + (* only flattened structs *)
      destruct flats' as [|x2 flats''].
      * inversion Hg; subst r; clear Hg. cbn [fst snd tsubst] in Hm |- *.
        destruct (Hlone x eq_refl) as (ps & -> & Hmem1).
        apply mem_merged in Hm as (f1 & -> & Hm). destruct f1 as [|f2]; [discriminate|]. cbn [memberb] in Hm.
        destruct (Hmem1 j f2 Hm) as (es & f' & -> & Hlt & Halt).
        exists es. split; [reflexivity|].
        destruct (Hfin es f' ltac:(lia) (fun p t0 (H0 : In (p, t0) (tsm [])) => match H0 with end)) as [H1 H2].
        { cbn [concat]. rewrite app_nil_r. exact (conds_of_alt _ _ _ Halt). }
        split; [exact H1|]. split; [exact H2 | eauto].
      * inversion Hg; subst r; clear Hg. cbn [fst snd tsubst] in Hm |- *.
        apply mem_merged in Hm as (f1 & -> & Hm). destruct f1 as [|f2]; [discriminate|]. cbn [memberb] in Hm.
        destruct j as [| | | | | |es]; try discriminate.
        destruct (dnf E f2 (TInter (map ts (x :: x2 :: flats'')))) as [alts|] eqn:Hdd; [|discriminate].
        destruct f2 as [|f3]; [discriminate|]. rewrite dnf_inter in Hdd.
        assert (Halts : alts = [(concat pss, [])]).
        { eapply (inter_fold_singletons f3 (map ts (x :: x2 :: flats'')) pss); [|exact Hdd].
          clear -Hdn. induction Hdn as [|y ps ys pss' Hy _ IH]; cbn [map]; constructor; [intros a Ha; exact (Hy f3 a Ha) | exact IH]. }
        subst alts. cbn [existsb] in Hm. rewrite orb_false_r in Hm.
        exists es. split; [reflexivity|].
        destruct (Hfin es (S f3) ltac:(lia) (fun p t0 (H0 : In (p, t0) (tsm [])) => match H0 with end) (conds_of_alt _ _ _ Hm)) as [H1 H2].
        split; [exact H1|]. split; [exact H2 | eauto].
    + (* own properties (or a tag) and flattened structs *)
      inversion Hg; subst r; clear Hg. cbn [fst snd tsubst] in Hm |- *.
      apply mem_merged in Hm as (f1 & -> & Hm). destruct f1 as [|f2]; [discriminate|]. cbn [memberb] in Hm.
      destruct j as [| | | | | |es]; try discriminate.
      match type of Hm with match dnf E f2 ?T with _ => _ end = true => destruct (dnf E f2 T) as [alts|] eqn:Hdd; [|discriminate] end.
      destruct f2 as [|f3]; [discriminate|]. cbn [map] in Hdd. rewrite dnf_inter in Hdd.
      assert (Halts : alts = [(concat (tsm (p0 :: ps0) :: pss), [])]).
      { eapply (inter_fold_singletons f3 (TObj OStruct (tsm (p0 :: ps0)) :: map ts (x :: flats')) (tsm (p0 :: ps0) :: pss)); [|exact Hdd].
        constructor.
        - intros a Ha. destruct f3 as [|f4]; [discriminate|]. cbn [dnf] in Ha. inversion Ha. reflexivity.
        - clear -Hdn. induction Hdn as [|y ps ys pss' Hy _ IH]; cbn [map]; constructor; [intros a Ha; exact (Hy f3 a Ha) | exact IH]. }
      subst alts. cbn [existsb concat] in Hm. rewrite orb_false_r in Hm.
      exists es. split; [reflexivity|].
      destruct (Hfin es (S f3) ltac:(lia)) as [H1 H2].
      { eapply conds_app_l. exact (conds_of_alt _ _ _ Hm). }
      { eapply conds_app_r. exact (conds_of_alt _ _ _ Hm). }
      split; [exact H1|]. split; [exact H2 | eauto].
Qed.

(* the content of a struct / a variant *)
Lemma shape_acc sq ra opt s r j f :
  dshape opt s ->
  shape_gen is_alnum is_numeric R inl flt gargs ra opt None s = Ok r ->
  f <= F -> mem f (ts (fst r)) j = true -> wf_json j = true ->
  acc (shape_de dt sq sargs ra s j).
Proof.
  intros Hd Hg Hf Hm Hwf. destruct s as [|fs|fs].
  - cbn in Hg. inversion Hg; subst. cbn [fst tsubst] in Hm. apply mem_null in Hm. subst. apply acc_ok.
  - destruct fs as [|fl [|f2 fs]].
    + cbn in Hg. inversion Hg; subst. cbn [fst tsubst] in Hm. apply mem_neverarr in Hm. subst. cbn. apply acc_ok.
    + destruct Hd as [Hdf Hsk]. cbn [shape_gen] in Hg. rewrite Hsk in Hg.
      apply bind_ok in Hg as (a & Ha & Hg). inversion Hg; subst. cbn [fst] in Hm. rewrite (value_ty_d opt fl Hdf) in Ha.
      cbn [shape_de]. apply dbind_acc; [|intros; apply acc_ok].
      pose proof Hdf as (_ & _ & Hsty & Hmono & Hinl0 & Hsm & _). rewrite Hsty.
      eapply (Hty (f_inline fl) (f_ty fl) a j f); eassumption.
    + cbn [De_proofs.dshape] in Hd. cbn [shape_gen] in Hg. apply bind_ok in Hg as (tys & Htys & Hg). inversion Hg; subst.
      cbn [fst tsubst] in Hm. apply mem_tuple in Hm as (f' & l & -> & -> & Hm). cbn [shape_de].
      destruct (tuple_acc opt (fl :: f2 :: fs) tys l f' Hd Htys ltac:(lia) Hm (fun y Hy => wf_arr _ _ Hwf Hy)) as (rs & -> & Hacc).
      apply dseq_acc. exact Hacc.
  - cbn [De_proofs.dshape] in Hd. destruct fs as [|fl fs'].
    + cbn in Hg. inversion Hg; subst. cbn [fst tsubst] in Hm. apply mem_recnever in Hm. subst. cbn. apply acc_ok.
    + assert (Hne : fl :: fs' <> [] \/ @None (str * str) <> None) by (left; discriminate).
      destruct (named_host ra opt (fl :: fs') None r j f Hd Hne Hg Hf Hm Hwf) as (es & -> & _ & Hacc & _). cbn [shape_de].
      apply Hacc; [intros; reflexivity | intros k v Hk; eapply wf_obj_assoc; eassumption].
Qed.

(* a named shape carrying a tag property: the tag is there, and the fields are read from the entries — all of them
   (struct-level tag) or those left when the tag is taken out (struct variant of an internally tagged enum) *)
Lemma tagged_named_acc ra opt fs t nm r j f :
  Forall (dnfield opt) fs -> ~ In t (all_keys R ra fs) ->
  shape_gen is_alnum is_numeric R inl flt gargs ra opt (Some (t, nm)) (SNamed fs) = Ok r ->
  f <= F -> mem f (ts (fst r)) j = true -> wf_json j = true ->
  exists es, j = JObj es /\ assoc t es = Some (JStr nm) /\
    acc (named_de dt sargs ra fs es) /\ acc (named_de dt sargs ra fs (remove_key t es)) /\ exists y, snd r = Some y.
Proof.
  intros Hd Hnin Hg Hf Hm Hwf.
  assert (Hne : fs <> [] \/ Some (t, nm) <> None) by (right; discriminate).
  destruct (named_host ra opt fs (Some (t, nm)) r j f Hd Hne Hg Hf Hm Hwf) as (es & -> & Htag & Hacc & Hy).
  exists es. split; [reflexivity|]. split; [exact (Htag t nm eq_refl)|]. split; [|split; [|exact Hy]].
  - apply Hacc; [intros; reflexivity | intros k v Hk; eapply wf_obj_assoc; eassumption].
  - apply Hacc; [|apply wf_remove_key; exact Hwf].
    intros k Hk. apply assoc_remove_key. intros ->. apply Hnin. exact Hk.
Qed.

Lemma tagged_snd ra opt fs t nm r :
  shape_gen is_alnum is_numeric R inl flt gargs ra opt (Some (t, nm)) (SNamed fs) = Ok r -> exists y, snd r = Some y.
Proof.
  intros Hg. cbn [shape_gen] in Hg.
  assert (Hg' : bind (omap_list (prop_of is_alnum is_numeric R inl gargs ra opt) (filter (fun fl => negb (is_flat fl)) (live fs))) (fun props =>
          bind (omap_list (fun fl => flt (field_ty gargs opt fl)) (filter is_flat (live fs))) (fun flats =>
          let props := (quoted_head t, TLit nm) :: props in
          let obj := TObj OStruct props in
          match props, flats with
          | _, [] => Ok (TMerged obj, Some (TMerged obj))
          | [], [x] => Ok (TMerged (TUnwrap x), Some (TMerged (TInter flats)))
          | [], _ => Ok (TMerged (TInter flats), Some (TMerged (TInter flats)))
          | _, _ => Ok (TMerged (TInter (obj :: flats)), Some (TMerged (TInter (obj :: flats))))
          end)) = Ok r).
  { destruct fs as [|f0 fs0]; exact Hg. }
  clear Hg. apply bind_ok in Hg' as (props & _ & Hg). apply bind_ok in Hg as (flats & _ & Hg). cbv zeta in Hg.
  destruct flats as [|x fl']; inversion Hg; cbn [snd]; eexists; reflexivity.
Qed.

(* ---- variants ------------------------------------------------------------------------------------ *)
Notation vname a v := (Gen.variant_name is_upper (c_rename_all a) v).
Notation dvariant := (dvariant R n).

Lemma find_variant_live a : forall vs v i,
  NoDup (map (fun v => vname a v) (live_variants vs)) -> In v vs -> v_skip v = false ->
  exists i', find_variant is_upper a (vname a v) i vs = Some (i', v).
Proof.
  induction vs as [|v0 vs IH]; intros v i Hnd Hin Hsk; [destruct Hin|].
  cbn [find_variant]. change (Serde.variant_name is_upper (c_rename_all a) v0) with (vname a v0).
  unfold live_variants in Hnd. cbn [filter] in Hnd.
  destruct (v_skip v0) eqn:Hs0; cbn [negb andb] in Hnd |- *.
  - destruct Hin as [->|Hin]; [congruence|]. apply IH; assumption.
  - cbn [map] in Hnd. inversion Hnd as [|? ? Hnin Hnd']; subst.
    destruct (str_eqb (vname a v0) (vname a v)) eqn:Heq.
    + apply str_eqb_true in Heq. destruct Hin as [->|Hin]; [eauto|]. exfalso. apply Hnin. rewrite Heq.
      apply (in_map (fun v => vname a v)). apply filter_In. split; [exact Hin | rewrite Hsk; reflexivity].
    + destruct Hin as [->|Hin]; [rewrite str_eqb_refl' in Heq; discriminate|]. apply IH; assumption.
Qed.

Lemma untagged_acc raf j : forall vs v i, In v vs -> v_skip v = false ->
  acc (shape_de dt false sargs (variant_ra raf v) (v_shape v) j) -> acc (untagged_de dt sargs raf i vs j).
Proof.
  induction vs as [|v0 vs IH]; intros v i Hin Hsk Hacc; [destruct Hin|]. cbn [untagged_de].
  destruct (v_skip v0) eqn:Hs0.
  - destruct Hin as [->|Hin]; [congruence|]. eapply IH; eassumption.
  - destruct (shape_de dt false sargs (variant_ra raf v0) (v_shape v0) j) eqn:Hd.
    + apply acc_ok.
    + unfold acc. destruct (untagged_de dt sargs raf (S i) vs j); discriminate.
    + destruct Hin as [->|Hin]; [exfalso; apply Hacc; exact Hd|]. eapply IH; eassumption.
Qed.

(* what the generator writes for a variant of the fragment, by representation *)
Lemma variant_gen_plain a tg raf v x : dvariant tg raf v ->
  variant_gen is_upper is_alnum is_numeric R inl flt gargs a tg raf v = Ok x ->
  let name := vname a v in
  let ra := variant_rename_all raf v in
  let sg tag := shape_gen is_alnum is_numeric R inl flt gargs ra NotOptional tag (v_shape v) in
  match tg with
  | External =>
      match v_shape v with
      | SUnit => x = TLit name
      | _ => exists vt, sg None = Ok vt /\ x = TObj OVariant [(quoted_head name, fst vt)]
      end
  | Internal t =>
      match v_shape v with
      | SUnit => x = TObj OVariant [(quoted_head t, TLit name)]
      | SNamed _ => exists vt, sg (Some (t, name)) = Ok vt /\ x = fst vt
      | STuple _ => exists vt, sg None = Ok vt /\ x = TInter [TObj OVariant [(quoted_head t, TLit name)]; fst vt]
      end
  | Adjacent t c =>
      match v_shape v with
      | SUnit => x = TObj OVariant [(quoted_head t, TLit name)]
      | _ => exists vt, sg None = Ok vt /\ x = TObj OVariant [(quoted_head t, TLit name); (quoted_head c, fst vt)]
      end
  | Untagged => exists vt, sg None = Ok vt /\ x = fst vt
  end.
Proof.
  intros (Hty0 & Has & Hun & Hsh & Htg) Hg. cbv zeta. unfold variant_gen in Hg. rewrite Hun in Hg. rewrite Has, Hty0 in Hg.
  set (name := vname a v) in *. set (ra := variant_rename_all raf v) in *.
  assert (Hlone : match v_shape v with STuple [f] => f_skip f | _ => false end = false).
  { destruct (v_shape v) as [|[|f [|? ?]]|]; try reflexivity. cbn in Hsh. tauto. }
  apply bind_ok in Hg as (vt & Hvt & Hg). cbn [bind] in Hg.
  destruct tg as [|t|t c|].
  - cbn [andb] in Hvt. replace (match is_named (v_shape v) && negb false with true => None | false => None end) with (@None (str * str)) in Hvt by (destruct (is_named (v_shape v)); reflexivity).
    destruct (v_shape v) as [|fs|fs] eqn:Hshape.
    + inversion Hg; reflexivity.
    + exists vt. split; [exact Hvt|]. destruct (lone_field (STuple fs)) as [fl|] eqn:Hl; [|inversion Hg; reflexivity].
      destruct fs as [|f0 [|? ?]]; try discriminate. inversion Hl; subst. rewrite Hlone in Hg. inversion Hg; reflexivity.
    + exists vt. split; [exact Hvt|]. cbn in Hg. inversion Hg; reflexivity.
  - destruct (v_shape v) as [|fs|fs] eqn:Hshape.
    + cbn in Hvt. inversion Hvt; subst. cbn [snd] in Hg. inversion Hg; reflexivity.
    + destruct fs as [|f0 [|f2 fs']]; try contradiction. cbn [is_named andb] in Hvt. exists vt. split; [exact Hvt|].
      destruct Hsh as [Hdf Hsk]. cbn [shape_gen] in Hvt. rewrite Hsk in Hvt. apply bind_ok in Hvt as (a0 & _ & Hvt). inversion Hvt; subst vt.
      cbn [snd fst lone_field] in Hg. rewrite Hsk in Hg. inversion Hg; reflexivity.
    + cbn [is_named andb negb] in Hvt. exists vt. split; [exact Hvt|].
      destruct (tagged_snd ra NotOptional fs t name vt Hvt) as (y & Hy). rewrite Hy in Hg. inversion Hg; reflexivity.
  - cbn [andb] in Hvt. replace (match is_named (v_shape v) && negb false with true => None | false => None end) with (@None (str * str)) in Hvt by (destruct (is_named (v_shape v)); reflexivity).
    destruct (v_shape v) as [|fs|fs] eqn:Hshape.
    + inversion Hg; reflexivity.
    + exists vt. split; [exact Hvt|]. destruct (lone_field (STuple fs)) as [fl|] eqn:Hl; [|inversion Hg; reflexivity].
      destruct fs as [|f0 [|? ?]]; try discriminate. inversion Hl; subst. rewrite Hlone in Hg. inversion Hg; reflexivity.
    + exists vt. split; [exact Hvt|]. cbn in Hg. inversion Hg; reflexivity.
  - cbn [andb] in Hvt. replace (match is_named (v_shape v) && negb false with true => None | false => None end) with (@None (str * str)) in Hvt by (destruct (is_named (v_shape v)); reflexivity).
    exists vt. split; [exact Hvt|]. inversion Hg; reflexivity.
Qed.

Lemma Forall2_in_r' {A B} (P : A -> B -> Prop) l l' y : Forall2 P l l' -> In y l' -> exists x, In x l /\ P x y.
Proof.
  induction 1 as [|a b l l' Hab _ IH]; cbn; intros Hin; [contradiction|].
  destruct Hin as [->|Hin]; [exists a; split; [left; reflexivity|exact Hab]|].
  destruct (IH Hin) as (x & Hx & Hp). exists x. split; [right; exact Hx|exact Hp].
Qed.

(* the tag property of a variant object *)
Lemma tag_entry f t name rest l :
  alt_member (mem f) ((quoted_head t, TLit name) :: rest, []) l = true -> assoc t l = Some (JStr name).
Proof.
  intros Hm. pose proof (alt_member_props _ _ _ _ Hm (quoted_head t) (TLit name) (or_introl eq_refl)) as Ht.
  cbn [quoted_head p_key p_optional] in Ht. destruct (assoc t l) as [tv|]; [|discriminate]. apply mem_lit in Ht. subst. reflexivity.
Qed.

Lemma enum_acc a tg raf vs r j f :
  c_type a = None -> c_as a = None ->
  Forall (fun v => v_skip v = false -> dvariant tg raf v) vs ->
  names_distinct is_upper a tg vs ->
  def_body is_upper is_alnum is_numeric R inl flt (DEnum a tg raf vs) gargs = Ok r ->
  f <= F -> mem f (ts (fst r)) j = true -> wf_json j = true ->
  acc (def_de is_upper dt (DEnum a tg raf vs) sargs j).
Proof.
  intros Hty0 Has Hpl Hnames Hg Hf Hm Hwf. unfold def_body in Hg. cbn [attrs_of] in Hg. rewrite Hty0, Has in Hg.
  destruct vs as [|v0 vs0]; [inversion Hg; subst; cbn [fst tsubst] in Hm; rewrite mem_never in Hm; discriminate|].
  remember (v0 :: vs0) as vs eqn:Hvs. clear Hvs v0 vs0.
  apply bind_ok in Hg as (l & Hl & Hg). apply omap_list_ok in Hl.
  destruct l as [|x0 l0]; [inversion Hg; subst; cbn [fst tsubst] in Hm; rewrite mem_never in Hm; discriminate|].
  remember (x0 :: l0) as l eqn:Hleq. inversion Hg; subst r; clear Hg. cbn [fst tsubst] in Hm.
  apply mem_union in Hm as (f1 & u & -> & Hu & Hm). apply in_map_iff in Hu as (x & <- & Hx).
  destruct (Forall2_in_r' _ _ _ x Hl Hx) as (v & Hv & Hgen). unfold live_variants in Hv. apply filter_In in Hv as [Hin Hsk].
  apply negb_true_iff in Hsk. rewrite Forall_forall in Hpl. pose proof (Hpl v Hin Hsk) as Hpv.
  pose proof (variant_gen_plain a tg raf v x Hpv Hgen) as Hx'. cbv zeta in Hx'.
  pose proof Hpv as (_ & _ & _ & Hsh & Hkd).
  change (variant_rename_all raf v) with (variant_ra raf v) in *.
  destruct tg as [|t|t c|]; cbn [def_de].
  - (* externally tagged *)
    destruct (find_variant_live a vs v 0 Hnames Hin Hsk) as (i' & Hfind).
    destruct (v_shape v) as [|fs|fs] eqn:Hshape.
    + subst x. cbn [tsubst] in Hm. apply mem_lit in Hm. subst j. rewrite Hfind, Hshape. apply acc_ok.
    + destruct Hx' as (vt & Hvt & ->). cbn [tsubst map fst snd] in Hm. apply mem_obj in Hm as (f2 & es & -> & -> & Hm).
      pose proof (alt_member_props _ _ _ _ Hm (quoted_head (vname a v)) (ts (fst vt)) (or_introl eq_refl)) as Hc. cbn [quoted_head p_key p_optional] in Hc.
      destruct (assoc (vname a v) es) as [cv|] eqn:Hac; [|discriminate].
      assert (Hes : es = [(vname a v, cv)]).
      { apply single_entry; [apply wf_obj_nodup; exact Hwf | | exact Hac]. intros e He.
        destruct (alt_member_keys _ _ _ Hm e He) as (p & t' & [Heq|[]] & Hk). inversion Heq; subst. symmetry. exact Hk. }
      subst es. rewrite Hfind. apply dbind_acc; [|intros; apply acc_ok]. rewrite Hshape.
      eapply shape_acc; [exact Hsh | exact Hvt | | exact Hc | eapply wf_obj_in; [exact Hwf | left; reflexivity]]. lia.
    + destruct Hx' as (vt & Hvt & ->). cbn [tsubst map fst snd] in Hm. apply mem_obj in Hm as (f2 & es & -> & -> & Hm).
      pose proof (alt_member_props _ _ _ _ Hm (quoted_head (vname a v)) (ts (fst vt)) (or_introl eq_refl)) as Hc. cbn [quoted_head p_key p_optional] in Hc.
      destruct (assoc (vname a v) es) as [cv|] eqn:Hac; [|discriminate].
      assert (Hes : es = [(vname a v, cv)]).
      { apply single_entry; [apply wf_obj_nodup; exact Hwf | | exact Hac]. intros e He.
        destruct (alt_member_keys _ _ _ Hm e He) as (p & t' & [Heq|[]] & Hk). inversion Heq; subst. symmetry. exact Hk. }
      subst es. rewrite Hfind. apply dbind_acc; [|intros; apply acc_ok]. rewrite Hshape.
      eapply shape_acc; [exact Hsh | exact Hvt | | exact Hc | eapply wf_obj_in; [exact Hwf | left; reflexivity]]. lia.
  - (* internally tagged *)
    destruct (find_variant_live a vs v 0 Hnames Hin Hsk) as (i' & Hfind).
    destruct (v_shape v) as [|fs|fs] eqn:Hshape.
    + subst x. cbn [tsubst map fst snd] in Hm. apply mem_obj in Hm as (f2 & es & -> & -> & Hm).
      rewrite (tag_entry _ _ _ _ _ Hm), Hfind, Hshape. apply acc_ok.
    + (* a newtype variant around a struct *)
      destruct fs as [|f0 [|f2 fs']]; try contradiction. destruct Hkd as [Hni Hct]. destruct Hsh as [Hdf Hskf].
      destruct Hx' as (vt & Hvt & ->). cbn [shape_gen] in Hvt. rewrite Hskf in Hvt. apply bind_ok in Hvt as (a0 & Ha0 & Hvt). inversion Hvt; subst vt; clear Hvt.
      rewrite (value_ty_d NotOptional f0 Hdf) in Ha0. unfold tytext in Ha0. rewrite Hni in Ha0. cbn [fst tsubst map snd] in Hm.
      pose proof Hdf as (_ & _ & Hsty & Hmono & _ & Hsm & _).
      assert (Hf1 : f1 <= F) by lia.
      destruct (Hcontent t (vname a v) (f_ty f0) a0 j f1 Hct Hmono Hsm Ha0 Hf1 Hm Hwf) as (es & -> & Hat & Hacc).
      rewrite Hat, Hfind, Hshape. apply dbind_acc; [|intros; apply acc_ok]. cbn [shape_de]. apply dbind_acc; [|intros; apply acc_ok].
      rewrite Hsty. exact Hacc.
    + destruct Hx' as (vt & Hvt & ->). cbn [tag_free] in Hkd. cbn [De_proofs.dshape] in Hsh.
      assert (Hf1 : f1 <= F) by lia.
      destruct (tagged_named_acc (variant_ra raf v) NotOptional fs t (vname a v) vt j f1 Hsh Hkd Hvt Hf1 Hm Hwf) as (es & -> & Hat & _ & Hacc & _).
      rewrite Hat, Hfind, Hshape. apply dbind_acc; [|intros; apply acc_ok]. cbn [shape_de]. exact Hacc.
  - (* adjacently tagged *)
    destruct (find_variant_live a vs v 0 Hnames Hin Hsk) as (i' & Hfind).
    destruct (v_shape v) as [|fs|fs] eqn:Hshape.
    + subst x. cbn [tsubst map fst snd] in Hm. apply mem_obj in Hm as (f2 & es & -> & -> & Hm).
      rewrite (tag_entry _ _ _ _ _ Hm), Hfind, Hshape. apply acc_ok.
    + destruct Hx' as (vt & Hvt & ->). cbn [tsubst map fst snd] in Hm. apply mem_obj in Hm as (f2 & es & -> & -> & Hm).
      rewrite (tag_entry _ _ _ _ _ Hm), Hfind, Hshape.
      pose proof (alt_member_props _ _ _ _ Hm (quoted_head c) (ts (fst vt)) (or_intror (or_introl eq_refl))) as Hc. cbn [quoted_head p_key p_optional] in Hc.
      destruct (assoc c es) as [cv|] eqn:Hac; [|discriminate]. apply dbind_acc; [|intros; apply acc_ok].
      eapply shape_acc; [exact Hsh | exact Hvt | | exact Hc | eapply wf_obj_assoc; eassumption]. lia.
    + destruct Hx' as (vt & Hvt & ->). cbn [tsubst map fst snd] in Hm. apply mem_obj in Hm as (f2 & es & -> & -> & Hm).
      rewrite (tag_entry _ _ _ _ _ Hm), Hfind, Hshape.
      pose proof (alt_member_props _ _ _ _ Hm (quoted_head c) (ts (fst vt)) (or_intror (or_introl eq_refl))) as Hc. cbn [quoted_head p_key p_optional] in Hc.
      destruct (assoc c es) as [cv|] eqn:Hac; [|discriminate]. apply dbind_acc; [|intros; apply acc_ok].
      eapply shape_acc; [exact Hsh | exact Hvt | | exact Hc | eapply wf_obj_assoc; eassumption]. lia.
  - (* untagged *)
    destruct Hx' as (vt & Hvt & ->). eapply untagged_acc; [exact Hin | exact Hsk|].
    eapply shape_acc; [exact Hsh | exact Hvt | | exact Hm | exact Hwf]. lia.
Qed.

Lemma struct_acc a s r j f :
  c_type a = None -> c_as a = None -> dshape (c_optional_fields a) s ->
  match c_tag a with
  | None => True
  | Some t => exists fs, s = SNamed fs /\ ~ In t (all_keys R (c_rename_all a) fs)
  end ->
  def_body is_upper is_alnum is_numeric R inl flt (DStruct a s) gargs = Ok r ->
  f <= F -> mem f (ts (fst r)) j = true -> wf_json j = true ->
  acc (def_de is_upper dt (DStruct a s) sargs j).
Proof.
  intros Hty0 Has Hsh Htag Hg Hf Hm Hwf. unfold def_body in Hg. cbn [attrs_of] in Hg. rewrite Hty0, Has in Hg. cbn [def_de].
  destruct (c_tag a) as [t|].
  - destruct Htag as (fs & -> & Hnd). cbn [De_proofs.dshape] in Hsh.
    destruct (tagged_named_acc (c_rename_all a) (c_optional_fields a) fs t _ r j f Hsh Hnd Hg Hf Hm Hwf) as (es & -> & _ & Hacc & _ & _).
    cbn [shape_de]. exact Hacc.
  - eapply shape_acc; eassumption.
Qed.

Lemma def_acc d r j f :
  def_ok is_upper R n d ->
  def_body is_upper is_alnum is_numeric R inl flt d gargs = Ok r ->
  f <= F -> mem f (ts (fst r)) j = true -> wf_json j = true ->
  acc (def_de is_upper dt d sargs j).
Proof.
  intros (Hty0 & Has & Hps & Hd) Hg Hf Hm Hwf. destruct d as [a s|a tg raf vs]; cbn [attrs_of] in *.
  - destruct Hd as (Hsh & Htag). eapply struct_acc; eassumption.
  - destruct Hd as [Hvs Hnm]. eapply enum_acc; eassumption.
Qed.
End DeLayer.

(* ============================ the knot ========================================================== *)
Lemma de_option_acc R dd u j : acc (de_ty R dd u j) -> acc (de_ty R dd (ROption u) j).
Proof. intros H. cbn [de_ty]. destruct j; try apply acc_ok; (apply dbind_acc; [exact H | intros; apply acc_ok]). Qed.

Section DeKnot.
Variable is_upper is_alnum is_numeric : char -> bool.
Variable R : env.
Variable gf : nat.

Notation gen := (Gen.gen is_upper is_alnum is_numeric R).
Notation decl_of := (Gen.decl_of is_upper is_alnum is_numeric R).
Notation mono_ty := (mono_ty R).
Notation E := (env_of is_upper is_alnum is_numeric R gf).

(* every definition is in the fragment, gets a declaration, and declaration names are distinct *)
Definition de_envb : bool :=
  forallb (fun p => def_okb is_upper R (snd p) && is_ok (decl_of gf (snd p))) R &&
  nodupb (map (fun p => ts_ident (snd p)) R) && src_env R.

Hypothesis Hde : de_envb = true.

Lemma de_env_facts id d : lookup R id = Some d ->
  def_ok is_upper R (nparams d) d /\ NoDup (map fst (c_params (attrs_of d))) /\
  exists dc, dlookup E (ts_ident d) = Some dc /\ decl_of gf d = Ok dc.
Proof.
  unfold de_envb in Hde. apply andb_true_iff in Hde as [Hde0 _]. apply andb_true_iff in Hde0 as [Hall Hnd].
  rewrite forallb_forall in Hall. apply nodupb_NoDup in Hnd.
  intros Hlk. pose proof (lookup_in id d R Hlk) as Hin. specialize (Hall _ Hin) as Hd. cbn [snd] in Hd.
  apply andb_true_iff in Hd as [Hp _]. destruct (def_okb_ok is_upper R d Hp) as [Hpd Hnp]. split; [exact Hpd|]. split; [exact Hnp|].
  refine (dlookup_env_of is_upper is_alnum is_numeric R gf R _ Hnd id d Hin).
  intros p Hp'. specialize (Hall p Hp'). apply andb_true_iff in Hall as [_ H2]. exact H2.
Qed.

Lemma de_env_src : env_ok R.
Proof. apply src_env_ok. unfold de_envb in Hde. apply andb_true_iff in Hde as [_ H]. exact H. Qed.

Lemma closed_inline_text g' t0 a0 : pmono R 0 t0 = true -> lib_inline R (gen g') t0 = Ok a0 -> ftv a0 = [].
Proof.
  intros H0 Ha. pose proof (lib_inline_scoped R _ (gen_scoped is_upper is_alnum is_numeric R de_env_src g') _ _ Ha) as Hi.
  rewrite (rdummies_closed _ (pmono_src R 0 _ H0)) in Hi. destruct (ftv a0) as [|x l0]; [reflexivity|]. exfalso. exact (Hi x (or_introl eq_refl)).
Qed.
Lemma closed_flat_text g' t0 a0 : pmono R 0 t0 = true -> lib_flat R (gen g') t0 = Ok a0 -> ftv a0 = [].
Proof.
  intros H0 Ha. pose proof (lib_flat_scoped R _ (gen_scoped is_upper is_alnum is_numeric R de_env_src g') _ _ Ha) as Hi.
  rewrite (rdummies_closed _ (pmono_src R 0 _ H0)) in Hi. destruct (ftv a0) as [|x l0]; [reflexivity|]. exfalso. exact (Hi x (or_introl eq_refl)).
Qed.

Lemma gen_ok_unfold g d args r : gen g d args = Ok r ->
  exists g', g = S g' /\ def_body is_upper is_alnum is_numeric R (lib_inline R (gen g')) (lib_flat R (gen g')) d args = Ok r.
Proof. destruct g as [|g']; [cbn; discriminate|]. cbn [Gen.gen]. eauto. Qed.

(* de's recursion depth: one unit per definition entered; between two reference unfoldings of the membership at most gf
   definitions are entered through `inline` *)
Definition PA (F : nat) : Prop := forall n t a j f,
  F * S gf <= n -> f <= F -> mono_ty t = true -> small_arr t = true -> name_of R t = Ok a ->
  memberb E f a j = true -> wf_json j = true -> acc (de is_upper R n t j).
Definition PB (F g : nat) : Prop := forall n t a j f,
  F * S gf + g <= n -> f <= F -> mono_ty t = true -> small_arr t = true -> lib_inline R (gen g) t = Ok a ->
  memberb E f a j = true -> wf_json j = true -> acc (de is_upper R n t j).

Lemma mem_fuel_pos f t j : memberb E f t j = true -> 1 <= f.
Proof. destruct f; [discriminate | lia]. Qed.

(* what def_acc / named_acc need of the types of a definition whose declaration is read at the names of the arguments *)
Lemma hty_A F1 (HA : PA F1) (HB : forall g, PB F1 g) d args l ps g' n1 :
  length args = nparams d -> forallb mono_ty args = true -> forallb small_arr args = true ->
  omap_list (name_of R) args = Ok l -> NoDup (map fst (c_params (attrs_of d))) -> map fst ps = map fst (c_params (attrs_of d)) ->
  F1 * S gf + g' <= n1 ->
  forall b t0 a0 j0 f0, pmono R (nparams d) t0 = true -> small_arr t0 = true -> (b = true -> pmono R 0 t0 = true) ->
    tytext R (lib_inline R (gen g')) (dummies (attrs_of d)) b t0 = Ok a0 -> f0 <= F1 ->
    memberb E f0 (tsubst (bind_params ps l) (bind_params ps l) a0) j0 = true -> wf_json j0 = true ->
    acc (de_ty R (SerdeDe.ddef is_upper R n1) (rsubst args t0) j0).
Proof.
  intros Hlen Hargs Hsargs Hl Hnp Hps Hn1 b t0 a0 j0 f0 Hpm Hsa Hb Ha0 Hf0 Hm0 Hwf0.
  assert (Hmono : mono_ty (rsubst args t0) = true).
  { apply (pmono_subst R (nparams d) args); [apply Forall_forall; rewrite forallb_forall in Hargs; exact Hargs | exact Hlen | exact Hpm]. }
  assert (Hsmall : small_arr (rsubst args t0) = true) by (apply small_arr_subst; assumption).
  unfold tytext in Ha0. destruct b.
  - (* inline: the type of the field is closed, so is its text *)
    specialize (Hb eq_refl). pose proof (pmono_src R 0 _ Hb) as Hsrc0.
    rewrite (rsubst_closed (dummies (attrs_of d)) _ Hsrc0) in Ha0. rewrite (rsubst_closed args _ Hsrc0) in Hmono, Hsmall |- *.
    rewrite (tsubst_closed _ _ _ (closed_inline_text g' t0 a0 Hb Ha0)) in Hm0.
    eapply (HB g' n1 _ a0 j0 f0); [exact Hn1 | exact Hf0 | exact Hmono | exact Hsmall | exact Ha0 | exact Hm0 | exact Hwf0].
  - rewrite dummies_eq in Ha0.
    eapply (HA n1 (rsubst args t0) (tsubst (bind_params ps l) (bind_params ps l) a0) j0 f0);
      [lia | exact Hf0 | exact Hmono | exact Hsmall | | exact Hm0 | exact Hwf0].
    exact (name_of_tsubst R (nparams d) (map fst (c_params (attrs_of d))) args l ps Hnp Hps (map_length _ _) Hl Hlen t0 a0 Hpm Ha0).
Qed.

Lemma de_option_acc' n1 u j : acc (de_ty R (SerdeDe.ddef is_upper R n1) u j) -> acc (de_ty R (SerdeDe.ddef is_upper R n1) (ROption u) j).
Proof. apply de_option_acc. Qed.

(* ... and of a definition generated at the arguments themselves (inline / flatten) *)
Lemma hty_B F (HA : PA F) g'' (HBg : PB F g'') d args n1 :
  length args = nparams d -> forallb mono_ty args = true -> forallb small_arr args = true ->
  F * S gf + g'' <= n1 ->
  forall b t0 a0 j0 f0, pmono R (nparams d) t0 = true -> small_arr t0 = true -> (b = true -> pmono R 0 t0 = true) ->
    tytext R (lib_inline R (gen g'')) args b t0 = Ok a0 -> f0 <= F ->
    memberb E f0 (tsubst (fun _ => None) (fun _ => None) a0) j0 = true -> wf_json j0 = true ->
    acc (de_ty R (SerdeDe.ddef is_upper R n1) (rsubst args t0) j0).
Proof.
  intros Hlen Hargs Hsargs Hn1 b t0 a0 j0 f0 Hpm Hsa Hb Ha0 Hf0 Hm0 Hwf0. rewrite tsubst_none in Hm0.
  assert (Hmono : mono_ty (rsubst args t0) = true).
  { apply (pmono_subst R (nparams d) args); [apply Forall_forall; rewrite forallb_forall in Hargs; exact Hargs | exact Hlen | exact Hpm]. }
  assert (Hsmall : small_arr (rsubst args t0) = true) by (apply small_arr_subst; assumption).
  unfold tytext in Ha0. destruct b.
  - eapply (HBg n1 _ a0 j0 f0); [exact Hn1 | exact Hf0 | exact Hmono | exact Hsmall | exact Ha0 | exact Hm0 | exact Hwf0].
  - eapply (HA n1 _ a0 j0 f0); [lia | exact Hf0 | exact Hmono | exact Hsmall | exact Ha0 | exact Hm0 | exact Hwf0].
Qed.

(* a struct flattened into a definition without parameters: its flattened form is one exact alternative over its keys, and an
   object whose entries inhabit it is read as the struct *)
Lemma flat_B F (HA : PA F) g' (HB : forall g0, g0 < g' -> PB F g0) t0 x n1 :
  flat_struct R t0 -> mono_ty t0 = true -> small_arr t0 = true -> lib_flat R (gen g') t0 = Ok x ->
  F * S gf + g' <= n1 ->
  exists ps, pkeys ps = flat_keys R t0 /\
    (forall k alts, dnf E k x = Some alts -> alts = [(ps, [])]) /\
    (forall j f, memberb E f x j = true -> exists es f', j = JObj es /\ f' < f /\ alt_member (memberb E f') (ps, []) es = true) /\
    (forall es f, f <= F ->
       (forall p t1, In (p, t1) ps -> match assoc (p_key p) es with Some v => memberb E f t1 v = true | None => p_optional p = true end) ->
       (forall k v, assoc k es = Some v -> wf_json v = true) ->
       acc (de is_upper R n1 t0 (JObj es))).
Proof.
  intros Hct Hm0 Hsm0 Hx Hn2.
  destruct t0 as [| | | | | | | | |id2 args2| |]; try contradiction.
  cbn [flat_struct flat_keys] in Hct |- *. unfold Sem_derive_proofs.mono_ty in Hm0. cbn [pmono] in Hm0. cbn [small_arr] in Hsm0. cbn [Gen.lib_flat] in Hx.
  destruct (lookup R id2) as [d2|] eqn:Hlk2; [|contradiction].
  destruct d2 as [a2 s2|]; [|contradiction]. destruct s2 as [| |fs2]; try contradiction. destruct fs2 as [|fl0 fs2]; [contradiction|].
  destruct Hct as (Htag2 & Hnofl2). apply andb_true_iff in Hm0 as [Hlen2 Hargs2]. apply Nat.eqb_eq in Hlen2.
  set (d2 := DStruct a2 (SNamed (fl0 :: fs2))) in *.
  apply bind_ok in Hx as (r2 & Hr2 & Hx).
  apply gen_ok_unfold in Hr2 as (g'' & Hg' & Hr2).
  destruct n1 as [|n2]; [lia|].
  destruct (de_env_facts _ _ Hlk2) as (Hpd2 & Hnp2 & _).
  destruct Hpd2 as (Hdty & Has & _ & Hsh2 & _). cbn [attrs_of d2] in Hdty, Has.
  unfold def_body in Hr2. cbn [attrs_of d2] in Hr2. rewrite Hdty, Has, Htag2 in Hr2.
  assert (Hne : fl0 :: fs2 <> [] \/ @None (str * str) <> None) by (left; discriminate).
  cbn [De_proofs.dshape] in Hsh2.
  assert (Hsh2' : Forall (dfield R (nparams d2) (c_optional_fields a2)) (fl0 :: fs2)).
  { rewrite Forall_forall in *. intros x0 Hx0. apply (dnfield_noflat R (nparams d2)); auto. }
  destruct (named_gen is_alnum is_numeric R (lib_inline R (gen g'')) (lib_flat R (gen g'')) (nparams d2) args2
              (c_rename_all a2) (c_optional_fields a2) None (fl0 :: fs2) r2 Hsh2' Hne Hr2) as (props2 & Hp2 & Hfr2 & Hsnd2).
  rewrite Hsnd2 in Hx. inversion Hx; subst x; clear Hx. rewrite Hfr2.
  exists props2. split.
  { unfold pkeys. exact (props_keys is_alnum is_numeric R (lib_inline R (gen g'')) args2 (c_rename_all a2) (c_optional_fields a2) (fl0 :: fs2) props2 Hp2). }
  split.
  { intros k alts Hk. destruct k as [|k1]; [discriminate|]. cbn [dnf] in Hk. destruct k1 as [|k2]; [discriminate|]. cbn [dnf] in Hk. inversion Hk. reflexivity. }
  split.
  { intros j f Hmj. apply mem_merged in Hmj as (f1 & -> & Hmj). apply mem_obj in Hmj as (f2 & es & -> & -> & Hmj). exists es, f2. repeat split; [lia | exact Hmj]. }
  intros es f Hf Hco Hwf.
  unfold de. cbn [de_ty]. rewrite Hlk2. change (SerdeDe.ddef is_upper R (S n2)) with (def_de is_upper (de_ty R (SerdeDe.ddef is_upper R n2))).
  cbn [def_de d2 shape_de].
  assert (Hsmall2 : forallb small_arr args2 = true) by exact Hsm0.
  eapply (named_acc is_alnum is_numeric R E (lib_inline R (gen g'')) (nparams d2) args2 args2 (fun _ => None) (fun _ => None)
            (de_ty R (SerdeDe.ddef is_upper R n2)) F
            (hty_B F HA g'' (HB g'' ltac:(lia)) d2 args2 n2 Hlen2 Hargs2 Hsmall2 ltac:(lia))
            (de_option_acc' n2) (c_rename_all a2) (c_optional_fields a2) (fl0 :: fs2) props2 es f Hsh2' Hp2 Hf); [|exact Hwf].
  intros p t1 Hin. rewrite tsubst_none. apply Hco. exact Hin.
Qed.

(* the content of a newtype variant of an internally tagged enum: a member of `{ tag } & Struct` carries the tag, and what is
   left when the tag is taken out is read as the struct *)
Lemma content_A F1 (HA : PA F1) (HB : forall g, PB F1 g) tg nm t0 a0 j f n2 :
  struct_content R tg t0 -> mono_ty t0 = true -> small_arr t0 = true -> name_of R t0 = Ok a0 -> f <= S F1 ->
  memberb E f (TInter [TObj OVariant [(quoted_head tg, TLit nm)]; a0]) j = true -> wf_json j = true ->
  F1 * S gf + gf <= S n2 ->
  exists es, j = JObj es /\ assoc tg es = Some (JStr nm) /\ acc (de is_upper R (S n2) t0 (JObj (remove_key tg es))).
Proof.
  intros Hct Hm0 Hsm0 Ha0 Hf Hmem Hwf Hn2.
  destruct t0 as [| | | | | | | | |id2 args2| |]; try contradiction.
  cbn [struct_content] in Hct. unfold Sem_derive_proofs.mono_ty in Hm0. cbn [pmono] in Hm0. cbn [small_arr] in Hsm0. cbn [Gen.name_of] in Ha0.
  destruct (lookup R id2) as [d2|] eqn:Hlk2; [|contradiction].
  destruct d2 as [a2 s2|]; [|contradiction]. destruct s2 as [| |fs2]; try contradiction. destruct fs2 as [|fl0 fs2]; [contradiction|].
  destruct Hct as (Htag2 & Hnin & Hnofl2). apply andb_true_iff in Hm0 as [Hlen2 Hargs2]. apply Nat.eqb_eq in Hlen2.
  apply bind_ok in Ha0 as (l2 & Hl2 & Ha0). inversion Ha0; subst a0; clear Ha0.
  set (d2 := DStruct a2 (SNamed (fl0 :: fs2))) in *.
  destruct (de_env_facts _ _ Hlk2) as (Hpd2 & Hnp2 & dc2 & Hdl2 & Hdc2).
  destruct (plain_decl is_upper is_alnum is_numeric R gf d2 dc2 Hdc2) as (r2 & Hr2 & _ & Hps2 & Hbody2).
  apply gen_ok_unfold in Hr2 as (g' & Hgf & Hr2).
  destruct Hpd2 as (Hdty & Has & _ & Hsh2 & _). cbn [attrs_of d2] in Hdty, Has.
  unfold def_body in Hr2. cbn [attrs_of d2] in Hr2. rewrite Hdty, Has, Htag2 in Hr2.
  assert (Hne : fl0 :: fs2 <> [] \/ @None (str * str) <> None) by (left; discriminate).
  cbn [De_proofs.dshape] in Hsh2.
  assert (Hsh2' : Forall (dfield R (nparams d2) (c_optional_fields a2)) (fl0 :: fs2)).
  { rewrite Forall_forall in *. intros x0 Hx0. apply (dnfield_noflat R (nparams d2)); auto. }
  clear Hsh2. rename Hsh2' into Hsh2.
  destruct (named_gen is_alnum is_numeric R (lib_inline R (gen g')) (lib_flat R (gen g')) (nparams d2) (dummies (attrs_of d2))
              (c_rename_all a2) (c_optional_fields a2) None (fl0 :: fs2) r2 Hsh2 Hne Hr2) as (props2 & Hp2 & Hfr2 & _).
  set (s2 := bind_params (d_params dc2) l2) in *.
  set (ps' := map (fun p : phead * tsty => (fst p, tsubst s2 s2 (snd p))) props2).
  (* the normal form of the intersection *)
  assert (Hdnf : forall k alts, dnf E k (TInter [TObj OVariant [(quoted_head tg, TLit nm)]; TRef (ts_ident d2) l2]) = Some alts ->
                 alts = [((quoted_head tg, TLit nm) :: ps', [])]).
  { intros k alts Hk. destruct k as [|k1]; [discriminate|]. cbn [dnf fold_right] in Hk.
    destruct k1 as [|k2]; [discriminate|]. cbn [dnf] in Hk. unfold unfold_ref in Hk. rewrite Hdl2 in Hk. rewrite Hbody2, Hfr2 in Hk. cbn [tsubst] in Hk.
    destruct k2 as [|k3]; [discriminate|]. cbn [dnf] in Hk. destruct k3 as [|k4]; [discriminate|]. cbn [dnf] in Hk.
    cbn [flat_map map app] in Hk. unfold alt_merge in Hk. cbn [fst snd app] in Hk. rewrite !app_nil_r in Hk. inversion Hk. reflexivity. }
  destruct f as [|f1]; [discriminate|]. cbn [memberb] in Hmem. destruct j as [| | | | | |es]; try discriminate.
  destruct (dnf E f1 (TInter [TObj OVariant [(quoted_head tg, TLit nm)]; TRef (ts_ident d2) l2])) as [alts|] eqn:Hd; [|discriminate].
  rewrite (Hdnf _ _ Hd) in Hmem. cbn [existsb] in Hmem. rewrite orb_false_r in Hmem.
  exists es. split; [reflexivity|].
  pose proof (alt_member_props _ _ _ _ Hmem (quoted_head tg) (TLit nm) (or_introl eq_refl)) as Ht. cbn [quoted_head p_key p_optional] in Ht.
  destruct (assoc tg es) as [tv|] eqn:Hat; [|discriminate]. apply mem_lit in Ht. subst tv. split; [reflexivity|].
  (* the fields, read from what is left *)
  unfold de. cbn [de_ty]. rewrite Hlk2. change (SerdeDe.ddef is_upper R (S n2)) with (def_de is_upper (de_ty R (SerdeDe.ddef is_upper R n2))).
  cbn [def_de d2 shape_de].
  assert (Hsmall2 : forallb small_arr args2 = true) by exact Hsm0.
  eapply (named_acc is_alnum is_numeric R E (lib_inline R (gen g')) (nparams d2) args2 (dummies (attrs_of d2)) s2 s2
            (de_ty R (SerdeDe.ddef is_upper R n2)) F1
            (hty_A F1 HA HB d2 args2 l2 (d_params dc2) g' n2 Hlen2 Hargs2 Hsmall2 Hl2 Hnp2 Hps2 ltac:(lia))
            (de_option_acc' n2) (c_rename_all a2) (c_optional_fields a2) (fl0 :: fs2) props2 (remove_key tg es) f1 Hsh2 Hp2);
    [lia | | apply wf_remove_key; exact Hwf].
  intros p t0 Hin. rewrite assoc_remove_key.
  - apply (alt_member_props _ _ _ _ Hmem p (tsubst s2 s2 t0)). right. unfold ps'. apply in_map_iff. exists (p, t0). split; [reflexivity | exact Hin].
  - intros Heq. apply Hnin. rewrite <- (props_keys is_alnum is_numeric R (lib_inline R (gen g')) (dummies (attrs_of d2)) (c_rename_all a2) (c_optional_fields a2) (fl0 :: fs2) props2 Hp2).
    rewrite <- Heq. change (p_key p) with ((fun q : phead * tsty => p_key (fst q)) (p, t0)). apply in_map. exact Hin.
Qed.

Lemma rsubst_nil0 t0 : pmono R 0 t0 = true -> rsubst [] t0 = t0.
Proof. intros H. apply rsubst_nil. apply (pmono_src R 0). exact H. Qed.

Lemma P_all : forall F, PA F /\ (forall g, PB F g).
Proof.
  induction F as [|F1 [IHA IHB]].
  - split.
    + intros n t a j f Hn Hf Hm Hsm Ha Hmem Hwf. assert (f = 0) by lia. subst. discriminate.
    + intros g n t a j f Hn Hf Hm Hsm Ha Hmem Hwf. assert (f = 0) by lia. subst. discriminate.
  - assert (HA : PA (S F1)).
    { intros n t a j f Hn Hf Hm Hsm Ha Hmem Hwf. unfold de.
      eapply (lib_de R E (SerdeDe.ddef is_upper R n) (S F1)); [|exact Hm | exact Hsm | exact Ha | exact Hf | exact Hmem | exact Hwf].
      clear t a j f Hf Hm Hsm Ha Hmem Hwf.
      intros id d args l j f Hlk Hlen Hargs Hsargs Hl Hf Hmem Hwf.
      destruct f as [|f1]; [discriminate|]. cbn [memberb] in Hmem. unfold unfold_ref in Hmem.
      destruct (de_env_facts _ _ Hlk) as (Hpd & Hnp & dc & Hdl & Hdc).
      rewrite Hdl in Hmem. destruct (plain_decl is_upper is_alnum is_numeric R gf d dc Hdc) as (r & Hr & _ & Hps & Hbody).
      rewrite Hbody in Hmem.
      destruct n as [|n1]; [cbn in Hn; lia|]. change (SerdeDe.ddef is_upper R (S n1)) with (def_de is_upper (de_ty R (SerdeDe.ddef is_upper R n1))).
      apply gen_ok_unfold in Hr as (g' & Hgf & Hr).
      assert (Hn1 : F1 * S gf + g' <= n1) by (cbn in Hn; lia).
      eapply (def_acc is_upper is_alnum is_numeric R E (lib_inline R (gen g')) (lib_flat R (gen g')) (nparams d) args (dummies (attrs_of d))
                (bind_params (d_params dc) l) (bind_params (d_params dc) l) (de_ty R (SerdeDe.ddef is_upper R n1)) F1
                (hty_A F1 IHA IHB d args l (d_params dc) g' n1 Hlen Hargs Hsargs Hl Hnp Hps Hn1) (de_option_acc' n1));
        [| | exact Hpd | exact Hr | | exact Hmem | exact Hwf]; [| |lia].
      - (* the content of internally tagged newtype variants *)
        intros tg nm t0 a0 j0 f0 Hct Hpm Hsa Ha0 Hf0 Hm0 Hwf0.
        assert (Hmono : mono_ty (rsubst args t0) = true).
        { apply (pmono_subst R (nparams d) args); [apply Forall_forall; rewrite forallb_forall in Hargs; exact Hargs | exact Hlen | exact Hpm]. }
        assert (Hsmall : small_arr (rsubst args t0) = true) by (apply small_arr_subst; assumption).
        rewrite dummies_eq in Ha0.
        pose proof (name_of_tsubst R (nparams d) (map fst (c_params (attrs_of d))) args l (d_params dc) Hnp Hps (map_length _ _) Hl Hlen t0 a0 Hpm Ha0) as Hname.
        destruct n1 as [|n2]; [cbn in Hn; lia|].
        assert (Hct' : struct_content R tg (rsubst args t0)) by (destruct t0; try contradiction; exact Hct).
        apply (content_A F1 IHA IHB tg nm (rsubst args t0) _ j0 f0 n2 Hct' Hmono Hsmall Hname ltac:(lia) Hm0 Hwf0). cbn in Hn. lia.
      - (* flattened structs: the flattened type is closed, so is its text *)
        intros t0 x Hfs Hpm Hsa Hn0 Hx. pose proof (pmono_src R 0 _ Hn0) as Hsrc0.
        rewrite (rsubst_closed (dummies (attrs_of d)) _ Hsrc0) in Hx. rewrite (rsubst_closed args _ Hsrc0).
        rewrite (tsubst_closed _ _ _ (closed_flat_text g' t0 x Hn0 Hx)).
        destruct (flat_B F1 IHA g' (fun g0 _ => IHB g0) t0 x n1 Hfs Hn0 Hsa Hx Hn1) as (ps & Hpk & Hdn & Hme & Hacc).
        exists ps. split; [exact Hpk|]. split; [exact Hdn|]. split; [exact Hme|].
        intros es f0 Hf0 Hco Hwf0. apply (Hacc es f0 Hf0); [exact Hco | exact Hwf0]. }
    split; [exact HA|].
    induction g as [g IHg] using lt_wf_ind. intros n t a j f Hn Hf Hm Hsm Ha Hmem Hwf; unfold de.
    destruct g as [|g'].
    + eapply (lib_inline_de R E (SerdeDe.ddef is_upper R n) (S F1) (gen 0)); [|exact Hm | exact Hsm | exact Ha | exact Hf | exact Hmem | exact Hwf].
      intros id d args r j0 f0 _ _ _ _ Hr. cbn in Hr. discriminate.
    + eapply (lib_inline_de R E (SerdeDe.ddef is_upper R n) (S F1) (gen (S g'))); [|exact Hm | exact Hsm | exact Ha | exact Hf | exact Hmem | exact Hwf].
      clear t a j f Hf Hm Hsm Ha Hmem Hwf.
      intros id d args r j f Hlk Hlen Hargs Hsargs Hr Hf Hmem Hwf. cbn [Gen.gen] in Hr.
      destruct (de_env_facts _ _ Hlk) as (Hpd & Hnp & dc & _ & Hdc).
      destruct (plain_decl is_upper is_alnum is_numeric R gf d dc Hdc) as (r0 & Hr0 & _). apply gen_ok_unfold in Hr0 as (g0 & Hgf & _).
      destruct n as [|n1]; [cbn in Hn; lia|]. change (SerdeDe.ddef is_upper R (S n1)) with (def_de is_upper (de_ty R (SerdeDe.ddef is_upper R n1))).
      rewrite <- (tsubst_none (fst r)) in Hmem.
      assert (Hn1 : S F1 * S gf + g' <= n1) by (cbn in Hn |- *; lia).
      eapply (def_acc is_upper is_alnum is_numeric R E (lib_inline R (gen g')) (lib_flat R (gen g')) (nparams d) args args
                (fun _ => None) (fun _ => None) (de_ty R (SerdeDe.ddef is_upper R n1)) (S F1)
                (hty_B (S F1) HA g' (IHg g' (Nat.lt_succ_diag_r g')) d args n1 Hlen Hargs Hsargs Hn1) (de_option_acc' n1));
        [| | exact Hpd | exact Hr | exact Hf | exact Hmem | exact Hwf].
      * intros tg nm t0 a0 j0 f0 Hct Hpm Hsa Ha0 Hf0 Hm0 Hwf0. rewrite tsubst_none in Hm0.
        assert (Hmono : mono_ty (rsubst args t0) = true).
        { apply (pmono_subst R (nparams d) args); [apply Forall_forall; rewrite forallb_forall in Hargs; exact Hargs | exact Hlen | exact Hpm]. }
        assert (Hsmall : small_arr (rsubst args t0) = true) by (apply small_arr_subst; assumption).
        destruct n1 as [|n2]; [cbn in Hn; lia|].
        assert (Hct' : struct_content R tg (rsubst args t0)) by (destruct t0; try contradiction; exact Hct).
        apply (content_A F1 IHA IHB tg nm (rsubst args t0) a0 j0 f0 n2 Hct' Hmono Hsmall Ha0 Hf0 Hm0 Hwf0). cbn in Hn. lia.
      * intros t0 x Hfs Hpm0 Hsa Hn0 Hx. pose proof (pmono_src R 0 _ Hn0) as Hsrc0. pose proof Hn0 as Hpm.
        rewrite (rsubst_closed args _ Hsrc0) in Hx |- *.
        destruct (flat_B (S F1) HA g' (fun g0 Hlt => IHg g0 (Nat.lt_lt_succ_r _ _ Hlt)) t0 x n1 Hfs Hpm Hsa Hx Hn1) as (ps & Hpk & Hdn & Hme & Hacc).
        exists ps. split; [exact Hpk|]. split; [intros k alts; rewrite tsubst_none; apply Hdn|]. split; [intros j0 f0; rewrite tsubst_none; apply Hme|].
        intros es f0 Hf0 Hco Hwf0. apply (Hacc es f0 Hf0); [exact Hco | exact Hwf0].
Qed.

Theorem member_accepted : forall F n t a j f,
  F * S gf <= n -> f <= F -> mono_ty t = true -> small_arr t = true -> name_of R t = Ok a ->
  memberb E f a j = true -> wf_json j = true -> acc (de is_upper R n t j).
Proof. intros F. exact (proj1 (P_all F)). Qed.

(* the same for the type TS::inline() reports *)
Theorem member_accepted_inline : forall F g n t a j f,
  F * S gf + g <= n -> f <= F -> mono_ty t = true -> small_arr t = true -> lib_inline R (gen g) t = Ok a ->
  memberb E f a j = true -> wf_json j = true -> acc (de is_upper R n t j).
Proof. intros F g. exact (proj2 (P_all F) g). Qed.
End DeKnot.

(* ============================ the library layer on its own ====================================== *)
Lemma lib_ok_mono R : forall t, lib_ok t = true -> mono_ty R t = true.
Proof.
  unfold mono_ty.
  induction t as [l|t IH|t IH|m t IH|ts IH|k v IHk IHv|t IH|t e IHt IHe|t IH|id targs IH|i|m] using rty_ind';
    cbn [lib_ok pmono]; intros H; auto; try discriminate.
  - rewrite forallb_forall in *. rewrite Forall_forall in IH. intros x Hx. auto.
  - apply andb_true_iff in H as [H1 H2]. rewrite (IHv H2), andb_true_r. destruct k as [[| | | | |]| | | | | | | | | | |]; try discriminate; reflexivity.
  - apply andb_true_iff in H as [H1 H2]. rewrite (IHt H1), (IHe H2). reflexivity.
Qed.

(* library type expressions of any nesting depth (no derived type inside): every member of the reported type is read *)
Theorem lib_member_accepted E dd t a j f :
  lib_ok t = true -> small_arr t = true -> name_of [] t = Ok a -> memberb E f a j = true -> wf_json j = true ->
  acc (de_ty [] dd t j).
Proof.
  intros Hok Hsm Ha Hmem Hwf.
  eapply (lib_de [] E dd f); [|apply lib_ok_mono; exact Hok | exact Hsm | exact Ha | apply le_n | exact Hmem | exact Hwf].
  intros id d args l j0 f0 Hlk. discriminate Hlk.
Qed.
