(* C07 (scoping): the TypeScript type the generator produces mentions no type parameter other than
   the dummies present in the type arguments it was instantiated at.  Library layer by induction
   over `rty`, derive layer by case analysis, knot by induction over the fuel. *)
From TsRs Require Import Base.Str Base.Outcome Gen.Tables Model.Case Model.TsAst Model.Rust Model.Docs Model.Gen
  Spec.TsFree Spec.RtyInd Proofs.Gen_base_proofs.
From Coq Require Import List Lia Bool.
Import ListNotations.

Section Scoped.
Variable is_upper is_alnum is_numeric : char -> bool.
Variable R : env.

Notation name_of := (name_of R).
Notation lib_inline := (lib_inline R).
Notation lib_flat := (lib_flat R).
Notation def_body := (def_body is_upper is_alnum is_numeric R).
Notation gen := (gen is_upper is_alnum is_numeric R).

Lemma ftv_leaf l : ftv (leaf_ts l) = [].
Proof. destruct l as [[|] ? ?| | | | |]; reflexivity. Qed.

Lemma ftv_array n a : incl (ftv (array_ts n a)) (ftv a).
Proof.
  unfold array_ts. destruct (Nat.ltb _ _); cbn [ftv]; [apply incl_refl | apply flat_map_repeat_incl].
Qed.

Lemma name_of_scoped : forall t a, name_of t = Ok a -> incl (ftv a) (rdummies t).
Proof.
  induction t as [l|t IH|t IH|n t IH|ts IH|k v IHk IHv|t IH|t e IHt IHe|t IH|id args IH|i|n] using rty_ind';
    cbn [Gen.name_of rdummies]; intros a H.
  - inversion H. rewrite ftv_leaf. apply incl_nil_l.
  - apply bind_ok in H as (x & Hx & H). inversion H. cbn. rewrite app_nil_r. auto.
  - apply bind_ok in H as (x & Hx & H). inversion H. cbn. auto.
  - destruct n as [|n']; [inversion H; apply incl_nil_l|].
    apply bind_ok in H as (x & Hx & H). inversion H. eapply incl_tran; [apply ftv_array | auto].
  - apply bind_ok in H as (l & Hl & H). inversion H. cbn [ftv].
    apply omap_list_ok in Hl. apply Forall2_flat_map_incl.
    eapply Forall2_impl_in; [apply (Forall2_Forall_l _ _ _ _ IH Hl)|]. cbn. intros x y _ [Hp Hq]. auto.
  - apply bind_ok in H as (x & Hx & H). apply bind_ok in H as (y & Hy & H). inversion H. cbn.
    apply incl_app; [apply incl_appl | apply incl_appr]; auto.
  - auto.
  - apply bind_ok in H as (x & Hx & H). apply bind_ok in H as (y & Hy & H). inversion H. cbn.
    apply incl_app; [apply incl_appl | apply incl_appr]; auto.
  - apply bind_ok in H as (x & Hx & H). inversion H. cbn. rewrite app_nil_r. apply incl_app; auto.
  - destruct (lookup R id) as [d|]; [|discriminate].
    apply bind_ok in H as (l & Hl & H). inversion H. cbn [ftv].
    apply omap_list_ok in Hl. apply Forall2_flat_map_incl.
    eapply Forall2_impl_in; [apply (Forall2_Forall_l _ _ _ _ IH Hl)|]. cbn. intros x y _ [Hp Hq]. auto.
  - discriminate.
  - inversion H. cbn. apply incl_refl.
Qed.

(* what a derived type answers is scoped by the dummies of its arguments *)
Definition g_scoped (g : dgen) : Prop :=
  forall id d args r, lookup R id = Some d -> g d args = Ok r ->
    incl (ftv (fst r)) (flat_map rdummies args) /\
    forall x, snd r = Some x -> incl (ftv x) (flat_map rdummies args).

Lemma lib_inline_scoped g : g_scoped g -> forall t a, lib_inline g t = Ok a -> incl (ftv a) (rdummies t).
Proof.
  intros Hg.
  induction t as [l|t IH|t IH|n t IH|ts IH|k v IHk IHv|t IH|t e IHt IHe|t IH|id args IH|i|n] using rty_ind';
    cbn [Gen.lib_inline rdummies]; intros a H; try discriminate.
  - inversion H. rewrite ftv_leaf. apply incl_nil_l.
  - apply bind_ok in H as (x & Hx & H). inversion H. cbn. rewrite app_nil_r. auto.
  - apply bind_ok in H as (x & Hx & H). inversion H. cbn. auto.
  - destruct n as [|n']; [inversion H; apply incl_nil_l|].
    apply bind_ok in H as (x & Hx & H). inversion H. eapply incl_tran; [apply ftv_array | auto].
  - apply bind_ok in H as (x & Hx & H). apply bind_ok in H as (y & Hy & H). inversion H. cbn.
    apply incl_app; [apply incl_appl | apply incl_appr]; auto.
  - auto.
  - apply bind_ok in H as (x & Hx & H). apply bind_ok in H as (y & Hy & H). inversion H. cbn.
    apply incl_app; [apply incl_appl | apply incl_appr]; auto.
  - destruct (lookup R id) as [d|] eqn:Hlk; [|discriminate].
    apply omap_ok in H as (r & Hr & ->). eapply Hg in Hr; [|exact Hlk]. tauto.
Qed.

Lemma lib_flat_scoped g : g_scoped g -> forall t a, lib_flat g t = Ok a -> incl (ftv a) (rdummies t).
Proof.
  intros Hg.
  induction t as [l|t IH|t IH|n t IH|ts IH|k v IHk IHv|t IH|t e IHt IHe|t IH|id args IH|i|n] using rty_ind';
    cbn [Gen.lib_flat rdummies]; intros a H; try discriminate.
  - auto.
  - destruct (lookup R id) as [d|] eqn:Hlk; [|discriminate].
    apply bind_ok in H as (r & Hr & H). eapply Hg in Hr; [|exact Hlk]. destruct (snd r) as [x|] eqn:Hs; [|discriminate].
    inversion H; subst. apply Hr. reflexivity.
  - inversion H. cbn. apply incl_refl.
Qed.

(* --- substitution of arguments into source types -------------------------------------------- *)
Lemma rdummies_nth args i : incl (rdummies (nth i args (RParam i))) (flat_map rdummies args).
Proof.
  destruct (nth_in_or_default i args (RParam i)) as [Hin|Hd].
  - apply incl_flat_map_in. exact Hin.
  - rewrite Hd. apply incl_nil_l.
Qed.

Lemma rdummies_rsubst args n : forall t, src_ty n t = true -> incl (rdummies (rsubst args t)) (flat_map rdummies args).
Proof.
  induction t as [l|t IH|t IH|m t IH|ts IH|k v IHk IHv|t IH|t e IHt IHe|t IH|id targs IH|i|m] using rty_ind';
    cbn [src_ty rsubst rdummies]; intros Hs; auto; try apply incl_nil_l; try discriminate.
  - rewrite flat_map_concat_map, map_map, <- flat_map_concat_map. apply flat_map_incl_all. intros x Hx.
    rewrite Forall_forall in IH. apply IH; [exact Hx|]. rewrite forallb_forall in Hs. auto.
  - apply andb_true_iff in Hs as [Hk Hv]. apply incl_app; auto.
  - apply andb_true_iff in Hs as [Hk Hv]. apply incl_app; auto.
  - rewrite flat_map_concat_map, map_map, <- flat_map_concat_map. apply flat_map_incl_all. intros x Hx.
    rewrite Forall_forall in IH. apply IH; [exact Hx|]. rewrite forallb_forall in Hs. auto.
  - apply rdummies_nth.
Qed.

Lemma rdummies_option_inner t : incl (rdummies (option_inner t)) (rdummies t).
Proof. destruct t; cbn; apply incl_refl. Qed.

(* ============================ derive layer ================================================== *)
Section Def.
Variable inl flt : rty -> outcome tsty.
Hypothesis Hinl : forall t a, inl t = Ok a -> incl (ftv a) (rdummies t).
Hypothesis Hflt : forall t a, flt t = Ok a -> incl (ftv a) (rdummies t).
Variable args : list rty.
Variable n : nat.
Notation V := (flat_map rdummies args).

Lemma field_ty_dummies opt fl : src_field n fl = true -> incl (rdummies (field_ty args opt fl)) V.
Proof.
  intros Hs. unfold field_ty. destruct (snd _).
  - eapply rdummies_rsubst; exact Hs.
  - eapply incl_tran; [apply rdummies_option_inner | eapply rdummies_rsubst; exact Hs].
Qed.

Lemma value_ty_scoped fl a : src_field n fl = true -> value_ty R inl args fl = Ok a -> incl (ftv a) V.
Proof.
  intros Hs. unfold value_ty. destruct (f_type fl).
  - intros H; inversion H. apply incl_nil_l.
  - destruct (f_inline fl); intros H.
    + eapply incl_tran; [eapply Hinl; exact H | eapply rdummies_rsubst; exact Hs].
    + eapply incl_tran; [eapply name_of_scoped; exact H | eapply rdummies_rsubst; exact Hs].
Qed.

Lemma prop_of_scoped ra opt fl p : src_field n fl = true ->
  prop_of is_alnum is_numeric R inl args ra opt fl = Ok p -> incl (ftv (snd p)) V.
Proof.
  intros Hs. unfold prop_of. destruct (f_type fl).
  - intros H; inversion H. apply incl_nil_l.
  - intros H. apply bind_ok in H as (x & Hx & H). inversion H; subst. cbn [snd].
    destruct (f_inline fl).
    + eapply incl_tran; [eapply Hinl; exact Hx | apply field_ty_dummies; exact Hs].
    + eapply incl_tran; [eapply name_of_scoped; exact Hx | apply field_ty_dummies; exact Hs].
Qed.

Lemma forallb_filter {A} (p q : A -> bool) l : forallb p l = true -> forallb p (filter q l) = true.
Proof.
  rewrite !forallb_forall. intros H x Hx. apply H. eapply filter_incl_in; exact Hx.
Qed.

Lemma omap_list_scoped {A} (f : A -> outcome tsty) (ok : A -> bool) l l' :
  (forall x a, ok x = true -> f x = Ok a -> incl (ftv a) V) ->
  forallb ok l = true -> omap_list f l = Ok l' -> incl (flat_map ftv l') V.
Proof.
  intros Hf Hok H. apply omap_list_ok in H. rewrite forallb_forall in Hok.
  induction H as [|x y l l' Hxy _ IH]; cbn; [apply incl_nil_l|].
  apply incl_app; [eapply Hf; [apply Hok; left; reflexivity | exact Hxy] | apply IH; intros; apply Hok; right; assumption].
Qed.

Lemma omap_list_props_scoped (f : field -> outcome (phead * tsty)) l l' :
  (forall x p, src_field n x = true -> f x = Ok p -> incl (ftv (snd p)) V) ->
  forallb (src_field n) l = true -> omap_list f l = Ok l' -> incl (flat_map (fun p => ftv (snd p)) l') V.
Proof.
  intros Hf Hok H. apply omap_list_ok in H. rewrite forallb_forall in Hok.
  induction H as [|x y l l' Hxy _ IH]; cbn; [apply incl_nil_l|].
  apply incl_app; [eapply Hf; [apply Hok; left; reflexivity | exact Hxy] | apply IH; intros; apply Hok; right; assumption].
Qed.

Definition r_scoped (r : derived) : Prop :=
  incl (ftv (fst r)) V /\ forall x, snd r = Some x -> incl (ftv x) V.

Lemma r_scoped_none a : incl (ftv a) V -> r_scoped (a, None).
Proof. intros H; split; [exact H | discriminate]. Qed.

Lemma shape_gen_scoped ra opt tag s r : src_shape n s = true ->
  shape_gen is_alnum is_numeric R inl flt args ra opt tag s = Ok r -> r_scoped r.
Proof.
  intros Hs. unfold shape_gen. destruct s as [|fs|fs].
  - intros H; inversion H. apply r_scoped_none, incl_nil_l.
  - destruct fs as [|fl [|fl2 fs]].
    + intros H; inversion H. apply r_scoped_none, incl_nil_l.
    + cbn in Hs. apply andb_true_iff in Hs as [Hs _]. destruct (f_skip fl).
      * intros H; inversion H. apply r_scoped_none, incl_nil_l.
      * intros H. apply bind_ok in H as (x & Hx & H). inversion H. apply r_scoped_none.
        eapply value_ty_scoped; eassumption.
    + intros H. apply bind_ok in H as (l & Hl & H). inversion H. apply r_scoped_none. cbn [ftv].
      eapply (omap_list_scoped _ (src_field n)); [| |exact Hl].
      * intros; eapply value_ty_scoped; eassumption.
      * apply forallb_filter. exact Hs.
  - assert (Hmain : forall r,
      bind (omap_list (prop_of is_alnum is_numeric R inl args ra opt) (filter (fun fl => negb (is_flat fl)) (live fs))) (fun props =>
      bind (omap_list (fun fl => flt (field_ty args opt fl)) (filter is_flat (live fs))) (fun flats =>
      let props := match tag with Some (t, n0) => (quoted_head t, TLit n0) :: props | None => props end in
      let obj := TObj OStruct props in
      match props, flats with
      | _, [] => Ok (TMerged obj, Some (TMerged obj))
      | [], [x] => Ok (TMerged (TUnwrap x), Some (TMerged (TInter flats)))
      | [], _ => Ok (TMerged (TInter flats), Some (TMerged (TInter flats)))
      | _, _ => Ok (TMerged (TInter (obj :: flats)), Some (TMerged (TInter (obj :: flats))))
      end)) = Ok r -> r_scoped r).
    { clear r. intros r H. apply bind_ok in H as (props & Hp & H). apply bind_ok in H as (flats & Hf & H).
      cbn zeta in H.
      assert (Hprops : incl (flat_map (fun p => ftv (snd p)) props) V).
      { eapply omap_list_props_scoped; [| |exact Hp].
        - intros; eapply prop_of_scoped; eassumption.
        - apply forallb_filter, forallb_filter. exact Hs. }
      assert (Hflats : incl (flat_map ftv flats) V).
      { eapply (omap_list_scoped _ (src_field n)); [| |exact Hf].
        - intros x a Hx Ha. eapply incl_tran; [eapply Hflt; exact Ha | apply field_ty_dummies; exact Hx].
        - apply forallb_filter, forallb_filter. exact Hs. }
      set (props' := match tag with Some (t, n0) => (quoted_head t, TLit n0) :: props | None => props end) in *.
      assert (Hprops' : incl (flat_map (fun p => ftv (snd p)) props') V).
      { subst props'. destruct tag as [[t n0]|]; cbn; exact Hprops. }
      clearbody props'.
      destruct props' as [|p ps]; destruct flats as [|x [|y fl']]; inversion H; subst; clear H;
        split; cbn [fst snd ftv]; try (intros z Hz; inversion Hz; subst; clear Hz; cbn [ftv]);
        cbn [flat_map ftv] in *; rewrite ?app_nil_r in *; auto;
        try (apply incl_app; auto). }
    destruct fs as [|fl fs']; [destruct tag as [tg|]|]; try exact (Hmain r).
    intros H; inversion H. apply r_scoped_none, incl_nil_l.
Qed.

Lemma lone_field_src s fl : src_shape n s = true -> lone_field s = Some fl -> src_field n fl = true.
Proof.
  destruct s as [|[|f [|? ?]]|]; cbn; intros Hs H; try discriminate. inversion H; subst.
  apply andb_true_iff in Hs. tauto.
Qed.

Lemma variant_gen_scoped a tg raf v x : src_variant n v = true ->
  variant_gen is_upper is_alnum is_numeric R inl flt args a tg raf v = Ok x -> incl (ftv x) V.
Proof.
  intros Hs. apply andb_true_iff in Hs as [Hsh Has]. unfold variant_gen.
  intros H. apply bind_ok in H as (vt & Hvt & H). apply bind_ok in H as (parsed & Hparsed & H).
  assert (Hvt1 : incl (ftv (fst vt)) V).
  { apply variant_shape_cases in Hvt as [Hvt|(_ & Hn & _)].
    - apply shape_gen_scoped in Hvt; [|exact Hsh]. destruct Hvt as [Hvt1 _]. exact Hvt1.
    - rewrite Hn. apply incl_nil_l. }
  assert (Hp : incl (ftv parsed) V).
  { destruct (v_as v) as [u|].
    - eapply incl_tran; [eapply name_of_scoped; exact Hparsed | eapply rdummies_rsubst; exact Has].
    - destruct (v_type v); inversion Hparsed; subst; [apply incl_nil_l | exact Hvt1]. }
  destruct (v_untagged v); [inversion H; subst; exact Hp|].
  destruct tg as [|t|t c|].
  - destruct (v_shape v) as [|fs|fs] eqn:Hshape.
    + inversion H. apply incl_nil_l.
    + destruct (lone_field (STuple fs)) as [fl|]; [destruct (f_skip fl)|]; inversion H; cbn; rewrite ?app_nil_r; auto; apply incl_nil_l.
    + cbn in H. inversion H. cbn. rewrite app_nil_r. exact Hp.
  - destruct (snd vt); [inversion H; subst; exact Hp|].
    destruct (v_shape v) as [|fs|fs] eqn:Hshape.
    + inversion H. apply incl_nil_l.
    + destruct (lone_field (STuple fs)) as [fl|] eqn:Hlone.
      * destruct (f_skip fl); inversion H; cbn; rewrite ?app_nil_r; auto; apply incl_nil_l.
      * inversion H. cbn. rewrite app_nil_r. exact Hp.
    + cbn in H. inversion H. cbn. rewrite app_nil_r. exact Hp.
  - destruct (v_shape v) as [|fs|fs] eqn:Hshape.
    + inversion H. apply incl_nil_l.
    + destruct (lone_field (STuple fs)) as [fl|] eqn:Hlone.
      * destruct (f_skip fl); inversion H; cbn; rewrite ?app_nil_r; auto; apply incl_nil_l.
      * inversion H. cbn. rewrite app_nil_r. exact Hp.
    + cbn in H. inversion H. cbn. rewrite app_nil_r. exact Hp.
  - inversion H; subst; exact Hp.
Qed.

Lemma def_body_scoped d r : src_def d = true -> length (c_params (attrs_of d)) = n ->
  def_body inl flt d args = Ok r -> r_scoped r.
Proof.
  intros Hs Hn. unfold src_def in Hs. rewrite Hn in Hs.
  apply andb_true_iff in Hs as [Hs Hbody]. apply andb_true_iff in Hs as [Has _].
  unfold Gen.def_body. destruct (c_type (attrs_of d)).
  - intros H; inversion H. apply r_scoped_none, incl_nil_l.
  - destruct (c_as (attrs_of d)) as [u|].
    + intros H. apply bind_ok in H as (x & Hx & H). inversion H. apply r_scoped_none.
      eapply incl_tran; [eapply Hinl; exact Hx | eapply rdummies_rsubst; exact Has].
    + destruct d as [a s|a tg raf vs].
      * apply shape_gen_scoped. exact Hbody.
      * destruct vs as [|v vs]; [intros H; inversion H; apply r_scoped_none, incl_nil_l|].
        intros H. apply bind_ok in H as (l & Hl & H).
        assert (Hall : incl (flat_map ftv l) V).
        { eapply (omap_list_scoped _ (src_variant n)); [| |exact Hl].
          - intros; eapply variant_gen_scoped; eassumption.
          - apply forallb_filter. exact Hbody. }
        destruct l as [|x0 l0]; inversion H; subst r; [apply r_scoped_none, incl_nil_l|].
        split; cbn [fst snd ftv]; [exact Hall|]. intros x Hx; inversion Hx; subst. exact Hall.
Qed.
End Def.

(* ============================ the knot ===================================================== *)
(* every definition of the environment is a source definition (no dummies; parameters within
   range): what the corpus generator emits and `src_env R = true` decides *)
Definition env_ok : Prop := forall id d, lookup R id = Some d -> src_def d = true.

Lemma src_env_ok : src_env R = true -> env_ok.
Proof.
  unfold src_env, env_ok. intros H id d. induction R as [|[k e] r IH]; cbn; [discriminate|].
  cbn in H. apply andb_true_iff in H as [He Hr]. destruct (str_eqb k id).
  - intros E; inversion E; subst. exact He.
  - apply IH. exact Hr.
Qed.

Theorem gen_scoped : env_ok -> forall fuel, g_scoped (gen fuel).
Proof.
  intros Henv. induction fuel as [|f IH]; intros id d args r Hlk H; [discriminate|].
  cbn [Gen.gen] in H. cbv zeta in H.
  eapply def_body_scoped in H; [exact H | | | | reflexivity].
  - apply lib_inline_scoped. exact IH.
  - apply lib_flat_scoped. exact IH.
  - eapply Henv. exact Hlk.
Qed.

Lemma flat_map_dummies (ps : list (str * option rty)) :
  flat_map rdummies (map (fun p => RDummy (fst p)) ps) = map fst ps.
Proof. induction ps as [|p ps IH]; cbn; [reflexivity | rewrite IH; reflexivity]. Qed.

(* the body of a declaration mentions only the declaration's own parameters *)
Theorem decl_scoped : env_ok -> forall fuel id d dc, lookup R id = Some d ->
  decl_of is_upper is_alnum is_numeric R fuel d = Ok dc ->
  incl (ftv (d_body dc)) (map fst (d_params dc)) /\ map fst (d_params dc) = map fst (c_params (attrs_of d)).
Proof.
  intros Henv fuel id d dc Hlk H. unfold decl_of in H.
  apply bind_ok in H as (r & Hr & H). apply bind_ok in H as (ps & Hps & H). inversion H; subst; clear H. cbn [d_body d_params].
  assert (Hnames : map fst ps = map fst (c_params (attrs_of d))).
  { apply omap_list_ok in Hps. clear -Hps. induction Hps as [|x y l l' Hxy _ IH]; cbn; [reflexivity|]. f_equal; [|exact IH].
    destruct (snd x); [apply bind_ok in Hxy as (z & _ & Hz); inversion Hz | inversion Hxy]; reflexivity. }
  split; [|exact Hnames]. rewrite Hnames.
  eapply gen_scoped in Hr; [|exact Henv|exact Hlk]. unfold dummies in Hr. rewrite flat_map_dummies in Hr. tauto.
Qed.

Lemma Forall2_in_r {A B} (P : A -> B -> Prop) l l' y : Forall2 P l l' -> In y l' -> exists x, In x l /\ P x y.
Proof.
  induction 1 as [|a b l l' Hab _ IH]; cbn; intros Hin; [contradiction|].
  destruct Hin as [->|Hin]; [exists a; split; [left; reflexivity|exact Hab]|].
  destruct (IH Hin) as (x & Hx & Hp). exists x. split; [right; exact Hx|exact Hp].
Qed.

(* the defaults written in the header mention only the declaration's own parameters, too *)
Theorem decl_defaults_scoped : env_ok -> forall fuel id d dc, lookup R id = Some d ->
  decl_of is_upper is_alnum is_numeric R fuel d = Ok dc ->
  forall p x, In p (d_params dc) -> snd p = Some x -> incl (ftv x) (map fst (c_params (attrs_of d))).
Proof.
  intros Henv fuel id d dc Hlk H p x Hin Hx. unfold decl_of in H.
  apply bind_ok in H as (r & Hr & H). apply bind_ok in H as (ps & Hps & H). inversion H; subst; clear H. cbn [d_params] in Hin.
  apply omap_list_ok in Hps. destruct (Forall2_in_r _ _ _ _ Hps Hin) as (q & Hq & Hf).
  pose proof (Henv _ _ Hlk) as Hsrc. unfold src_def in Hsrc.
  apply andb_true_iff in Hsrc as [Hsrc _]. apply andb_true_iff in Hsrc as [_ Hdef].
  rewrite forallb_forall in Hdef. specialize (Hdef q Hq).
  destruct (snd q) as [dflt|]; [|inversion Hf; subst; discriminate].
  apply bind_ok in Hf as (z & Hz & Hf). inversion Hf; subst. cbn in Hx. inversion Hx; subst.
  eapply incl_tran; [eapply name_of_scoped; exact Hz|].
  eapply incl_tran; [eapply rdummies_rsubst; exact Hdef|].
  unfold dummies. rewrite flat_map_dummies. apply incl_refl.
Qed.

End Scoped.
