(* Order-independence of the structured merge: the import normal form and the insertion sort of
   blocks do not depend on the order in which items arrive. *)
From TsRs Require Import Base.Str Base.Outcome Gen.Tables Model.Merge Model.MergeSpec.
From Coq Require Import Sorting.Permutation Sorting.Sorted.

(* ---- str_compare is a strict total order ------------------------------------------------- *)
Lemma str_compare_refl a : str_compare a a = Eq.
Proof. apply str_compare_eq; reflexivity. Qed.

Lemma str_ltb_irrefl a : str_ltb a a = false.
Proof. unfold str_ltb. rewrite str_compare_refl. reflexivity. Qed.

Lemma str_ltb_trans a b c : str_ltb a b = true -> str_ltb b c = true -> str_ltb a c = true.
Proof.
  unfold str_ltb. intros H1 H2.
  destruct (str_compare a b) eqn:E1; try discriminate.
  destruct (str_compare b c) eqn:E2; try discriminate.
  rewrite (str_compare_trans _ _ _ E1 E2). reflexivity.
Qed.

Lemma str_ltb_total a b : str_ltb a b = false -> str_ltb b a = false -> a = b.
Proof.
  unfold str_ltb. rewrite (str_compare_antisym a b).
  destruct (str_compare a b) eqn:E; cbn [CompOpp]; try discriminate.
  intros _ _. apply str_compare_eq; exact E.
Qed.

(* ---- generic facts on lists strongly sorted by a strict order ----------------------------- *)
Section SSorted.
  Context {A : Type} (R : A -> A -> Prop).
  Hypothesis R_irrefl : forall a, ~ R a a.
  Hypothesis R_trans : forall a b c, R a b -> R b c -> R a c.

  (* two strictly sorted lists with the same members are equal *)
  Lemma ssorted_ext l : forall l',
    StronglySorted R l -> StronglySorted R l' -> (forall t, In t l <-> In t l') -> l = l'.
  Proof.
    induction l as [|a l IH]; intros [|b l'] Hs Hs' Hin.
    - reflexivity.
    - exfalso. exact (proj2 (Hin b) (or_introl eq_refl)).
    - exfalso. exact (proj1 (Hin a) (or_introl eq_refl)).
    - apply StronglySorted_inv in Hs as [Hsl Hal].
      apply StronglySorted_inv in Hs' as [Hsl' Hbl'].
      rewrite Forall_forall in Hal, Hbl'.
      assert (a = b) as ->.
      { destruct (proj1 (Hin a) (or_introl eq_refl)) as [E|Ha]; [congruence|].
        destruct (proj2 (Hin b) (or_introl eq_refl)) as [E|Hb]; [congruence|].
        exfalso. apply (R_irrefl a). apply R_trans with b; auto. }
      f_equal. apply IH; auto.
      intros t; split; intros Ht.
      + destruct (proj1 (Hin t) (or_intror Ht)) as [E|H]; auto.
        subst t. exfalso. apply (R_irrefl b); auto.
      + destruct (proj2 (Hin t) (or_intror Ht)) as [E|H]; auto.
        subst t. exfalso. apply (R_irrefl b); auto.
  Qed.

  Lemma ssorted_nodup l : StronglySorted R l -> NoDup l.
  Proof.
    induction l as [|a l IH]; intros Hs; constructor.
    - apply StronglySorted_inv in Hs as [_ Hal]. rewrite Forall_forall in Hal.
      intros Hin. apply (R_irrefl a); auto.
    - apply StronglySorted_inv in Hs as [Hsl _]. auto.
  Qed.

  Lemma ssorted_snoc_inv l x :
    StronglySorted R (l ++ [x]) -> StronglySorted R l /\ Forall (fun a => R a x) l.
  Proof.
    induction l as [|a l IH]; cbn [app]; intros Hs.
    - split; constructor.
    - apply StronglySorted_inv in Hs as [Hsl Hal].
      destruct (IH Hsl) as [H1 H2]. apply Forall_app in Hal as [Hal Hax].
      split; constructor; auto.
      inversion Hax; assumption.
  Qed.
End SSorted.

(* ---- the strict order on strings as a Prop ------------------------------------------------ *)
Definition slt (a b : str) : Prop := str_ltb a b = true.

Lemma slt_irrefl a : ~ slt a a.
Proof. unfold slt. rewrite str_ltb_irrefl. discriminate. Qed.

Lemma slt_trans a b c : slt a b -> slt b c -> slt a c.
Proof. apply str_ltb_trans. Qed.

Lemma cmp_lt a b : str_compare a b = Lt -> slt a b.
Proof. unfold slt, str_ltb. intros ->. reflexivity. Qed.

Lemma cmp_gt a b : str_compare a b = Gt -> slt b a.
Proof. unfold slt, str_ltb. intros H. rewrite (str_compare_antisym a b), H. reflexivity. Qed.

Lemma slt_cmp_gt a b : slt a b -> str_compare b a = Gt.
Proof.
  unfold slt, str_ltb. intros H. rewrite (str_compare_antisym a b).
  destruct (str_compare a b); try discriminate; reflexivity.
Qed.

Lemma slt_cmp_lt a b : slt a b -> str_compare a b = Lt.
Proof. unfold slt, str_ltb. destruct (str_compare a b); try discriminate; reflexivity. Qed.

(* ---- name sets: strictly sorted lists ----------------------------------------------------- *)
Definition sset (l : list str) : Prop := StronglySorted slt l.

Local Notation ins_all := (fold_left (fun (s : list str) (t : str) => set_insert t s)).

Lemma set_insert_in x l t : In t (set_insert x l) <-> t = x \/ In t l.
Proof.
  induction l as [|y r IH]; cbn [set_insert].
  - cbn [In]. intuition congruence.
  - destruct (str_compare x y) eqn:E.
    + apply str_compare_eq in E. subst y. cbn [In]. intuition congruence.
    + cbn [In]. intuition congruence.
    + cbn [In]. rewrite IH. intuition congruence.
Qed.

Lemma set_insert_sorted x l : sset l -> sset (set_insert x l).
Proof.
  unfold sset. induction l as [|y r IH]; intros Hs; cbn [set_insert].
  - repeat constructor.
  - apply StronglySorted_inv in Hs as [Hr Hy].
    destruct (str_compare x y) eqn:E.
    + constructor; assumption.
    + constructor; [constructor; assumption|].
      constructor; [apply cmp_lt; exact E|].
      eapply Forall_impl; [|exact Hy].
      intros z Hz. eapply slt_trans; [apply cmp_lt; exact E|exact Hz].
    + constructor; [apply IH; exact Hr|].
      apply Forall_forall. intros z Hz.
      apply set_insert_in in Hz as [->|Hz]; [apply cmp_gt; exact E|].
      rewrite Forall_forall in Hy; auto.
Qed.

Lemma ins_all_in tys : forall s t, In t (ins_all tys s) <-> In t s \/ In t tys.
Proof.
  induction tys as [|a tys IH]; intros s t; cbn [fold_left].
  - cbn [In]. tauto.
  - rewrite IH, set_insert_in. cbn [In]. intuition congruence.
Qed.

Lemma ins_all_sorted tys : forall s, sset s -> sset (ins_all tys s).
Proof.
  induction tys as [|a tys IH]; intros s Hs; cbn [fold_left]; [exact Hs|].
  apply IH. apply set_insert_sorted; exact Hs.
Qed.

Lemma sset_nil : sset [].
Proof. constructor. Qed.

Lemma ins_all_comm t1 t2 s : sset s -> ins_all t1 (ins_all t2 s) = ins_all t2 (ins_all t1 s).
Proof.
  intros Hs. apply (ssorted_ext slt slt_irrefl slt_trans).
  - apply ins_all_sorted, ins_all_sorted, Hs.
  - apply ins_all_sorted, ins_all_sorted, Hs.
  - intros t. rewrite !ins_all_in. tauto.
Qed.

Lemma set_insert_last x s : Forall (fun y => slt y x) s -> set_insert x s = s ++ [x].
Proof.
  induction s as [|y r IH]; intros H; cbn [set_insert app]; [reflexivity|].
  inversion H as [|? ? Hy Hr]; subst.
  rewrite (slt_cmp_gt _ _ Hy), (IH Hr). reflexivity.
Qed.

Lemma ins_all_self s : sset s -> ins_all s [] = s.
Proof.
  unfold sset. induction s as [|x s IH] using rev_ind; intros H; [reflexivity|].
  rewrite fold_left_app. cbn [fold_left].
  apply ssorted_snoc_inv in H as [Hs Hx].
  rewrite (IH Hs). apply set_insert_last; exact Hx.
Qed.

(* ---- import maps: keys strictly sorted, every value a sorted set -------------------------- *)
Definition ksorted (m : imports_map) : Prop := StronglySorted slt (map fst m).
Definition vsorted (m : imports_map) : Prop := Forall (fun e => sset (snd e)) m.
Definition smap (m : imports_map) : Prop := ksorted m /\ vsorted m.

Local Notation mi_step :=
  (fun (m : imports_map) (e : str * list str) => map_insert (fst e) (snd e) m).

Lemma map_insert_keys p tys m : map fst (map_insert p tys m) = set_insert p (map fst m).
Proof.
  induction m as [|[q s] r IH]; cbn [map_insert map fst set_insert]; [reflexivity|].
  destruct (str_compare p q); cbn [map fst]; [reflexivity|reflexivity|].
  rewrite IH. reflexivity.
Qed.

Lemma map_insert_ksorted p tys m : ksorted m -> ksorted (map_insert p tys m).
Proof. unfold ksorted. rewrite map_insert_keys. apply set_insert_sorted. Qed.

Lemma map_insert_vsorted p tys m : vsorted m -> vsorted (map_insert p tys m).
Proof.
  unfold vsorted. induction m as [|[q s] r IH]; intros H; cbn [map_insert].
  - constructor; [|constructor]. cbn [snd]. apply ins_all_sorted, sset_nil.
  - inversion H as [|? ? Hs Hr]; subst. cbn [snd] in Hs.
    destruct (str_compare p q).
    + constructor; [|exact Hr]. cbn [snd]. apply ins_all_sorted; exact Hs.
    + constructor; [|exact H]. cbn [snd]. apply ins_all_sorted, sset_nil.
    + constructor; [exact Hs|]. apply IH; exact Hr.
Qed.

Lemma map_insert_smap p tys m : smap m -> smap (map_insert p tys m).
Proof. intros [Hk Hv]. split; [apply map_insert_ksorted | apply map_insert_vsorted]; assumption. Qed.

Lemma smap_nil : smap [].
Proof. split; constructor. Qed.

Lemma fold_smap l : forall acc, smap acc -> smap (fold_left mi_step l acc).
Proof.
  induction l as [|e l IH]; intros acc Hacc; cbn [fold_left]; [exact Hacc|].
  apply IH, map_insert_smap, Hacc.
Qed.

Lemma norm_imports_smap l : smap (norm_imports l).
Proof. apply fold_smap, smap_nil. Qed.

(* lookup semantics *)
Fixpoint lookup (q : str) (m : imports_map) : option (list str) :=
  match m with
  | [] => None
  | (p, s) :: r => if str_eqb q p then Some s else lookup q r
  end.

Definition dflt (o : option (list str)) : list str := match o with Some s => s | None => [] end.

Lemma lookup_none q m : Forall (slt q) (map fst m) -> lookup q m = None.
Proof.
  induction m as [|[p s] r IH]; intros H; cbn [lookup]; [reflexivity|].
  cbn [map fst] in H. inversion H as [|? ? Hp Hr]; subst.
  destruct (str_eqb_spec q p) as [->|_]; [exfalso; exact (slt_irrefl _ Hp)|].
  apply IH; exact Hr.
Qed.

Lemma lookup_in q m s : lookup q m = Some s -> In (q, s) m.
Proof.
  induction m as [|[p s'] r IH]; cbn [lookup]; [discriminate|].
  destruct (str_eqb_spec q p) as [->|_].
  - intros E. injection E as ->. left; reflexivity.
  - intros E. right. apply IH; exact E.
Qed.

Lemma lookup_sset m p : vsorted m -> sset (dflt (lookup p m)).
Proof.
  unfold vsorted. induction m as [|[q s] r IH]; intros H; cbn [lookup].
  - apply sset_nil.
  - inversion H as [|? ? Hs Hr]; subst.
    destruct (str_eqb p q); [exact Hs | apply IH; exact Hr].
Qed.

Lemma slt_neq a b : slt a b -> a <> b.
Proof. intros H ->. exact (slt_irrefl _ H). Qed.

Lemma lookup_map_insert p tys m q :
  ksorted m ->
  lookup q (map_insert p tys m) =
  if str_eqb q p then Some (ins_all tys (dflt (lookup p m))) else lookup q m.
Proof.
  unfold ksorted. induction m as [|[p' s] r IH]; intros Hs.
  - cbn [map_insert lookup dflt]. destruct (str_eqb q p); reflexivity.
  - cbn [map fst] in Hs. apply StronglySorted_inv in Hs as [Hr Hp'].
    cbn [map_insert]. destruct (str_compare p p') eqn:E.
    + apply str_compare_eq in E. subst p'. cbn [lookup]. rewrite str_eqb_refl. cbn [dflt].
      destruct (str_eqb q p); reflexivity.
    + assert (Hnone : lookup p ((p', s) :: r) = None).
      { apply lookup_none. cbn [map fst]. constructor; [apply cmp_lt; exact E|].
        eapply Forall_impl; [|exact Hp'].
        intros z Hz. eapply slt_trans; [apply cmp_lt; exact E|exact Hz]. }
      rewrite Hnone. cbn [dflt]. change (lookup q ((p, ins_all tys []) :: (p', s) :: r))
        with (if str_eqb q p then Some (ins_all tys []) else lookup q ((p', s) :: r)).
      reflexivity.
    + apply cmp_gt in E. cbn [lookup]. rewrite (IH Hr).
      destruct (str_eqb_spec p p') as [->|_]; [exfalso; exact (slt_irrefl _ E)|].
      destruct (str_eqb_spec q p') as [->|_]; [|reflexivity].
      destruct (str_eqb_spec p' p) as [->|_]; [exfalso; exact (slt_irrefl _ E)|reflexivity].
Qed.

(* two key-sorted maps with the same lookup function are equal *)
Lemma map_ext m : forall m',
  ksorted m -> ksorted m' -> (forall q, lookup q m = lookup q m') -> m = m'.
Proof.
  unfold ksorted. induction m as [|[p s] r IH]; intros [|[p' s'] r'] Hk Hk' Hl.
  - reflexivity.
  - specialize (Hl p'). cbn [lookup] in Hl. rewrite str_eqb_refl in Hl. discriminate.
  - specialize (Hl p). cbn [lookup] in Hl. rewrite str_eqb_refl in Hl. discriminate.
  - cbn [map fst] in Hk, Hk'.
    apply StronglySorted_inv in Hk as [Hr Hp]. apply StronglySorted_inv in Hk' as [Hr' Hp'].
    assert (p = p') as <-.
    { pose proof (Hl p) as H1. pose proof (Hl p') as H2. cbn [lookup] in H1, H2.
      rewrite str_eqb_refl in H1, H2.
      destruct (str_eqb_spec p p') as [E|NE]; [exact E|].
      destruct (str_eqb_spec p' p) as [E'|NE']; [congruence|].
      exfalso. symmetry in H1.
      apply lookup_in, (in_map fst) in H1. apply lookup_in, (in_map fst) in H2.
      cbn [fst] in H1, H2. rewrite Forall_forall in Hp, Hp'.
      apply (slt_irrefl p). apply slt_trans with p'; auto. }
    pose proof (Hl p) as H1. cbn [lookup] in H1. rewrite str_eqb_refl in H1.
    injection H1 as <-. f_equal. apply IH; auto.
    intros q. specialize (Hl q). cbn [lookup] in Hl. revert Hl.
    destruct (str_eqb_spec q p) as [E|_]; [intros _; subst q|intros Hl; exact Hl].
    rewrite (lookup_none _ _ Hp), (lookup_none _ _ Hp'). reflexivity.
Qed.

Lemma map_insert_comm p1 t1 p2 t2 m :
  smap m ->
  map_insert p1 t1 (map_insert p2 t2 m) = map_insert p2 t2 (map_insert p1 t1 m).
Proof.
  intros [Hk Hv]. apply map_ext.
  - apply map_insert_ksorted, map_insert_ksorted, Hk.
  - apply map_insert_ksorted, map_insert_ksorted, Hk.
  - intros q.
    rewrite (lookup_map_insert p1 t1 (map_insert p2 t2 m) q) by (apply map_insert_ksorted, Hk).
    rewrite (lookup_map_insert p2 t2 (map_insert p1 t1 m) q) by (apply map_insert_ksorted, Hk).
    rewrite !(lookup_map_insert _ _ m) by exact Hk.
    destruct (str_eqb_spec q p1) as [E1|N1]; destruct (str_eqb_spec q p2) as [E2|N2].
    + subst p1 p2. rewrite str_eqb_refl. cbn [dflt]. f_equal. apply ins_all_comm, lookup_sset, Hv.
    + subst q. destruct (str_eqb_spec p2 p1) as [E|_]; [congruence|].
      destruct (str_eqb_spec p1 p2) as [E|_]; [congruence|]. reflexivity.
    + subst q. destruct (str_eqb_spec p2 p1) as [E|_]; [congruence|].
      destruct (str_eqb_spec p1 p2) as [E|_]; [congruence|]. reflexivity.
    + reflexivity.
Qed.

Lemma fold_perm l l' :
  Permutation l l' -> forall acc, smap acc -> fold_left mi_step l acc = fold_left mi_step l' acc.
Proof.
  induction 1 as [|x l l' Hp IH|x y l|l l' l'' Hp1 IH1 Hp2 IH2]; intros acc Hacc; cbn [fold_left].
  - reflexivity.
  - apply IH, map_insert_smap, Hacc.
  - rewrite map_insert_comm by exact Hacc. reflexivity.
  - rewrite (IH1 _ Hacc). apply IH2; exact Hacc.
Qed.

Lemma map_insert_last p tys m :
  Forall (fun k => slt k p) (map fst m) -> map_insert p tys m = m ++ [(p, ins_all tys [])].
Proof.
  induction m as [|[q s] r IH]; intros H; cbn [map_insert app]; [reflexivity|].
  cbn [map fst] in H. inversion H as [|? ? Hq Hr]; subst.
  rewrite (slt_cmp_gt _ _ Hq), (IH Hr). reflexivity.
Qed.

Lemma norm_self m : smap m -> norm_imports m = m.
Proof.
  unfold norm_imports.
  induction m as [|[p s] m IH] using rev_ind; intros [Hk Hv]; [reflexivity|].
  rewrite fold_left_app. cbn [fold_left fst snd].
  unfold ksorted in Hk. rewrite map_app in Hk. cbn [map fst] in Hk.
  apply ssorted_snoc_inv in Hk as [Hk Hx].
  unfold vsorted in Hv. apply Forall_app in Hv as [Hv Hs].
  inversion Hs as [|? ? Hs' _]; subst. cbn [snd] in Hs'.
  rewrite IH by (split; assumption).
  rewrite (map_insert_last _ _ _ Hx), (ins_all_self _ Hs'). reflexivity.
Qed.

(* membership semantics *)
Definition has (m : list (str * list str)) (p t : str) : Prop :=
  exists ts, In (p, ts) m /\ In t ts.

Lemma has_nil p t : has [] p t <-> False.
Proof. split; [intros [ts [[] _]] | tauto]. Qed.

Lemma has_cons k s m p t : has ((k, s) :: m) p t <-> (k = p /\ In t s) \/ has m p t.
Proof.
  unfold has. split.
  - intros [ts [[E|Hin] Ht]].
    + injection E as -> ->. left; split; [reflexivity|exact Ht].
    + right. exists ts; split; assumption.
  - intros [[-> Ht]|[ts [Hin Ht]]].
    + exists s; split; [left; reflexivity|exact Ht].
    + exists ts; split; [right; exact Hin|exact Ht].
Qed.

Lemma map_insert_has q tys m p t :
  has (map_insert q tys m) p t <-> has m p t \/ (q = p /\ In t tys).
Proof.
  induction m as [|[p' s] r IH]; cbn [map_insert].
  - rewrite has_cons, ins_all_in. cbn [In]. tauto.
  - destruct (str_compare q p') eqn:E.
    + apply str_compare_eq in E. subst p'. rewrite !has_cons, ins_all_in. tauto.
    + rewrite !has_cons, ins_all_in. cbn [In]. tauto.
    + rewrite !has_cons, IH. tauto.
Qed.

Lemma fold_has l : forall acc p t,
  has (fold_left mi_step l acc) p t <-> has acc p t \/ has l p t.
Proof.
  induction l as [|[q tys] l IH]; intros acc p t; cbn [fold_left fst snd].
  - rewrite has_nil. tauto.
  - rewrite IH, map_insert_has, has_cons. tauto.
Qed.

(* well-formedness as a Prop *)
Definition wfg (e : str * list str) : Prop :=
  wf_path (fst e) = true /\ (exists t, In t (snd e)) /\ (forall t, In t (snd e) -> wf_name t = true).

Lemma wf_group_wfg e : wf_group e = true <-> wfg e.
Proof.
  unfold wf_group, wfg. rewrite !andb_true_iff, forallb_forall, negb_true_iff.
  destruct (snd e) as [|a r].
  - split; [intros [[_ H] _]; discriminate | intros [_ [[t []] _]]].
  - split.
    + intros [[H1 _] H2]. split; [exact H1|]. split; [exists a; left; reflexivity|exact H2].
    + intros [H1 [_ H2]]. repeat split; assumption.
Qed.

Lemma forallb_wf_group l : forallb wf_group l = true <-> Forall wfg l.
Proof.
  rewrite forallb_forall, Forall_forall.
  split; intros H x Hx; apply wf_group_wfg, H, Hx.
Qed.

Lemma map_insert_wf p tys m : wfg (p, tys) -> Forall wfg m -> Forall wfg (map_insert p tys m).
Proof.
  intros [Hp [[t0 Ht0] Hn]]. cbn [fst snd] in *.
  assert (Hnew : wfg (p, ins_all tys [])).
  { split; [exact Hp|]. cbn [snd]. split.
    - exists t0. apply ins_all_in. right; exact Ht0.
    - intros t Ht. apply ins_all_in in Ht as [[]|Ht]. apply Hn; exact Ht. }
  induction m as [|[q s] r IH]; intros H; cbn [map_insert].
  - constructor; [exact Hnew|constructor].
  - inversion H as [|? ? Hq Hr]; subst.
    destruct (str_compare p q) eqn:E.
    + constructor; [|exact Hr]. destruct Hq as [Hq1 [[t1 Ht1] Hq3]]. cbn [fst snd] in *.
      split; [exact Hq1|]. cbn [snd]. split.
      * exists t1. apply ins_all_in. left; exact Ht1.
      * intros t Ht. apply ins_all_in in Ht as [Ht|Ht]; [apply Hq3|apply Hn]; exact Ht.
    + constructor; [exact Hnew|exact H].
    + constructor; [exact Hq|]. apply IH; exact Hr.
Qed.

Lemma fold_wf l : forall acc, Forall wfg l -> Forall wfg acc -> Forall wfg (fold_left mi_step l acc).
Proof.
  induction l as [|[p tys] l IH]; intros acc Hl Hacc; cbn [fold_left fst snd]; [exact Hacc|].
  inversion Hl as [|? ? He Hl']; subst.
  apply IH; [exact Hl'|]. apply map_insert_wf; assumption.
Qed.

(* ---- A. imports -------------------------------------------------------------------------- *)
(* the normal form does not depend on the order in which import groups are inserted *)
Lemma norm_imports_perm l l' : Permutation l l' -> norm_imports l = norm_imports l'.
Proof. intros H. unfold norm_imports. apply fold_perm; [exact H|apply smap_nil]. Qed.

(* normalising an already normalised prefix again changes nothing *)
Lemma norm_imports_renorm l l' : norm_imports (norm_imports l ++ l') = norm_imports (l ++ l').
Proof.
  unfold norm_imports at 1 3. rewrite !fold_left_app.
  change (fold_left mi_step (norm_imports l) []) with (norm_imports (norm_imports l)).
  rewrite (norm_self _ (norm_imports_smap l)). reflexivity.
Qed.

Lemma norm_imports_idem l : norm_imports (norm_imports l) = norm_imports l.
Proof. apply norm_self, norm_imports_smap. Qed.

(* nothing is lost and nothing is invented: a name is imported from a path afterwards iff some
   inserted group for that path lists it *)
Lemma norm_imports_spec l p t :
  (exists ts, In (p, ts) (norm_imports l) /\ In t ts) <-> (exists ts, In (p, ts) l /\ In t ts).
Proof.
  change (has (norm_imports l) p t <-> has l p t).
  unfold norm_imports. rewrite fold_has, has_nil. tauto.
Qed.

(* each path once, each name once per path *)
Lemma norm_imports_nodup l :
  NoDup (map fst (norm_imports l)) /\ Forall (fun e => NoDup (snd e)) (norm_imports l).
Proof.
  destruct (norm_imports_smap l) as [Hk Hv]. split.
  - apply (ssorted_nodup slt slt_irrefl). exact Hk.
  - eapply Forall_impl; [|exact Hv]. intros e He.
    apply (ssorted_nodup slt slt_irrefl). exact He.
Qed.

(* well-formed groups stay well-formed *)
Lemma norm_imports_wf l : forallb wf_group l = true -> forallb wf_group (norm_imports l) = true.
Proof.
  rewrite !forallb_wf_group. intros H. unfold norm_imports. apply fold_wf; [exact H|constructor].
Qed.

(* ---- B. blocks --------------------------------------------------------------------------- *)
Definition keys_distinct (bs : list str) : Prop := NoDup (map key_of bs).

Definition blt (a b : str) : Prop := slt (key_of a) (key_of b).

Lemma blt_irrefl a : ~ blt a a.
Proof. apply slt_irrefl. Qed.

Lemma blt_trans a b c : blt a b -> blt b c -> blt a c.
Proof. apply slt_trans. Qed.

Lemma insert_block_perm new bs : Permutation (insert_block new bs) (new :: bs).
Proof.
  induction bs as [|b r IH]; cbn [insert_block]; [reflexivity|].
  destruct (str_ltb (key_of b) (key_of new)); [|reflexivity].
  rewrite IH. apply perm_swap.
Qed.

Lemma sort_blocks_snoc_aux bs b : sort_blocks (bs ++ [b]) = insert_block b (sort_blocks bs).
Proof. unfold sort_blocks. rewrite fold_left_app. reflexivity. Qed.

Lemma insert_block_sorted new bs :
  StronglySorted blt bs -> ~ In (key_of new) (map key_of bs) ->
  StronglySorted blt (insert_block new bs).
Proof.
  induction bs as [|b r IH]; intros Hs Hnin; cbn [insert_block].
  - repeat constructor.
  - apply StronglySorted_inv in Hs as [Hr Hb]. cbn [map In] in Hnin.
    destruct (str_ltb (key_of b) (key_of new)) eqn:E.
    + constructor; [apply IH; [exact Hr|tauto]|].
      apply Forall_forall. intros x Hx.
      apply (Permutation_in _ (insert_block_perm new r)) in Hx. destruct Hx as [<-|Hx].
      * exact E.
      * rewrite Forall_forall in Hb; auto.
    + assert (Hnb : blt new b).
      { unfold blt, slt. destruct (str_ltb (key_of new) (key_of b)) eqn:E2; [reflexivity|].
        exfalso. apply Hnin. left. apply str_ltb_total; assumption. }
      constructor; [constructor; assumption|].
      constructor; [exact Hnb|].
      eapply Forall_impl; [|exact Hb]. intros z Hz. eapply blt_trans; eassumption.
Qed.

Lemma sort_blocks_permutation bs : Permutation (sort_blocks bs) bs.
Proof.
  induction bs as [|b bs IH] using rev_ind; [reflexivity|].
  rewrite sort_blocks_snoc_aux, insert_block_perm, IH. apply Permutation_cons_append.
Qed.

Lemma sort_blocks_sorted_aux bs : keys_distinct bs -> StronglySorted blt (sort_blocks bs).
Proof.
  unfold keys_distinct. induction bs as [|b bs IH] using rev_ind; intros Hd; [constructor|].
  rewrite sort_blocks_snoc_aux.
  assert (Hd' : NoDup (map key_of (b :: bs))).
  { eapply Permutation_NoDup; [|exact Hd].
    apply Permutation_map, Permutation_sym, Permutation_cons_append. }
  cbn [map] in Hd'. inversion Hd' as [|? ? Hnin Hbs]; subst.
  apply insert_block_sorted; [apply IH; exact Hbs|].
  intros Hin. apply Hnin.
  eapply Permutation_in; [|exact Hin]. apply Permutation_map, sort_blocks_permutation.
Qed.

(* blocks come out in strictly increasing key order *)
Lemma sort_blocks_sorted bs :
  keys_distinct bs -> StronglySorted (fun a b => str_ltb (key_of a) (key_of b) = true) (sort_blocks bs).
Proof. exact (sort_blocks_sorted_aux bs). Qed.

(* the order of arrival is irrelevant *)
Lemma sort_blocks_perm bs bs' :
  keys_distinct bs -> Permutation bs bs' -> sort_blocks bs = sort_blocks bs'.
Proof.
  intros Hd Hp.
  assert (Hd' : keys_distinct bs').
  { unfold keys_distinct in *. eapply Permutation_NoDup; [|exact Hd]. apply Permutation_map, Hp. }
  apply (ssorted_ext blt blt_irrefl blt_trans).
  - apply sort_blocks_sorted_aux; exact Hd.
  - apply sort_blocks_sorted_aux; exact Hd'.
  - assert (Hpp : Permutation (sort_blocks bs) (sort_blocks bs')).
    { rewrite !sort_blocks_permutation. exact Hp. }
    intros t; split; apply Permutation_in; [exact Hpp|apply Permutation_sym; exact Hpp].
Qed.

Lemma sort_blocks_snoc bs b : sort_blocks (bs ++ [b]) = insert_block b (sort_blocks bs).
Proof. apply sort_blocks_snoc_aux. Qed.

(* ---- canonical file ---------------------------------------------------------------------- *)
Lemma canonical_file_perm h h' :
  keys_distinct (map it_block h) -> Permutation h h' -> canonical_file h = canonical_file h'.
Proof.
  intros Hd Hp. unfold canonical_file.
  assert (Hf : Permutation (flat_map it_imports h) (flat_map it_imports h')).
  { apply Permutation_flat_map; exact Hp. }
  rewrite (norm_imports_perm _ _ Hf).
  rewrite (sort_blocks_perm _ _ Hd (Permutation_map it_block Hp)).
  reflexivity.
Qed.

(* every exported declaration is in the canonical file, intact (doc comment included), between
   blank-line separators *)
Lemma canonical_file_lossless h i :
  In i h -> exists pre post, canonical_file h = pre ++ [nl] ++ it_block i ++ [nl] ++ post.
Proof.
  intros Hi.
  assert (Hin : In (it_block i) (sort_blocks (map it_block h))).
  { eapply Permutation_in; [apply Permutation_sym, sort_blocks_permutation|].
    apply in_map; exact Hi. }
  apply in_split in Hin as [l1 [l2 Hsplit]].
  unfold canonical_file, render_file, render_body. rewrite Hsplit.
  rewrite map_app, concat_app. cbn [map concat].
  exists (NOTE ++ render_imports (norm_imports (flat_map it_imports h)) ++
          concat (map (fun b => [nl] ++ b ++ [nl]) l1)).
  exists (concat (map (fun b => [nl] ++ b ++ [nl]) l2)).
  rewrite <- !app_assoc. reflexivity.
Qed.
