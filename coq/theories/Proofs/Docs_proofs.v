(* C15 (containment): for EVERY list of doc strings the rendered JSDoc block begins with `/**`,
   ends with `*/` + newline, and contains the comment terminator `*/` exactly once — at its end.  No
   documentation text can end its comment early. *)
From TsRs Require Import Base.Str Model.Docs.
From Coq Require Import List Lia Bool NArith.
Import ListNotations.
Local Open Scope nat_scope.

(* number of positions where `*` is immediately followed by `/` *)
Fixpoint closes (s : str) : nat :=
  match s with
  | c1 :: ((c2 :: _) as t) => (if (c1 =? star)%N && (c2 =? fslash)%N then 1 else 0) + closes t
  | _ => 0
  end.

Definition last_is_star (s : str) : bool := match rev s with c :: _ => (c =? star)%N | [] => false end.
Definition head_is_slash (s : str) : bool := match s with c :: _ => (c =? fslash)%N | [] => false end.

Lemma closes_cons c s : closes (c :: s) = (if (c =? star)%N && head_is_slash s then 1 else 0) + closes s.
Proof. destruct s as [|d r]; cbn [closes head_is_slash]; [rewrite andb_false_r; reflexivity|reflexivity]. Qed.

Lemma last_is_star_cons c s : s <> [] -> last_is_star (c :: s) = last_is_star s.
Proof.
  intros Hs. unfold last_is_star. cbn [rev]. destruct (rev s) as [|d r] eqn:E.
  - apply (f_equal (@rev _)) in E. rewrite rev_involutive in E. contradiction.
  - reflexivity.
Qed.

Lemma closes_app a b : closes (a ++ b) = closes a + closes b + (if last_is_star a && head_is_slash b then 1 else 0).
Proof.
  induction a as [|c a IH]; cbn [app].
  - cbn. lia.
  - rewrite !closes_cons, IH. destruct a as [|d a'].
    + cbn [app closes last_is_star rev head_is_slash]. rewrite andb_false_r. cbn [andb]. destruct ((c =? star)%N && head_is_slash b); lia.
    + rewrite (last_is_star_cons c (d :: a')) by discriminate. cbn [app head_is_slash]. lia.
Qed.

Lemma esc_close_eq c1 c2 r :
  esc_close (c1 :: c2 :: r) =
  if (c1 =? star)%N && (c2 =? fslash)%N then star :: bslash :: fslash :: esc_close r else c1 :: esc_close (c2 :: r).
Proof. reflexivity. Qed.

(* escaping removes every terminator *)
Lemma esc_close_closes : forall n s, length s <= n -> closes (esc_close s) = 0.
Proof.
  induction n as [|n IH]; intros s Hn.
  - destruct s; [reflexivity | cbn in Hn; lia].
  - destruct s as [|c1 [|c2 r]]; try reflexivity. rewrite esc_close_eq.
    destruct ((c1 =? star)%N && (c2 =? fslash)%N) eqn:E.
    + rewrite closes_cons. cbn [head_is_slash]. assert (Hb : (bslash =? fslash)%N = false) by reflexivity. rewrite Hb, andb_false_r.
      rewrite closes_cons. cbn [head_is_slash]. assert (Hb2 : (bslash =? star)%N = false) by reflexivity. rewrite Hb2. cbn [andb].
      rewrite closes_cons. assert (Hb3 : (fslash =? star)%N = false) by reflexivity. rewrite Hb3. cbn [andb].
      apply IH. cbn in Hn. lia.
    + rewrite closes_cons.
      assert (Hh : (c1 =? star)%N && head_is_slash (esc_close (c2 :: r)) = false).
      { destruct (c1 =? star)%N eqn:E1; [|reflexivity]. cbn [andb] in E |- *.
        destruct r as [|c3 r']; [cbn [esc_close head_is_slash]; exact E|]. rewrite esc_close_eq.
        destruct ((c2 =? star)%N && (c3 =? fslash)%N) eqn:E2; cbn [head_is_slash].
        - apply andb_true_iff in E2 as [E2 _]. apply N.eqb_eq in E2. subst c2. reflexivity.
        - exact E. }
      rewrite Hh. apply IH. cbn in Hn |- *. lia.
Qed.

Lemma fill_blank_eq c1 c2 r :
  fill_blank (c1 :: c2 :: r) = if (c1 =? nl)%N && (c2 =? nl)%N then nl :: 32%N :: star :: fill_blank (c2 :: r) else c1 :: fill_blank (c2 :: r).
Proof. reflexivity. Qed.

Lemma fill_blank_head s : head_is_slash (fill_blank s) = head_is_slash s.
Proof.
  destruct s as [|c1 [|c2 r]]; try reflexivity. rewrite fill_blank_eq.
  destruct ((c1 =? nl)%N && (c2 =? nl)%N) eqn:E; [|reflexivity].
  apply andb_true_iff in E as [E _]. apply N.eqb_eq in E. subst c1. reflexivity.
Qed.

(* filling empty lines adds no terminator *)
Lemma fill_blank_closes : forall n s, length s <= n -> closes (fill_blank s) = closes s.
Proof.
  induction n as [|n IH]; intros s Hn.
  - destruct s; [reflexivity | cbn in Hn; lia].
  - destruct s as [|c1 [|c2 r]]; try reflexivity. rewrite fill_blank_eq.
    destruct ((c1 =? nl)%N && (c2 =? nl)%N) eqn:E.
    + apply andb_true_iff in E as [E1 E2]. apply N.eqb_eq in E1, E2. subst c1 c2.
      rewrite closes_cons. assert (H1 : (nl =? star)%N = false) by reflexivity. rewrite H1. cbn [andb].
      rewrite closes_cons. assert (H2 : (32 =? star)%N = false) by reflexivity. rewrite H2. cbn [andb].
      rewrite closes_cons, fill_blank_head. cbn [head_is_slash]. assert (H3 : (nl =? fslash)%N = false) by reflexivity. rewrite H3, andb_false_r.
      rewrite (IH (nl :: r)) by (cbn in Hn |- *; lia).
      rewrite (closes_cons nl (nl :: r)). rewrite H1. reflexivity.
    + rewrite closes_cons, fill_blank_head, (IH (c2 :: r)) by (cbn in Hn |- *; lia). rewrite (closes_cons c1 (c2 :: r)). reflexivity.
Qed.

Lemma escape_doc_closes s : closes (escape_doc s) = 0.
Proof.
  unfold escape_doc. pose proof (esc_close_closes (length s) s (le_n _)) as H.
  destruct (esc_close s) as [|c t] eqn:E; [reflexivity|].
  destruct (c =? fslash)%N; [|exact H]. rewrite closes_cons. assert (Hb : (32 =? star)%N = false) by reflexivity. rewrite Hb. exact H.
Qed.

Lemma escape_doc_head s : head_is_slash (escape_doc s) = false.
Proof.
  unfold escape_doc. destruct (esc_close s) as [|c t]; [reflexivity|].
  destruct (c =? fslash)%N eqn:E; cbn [head_is_slash]; [reflexivity | exact E].
Qed.

(* one rendered line ` *<text>` *)
Lemma doc_line_closes s : closes (doc_line (escape_doc s)) = 0.
Proof.
  unfold doc_line. rewrite closes_app, escape_doc_closes, escape_doc_head. rewrite andb_false_r. reflexivity.
Qed.

Lemma doc_line_head s : head_is_slash (doc_line s) = false.
Proof. reflexivity. Qed.

Lemma head_app a b : a <> [] -> head_is_slash (a ++ b) = head_is_slash a.
Proof. destruct a; [contradiction | reflexivity]. Qed.

Lemma join_lines_closes ls : closes (join [nl] (map doc_line (map escape_doc ls))) = 0 /\
                             head_is_slash (join [nl] (map doc_line (map escape_doc ls))) = false.
Proof.
  induction ls as [|l ls IH]; cbn [map join]; [split; reflexivity|].
  destruct (map doc_line (map escape_doc ls)) as [|x xs] eqn:E.
  - split; [apply doc_line_closes | reflexivity].
  - destruct IH as [IH1 IH2]. split; [|reflexivity].
    rewrite closes_app, doc_line_closes. rewrite closes_app. cbn [closes]. rewrite IH1.
    cbn [last_is_star rev app]. assert (Hn : (nl =? star)%N = false) by reflexivity. rewrite Hn. cbn [andb].
    cbn [head_is_slash]. assert (Hs : (nl =? fslash)%N = false) by reflexivity. rewrite Hs, andb_false_r. reflexivity.
Qed.

Lemma last_is_star_app_nl s : last_is_star (s ++ [nl]) = false.
Proof. unfold last_is_star. rewrite rev_app_distr. reflexivity. Qed.

Lemma closes_app_head a b : head_is_slash b = false -> closes (a ++ b) = closes a + closes b.
Proof. intros H. rewrite closes_app, H, andb_false_r. lia. Qed.

Lemma closes_app_last a b : last_is_star a = false -> closes (a ++ b) = closes a + closes b.
Proof. intros H. rewrite closes_app, H. cbn [andb]. lia. Qed.

Lemma head_escape_app s b : head_is_slash (escape_doc s ++ lit "*/" ++ b) = false.
Proof.
  pose proof (escape_doc_head s) as H. destruct (escape_doc s) as [|c t]; [reflexivity | exact H].
Qed.

(* the block: exactly one terminator, and it is the one that ends the block *)
Lemma parse_docs_raw_one_close ls : ls <> [] -> closes (parse_docs_raw ls) = 1.
Proof.
  intros Hne. unfold parse_docs_raw. destruct ls as [|l1 [|l2 ls]]; [contradiction| |].
  - cbn [map]. destruct (existsb (N.eqb nl) (escape_doc l1)).
    + rewrite closes_app_head by apply head_escape_app.
      rewrite (closes_app_head (escape_doc l1)) by reflexivity.
      rewrite escape_doc_closes. reflexivity.
    + rewrite closes_app_head by reflexivity. rewrite (closes_app_head [nl]) by reflexivity.
      rewrite (closes_app_head (doc_line (escape_doc l1))) by reflexivity.
      rewrite doc_line_closes. reflexivity.
  - destruct (join_lines_closes (l1 :: l2 :: ls)) as [Hc Hh].
    set (body := join [nl] (map doc_line (map escape_doc (l1 :: l2 :: ls)))) in *.
    change (map escape_doc (l1 :: l2 :: ls)) with (escape_doc l1 :: escape_doc l2 :: map escape_doc ls).
    change (closes (lit "/**" ++ [nl] ++ body ++ [nl] ++ lit " */" ++ [nl]) = 1).
    rewrite closes_app_head by reflexivity. rewrite (closes_app_last [nl]) by reflexivity.
    rewrite (closes_app_head body) by reflexivity. rewrite Hc. reflexivity.
Qed.

Lemma starts_with_app p s : starts_with p (p ++ s) = true.
Proof. induction p as [|c p IH]; cbn [starts_with app]; [destruct s; reflexivity|]. rewrite N.eqb_refl. exact IH. Qed.

(* it begins with the JSDoc opener and ends with the terminator and a newline *)
Lemma parse_docs_raw_shape ls : ls <> [] ->
  starts_with (lit "/**") (parse_docs_raw ls) = true /\ exists body, parse_docs_raw ls = body ++ lit "*/" ++ [nl].
Proof.
  intros Hne. unfold parse_docs_raw. destruct ls as [|l1 [|l2 ls]]; [contradiction| |].
  - cbn [map]. destruct (existsb (N.eqb nl) (escape_doc l1)); (split; [apply starts_with_app|]).
    + exists (lit "/**" ++ escape_doc l1). rewrite <- app_assoc. reflexivity.
    + exists (lit "/**" ++ [nl] ++ doc_line (escape_doc l1) ++ [nl] ++ [32%N]). rewrite <- !app_assoc. reflexivity.
  - split; [apply starts_with_app|].
    exists (lit "/**" ++ [nl] ++ join [nl] (map doc_line (map escape_doc (l1 :: l2 :: ls))) ++ [nl] ++ [32%N]).
    rewrite <- !app_assoc. reflexivity.
Qed.


(* ---- the blank-line fill over the whole block ---- *)
Theorem parse_docs_one_close ls : ls <> [] -> closes (parse_docs ls) = 1.
Proof. intros Hne. unfold parse_docs. rewrite (fill_blank_closes _ _ (le_n _)). apply parse_docs_raw_one_close, Hne. Qed.

Lemma fill_blank_cons c s : (c =? nl)%N = false -> fill_blank (c :: s) = c :: fill_blank s.
Proof. intros H. destruct s as [|d r]; [reflexivity|]. rewrite fill_blank_eq, H. reflexivity. Qed.

Definition head_is_nl (s : str) : bool := match s with c :: _ => (c =? nl)%N | [] => false end.

Lemma fill_blank_app a : forall b, head_is_nl b = false -> fill_blank (a ++ b) = fill_blank a ++ fill_blank b.
Proof.
  induction a as [|c1 a IH]; intros b Hb; [reflexivity|].
  destruct a as [|c2 r].
  - cbn [app]. destruct b as [|d b']; [reflexivity|]. cbn [head_is_nl] in Hb. rewrite fill_blank_eq, Hb, andb_false_r. reflexivity.
  - change ((c1 :: c2 :: r) ++ b) with (c1 :: c2 :: (r ++ b)). rewrite !fill_blank_eq.
    change (c2 :: r ++ b) with ((c2 :: r) ++ b). rewrite (IH b Hb).
    destruct ((c1 =? nl)%N && (c2 =? nl)%N); reflexivity.
Qed.

Theorem parse_docs_shape ls : ls <> [] ->
  starts_with (lit "/**") (parse_docs ls) = true /\ exists body, parse_docs ls = body ++ lit "*/" ++ [nl].
Proof.
  intros Hne. destruct (parse_docs_raw_shape ls Hne) as [Hs [body Hb]]. unfold parse_docs. split.
  - apply starts_with_spec in Hs as [r Hr]. rewrite Hr. apply starts_with_spec. exists (fill_blank r).
    change (lit "/**" ++ r) with (fslash :: star :: star :: r). rewrite !fill_blank_cons by reflexivity. reflexivity.
  - rewrite Hb. exists (fill_blank body). rewrite fill_blank_app by reflexivity. reflexivity.
Qed.

(* an empty line: a newline directly followed by a newline *)
Fixpoint has_blank (s : str) : bool :=
  match s with
  | c1 :: ((c2 :: _) as t) => ((c1 =? nl)%N && (c2 =? nl)%N) || has_blank t
  | _ => false
  end.

Lemma has_blank_cons c s : has_blank (c :: s) = ((c =? nl)%N && head_is_nl s) || has_blank s.
Proof. destruct s as [|d r]; cbn [has_blank head_is_nl]; [rewrite andb_false_r; reflexivity|reflexivity]. Qed.

Lemma fill_blank_head_nl s : head_is_nl (fill_blank s) = head_is_nl s.
Proof.
  destruct s as [|c1 [|c2 r]]; try reflexivity. rewrite fill_blank_eq.
  destruct ((c1 =? nl)%N && (c2 =? nl)%N) eqn:E; [|reflexivity].
  apply andb_true_iff in E as [E _]. cbn [head_is_nl]. rewrite E. reflexivity.
Qed.

Lemma fill_blank_no_blank : forall n s, length s <= n -> has_blank (fill_blank s) = false.
Proof.
  induction n as [|n IH]; intros s Hn.
  - destruct s; [reflexivity | cbn in Hn; lia].
  - destruct s as [|c1 [|c2 r]]; try reflexivity. rewrite fill_blank_eq.
    destruct ((c1 =? nl)%N && (c2 =? nl)%N) eqn:E.
    + rewrite has_blank_cons. cbn [head_is_nl]. assert (H1 : (32 =? nl)%N = false) by reflexivity. rewrite H1, andb_false_r. cbn [orb].
      rewrite has_blank_cons. cbn [head_is_nl]. rewrite H1. cbn [andb orb].
      rewrite has_blank_cons. assert (H2 : (star =? nl)%N = false) by reflexivity. rewrite H2. cbn [andb orb].
      apply IH. cbn in Hn |- *. lia.
    + rewrite has_blank_cons, fill_blank_head_nl. cbn [head_is_nl]. rewrite E. cbn [orb]. apply IH. cbn in Hn |- *. lia.
Qed.

(* the documentation block never contains an empty line: in a file shared by several declarations, where blocks are
   separated by an empty line, a block of documentation plus declaration stays one block *)
Theorem parse_docs_no_blank ls : has_blank (parse_docs ls) = false.
Proof. unfold parse_docs. apply (fill_blank_no_blank _ _ (le_n _)). Qed.


(* no documentation at all: nothing is emitted *)
Theorem parse_docs_nil : parse_docs [] = [].
Proof. reflexivity. Qed.

(* ---- documentation never alters the type ------------------------------------------------------ *)
From TsRs Require Import Base.Outcome Gen.Tables Model.Case Model.TsAst Model.Rust Model.Gen.

Definition field_with_docs (f : field) (ds : list str) : field :=
  {| f_ident := f_ident f; f_ty := f_ty f; f_serde_ty := f_serde_ty f; f_rename := f_rename f; f_skip := f_skip f;
     f_inline := f_inline f; f_flatten := f_flatten f; f_optional := f_optional f; f_type := f_type f; f_docs := ds;
     f_skip_none := f_skip_none f |}.

Definition attrs_with_docs (a : cattrs) (ds : list str) : cattrs :=
  {| c_ident := c_ident a; c_rename := c_rename a; c_rename_all := c_rename_all a; c_tag := c_tag a;
     c_optional_fields := c_optional_fields a; c_docs := ds; c_export_to := c_export_to a; c_type := c_type a; c_as := c_as a;
     c_params := c_params a |}.

Definition def_with_docs (d : typedef) (ds : list str) : typedef :=
  match d with
  | DStruct a s => DStruct (attrs_with_docs a ds) s
  | DEnum a tg raf vs => DEnum (attrs_with_docs a ds) tg raf vs
  end.

Section DocsIndep.
Variable is_upper is_alnum is_numeric : char -> bool.
Variable R : env.
Variable inl flt : rty -> outcome tsty.

(* changing the documentation of a field changes its property's comment and nothing else *)
Theorem field_docs_irrelevant : forall args ra opt fl ds p,
  prop_of is_alnum is_numeric R inl args ra opt fl = Ok p ->
  exists p', prop_of is_alnum is_numeric R inl args ra opt (field_with_docs fl ds) = Ok p' /\
             snd p' = snd p /\ p_key (fst p') = p_key (fst p) /\ p_text (fst p') = p_text (fst p) /\
             p_optional (fst p') = p_optional (fst p) /\ p_docs (fst p') = parse_docs ds.
Proof.
  intros args ra opt fl ds p H. unfold prop_of in *. cbn [field_with_docs f_type f_inline f_ty f_optional].
  change (field_key ra (field_with_docs fl ds)) with (field_key ra fl).
  change (field_ty args opt (field_with_docs fl ds)) with (field_ty args opt fl).
  change (field_optional opt (field_with_docs fl ds)) with (field_optional opt fl).
  destruct (f_type fl).
  - inversion H; subst. eexists; repeat split.
  - destruct (if f_inline fl then inl (field_ty args opt fl) else name_of R (field_ty args opt fl)) as [x|?|?]; cbn [bind] in *; try discriminate.
    inversion H; subst. eexists; repeat split.
Qed.

(* changing the documentation of a type changes neither its inline form nor its flattened form *)
Theorem type_docs_irrelevant : forall d ds args,
  def_body is_upper is_alnum is_numeric R inl flt (def_with_docs d ds) args =
  def_body is_upper is_alnum is_numeric R inl flt d args.
Proof. intros [a s|a tg raf vs] ds args; reflexivity. Qed.

End DocsIndep.
