(* C03 (import level): what generate_imports puts into the import statements, for ANY list of
   dependencies: sound (every imported name is the name of a dependency that is not the exporting
   type itself and not in the same file, under exactly the specifier import_path computes for that
   dependency's file), complete up to equal names (every dependency other than the type itself is
   represented by a dependency of the same name which is imported or lives in the same file), and
   every name is imported from one place only. *)
From TsRs Require Import Base.Str Base.Outcome Gen.Tables Model.Case Model.TsAst Model.Rust Model.Docs Model.Gen
  Model.Path Model.Merge Model.GenExport Proofs.Gen_base_proofs Proofs.Merge_algebra_proofs.
From Coq Require Import List Lia Bool Sorted.
Import ListNotations.

Section Imports.
Variable R : env.
Variable esm : bool.
Variable cwd : list str.
Variable t : rty.
Variable out_dir : str.

Notation dep := (rty * str * str)%type.
Definition dname (e : dep) : str := snd (fst e).
Definition dty (e : dep) : rty := fst (fst e).
Definition dpath (e : dep) : str := snd e.

Lemma dep_insert_in e m x : In x (dep_insert e m) -> x = e \/ In x m.
Proof.
  induction m as [|y r IH]; cbn [dep_insert]; intros H.
  - destruct H as [<-|[]]. left; reflexivity.
  - destruct (str_compare (snd (fst e)) (snd (fst y))).
    + destruct H as [<-|H]; [left; reflexivity | right; right; exact H].
    + destruct H as [<-|H]; [left; reflexivity | right; exact H].
    + destruct H as [<-|H]; [right; left; reflexivity|]. destruct (IH H) as [->|H']; [left; reflexivity | right; right; exact H'].
Qed.

Lemma dep_insert_names e m n : In n (map dname (dep_insert e m)) <-> n = dname e \/ In n (map dname m).
Proof.
  induction m as [|y r IH]; cbn [dep_insert map In].
  - split; [intros [<-|[]]; left; reflexivity | intros [->|[]]; left; reflexivity].
  - destruct (str_compare (snd (fst e)) (snd (fst y))) eqn:E; cbn [map In].
    + apply str_compare_eq in E. unfold dname in *. rewrite <- E. intuition congruence.
    + unfold dname in *. intuition congruence.
    + rewrite IH. unfold dname in *. intuition congruence.
Qed.

Lemma fold_dep_insert_in l : forall acc x, In x (fold_left (fun m e => dep_insert e m) l acc) -> In x acc \/ In x l.
Proof.
  induction l as [|e l IH]; cbn [fold_left]; intros acc x H; [left; exact H|].
  destruct (IH _ _ H) as [H1|H1]; [|right; right; exact H1].
  destruct (dep_insert_in _ _ _ H1) as [->|H2]; [right; left; reflexivity | left; exact H2].
Qed.

Lemma fold_dep_insert_names l : forall acc n,
  In n (map dname (fold_left (fun m e => dep_insert e m) l acc)) <-> In n (map dname acc) \/ In n (map dname l).
Proof.
  induction l as [|e l IH]; cbn [fold_left map In]; intros acc n; [tauto|].
  rewrite IH, dep_insert_names. intuition congruence.
Qed.

(* names are strictly increasing in the de-duplicated list: one entry per name *)
Definition names_sorted (m : list dep) : Prop := StronglySorted (fun a b => slt (dname a) (dname b)) m.

Lemma dep_insert_sorted e m : names_sorted m -> names_sorted (dep_insert e m).
Proof.
  unfold names_sorted. induction 1 as [|y r Hr IH Hall]; cbn [dep_insert]; [repeat constructor|].
  destruct (str_compare (snd (fst e)) (snd (fst y))) eqn:E.
  - apply str_compare_eq in E. constructor; [exact Hr|]. unfold dname in *. rewrite E. exact Hall.
  - apply cmp_lt in E. constructor; [constructor; assumption|]. constructor; [exact E|].
    eapply Forall_impl; [|exact Hall]. intros a Ha. eapply slt_trans; eassumption.
  - apply cmp_gt in E. constructor; [exact IH|].
    apply Forall_forall. intros x Hx. destruct (dep_insert_in _ _ _ Hx) as [->|Hx']; [exact E|].
    rewrite Forall_forall in Hall. apply Hall. exact Hx'.
Qed.

Lemma fold_dep_insert_sorted l : forall acc, names_sorted acc -> names_sorted (fold_left (fun m e => dep_insert e m) l acc).
Proof. induction l as [|e l IH]; cbn [fold_left]; intros acc H; [exact H | apply IH, dep_insert_sorted, H]. Qed.

Lemma names_sorted_unique m a b : names_sorted m -> In a m -> In b m -> dname a = dname b -> a = b.
Proof.
  unfold names_sorted. induction 1 as [|y r Hr IH Hall]; intros Ha Hb E; [destruct Ha|].
  rewrite Forall_forall in Hall.
  destruct Ha as [<-|Ha]; destruct Hb as [<-|Hb]; auto.
  - exfalso. specialize (Hall _ Hb). rewrite E in Hall. eapply slt_irrefl; exact Hall.
  - exfalso. specialize (Hall _ Ha). rewrite <- E in Hall. eapply slt_irrefl; exact Hall.
Qed.

(* --- the grouping loop ---------------------------------------------------------------------- *)
Variable path : str.

Definition gstep (acc : outcome imports_map) (e : dep) : outcome imports_map :=
  bind acc (fun m =>
  bind (import_path esm cwd path (path_join out_dir (snd e))) (fun rel =>
  if is_same_file path rel then Ok m else Ok (map_insert rel [snd (fst e)] m))).

Lemma gstep_err l : forall acc, (forall m, acc <> Ok m) -> forall m, fold_left gstep l acc <> Ok m.
Proof.
  induction l as [|e l IH]; cbn [fold_left]; intros acc Hacc m; [apply Hacc|].
  apply IH. intros m' H. destruct acc as [a|?|?]; [exfalso; eapply Hacc; reflexivity | discriminate | discriminate].
Qed.

(* what one dependency contributes *)
Definition placed (m : imports_map) (e : dep) : Prop :=
  exists p, import_path esm cwd path (path_join out_dir (dpath e)) = Ok p /\
            (is_same_file path p = true \/ has m p (dname e)).

Lemma fold_gstep l : forall m0 m, fold_left gstep l (Ok m0) = Ok m ->
  (forall p n, has m p n -> has m0 p n \/
     exists e, In e l /\ dname e = n /\ import_path esm cwd path (path_join out_dir (dpath e)) = Ok p /\ is_same_file path p = false) /\
  (forall p n, has m0 p n -> has m p n) /\
  (forall e, In e l -> placed m e).
Proof.
  induction l as [|e l IH]; cbn [fold_left]; intros m0 m H.
  - inversion H; subst. repeat split; [intros; left; assumption | auto | intros e []].
  - unfold gstep at 2 in H. cbn [bind] in H.
    destruct (import_path esm cwd path (path_join out_dir (snd e))) as [rel|?|?] eqn:Hrel;
      [|exfalso; eapply gstep_err; [|exact H]; intros; discriminate|exfalso; eapply gstep_err; [|exact H]; intros; discriminate].
    cbn [bind] in H. destruct (is_same_file path rel) eqn:Hsf.
    + destruct (IH _ _ H) as (A & B & C). repeat split.
      * intros p n Hh. destruct (A p n Hh) as [H0|(e' & He' & Hx)]; [left; exact H0 | right; exists e'; split; [right; exact He' | exact Hx]].
      * exact B.
      * intros e' [<-|He']; [|apply C; exact He']. exists rel. split; [exact Hrel | left; exact Hsf].
    + destruct (IH _ _ H) as (A & B & C). repeat split.
      * intros p n Hh. destruct (A p n Hh) as [H0|(e' & He' & Hx)].
        -- apply map_insert_has in H0 as [H0|[<- Hn]]; [left; exact H0|]. right. exists e.
           split; [left; reflexivity|]. destruct Hn as [<-|[]]. repeat split; assumption.
        -- right; exists e'; split; [right; exact He' | exact Hx].
      * intros p n Hh. apply B. apply map_insert_has. left; exact Hh.
      * intros e' [<-|He']; [|apply C; exact He']. exists rel. split; [exact Hrel|]. right.
        apply B. apply map_insert_has. right. split; [reflexivity | left; reflexivity].
Qed.

End Imports.

Section Groups.
Variable R : env.
Variable esm : bool.
Variable cwd : list str.

Theorem import_groups_spec : forall t out_dir deps m op,
  out_path R t = Some op ->
  import_groups R esm cwd t out_dir deps = Ok m ->
  let path := path_join out_dir op in
  (* sound *)
  (forall p n, has m p n ->
     exists e, In e deps /\ dname e = n /\ rty_eqb (dty e) t = false /\
               import_path esm cwd path (path_join out_dir (dpath e)) = Ok p /\ is_same_file path p = false) /\
  (* one place per name *)
  (forall p p' n, has m p n -> has m p' n -> p = p') /\
  (* complete up to equal names *)
  (forall e, In e deps -> rty_eqb (dty e) t = false ->
     exists e', In e' deps /\ dname e' = dname e /\ rty_eqb (dty e') t = false /\
                placed esm cwd out_dir path m e').
Proof.
  intros t out_dir deps m op Hop H path. unfold import_groups in H. rewrite Hop in H.
  set (fdeps := filter (fun e => negb (rty_eqb (fst (fst e)) t)) deps) in *.
  set (dedup := fold_left (fun m e => dep_insert e m) fdeps []) in *.
  change (fold_left (gstep esm cwd out_dir path) dedup (Ok []) = Ok m) in H.
  destruct (fold_gstep esm cwd out_dir path dedup [] m H) as (A & _ & C).
  assert (Hd_in : forall e, In e dedup -> In e deps /\ rty_eqb (dty e) t = false).
  { intros e He. destruct (fold_dep_insert_in _ _ _ He) as [[]|Hf]. apply filter_In in Hf as [Hi Hn].
    split; [exact Hi|]. apply negb_true_iff in Hn. exact Hn. }
  assert (Hsorted : names_sorted dedup) by (apply fold_dep_insert_sorted; constructor).
  repeat split.
  - intros p n Hh. destruct (A p n Hh) as [H0|(e & He & Hn & Hp & Hs)]; [apply has_nil in H0; contradiction|].
    destruct (Hd_in e He) as [Hi Hne]. exists e. repeat split; assumption.
  - intros p p' n Hh Hh'.
    destruct (A p n Hh) as [H0|(e & He & Hn & Hp & _)]; [apply has_nil in H0; contradiction|].
    destruct (A p' n Hh') as [H0|(e' & He' & Hn' & Hp' & _)]; [apply has_nil in H0; contradiction|].
    assert (e = e') by (eapply names_sorted_unique; [exact Hsorted|exact He|exact He'|congruence]).
    subst e'. congruence.
  - intros e He Hne.
    assert (Hn : In (dname e) (map dname dedup)).
    { apply fold_dep_insert_names. right. apply in_map. apply filter_In. split; [exact He|]. apply negb_true_iff. exact Hne. }
    apply in_map_iff in Hn as (e' & Hn' & He').
    destruct (Hd_in e' He') as [Hi' Hne']. exists e'. repeat split; try assumption. apply C. exact He'.
Qed.
End Groups.
