(* C01, derive layer: for environments of non-generic definitions in the plain fragment (every
   shape; rename / rename_all / rename_all_fields / skip; all four enum representations; references
   to other definitions and library containers at any depth; recursive types), every value: what
   serde_json emits is a member of the declared TypeScript type.  Layer lemma for one definition
   (parametrised by what holds of its field types), then induction on serde's recursion depth. *)
From TsRs Require Import Base.Str Base.Outcome Gen.Tables Model.Case Model.TsAst Model.Rust Model.Docs Model.Gen
  Spec.TsFree Spec.TsSem Spec.Serde Spec.RtyInd Proofs.Gen_base_proofs Proofs.Sem_base_proofs Proofs.Sem_lib_proofs Proofs.Sem_alt_proofs Proofs.Gen_scoped_proofs Model.Path Model.Merge Model.GenExport.
From Coq Require Import List Lia Bool ZArith Sorting.Permutation.
Import ListNotations.
Local Open Scope nat_scope.

Section Defs.
Variable R : env.

Definition key_leaf (t : rty) : bool :=
  match t with RLeaf LString | RLeaf LChar | RLeaf (LInt _ _ _) => true | _ => false end.

(* types of a definition with n type parameters: parameters below n, references to known definitions at their
   arity, map keys that serde_json can write, no dummies *)
Fixpoint pmono (n : nat) (t : rty) : bool :=
  match t with
  | RLeaf _ => true
  | ROption u | RVec u | RArray _ u | RWrap u | RRange u => pmono n u
  | RTuple ts => forallb (pmono n) ts
  | RMap k v => key_leaf k && pmono n v
  | RResult a b => pmono n a && pmono n b
  | RNamed id args =>
      match lookup R id with
      | Some d => Nat.eqb (length args) (length (c_params (attrs_of d))) && forallb (pmono n) args
      | None => false
      end
  | RParam i => Nat.ltb i n
  | RDummy _ => false
  end.

(* closed types *)
Definition mono_ty (t : rty) : bool := pmono 0 t.

Lemma pmono_src n : forall t, pmono n t = true -> src_ty n t = true.
Proof.
  induction t as [l|t IH|t IH|m t IH|ts IH|k v IHk IHv|t IH|t e IHt IHe|t IH|id args IH|i|m] using rty_ind';
    cbn [pmono src_ty]; intros H; auto; try discriminate.
  - rewrite forallb_forall in *. rewrite Forall_forall in IH. intros x Hx. auto.
  - apply andb_true_iff in H as [H1 H2]. rewrite (IHv H2). destruct k; try discriminate. reflexivity.
  - apply andb_true_iff in H as [H1 H2]. rewrite (IHt H1), (IHe H2). reflexivity.
  - destruct (lookup R id); [|discriminate]. apply andb_true_iff in H as [_ H].
    rewrite forallb_forall in *. rewrite Forall_forall in IH. intros x Hx. auto.
Qed.

Lemma mono_src t : mono_ty t = true -> src_ty 0 t = true.
Proof. apply pmono_src. Qed.

Lemma key_leaf_subst args k : key_leaf k = true -> rsubst args k = k.
Proof. destruct k as [l| | | | | | | | | | |]; try discriminate. reflexivity. Qed.

(* instantiating the parameters of such a type at closed types gives a closed type *)
Lemma pmono_subst n args : Forall (fun a => mono_ty a = true) args -> length args = n ->
  forall t, pmono n t = true -> mono_ty (rsubst args t) = true.
Proof.
  intros Hargs Hlen. unfold mono_ty.
  induction t as [l|t IH|t IH|m t IH|ts IH|k v IHk IHv|t IH|t e IHt IHe|t IH|id targs IH|i|m] using rty_ind';
    cbn [pmono rsubst]; intros H; auto; try discriminate.
  - rewrite forallb_forall in *. rewrite Forall_forall in IH. intros x Hx. apply in_map_iff in Hx as (y & <- & Hy). auto.
  - apply andb_true_iff in H as [H1 H2]. rewrite (key_leaf_subst _ _ H1), H1. cbn [andb]. auto.
  - apply andb_true_iff in H as [H1 H2]. rewrite (IHt H1), (IHe H2). reflexivity.
  - destruct (lookup R id); [|discriminate]. apply andb_true_iff in H as [Hl H]. rewrite map_length, Hl. cbn [andb].
    rewrite forallb_forall in *. rewrite Forall_forall in IH. intros x Hx. apply in_map_iff in Hx as (y & <- & Hy). auto.
  - apply Nat.ltb_lt in H. rewrite Forall_forall in Hargs. apply Hargs. apply nth_In. lia.
Qed.

Definition not_param (t : rty) : Prop := match t with RParam _ => False | _ => True end.

(* `?` on the property and what serde does with the field agree: a property that may be absent (skip_serializing_if =
   "Option::is_none") is marked optional; an optional property whose type does not include null is never written as null
   (`optional` without skip_serializing_if is a known class); `optional_fields` is not looked at through a bare parameter *)
Definition opt_sound (opt : optional) (f : field) : Prop :=
  match f_optional f, opt with
  | NotOptional, NotOptional => f_skip_none f = false
  | NotOptional, Optional nl =>
      not_param (f_ty f) /\ (if is_option (f_ty f) then nl = true \/ f_skip_none f = true else f_skip_none f = false)
  | Optional nl, _ => is_option (f_ty f) = true /\ (nl = true \/ f_skip_none f = true)
  end.

(* a field with rename, skip, inline and optional only; an inlined field has a closed type (no type parameter of the definition) *)
Definition plain_field (n : nat) (opt : optional) (f : field) : Prop :=
  f_flatten f = false /\ f_type f = None /\ f_serde_ty f = f_ty f /\ pmono n (f_ty f) = true /\
  (f_inline f = true -> pmono 0 (f_ty f) = true) /\ opt_sound opt f.

(* the content of a newtype variant of an internally tagged enum: a struct with named fields (at least one), without a tag of
   its own, none of whose keys is the enum's tag *)
Definition struct_content (tg : str) (t : rty) : Prop :=
  match t with
  | RNamed id _ =>
      match lookup R id with
      | Some (DStruct a (SNamed (f0 :: fs))) =>
          c_tag a = None /\ ~ In tg (map (Gen.field_key (c_rename_all a)) (live (f0 :: fs))) /\
          Forall (fun f => f_flatten f = false) (f0 :: fs)
      | _ => False
      end
  | _ => False
  end.

(* a struct that can be flattened into another definition: named fields (at least one), no tag of its own, no flattened field
   of its own (one level of flattening) *)
Definition flat_struct (t : rty) : Prop :=
  match t with
  | RNamed id _ =>
      match lookup R id with
      | Some (DStruct a (SNamed (f0 :: fs))) => c_tag a = None /\ Forall (fun f => f_flatten f = false) (f0 :: fs)
      | _ => False
      end
  | _ => False
  end.
Definition flat_keys (t : rty) : list str :=
  match t with
  | RNamed id _ =>
      match lookup R id with
      | Some (DStruct a (SNamed fs)) => map (Gen.field_key (c_rename_all a)) (live fs)
      | _ => []
      end
  | _ => []
  end.
(* a flattened field: of such a struct, the flattened type is closed (mentions no type parameter of the host) *)
Definition flat_field (n : nat) (f : field) : Prop :=
  f_flatten f = true /\ f_type f = None /\ f_serde_ty f = f_ty f /\ pmono n (f_ty f) = true /\ pmono 0 (f_ty f) = true /\
  f_optional f = NotOptional /\ f_skip_none f = false /\ flat_struct (f_ty f).
Definition nfield (n : nat) (opt : optional) (f : field) : Prop := plain_field n opt f \/ flat_field n f.

Lemma rsubst_closed args : forall t, src_ty 0 t = true -> rsubst args t = t.
Proof.
  induction t as [l|t IH|t IH|n t IH|ts IH|k v IHk IHv|t IH|t e IHt IHe|t IH|id targs IH|i|n] using rty_ind';
    cbn [src_ty rsubst]; intros H; try discriminate; try reflexivity; try (f_equal; auto; fail).
  - f_equal. apply map_id_forall. rewrite Forall_forall in *. intros x Hx. apply IH; [exact Hx|]. rewrite forallb_forall in H. auto.
  - apply andb_true_iff in H as [H1 H2]. f_equal; auto.
  - apply andb_true_iff in H as [H1 H2]. f_equal; auto.
  - f_equal. apply map_id_forall. rewrite Forall_forall in *. intros x Hx. apply IH; [exact Hx|]. rewrite forallb_forall in H. auto.
Qed.

Lemma flat_map_nil {A B} (f : A -> list B) l : (forall x, In x l -> f x = []) -> flat_map f l = [].
Proof. induction l as [|x l IH]; intros H; [reflexivity|]. cbn [flat_map]. rewrite (H x (or_introl eq_refl)), IH; [reflexivity|]. intros y Hy. apply H. right. exact Hy. Qed.

Lemma rdummies_closed : forall t, src_ty 0 t = true -> rdummies t = [].
Proof.
  induction t as [l|t IH|t IH|n t IH|ts IH|k v IHk IHv|t IH|t e IHt IHe|t IH|id targs IH|i|n] using rty_ind';
    cbn [src_ty rdummies]; intros H; try discriminate; try reflexivity; auto.
  - apply flat_map_nil. rewrite Forall_forall in IH. rewrite forallb_forall in H. intros x Hx. apply IH; auto.
  - apply andb_true_iff in H as [H1 H2]. rewrite (IHk H1), (IHv H2). reflexivity.
  - apply andb_true_iff in H as [H1 H2]. rewrite (IHt H1), (IHe H2). reflexivity.
  - apply flat_map_nil. rewrite Forall_forall in IH. rewrite forallb_forall in H. intros x Hx. apply IH; auto.
Qed.

Lemma flat_map_nil_inv {A B} (f : A -> list B) l : flat_map f l = [] -> forall x, In x l -> f x = [].
Proof. induction l as [|y l IH]; intros H x Hx; [contradiction|]. cbn [flat_map] in H. apply app_eq_nil in H as [H1 H2]. destruct Hx as [<-|Hx]; [exact H1 | exact (IH H2 x Hx)]. Qed.

(* a type without type variables is its own instance *)
Lemma tsubst_closed sn0 sf0 : forall t, ftv t = [] -> tsubst sn0 sf0 t = t.
Proof.
  induction t as [n|n|n|n targs IH|u IH| | |ts IH|st ps IH|k v IHk IHv|a b IHa IHb|ts IH|ts IH|u IH|l|r|u IH|u IH] using tsty_ind';
    cbn [ftv tsubst]; intros H; try discriminate; try reflexivity; try (f_equal; auto; fail).
  - f_equal. apply map_id_forall. rewrite Forall_forall in *. intros x Hx. apply IH; [exact Hx | exact (flat_map_nil_inv _ _ H x Hx)].
  - f_equal. apply map_id_forall. rewrite Forall_forall in *. intros x Hx. apply IH; [exact Hx | exact (flat_map_nil_inv _ _ H x Hx)].
  - f_equal. induction ps as [|[h ty] ps IHps]; [reflexivity|]. cbn [map flat_map fst snd] in *. apply app_eq_nil in H as [H1 H2].
    inversion IH as [|? ? Hp Hr]; subst. cbn [snd] in Hp. rewrite (Hp H1). f_equal. apply IHps; assumption.
  - apply app_eq_nil in H as [H1 H2]. rewrite (IHk H1), (IHv H2). reflexivity.
  - apply app_eq_nil in H as [H1 H2]. rewrite (IHa H1), (IHb H2). reflexivity.
  - f_equal. apply map_id_forall. rewrite Forall_forall in *. intros x Hx. apply IH; [exact Hx | exact (flat_map_nil_inv _ _ H x Hx)].
  - f_equal. apply map_id_forall. rewrite Forall_forall in *. intros x Hx. apply IH; [exact Hx | exact (flat_map_nil_inv _ _ H x Hx)].
Qed.

Lemma rsubst_nil : forall t, src_ty 0 t = true -> rsubst [] t = t.

Proof.
  induction t as [l|t IH|t IH|n t IH|ts IH|k v IHk IHv|t IH|t e IHt IHe|t IH|id args IH|i|n] using rty_ind';
    cbn [src_ty rsubst]; intros H.
  - reflexivity.
  - f_equal; auto.
  - f_equal; auto.
  - f_equal; auto.
  - f_equal. apply map_id_forall. rewrite Forall_forall in *. intros x Hx. apply IH; [exact Hx|]. rewrite forallb_forall in H. auto.
  - apply andb_true_iff in H as [H1 H2]. f_equal; auto.
  - f_equal; auto.
  - apply andb_true_iff in H as [H1 H2]. f_equal; auto.
  - f_equal; auto.
  - f_equal. apply map_id_forall. rewrite Forall_forall in *. intros x Hx. apply IH; [exact Hx|]. rewrite forallb_forall in H. auto.
  - discriminate.
  - discriminate.
Qed.

End Defs.

Section Layer.
Variable is_upper is_alnum is_numeric : char -> bool.
Variable R : env.
Variable E : denv.
Variable st : rty -> value -> option json.
Variable inl flt : rty -> outcome tsty.
(* the definition has n parameters; serde sees it at `sargs`, the generator at `gargs` (the arguments
   themselves for inline(), the dummies for decl()), and the generated type is read under the
   substitution (sn, sf) of what stands for the parameters *)
Variable n : nat.
Variable sargs gargs : list rty.
Variable sn sf : str -> option tsty.

Definition evs (t : tsty) (j : json) : Prop := ev_mem E (tsubst sn sf t) j.
Notation ev := evs.
Notation plain_field := (plain_field R n).

Lemma evs_prim p j : prim_member p j = true -> ev (TPrim p) j.
Proof. apply ev_prim. Qed.
Lemma evs_lit s : ev (TLit s) (JStr s).
Proof. apply ev_lit. Qed.
Lemma evs_merged t j : ev t j -> ev (TMerged t) j.
Proof. unfold evs. cbn [tsubst]. apply ev_merged. Qed.
Lemma evs_union ts t j : In t ts -> ev t j -> ev (TUnion ts) j.
Proof. unfold evs. cbn [tsubst]. intros Hin H. eapply ev_union; [apply in_map; exact Hin | exact H]. Qed.
Lemma evs_tuple ts l : Forall2 ev ts l -> ev (TTuple ts) (JArr l).
Proof.
  unfold evs. cbn [tsubst]. intros H. apply ev_tuple. induction H as [|x y xs ys Hxy _ IH]; cbn [map]; constructor; assumption.
Qed.
Lemma evs_obj st0 (props : list (phead * tsty)) (entries : list (str * json)) :
  NoDup (map (fun p => p_key (fst p)) props) ->
  (forall k j, In (k, j) entries -> exists p t, In (p, t) props /\ p_key p = k /\ ev t j) ->
  (forall p t, In (p, t) props -> p_optional p = false -> exists j, In (p_key p, j) entries) ->
  ev (TObj st0 props) (JObj entries).
Proof.
  intros Hnd Hent Hreq. unfold evs. cbn [tsubst]. apply ev_obj.
  - rewrite map_map. cbn [fst]. exact Hnd.
  - intros k j Hin. destruct (Hent k j Hin) as (p & t & Hp & Hk & Hm). exists p, (tsubst sn sf t). split; [|split; assumption].
    apply in_map_iff. exists (p, t). split; [reflexivity | exact Hp].
  - intros p t Hin Ho. apply in_map_iff in Hin as ([p0 t0] & Heq & Hin0). inversion Heq; subst. eapply Hreq; eassumption.
Qed.

(* the text of a type of the definition: inline() or name(), at the generator's arguments *)
Definition tytext (b : bool) (t : rty) : outcome tsty :=
  if b then inl (rsubst gargs t) else name_of R (rsubst gargs t).
(* what is known of the types of the definition: what serde writes for them inhabits their text ... *)
Hypothesis Hty : forall b t v j a, pmono R n t = true -> (b = true -> pmono R 0 t = true) ->
  st (rsubst sargs t) v = Some j -> tytext b t = Ok a -> ev a j.
(* ... and an Option is written as its content or as null *)
Hypothesis Hsto : forall u v j, st (ROption u) v = Some j -> (v = VNone /\ j = JNull) \/ exists w, v = VSome w /\ st u w = Some j.

(* ... and a struct written as the content of an internally tagged newtype variant is ONE exact object whose keys exclude the tag *)
Hypothesis Halt : forall tg t v l a, struct_content R tg t -> pmono R n t = true ->
  st (rsubst sargs t) v = Some (JObj l) -> name_of R (rsubst gargs t) = Ok a ->
  exists ks, ev_alt E (tsubst sn sf a) ks l /\ ~ In tg ks.

(* ... and a struct flattened into the definition is written as one exact object over its own keys *)
Hypothesis Hflat : forall t v l a, flat_struct R t -> pmono R n t = true -> pmono R 0 t = true ->
  st (rsubst sargs t) v = Some (JObj l) -> flt (rsubst gargs t) = Ok a ->
  ev_alt E (tsubst sn sf a) (flat_keys R t) l /\ ev a (JObj l) /\ NoDup (map fst l).

Notation flat_field := (flat_field R n).
Notation nfield := (nfield R n).

Lemma is_flat_plain opt f : plain_field opt f -> is_flat f = false.
Proof. intros (Hf & _). unfold is_flat. rewrite Hf. reflexivity. Qed.

Lemma filter_all {A} (p : A -> bool) l : (forall x, In x l -> p x = true) -> filter p l = l.
Proof.
  induction l as [|x l IH]; cbn; intros H; [reflexivity|]. rewrite (H x (or_introl eq_refl)). f_equal. apply IH. intros; apply H; right; assumption.
Qed.

Lemma is_option_subst args t : not_param t -> is_option (rsubst args t) = is_option t.
Proof. destruct t; cbn; intros H; try reflexivity. contradiction. Qed.

(* one field with its value: either no entry is written and the property is optional, or the entry inhabits the property's type *)
Lemma field_rel ra opt f v p :
  plain_field opt f ->
  prop_of is_alnum is_numeric R inl gargs ra opt f = Ok p ->
  p_key (fst p) = Gen.field_key ra f /\
  ((f_skip_none f && match v with VNone => true | _ => false end = true -> p_optional (fst p) = true) /\
   (f_skip_none f && match v with VNone => true | _ => false end = false ->
    forall j, st (rsubst sargs (f_ty f)) v = Some j -> ev (snd p) j)).
Proof.
  intros (Hfl & Hty0 & Hsty & Hmono & Hinl0 & Hos) Hp. unfold prop_of in Hp. rewrite Hty0 in Hp.
  apply bind_ok in Hp as (a & Ha & Hp). inversion Hp; subst p; clear Hp. cbn [fst snd p_key p_optional]. split; [reflexivity|].
  unfold field_ty in Ha.
  assert (Hplain : (if f_inline f then inl (rsubst gargs (f_ty f)) else name_of R (rsubst gargs (f_ty f))) = Ok a ->
                   forall j, st (rsubst sargs (f_ty f)) v = Some j -> ev a j).
  { intros Ha' j Hj. eapply (Hty (f_inline f) (f_ty f) v j a); eassumption. }
  assert (Hinner : forall u, f_ty f = ROption u -> f_skip_none f && match v with VNone => true | _ => false end = false ->
                   f_skip_none f = true ->
                   (if f_inline f then inl (rsubst gargs u) else name_of R (rsubst gargs u)) = Ok a ->
                   forall j, st (rsubst sargs (f_ty f)) v = Some j -> ev a j).
  { intros u Hu Hnn Hsn Ha' j Hj. rewrite Hu in Hj, Hmono, Hinl0. cbn [rsubst pmono] in Hj, Hmono, Hinl0.
    destruct (Hsto _ _ _ Hj) as [[-> _]|(w & -> & Hw)]; [rewrite Hsn in Hnn; discriminate|].
    eapply (Hty (f_inline f) u w j a); eassumption. }
  unfold opt_sound in Hos. unfold field_optional in Ha |- *.
  destruct (f_optional f) as [|fn] eqn:Hfopt; destruct opt as [|on].
  - cbn [fst snd] in Ha |- *. rewrite Hos. cbn [andb]. split; [discriminate|]. intros _. apply Hplain. exact Ha.
  - destruct Hos as [Hnp Hos]. rewrite (is_option_subst gargs _ Hnp) in Ha |- *. cbn [fst snd] in Ha |- *.
    destruct (f_ty f) as [| u | | | | | | | | | |] eqn:Hft; cbn [is_option] in Hos |- *; try (exfalso; exact Hnp);
      try (rewrite Hos; cbn [andb]; split; [discriminate|]; intros _; apply Hplain; destruct on; cbn [rsubst option_inner] in Ha; exact Ha).
    split; [reflexivity|]. intros Hnn. cbn [rsubst option_inner] in Ha.
    destruct on; [apply Hplain; exact Ha|]. destruct Hos as [Hd|Hsn]; [discriminate|].
    eapply (Hinner u eq_refl Hnn Hsn); exact Ha.
  - destruct Hos as [Hio Hos]. cbn [fst snd] in Ha |- *. split; [reflexivity|]. intros Hnn.
    destruct (f_ty f) as [| u | | | | | | | | | |] eqn:Hft; try discriminate Hio. cbn [rsubst option_inner] in Ha.
    destruct fn; [apply Hplain; exact Ha|]. destruct Hos as [Hd|Hsn]; [discriminate|].
    eapply (Hinner u eq_refl Hnn Hsn); exact Ha.
  - destruct Hos as [Hio Hos]. cbn [fst snd] in Ha |- *. split; [reflexivity|]. intros Hnn.
    destruct (f_ty f) as [| u | | | | | | | | | |] eqn:Hft; try discriminate Hio. cbn [rsubst option_inner] in Ha.
    destruct fn; [apply Hplain; exact Ha|]. destruct Hos as [Hd|Hsn]; [discriminate|].
    eapply (Hinner u eq_refl Hnn Hsn); exact Ha.
Qed.

(* the entries of a named-field list against its generated properties *)
Lemma named_fields_rel ra opt : forall fs vs entries props,
  Forall (plain_field opt) fs ->
  named_entries st sargs ra fs vs = Some entries ->
  omap_list (prop_of is_alnum is_numeric R inl gargs ra opt) (live fs) = Ok props ->
  (forall k j, In (k, j) entries -> exists p t, In (p, t) props /\ p_key p = k /\ ev t j) /\
  (forall p t, In (p, t) props -> p_optional p = false -> exists j, In (p_key p, j) entries) /\
  map (fun p => p_key (fst p)) props = map (Gen.field_key ra) (live fs).
Proof.
  induction fs as [|f fs IH]; intros vs entries props Hpl He Hp.
  - destruct vs; [|discriminate]. cbn in He, Hp. inversion He; inversion Hp; subst. repeat split; intros; try contradiction; reflexivity.
  - inversion Hpl as [|? ? Hf Hfs]; subst. destruct vs as [|v vs]; [discriminate|]. cbn [named_entries] in He.
    destruct (named_entries st sargs ra fs vs) as [rest|] eqn:Hrest; [|discriminate].
    pose proof Hf as (Hfl & Hty0 & Hsty & Hmono & Hinl0 & Hos).
    unfold live in *. cbn [filter] in Hp |- *. destruct (f_skip f) eqn:Hskip; cbn [negb] in Hp |- *.
    + inversion He; subst. eapply IH; eassumption.
    + cbn [omap_list] in Hp. apply bind_ok in Hp as (p & Hpp & Hp). apply bind_ok in Hp as (ps & Hps & Hp). inversion Hp; subst props; clear Hp.
      destruct (field_rel ra opt f v p Hf Hpp) as (Hk & Habs & Hpres).
      destruct (f_skip_none f && match v with VNone => true | _ => false end) eqn:Hnn.
      * inversion He; subst entries; clear He. destruct (IH vs rest ps Hfs Hrest Hps) as (A & B & C).
        repeat split.
        -- intros k j' Hin'. destruct (A k j' Hin') as (p0 & t & Hp' & Hk' & Hm). exists p0, t. split; [right; exact Hp'|]. split; assumption.
        -- intros p0 t [Heq|Hin'] Ho; [|apply (B p0 t Hin' Ho)].
           destruct p as [ph pt]. inversion Heq; subst. cbn [fst] in Habs. rewrite (Habs eq_refl) in Ho. discriminate.
        -- cbn [map]. f_equal; [exact Hk | exact C].
      * rewrite Hsty, Hfl in He.
        destruct (st (rsubst sargs (f_ty f)) v) as [j|] eqn:Hj; [|discriminate]. inversion He; subst entries; clear He.
        destruct (IH vs rest ps Hfs Hrest Hps) as (A & B & C).
        repeat split.
        -- intros k j' [Heq|Hin'].
           ++ inversion Heq; subst. exists (fst p), (snd p). split; [left; apply surjective_pairing|]. split; [exact Hk|].
              apply (Hpres eq_refl). reflexivity.
           ++ destruct (A k j' Hin') as (p0 & t & Hp' & Hk' & Hm). exists p0, t. split; [right; exact Hp'|]. split; assumption.
        -- intros p0 t [Heq|Hin'] Ho.
           ++ destruct p as [ph pt]. inversion Heq; subst. exists j. left. cbn [fst] in Hk. rewrite Hk. reflexivity.
           ++ destruct (B p0 t Hin' Ho) as [j' Hj']. exists j'. right. exact Hj'.
        -- cbn [map]. f_equal; [exact Hk | exact C].
Qed.

Lemma is_flat_flat f : flat_field f -> is_flat f = true.
Proof. intros (Hf & Hty0 & _). unfold is_flat. rewrite Hf, Hty0. reflexivity. Qed.

Lemma field_ty_flat opt f : flat_field f -> field_ty gargs opt f = rsubst gargs (f_ty f).
Proof.
  intros (_ & _ & _ & _ & _ & Hfo & _ & Hfs). unfold field_ty, field_optional. rewrite Hfo.
  destruct (f_ty f); try contradiction. destruct opt as [|[|]]; reflexivity.
Qed.

(* named fields, some of them flattened: the entries are, up to order, the entries of the own fields followed by the entries
   of each flattened struct *)
Lemma named_rel ra opt : forall fs vs entries props flats,
  Forall (nfield opt) fs ->
  named_entries st sargs ra fs vs = Some entries ->
  omap_list (prop_of is_alnum is_numeric R inl gargs ra opt) (filter (fun fl => negb (is_flat fl)) (live fs)) = Ok props ->
  omap_list (fun fl => flt (field_ty gargs opt fl)) (filter is_flat (live fs)) = Ok flats ->
  exists own kes,
    Permutation entries (own ++ concat (map snd kes)) /\
    (own = [] -> entries = concat (map snd kes)) /\
    (forall k j, In (k, j) own -> exists p t, In (p, t) props /\ p_key p = k /\ ev t j) /\
    (forall p t, In (p, t) props -> p_optional p = false -> exists j, In (p_key p, j) own) /\
    map (fun p => p_key (fst p)) props = map (Gen.field_key ra) (filter (fun fl => negb (is_flat fl)) (live fs)) /\
    (NoDup (map (Gen.field_key ra) (filter (fun fl => negb (is_flat fl)) (live fs))) -> NoDup (map fst own)) /\
    Forall2 (fun x ke => ev_alt E (tsubst sn sf x) (fst ke) (snd ke) /\ ev x (JObj (snd ke)) /\ NoDup (map fst (snd ke))) flats kes /\
    map fst kes = map (fun f => flat_keys R (f_ty f)) (filter is_flat (live fs)).
Proof.
  induction fs as [|f fs IH]; intros vs entries props flats Hpl He Hp Hfl.
  - destruct vs; [|discriminate]. cbn in He, Hp, Hfl. inversion He; inversion Hp; inversion Hfl; subst.
    exists [], []. cbn. repeat split; try (intros; contradiction); try constructor; try reflexivity.
  - inversion Hpl as [|? ? Hf Hfs]; subst. destruct vs as [|v vs]; [discriminate|]. cbn [named_entries] in He.
    destruct (named_entries st sargs ra fs vs) as [rest|] eqn:Hrest; [|discriminate].
    unfold live in *. cbn [filter] in Hp, Hfl |- *. destruct (f_skip f) eqn:Hskip; cbn [negb] in Hp, Hfl |- *.
    + inversion He; subst. eapply IH; eassumption.
    + destruct Hf as [Hf|Hf].
      * (* an own field *)
        pose proof (is_flat_plain opt f Hf) as Hnf. cbn [filter] in Hp, Hfl |- *. rewrite Hnf in Hp, Hfl |- *. cbn [negb filter] in Hp, Hfl |- *.
        pose proof Hf as (Hfl0 & Hty0 & Hsty & Hmono & Hinl0 & Hos).
        cbn [omap_list] in Hp. apply bind_ok in Hp as (p & Hpp & Hp). apply bind_ok in Hp as (ps & Hps & Hp). inversion Hp; subst props; clear Hp.
        destruct (field_rel ra opt f v p Hf Hpp) as (Hk & Habs & Hpres).
        destruct (IH vs rest ps flats Hfs Hrest Hps Hfl) as (own & kes & P & Pe & A & B & C & N & D & K).
        destruct (f_skip_none f && match v with VNone => true | _ => false end) eqn:Hnn.
        -- inversion He; subst entries; clear He. exists own, kes. repeat split; try assumption.
           ++ intros k j' Hin'. destruct (A k j' Hin') as (p0 & t & Hp' & Hk' & Hm). exists p0, t. split; [right; exact Hp'|]. split; assumption.
           ++ intros p0 t [Heq|Hin'] Ho; [|apply (B p0 t Hin' Ho)].
              destruct p as [ph pt]. inversion Heq; subst. cbn [fst] in Habs. rewrite (Habs eq_refl) in Ho. discriminate.
           ++ cbn [map]. f_equal; [exact Hk | exact C].
           ++ intros Hnd. cbn [map] in Hnd. inversion Hnd; subst. apply N. assumption.
        -- rewrite Hsty, Hfl0 in He.
           destruct (st (rsubst sargs (f_ty f)) v) as [j|] eqn:Hj; [|discriminate]. inversion He; subst entries; clear He.
           exists ((Gen.field_key ra f, j) :: own), kes. repeat split; try assumption.
           ++ cbn [app]. apply perm_skip. exact P.
           ++ discriminate.
           ++ intros k j' [Heq|Hin'].
              ** inversion Heq; subst. exists (fst p), (snd p). split; [left; apply surjective_pairing|]. split; [exact Hk|].
                 apply (Hpres eq_refl). reflexivity.
              ** destruct (A k j' Hin') as (p0 & t & Hp' & Hk' & Hm). exists p0, t. split; [right; exact Hp'|]. split; assumption.
           ++ intros p0 t [Heq|Hin'] Ho.
              ** destruct p as [ph pt]. inversion Heq; subst. exists j. left. cbn [fst] in Hk. rewrite Hk. reflexivity.
              ** destruct (B p0 t Hin' Ho) as [j' Hj']. exists j'. right. exact Hj'.
           ++ cbn [map]. f_equal; [exact Hk | exact C].
           ++ intros Hnd. cbn [map] in Hnd |- *. inversion Hnd as [|? ? Hnin Hnd']; subst. constructor; [|apply N; exact Hnd'].
              intros Hin. apply Hnin. apply in_map_iff in Hin as ([k0 j0] & Hk0 & Hin0). cbn [fst] in Hk0. subst k0.
              destruct (A _ _ Hin0) as (p0 & t0 & Hp0 & Hkp0 & _). rewrite <- C. rewrite <- Hkp0.
              change (p_key p0) with ((fun q : phead * tsty => p_key (fst q)) (p0, t0)). apply in_map. exact Hp0.
      * (* a flattened struct *)
        pose proof (is_flat_flat f Hf) as Hisf. cbn [filter] in Hp, Hfl |- *. rewrite Hisf in Hp, Hfl |- *. cbn [negb filter] in Hp, Hfl |- *.
        pose proof Hf as (Hfl0 & Hty0 & Hsty & Hmono & Hn0 & Hfo & Hsn & Hfs0).
        rewrite Hsn in He. cbn [andb] in He. rewrite Hsty, Hfl0 in He.
        destruct (st (rsubst sargs (f_ty f)) v) as [j|] eqn:Hj; [|discriminate].
        destruct j as [| | | | | |l]; cbn [obj_entries option_map] in He; try discriminate. inversion He; subst entries; clear He.
        cbn [omap_list] in Hfl. apply bind_ok in Hfl as (x & Hx & Hfl). apply bind_ok in Hfl as (xs & Hxs & Hfl). inversion Hfl; subst flats; clear Hfl.
        rewrite (field_ty_flat opt f Hf) in Hx.
        destruct (Hflat (f_ty f) v l x Hfs0 Hmono Hn0 Hj Hx) as (Hal & Hev & Hndl).
        destruct (IH vs rest props xs Hfs Hrest Hp Hxs) as (own & kes & P & Pe & A & B & C & N & D & K).
        exists own, ((flat_keys R (f_ty f), l) :: kes). cbn [map fst snd concat]. repeat split; try assumption.
        -- apply (Permutation_trans (l' := l ++ own ++ concat (map snd kes))); [apply Permutation_app_head; exact P|].
           rewrite !app_assoc. apply Permutation_app_tail. apply Permutation_app_comm.
        -- intros Ho. rewrite (Pe Ho). reflexivity.
        -- constructor; [repeat split; assumption | exact D].
        -- f_equal. exact K.
Qed.

(* tuple items against the generated element types: `optional` is not looked at in a tuple *)
Definition plain_tfield (f : field) : Prop := plain_field NotOptional f /\ f_optional f = NotOptional.

Lemma tuple_items_rel : forall fs vs items tys,
  Forall plain_tfield fs ->
  tuple_items st sargs fs vs = Some items ->
  omap_list (value_ty R inl gargs) (live fs) = Ok tys ->
  Forall2 ev tys items.
Proof.
  unfold tuple_items.
  induction fs as [|f fs IH]; intros vs items tys Hpl He Hp.
  - destruct vs; [|discriminate]. cbn in He, Hp. inversion He; inversion Hp; subst. constructor.
  - inversion Hpl as [|? ? Hf Hfs]; subst. destruct vs as [|v vs]; [discriminate|]. cbn [opt_map2] in He.
    destruct Hf as [(Hfl & Hty0 & Hsty & Hmono & Hinl0 & Hos) Hfo].
    unfold live in *. cbn [filter] in Hp. destruct (f_skip f) eqn:Hskip; cbn [negb] in Hp.
    + destruct (opt_map2 _ fs vs) as [rest|] eqn:Hrest; [|discriminate]. cbn in He. inversion He; subst.
      eapply IH; [exact Hfs| |exact Hp]. rewrite Hrest. reflexivity.
    + rewrite Hsty in He. destruct (st (rsubst sargs (f_ty f)) v) as [j|] eqn:Hj; [|discriminate]. cbn [option_map] in He.
      destruct (opt_map2 _ fs vs) as [rest|] eqn:Hrest; [|discriminate]. cbn in He. inversion He; subst; clear He.
      cbn [omap_list] in Hp. unfold value_ty at 1 in Hp. rewrite Hty0 in Hp.
      change (if f_inline f then inl (rsubst gargs (f_ty f)) else name_of R (rsubst gargs (f_ty f))) with (tytext (f_inline f) (f_ty f)) in Hp.
      destruct (tytext (f_inline f) (f_ty f)) as [a|?|?] eqn:Ha; cbn [bind] in Hp; try discriminate.
      destruct (omap_list (value_ty R inl gargs) (filter (fun fl => negb (f_skip fl)) fs)) as [ts|?|?] eqn:Hts; try discriminate.
      inversion Hp; subst. constructor; [eapply (Hty (f_inline f) (f_ty f) v j a); eassumption|].
      eapply IH; [exact Hfs| |reflexivity]. rewrite Hrest. reflexivity.
Qed.

Lemma filter_none {A} (p : A -> bool) l : (forall x, In x l -> p x = false) -> filter p l = [].
Proof.
  induction l as [|x l IH]; cbn; intros H; [reflexivity|]. rewrite (H x (or_introl eq_refl)). apply IH. intros; apply H; right; assumption.
Qed.

Lemma live_plain opt fs : Forall (plain_field opt) fs -> Forall (plain_field opt) (live fs).
Proof. intros H. unfold live. rewrite Forall_forall in *. intros x Hx. apply H. eapply filter_incl_in; exact Hx. Qed.

Lemma ev_neverarr : ev TNeverArr (JArr []).
Proof. exists 1%nat. intros [|f] Hf; [lia | reflexivity]. Qed.
Lemma ev_recnever : ev TRecordNever (JObj []).
Proof. exists 1%nat. intros [|f] Hf; [lia | reflexivity]. Qed.
Lemma ev_null : ev (TPrim (lit "null")) JNull.
Proof. apply evs_prim. reflexivity. Qed.

Definition plain_shape (opt : optional) (s : shape) : Prop :=
  match s with
  | SUnit => True
  | STuple [f] => plain_tfield f /\ f_skip f = false        (* a skipped newtype field is a known class *)
  | STuple fs => Forall plain_tfield fs
  | SNamed fs => Forall (nfield opt) fs
  end.

(* the keys of a named shape: extra (tag) keys, the keys of the own fields, the keys of the flattened structs *)
Definition keys_distinct (ra : option rule) (extra : list str) (s : shape) : Prop :=
  match s with
  | SNamed fs => NoDup (extra ++ map (Gen.field_key ra) (filter (fun fl => negb (is_flat fl)) (live fs)) ++
                        concat (map (fun f => flat_keys R (f_ty f)) (filter is_flat (live fs))))
  | _ => True
  end.

(* the named fields as an object, possibly with leading extra properties (a tag) *)
Lemma named_object ra opt fs vs entries props (xprops : list (phead * tsty)) (xentries : list (str * json)) :
  Forall (plain_field opt) fs ->
  named_entries st sargs ra fs vs = Some entries ->
  omap_list (prop_of is_alnum is_numeric R inl gargs ra opt) (live fs) = Ok props ->
  NoDup (map (fun p => p_key (fst p)) xprops ++ map (Gen.field_key ra) (live fs)) ->
  Forall2 (fun p e => p_key (fst p) = fst e /\ p_optional (fst p) = false /\ ev (snd p) (snd e)) xprops xentries ->
  ev (TObj OStruct (xprops ++ props)) (JObj (xentries ++ entries)).
Proof.
  intros Hpl He Hp Hnd Hx. destruct (named_fields_rel ra opt fs vs entries props Hpl He Hp) as (A & B & C).
  apply evs_obj.
  - rewrite map_app, C. exact Hnd.
  - intros k j Hin. apply in_app_or in Hin as [Hin|Hin].
    + clear -Hx Hin. induction Hx as [|p e xp xe (Hk & Ho & Hm) _ IH]; [destruct Hin|].
      destruct Hin as [Heq|Hin]; [|destruct (IH Hin) as (p' & t' & Hp' & Hr); exists p', t'; split; [right; exact Hp'|exact Hr]].
      subst e. destruct p as [ph ty]. exists ph, ty. cbn in *. split; [left; reflexivity|]. split; assumption.
    + destruct (A k j Hin) as (p & t & Hp' & Hk & Hm). exists p, t. split; [apply in_or_app; right; exact Hp'|]. split; assumption.
  - intros p t Hin Hopt. apply in_app_or in Hin as [Hin|Hin].
    + clear -Hx Hin. induction Hx as [|p0 e xp xe (Hk & Ho & Hm) _ IH]; [destruct Hin|].
      destruct Hin as [Heq|Hin]; [|destruct (IH Hin) as [j Hj]; exists j; right; exact Hj].
      subst p0. cbn in Hk. exists (snd e). left. rewrite Hk. destruct e; reflexivity.
    + destruct (B p t Hin Hopt) as [j Hj]. exists j. apply in_or_app. right. exact Hj.
Qed.

(* ---- the general case: some of the fields are flattened structs --------------------------------- *)
Lemma obj_of_facts (xprops : list (phead * tsty)) (xentries : list (str * json)) props own keys :
  (forall k j, In (k, j) own -> exists p t, In (p, t) props /\ p_key p = k /\ ev t j) ->
  (forall p t, In (p, t) props -> p_optional p = false -> exists j, In (p_key p, j) own) ->
  map (fun p => p_key (fst p)) props = keys ->
  NoDup (map (fun p => p_key (fst p)) xprops ++ keys) ->
  Forall2 (fun p e => p_key (fst p) = fst e /\ p_optional (fst p) = false /\ ev (snd p) (snd e)) xprops xentries ->
  ev (TObj OStruct (xprops ++ props)) (JObj (xentries ++ own)).
Proof.
  intros A B C Hnd Hx. apply evs_obj.
  - rewrite map_app, C. exact Hnd.
  - intros k j Hin. apply in_app_or in Hin as [Hin|Hin].
    + clear -Hx Hin. induction Hx as [|p e xp xe (Hk & Ho & Hm) _ IH]; [destruct Hin|].
      destruct Hin as [Heq|Hin]; [|destruct (IH Hin) as (p' & t' & Hp' & Hr); exists p', t'; split; [right; exact Hp'|exact Hr]].
      subst e. destruct p as [ph ty]. exists ph, ty. cbn in *. split; [left; reflexivity|]. split; assumption.
    + destruct (A k j Hin) as (p & t & Hp' & Hk & Hm). exists p, t. split; [apply in_or_app; right; exact Hp'|]. split; assumption.
  - intros p t Hin Hopt. apply in_app_or in Hin as [Hin|Hin].
    + clear -Hx Hin. induction Hx as [|p0 e xp xe (Hk & Ho & Hm) _ IH]; [destruct Hin|].
      destruct Hin as [Heq|Hin]; [|destruct (IH Hin) as [j Hj]; exists j; right; exact Hj].
      subst p0. cbn in Hk. exists (snd e). left. rewrite Hk. destruct e; reflexivity.
    + destruct (B p t Hin Hopt) as [j Hj]. exists j. apply in_or_app. right. exact Hj.
Qed.

Lemma nodup_app_intro {A} (a b : list A) : NoDup a -> NoDup b -> (forall x, In x a -> ~ In x b) -> NoDup (a ++ b).
Proof.
  induction a as [|x a IH]; cbn; intros Ha Hb Hd; [exact Hb|]. inversion Ha as [|? ? Hnin Ha']; subst. constructor.
  - intros Hin. apply in_app_or in Hin as [Hin|Hin]; [contradiction | apply (Hd x (or_introl eq_refl) Hin)].
  - apply IH; [exact Ha' | exact Hb | intros y Hy; apply Hd; right; exact Hy].
Qed.

Lemma nodup_app_l {A} (a b : list A) : NoDup (a ++ b) -> NoDup a.
Proof. induction a as [|x a IH]; cbn; intros H; [constructor|]. inversion H as [|? ? Hnin H']; subst. constructor; [intros Hin; apply Hnin; apply in_or_app; left; exact Hin | apply IH; exact H']. Qed.
Lemma nodup_app_r {A} (a b : list A) : NoDup (a ++ b) -> NoDup b.
Proof. induction a as [|x a IH]; cbn; intros H; [exact H|]. inversion H; subst. apply IH. assumption. Qed.
Lemma nodup_app_dis {A} (a b : list A) : NoDup (a ++ b) -> forall x, In x a -> ~ In x b.
Proof.
  induction a as [|y a IH]; cbn; intros H x Hx; [contradiction|]. inversion H as [|? ? Hnin H']; subst. destruct Hx as [->|Hx].
  - intros Hin. apply Hnin. apply in_or_app. right. exact Hin.
  - apply IH; assumption.
Qed.

(* lists of keys that stay inside pairwise disjoint regions *)
Lemma concat_incl (regs keyss : list (list str)) :
  Forall2 (fun reg ks => NoDup ks /\ incl ks reg) regs keyss -> incl (concat keyss) (concat regs).
Proof.
  induction 1 as [|r k rs kss [_ Hi] _ IH]; cbn [concat]; intros x Hin; [exact Hin|].
  apply in_app_or in Hin as [Hin|Hin]; apply in_or_app; [left; apply Hi; exact Hin | right; apply IH; exact Hin].
Qed.

Lemma nodup_regions (regs keyss : list (list str)) :
  NoDup (concat regs) -> Forall2 (fun reg ks => NoDup ks /\ incl ks reg) regs keyss -> NoDup (concat keyss).
Proof.
  intros Hnd H. induction H as [|reg ks regs keyss [Hk Hi] Hrest IH]; cbn [concat] in *; [constructor|].
  apply nodup_app_intro; [exact Hk | apply IH; eapply nodup_app_r; exact Hnd|].
  intros x Hx Hin. apply (nodup_app_dis _ _ Hnd x (Hi x Hx)). exact (concat_incl _ _ Hrest x Hin).
Qed.

Lemma disjoint_of_nodup (l : list (list str)) : NoDup (concat l) -> disjoint_lists l.
Proof.
  induction l as [|ks r IH]; cbn [concat disjoint_lists]; intros H; [exact I|].
  split; [apply nodup_app_dis; exact H | apply IH; eapply nodup_app_r; exact H].
Qed.

Lemma ev_alt_entry_keys t ks es : ev_alt E t ks es -> incl (map fst es) ks.
Proof.
  intros (ps & Hk & f0 & _ & Hm) k Hin. apply in_map_iff in Hin as (e & <- & He). rewrite <- Hk.
  exact (alt_member_entry_keys _ ps es (Hm f0 (le_n _)) e He).
Qed.

Definition nonflat (fl : field) : bool := negb (is_flat fl).

Lemma named_member ra opt fs vs entries (xprops : list (phead * tsty)) (xentries : list (str * json)) props flats :
  Forall (nfield opt) fs ->
  named_entries st sargs ra fs vs = Some entries ->
  omap_list (prop_of is_alnum is_numeric R inl gargs ra opt) (filter nonflat (live fs)) = Ok props ->
  omap_list (fun fl => flt (field_ty gargs opt fl)) (filter is_flat (live fs)) = Ok flats ->
  NoDup (map (fun p => p_key (fst p)) xprops ++ map (Gen.field_key ra) (filter nonflat (live fs)) ++
         concat (map (fun f => flat_keys R (f_ty f)) (filter is_flat (live fs)))) ->
  Forall2 (fun p e => p_key (fst p) = fst e /\ p_optional (fst p) = false /\ ev (snd p) (snd e)) xprops xentries ->
  ev (match xprops ++ props, flats with
      | _, [] => TMerged (TObj OStruct (xprops ++ props))
      | [], [x] => TMerged (TUnwrap x)
      | [], _ => TMerged (TInter flats)
      | _, _ => TMerged (TInter (TObj OStruct (xprops ++ props) :: flats))
      end) (JObj (xentries ++ entries)).
Proof.
  intros Hpl He Hp Hfl Hnd Hx.
  destruct (named_rel ra opt fs vs entries props flats Hpl He Hp Hfl) as (own & kes & P & Pe & A & B & C & N & D & K).
  set (xkeys := map (fun p => p_key (fst p)) xprops) in *.
  set (okeys := map (Gen.field_key ra) (filter nonflat (live fs))) in *.
  rewrite <- K in Hnd.
  assert (Hnd_xo : NoDup (xkeys ++ okeys)) by (rewrite app_assoc in Hnd; eapply nodup_app_l; exact Hnd).
  assert (Hnd_f : NoDup (concat (map fst kes))) by (eapply nodup_app_r; eapply nodup_app_r; exact Hnd).
  assert (Hown_empty : props = [] -> own = []).
  { intros ->. destruct own as [|[k j] o]; [reflexivity|]. destruct (A k j (or_introl eq_refl)) as (p & t & [] & _). }
  destruct flats as [|x flats'].
  - (* nothing flattened *)
    inversion D; subst kes. cbn [map concat] in P. rewrite app_nil_r in P.
    assert (Hgoal : ev (TMerged (TObj OStruct (xprops ++ props))) (JObj (xentries ++ entries))); [|destruct (xprops ++ props); exact Hgoal].
    apply evs_merged. apply (obj_of_facts xprops xentries props entries okeys); try assumption.
    + intros k j Hin. apply A. eapply Permutation_in; [exact P | exact Hin].
    + intros p t Hin Ho. destruct (B p t Hin Ho) as [j Hj]. exists j. eapply Permutation_in; [apply Permutation_sym; exact P | exact Hj].
  - destruct (xprops ++ props) as [|p0 ps0] eqn:Hxp.
    + (* only flattened structs *)
      apply app_eq_nil in Hxp as [-> ->]. inversion Hx; subst xentries. cbn [app]. rewrite (Pe (Hown_empty eq_refl)).
      destruct flats' as [|x2 flats''].
      * inversion D as [|? ke ? kes' (Hal & Hev & _) D']; subst. inversion D'; subst. cbn [map concat snd]. rewrite app_nil_r.
        apply evs_merged. unfold evs in Hev |- *. cbn [tsubst]. apply ev_unwrap. exact Hev.
      * apply evs_merged. unfold evs. cbn [tsubst].
        apply (ev_of_alt_inter E _ (concat (map fst kes)) (concat (map snd kes))). apply ev_alt_inter_n.
        -- clear -D. induction D as [|y ke ys kes' (Hal & _) _ IH]; cbn [map]; constructor; [exact Hal | exact IH].
        -- apply disjoint_of_nodup. exact Hnd_f.
    + (* own properties (or a tag) and flattened structs *)
      rewrite <- Hxp. apply evs_merged. unfold evs. cbn [tsubst map].
      set (obj' := TObj OStruct (map (fun p => (fst p, tsubst sn sf (snd p))) (xprops ++ props))).
      assert (Hobj : ev_alt E obj' (xkeys ++ okeys) (xentries ++ own)).
      { assert (Hpk : pkeys (map (fun p => (fst p, tsubst sn sf (snd p))) (xprops ++ props)) = xkeys ++ okeys).
        { unfold pkeys. rewrite map_map. cbn [fst]. rewrite map_app. fold xkeys. f_equal. exact C. }
        rewrite <- Hpk. apply ev_alt_obj. pose proof (obj_of_facts xprops xentries props own okeys A B C Hnd_xo Hx) as Ho.
        unfold evs in Ho. cbn [tsubst] in Ho. exact Ho. }
      assert (Hall : ev_alt E (TInter (obj' :: map (tsubst sn sf) (x :: flats'))) (concat (map fst ((xkeys ++ okeys, xentries ++ own) :: kes)))
                       (concat (map snd ((xkeys ++ okeys, xentries ++ own) :: kes)))).
      { apply ev_alt_inter_n.
        - constructor; [exact Hobj|]. clear -D. induction D as [|y ke ys kes' (Hal & _) _ IH]; cbn [map]; constructor; [exact Hal | exact IH].
        - cbn [map fst]. apply disjoint_of_nodup. cbn [concat]. rewrite <- app_assoc. exact Hnd. }
      cbn [map fst snd concat] in Hall.
      apply (ev_of_alt_inter E _ ((xkeys ++ okeys) ++ concat (map fst kes)) (xentries ++ entries)).
      eapply ev_alt_perm; [| |exact Hall].
      * (* distinct keys *)
        rewrite !map_app, <- app_assoc.
        assert (Hreg : NoDup (concat ([xkeys; okeys] ++ map fst kes))) by (cbn [app concat]; exact Hnd).
        assert (Hcm : map fst (concat (map snd kes)) = concat (map (fun ke => map fst (snd ke)) kes)).
        { clear. induction kes as [|ke kes IH]; cbn [map concat]; [reflexivity|]. rewrite map_app, IH. reflexivity. }
        rewrite Hcm.
        change (map fst xentries ++ map fst own ++ concat (map (fun ke => map fst (snd ke)) kes))
          with (concat ([map fst xentries; map fst own] ++ map (fun ke => map fst (snd ke)) kes)).
        eapply nodup_regions; [exact Hreg|]. constructor; [|constructor].
        -- assert (Hxe : map fst xentries = xkeys).
           { unfold xkeys. clear -Hx. induction Hx as [|p e xp xe (Hk & _) _ IH]; cbn [map]; [reflexivity|]. rewrite IH, Hk. reflexivity. }
           rewrite Hxe. split; [eapply nodup_app_l; exact Hnd_xo | apply incl_refl].
        -- split; [apply N; eapply nodup_app_r; exact Hnd_xo|]. intros k Hk. apply in_map_iff in Hk as ([k0 j0] & <- & Hin0). cbn [fst].
           destruct (A _ _ Hin0) as (p1 & t1 & Hp1 & Hkp1 & _).
           assert (Hinp : In k0 (map (fun p => p_key (fst p)) props)).
           { rewrite <- Hkp1. change (p_key p1) with ((fun q : phead * tsty => p_key (fst q)) (p1, t1)). apply in_map. exact Hp1. }
           rewrite C in Hinp. exact Hinp.
        -- clear -D. induction D as [|y ke ys kes' (Hal & _ & Hn) _ IH]; cbn [map]; constructor; [|exact IH].
           split; [exact Hn | eapply ev_alt_entry_keys; exact Hal].
      * rewrite <- app_assoc. apply Permutation_app_head. apply Permutation_sym. exact P.
Qed.

Lemma shape_member ra opt s vs j r :
  plain_shape opt s -> keys_distinct ra [] s ->
  shape_ser st sargs ra s vs = Some j ->
  shape_gen is_alnum is_numeric R inl flt gargs ra opt None s = Ok r ->
  ev (fst r) j.
Proof.
  intros Hpl Hkd Hs Hg. destruct s as [|fs|fs].
  - cbn in Hs, Hg. destruct vs; [|discriminate]. inversion Hs; inversion Hg; subst. apply ev_null.
  - destruct fs as [|f [|f2 fs]].
    + cbn in Hs, Hg. unfold tuple_items in Hs. destruct vs; [|discriminate]. cbn in Hs. inversion Hs; inversion Hg; subst. apply ev_neverarr.
    + destruct Hpl as [Hf Hsk]. cbn [shape_ser shape_gen] in Hs, Hg. rewrite Hsk in Hg.
      destruct vs as [|v [|? ?]]; try discriminate. destruct Hf as [(Hfl & Hty0 & Hsty & Hmono & Hinl0 & Hos) Hfo].
      rewrite Hsty in Hs. unfold value_ty in Hg. rewrite Hty0 in Hg.
      change (if f_inline f then inl (rsubst gargs (f_ty f)) else name_of R (rsubst gargs (f_ty f))) with (tytext (f_inline f) (f_ty f)) in Hg.
      destruct (tytext (f_inline f) (f_ty f)) as [a|?|?] eqn:Ha; try discriminate. inversion Hg; subst. cbn [fst].
      eapply (Hty (f_inline f) (f_ty f) v j a); eassumption.
    + cbn [plain_shape] in Hpl. cbn [shape_ser shape_gen] in Hs, Hg.
      destruct (tuple_items st sargs (f :: f2 :: fs) vs) as [items|] eqn:Hi; [|discriminate]. inversion Hs; subst.
      apply bind_ok in Hg as (tys & Htys & Hg). inversion Hg; subst. cbn [fst].
      apply evs_tuple. eapply tuple_items_rel; eassumption.
  - cbn [plain_shape keys_distinct app] in Hpl, Hkd. cbn [shape_ser] in Hs.
    destruct (named_entries st sargs ra fs vs) as [entries|] eqn:He; [|discriminate]. inversion Hs; subst.
    destruct fs as [|f fs'].
    + cbn in Hg. inversion Hg; subst. destruct vs; [|discriminate]. cbn in He. inversion He; subst. apply ev_recnever.
    + cbn [shape_gen] in Hg.
      apply bind_ok in Hg as (props & Hp & Hg). apply bind_ok in Hg as (flats & Hfl & Hg).
      pose proof (named_member ra opt (f :: fs') vs entries [] [] props flats Hpl He Hp Hfl Hkd (Forall2_nil _)) as Hm.
      cbn [app] in Hm. cbv zeta in Hg.
      destruct props as [|p0 ps0]; destruct flats as [|x [|x2 fl'']]; inversion Hg; subst r; cbn [fst]; exact Hm.
Qed.

(* a named shape carrying a tag property (struct-level `tag`, struct variant of an internally tagged enum) *)
Lemma tagged_named_member ra opt fs vs entries t nm r :
  Forall (nfield opt) fs ->
  NoDup (t :: map (Gen.field_key ra) (filter (fun fl => negb (is_flat fl)) (live fs)) ++
         concat (map (fun f => flat_keys R (f_ty f)) (filter is_flat (live fs)))) ->
  named_entries st sargs ra fs vs = Some entries ->
  shape_gen is_alnum is_numeric R inl flt gargs ra opt (Some (t, nm)) (SNamed fs) = Ok r ->
  ev (fst r) (JObj ((t, JStr nm) :: entries)) /\ exists x, snd r = Some x.
Proof.
  intros Hpl Hnd He Hg. cbn [shape_gen] in Hg.
  assert (Hg' : bind (omap_list (prop_of is_alnum is_numeric R inl gargs ra opt) (filter (fun fl => negb (is_flat fl)) (live fs))) (fun props =>
          bind (omap_list (fun fl => flt (field_ty gargs opt fl)) (filter is_flat (live fs))) (fun flats =>
          let props := (quoted_head t, TLit nm) :: props in
          let obj := TObj OStruct props in
          match props, flats with
          | _, [] => Ok (TMerged obj, Some (TMerged obj))
          | [], [x] => Ok (TMerged (TUnwrap x), Some (TMerged (TInter flats)))
          | [], _ => Ok (TMerged (TInter flats), Some (TMerged (TInter flats)))
          | _, _ => Ok (TMerged (TInter (obj :: flats)), Some (TMerged (TInter (obj :: flats))))
          end)) = Ok r).
  { destruct fs as [|f fs']; exact Hg. }
  clear Hg. apply bind_ok in Hg' as (props & Hp & Hg). apply bind_ok in Hg as (flats & Hfl & Hg). cbv zeta in Hg.
  assert (Hx : Forall2 (fun p e => p_key (fst p) = fst e /\ p_optional (fst p) = false /\ ev (snd p) (snd e))
                 [(quoted_head t, TLit nm)] [(t, JStr nm)]).
  { constructor; [|constructor]. cbn. repeat split. apply evs_lit. }
  pose proof (named_member ra opt fs vs entries [(quoted_head t, TLit nm)] [(t, JStr nm)] props flats Hpl He Hp Hfl Hnd Hx) as Hm.
  cbn [app] in Hm.
  destruct flats as [|x [|x2 fl'']]; inversion Hg; subst r; cbn [fst snd]; (split; [exact Hm | eauto]).
Qed.

Definition plain_variant (tg : tagging) (v : variant) : Prop :=
  v_type v = None /\ v_as v = None /\ v_untagged v = false /\ plain_shape NotOptional (v_shape v) /\
  match tg with
  | Internal t =>
      match v_shape v with
      | STuple [f] => f_inline f = false /\ struct_content R t (f_ty f)   (* a newtype needs a map: a struct with named fields *)
      | STuple _ => False                                                (* serde rejects tuple variants *)
      | _ => True
      end
  | _ => True
  end.

Definition variant_keys_distinct (tg : tagging) (ra : option rule) (s : shape) : Prop :=
  match tg with
  | Internal t => keys_distinct ra [t] s
  | Adjacent t c => t <> c /\ keys_distinct ra [] s
  | _ => keys_distinct ra [] s
  end.

Lemma ev_single k a j : ev a j -> ev (TObj OVariant [(quoted_head k, a)]) (JObj [(k, j)]).
Proof.
  intros H. apply evs_obj.
  - cbn. constructor; [intros []|constructor].
  - intros k' j' [Heq|[]]. inversion Heq. subst k' j'. exists (quoted_head k), a. repeat split; [left; reflexivity | exact H].
  - intros p t [Heq|[]] _. inversion Heq. subst p t. exists j. left. reflexivity.
Qed.

Lemma ev_pair k1 a1 j1 k2 a2 j2 : k1 <> k2 -> ev a1 j1 -> ev a2 j2 ->
  ev (TObj OVariant [(quoted_head k1, a1); (quoted_head k2, a2)]) (JObj [(k1, j1); (k2, j2)]).
Proof.
  intros Hne H1 H2. apply evs_obj.
  - cbn. constructor; [intros [Heq|[]]; apply Hne; symmetry; exact Heq|]. constructor; [intros []|constructor].
  - intros k' j' [Heq|[Heq|[]]]; inversion Heq; subst k' j'.
    + exists (quoted_head k1), a1. repeat split; [left; reflexivity | exact H1].
    + exists (quoted_head k2), a2. repeat split; [right; left; reflexivity | exact H2].
  - intros p t [Heq|[Heq|[]]] _; inversion Heq; subst p t; [exists j1; left; reflexivity | exists j2; right; left; reflexivity].
Qed.

Lemma variant_member a tg raf v vs j x :
  plain_variant tg v ->
  variant_keys_distinct tg (variant_rename_all raf v) (v_shape v) ->
  variant_ser is_upper st sargs a tg raf v vs = Some j ->
  variant_gen is_upper is_alnum is_numeric R inl flt gargs a tg raf v = Ok x ->
  ev x j.
Proof.
  intros (Hvty & Has & Hun & Hsh & Htg) Hkd Hs Hg.
  unfold variant_ser in Hs. unfold variant_gen in Hg. rewrite Hun in Hs, Hg. rewrite Has, Hvty in Hg.
  destruct (v_skip v); [discriminate|].
  change (Serde.variant_name is_upper (c_rename_all a) v) with (Gen.variant_name is_upper (c_rename_all a) v) in Hs.
  set (name := Gen.variant_name is_upper (c_rename_all a) v) in *.
  change (match v_rename_all v with Some r0 => Some r0 | None => if is_named_shape (v_shape v) then raf else None end)
    with (variant_rename_all raf v) in Hs.
  set (ra := variant_rename_all raf v) in *.
  assert (Hlone : match v_shape v with STuple [f] => f_skip f | _ => false end = false).
  { destruct (v_shape v) as [|[|f [|? ?]]|]; try reflexivity. cbn in Hsh. tauto. }
  rewrite Hlone in Hs.
  apply bind_ok in Hg as (vt & Hvt & Hg). cbn [bind] in Hg.
  destruct tg as [|t|t c|].
  - (* externally tagged *)
    cbn [andb] in Hvt. replace (match is_named (v_shape v) && negb false with true => None | false => None end) with (@None (str * str)) in Hvt by (destruct (is_named (v_shape v)); reflexivity).
    destruct (v_shape v) as [|fs|fs] eqn:Hshape.
    + inversion Hs; inversion Hg; subst. apply evs_lit.
    + destruct (shape_ser st sargs ra (STuple fs) vs) as [cj|] eqn:Hc; [|discriminate]. inversion Hs; subst.
      assert (Hx : x = TObj OVariant [(quoted_head name, fst vt)]).
      { destruct (lone_field (STuple fs)) as [fl|] eqn:Hl; [|inversion Hg; reflexivity].
        destruct fs as [|f [|? ?]]; try discriminate. inversion Hl; subst. rewrite Hlone in Hg. inversion Hg; reflexivity. }
      subst x. apply ev_single. eapply shape_member; [exact Hsh | exact Hkd | exact Hc | exact Hvt].
    + destruct (shape_ser st sargs ra (SNamed fs) vs) as [cj|] eqn:Hc; [|discriminate]. inversion Hs; subst.
      cbn in Hg. inversion Hg; subst. apply ev_single. eapply shape_member; [exact Hsh | exact Hkd | exact Hc | exact Hvt].
  - (* internally tagged *)
    destruct (v_shape v) as [|fs|fs] eqn:Hshape.
    + cbn in Hvt. inversion Hvt; subst. cbn [snd] in Hg. inversion Hs; inversion Hg; subst.
      apply ev_single. apply evs_lit.
    + (* a newtype variant around a struct: `{ "tag": "Name" } & Struct` *)
      destruct fs as [|f [|f2 fs']]; try contradiction. destruct Htg as [Hni Hct]. destruct Hsh as [[Hpf Hfo] Hsk].
      destruct Hpf as (Hfl & Hty0 & Hsty & Hmono & Hinl0 & Hos).
      cbn [is_named andb] in Hvt. cbn [shape_gen] in Hvt. rewrite Hsk in Hvt. unfold value_ty in Hvt. rewrite Hty0, Hni in Hvt.
      apply bind_ok in Hvt as (a0 & Ha0 & Hvt). inversion Hvt; subst vt; clear Hvt. cbn [snd fst lone_field] in Hg. rewrite Hsk in Hg.
      inversion Hg; subst x; clear Hg.
      cbn [shape_ser] in Hs. destruct vs as [|v0 [|? ?]]; try discriminate. rewrite Hsty in Hs.
      destruct (st (rsubst sargs (f_ty f)) v0) as [cj|] eqn:Hc; [|discriminate]. destruct cj as [| | | | | |l]; try discriminate.
      inversion Hs; subst j; clear Hs.
      destruct (Halt t (f_ty f) v0 l a0 Hct Hmono Hc Ha0) as (ks & Halt0 & Hnin).
      unfold evs. cbn [tsubst map fst snd].
      apply (ev_of_alt_inter E _ ([t] ++ ks) ((t, JStr name) :: l)).
      change ((t, JStr name) :: l) with ([(t, JStr name)] ++ l).
      apply ev_alt_inter2; [| exact Halt0 | intros k [<-|[]]; exact Hnin].
      apply (ev_alt_obj E OVariant [(quoted_head t, TLit name)] [(t, JStr name)]).
      pose proof (ev_single t (TLit name) (JStr name) (evs_lit name)) as Hsingle. unfold evs in Hsingle. cbn [tsubst map fst snd] in Hsingle. exact Hsingle.
    + cbn [is_named andb negb] in Hvt. cbn [is_named_shape] in Hs.
      cbn [shape_ser] in Hs. destruct (named_entries st sargs ra fs vs) as [entries|] eqn:He; [|discriminate]. cbn [option_map] in Hs.
      inversion Hs; subst. cbn [variant_keys_distinct keys_distinct app] in Hkd.
      destruct (tagged_named_member ra NotOptional fs vs entries t name vt Hsh Hkd He Hvt) as [Hm [y Hy]].
      rewrite Hy in Hg. inversion Hg; subst. exact Hm.
  - (* adjacently tagged *)
    destruct Hkd as [Hne Hkd].
    cbn [andb] in Hvt. replace (match is_named (v_shape v) && negb false with true => None | false => None end) with (@None (str * str)) in Hvt by (destruct (is_named (v_shape v)); reflexivity).
    destruct (v_shape v) as [|fs|fs] eqn:Hshape.
    + inversion Hs; inversion Hg; subst. apply ev_single. apply evs_lit.
    + destruct (shape_ser st sargs ra (STuple fs) vs) as [cj|] eqn:Hc; [|discriminate]. inversion Hs; subst.
      assert (Hx : x = TObj OVariant [(quoted_head t, TLit name); (quoted_head c, fst vt)]).
      { destruct (lone_field (STuple fs)) as [fl|] eqn:Hl; [|inversion Hg; reflexivity].
        destruct fs as [|f [|? ?]]; try discriminate. inversion Hl; subst. rewrite Hlone in Hg. inversion Hg; reflexivity. }
      subst x. apply ev_pair; [exact Hne | apply evs_lit|]. eapply shape_member; [exact Hsh | exact Hkd | exact Hc | exact Hvt].
    + destruct (shape_ser st sargs ra (SNamed fs) vs) as [cj|] eqn:Hc; [|discriminate]. inversion Hs; subst.
      cbn in Hg. inversion Hg; subst. apply ev_pair; [exact Hne | apply evs_lit|]. eapply shape_member; [exact Hsh | exact Hkd | exact Hc | exact Hvt].
  - (* untagged *)
    cbn [andb] in Hvt. replace (match is_named (v_shape v) && negb false with true => None | false => None end) with (@None (str * str)) in Hvt by (destruct (is_named (v_shape v)); reflexivity).
    inversion Hg; subst.
    destruct (v_shape v) as [|fs|fs] eqn:Hshape.
    + inversion Hs; subst. cbn in Hvt. inversion Hvt. apply ev_null.
    + eapply shape_member; [exact Hsh | exact Hkd | exact Hs | exact Hvt].
    + eapply shape_member; [exact Hsh | exact Hkd | exact Hs | exact Hvt].
Qed.

(* ---- one definition ---------------------------------------------------------------------------- *)
Definition plain_def (d : typedef) : Prop :=
  let a := attrs_of d in
  c_type a = None /\ c_as a = None /\ length (c_params a) = n /\
  match d with
  | DStruct a s =>
      plain_shape (c_optional_fields a) s /\
      match c_tag a with
      | None => keys_distinct (c_rename_all a) [] s
      | Some t => exists fs, s = SNamed fs /\ keys_distinct (c_rename_all a) [t] (SNamed fs)
      end
  | DEnum a tg raf vs =>
      Forall (fun v => v_skip v = false -> plain_variant tg v /\ variant_keys_distinct tg (variant_rename_all raf v) (v_shape v)) vs
  end.

Lemma Forall2_in_l' {A B} (P : A -> B -> Prop) l l' x : Forall2 P l l' -> In x l -> exists y, In y l' /\ P x y.
Proof.
  induction 1 as [|a b l l' Hab _ IH]; cbn; intros Hin; [contradiction|].
  destruct Hin as [->|Hin]; [exists b; split; [left; reflexivity|exact Hab]|].
  destruct (IH Hin) as (y & Hy & Hp). exists y. split; [right; exact Hy|exact Hp].
Qed.

Lemma def_member d v j r :
  plain_def d ->
  def_ser is_upper st d sargs v = Some j ->
  def_body is_upper is_alnum is_numeric R inl flt d gargs = Ok r ->
  ev (fst r) j.
Proof.
  intros (Hdty & Has & Hps & Hd) Hs Hg. unfold def_body in Hg. rewrite Hdty, Has in Hg.
  destruct d as [a s|a tg raf vs]; cbn [attrs_of] in *.
  - destruct Hd as (Hsh & Htag). destruct v; try discriminate. cbn [def_ser] in Hs.
    destruct (c_tag a) as [t|] eqn:Ht.
    + destruct Htag as (fs0 & -> & Hnd). destruct (named_entries st sargs (c_rename_all a) fs0 fs) as [entries|] eqn:He; [|discriminate].
      inversion Hs; subst. cbn [keys_distinct app] in Hnd. eapply tagged_named_member; eassumption.
    + assert (Hs' : shape_ser st sargs (c_rename_all a) s fs = Some j) by (destruct s; exact Hs).
      eapply shape_member; eassumption.
  - destruct v; try discriminate. cbn [def_ser] in Hs.
    destruct (nth_error vs idx) as [vr|] eqn:Hn; [|discriminate].
    destruct vs as [|v0 vs0]; [destruct idx; discriminate|].
    apply bind_ok in Hg as (l & Hl & Hg). apply omap_list_ok in Hl.
    assert (Hskip : v_skip vr = false).
    { unfold variant_ser in Hs. destruct (v_skip vr); [discriminate | reflexivity]. }
    assert (Hin : In vr (live_variants (v0 :: vs0))).
    { unfold live_variants. apply filter_In. split; [eapply nth_error_In; exact Hn | rewrite Hskip; reflexivity]. }
    destruct (Forall2_in_l' _ _ _ vr Hl Hin) as (x & Hx & Hgen).
    assert (Hr : fst r = TUnion l).
    { destruct l; [destruct Hx | inversion Hg; reflexivity]. }
    rewrite Hr. eapply evs_union; [exact Hx|].
    rewrite Forall_forall in Hd. destruct (Hd vr (nth_error_In _ _ Hn) Hskip) as [Hpv Hkd].
    eapply variant_member; eassumption.
Qed.

Lemma nfield_noflat opt f : nfield opt f -> f_flatten f = false -> plain_field opt f.
Proof. intros [H|H] Hf; [exact H|]. destruct H as (Hfl & _). congruence. Qed.

(* a struct with named fields (at least one), no tag of its own and no flattened field: what serde writes is ONE exact object
   whose keys are the field keys; it inhabits the single alternative its declaration denotes; the flattened form is the same type *)
Lemma struct_alt a f0 fs v j r :
  plain_def (DStruct a (SNamed (f0 :: fs))) -> c_tag a = None -> Forall (fun f => f_flatten f = false) (f0 :: fs) ->
  def_ser is_upper st (DStruct a (SNamed (f0 :: fs))) sargs v = Some j ->
  def_body is_upper is_alnum is_numeric R inl flt (DStruct a (SNamed (f0 :: fs))) gargs = Ok r ->
  exists es, j = JObj es /\ ev_alt E (tsubst sn sf (fst r)) (map (Gen.field_key (c_rename_all a)) (live (f0 :: fs))) es /\
             snd r = Some (fst r) /\ ev (fst r) (JObj es) /\ NoDup (map fst es).
Proof.
  intros (Hdty & Has & Hps & Hd) Htag Hnofl Hs Hg. unfold def_body in Hg. cbn [attrs_of] in *. rewrite Hdty, Has, Htag in Hg.
  destruct Hd as (Hsh & Hkd). rewrite Htag in Hkd. cbn [plain_shape keys_distinct app] in Hsh, Hkd.
  assert (Hshp : Forall (plain_field (c_optional_fields a)) (f0 :: fs)).
  { rewrite Forall_forall in *. intros x Hx. apply nfield_noflat; auto. }
  assert (Hnf : filter (fun fl => negb (is_flat fl)) (live (f0 :: fs)) = live (f0 :: fs)).
  { apply filter_all. intros x Hx. rewrite (is_flat_plain (c_optional_fields a) x); [reflexivity | pose proof (live_plain _ _ Hshp) as Hl; rewrite Forall_forall in Hl; auto]. }
  assert (Hff : filter is_flat (live (f0 :: fs)) = []).
  { apply filter_none. intros x Hx. apply (is_flat_plain (c_optional_fields a)). pose proof (live_plain _ _ Hshp) as Hl; rewrite Forall_forall in Hl; auto. }
  destruct v; try discriminate. cbn [def_ser] in Hs. rewrite Htag in Hs. cbn [shape_ser] in Hs.
  destruct (named_entries st sargs (c_rename_all a) (f0 :: fs) fs0) as [entries|] eqn:He; [|discriminate]. inversion Hs; subst j; clear Hs.
  exists entries. split; [reflexivity|].
  cbn [shape_gen] in Hg. apply bind_ok in Hg as (props & Hp & Hg). apply bind_ok in Hg as (flats & Hfl & Hg). cbv zeta in Hg.
  destruct (named_rel (c_rename_all a) (c_optional_fields a) (f0 :: fs) fs0 entries props flats Hsh He Hp Hfl) as (own & kes & P & _ & A & B & C & N & D & _).
  rewrite Hff in Hfl. cbn in Hfl. inversion Hfl; subst flats. inversion D; subst kes. cbn [map concat] in P. rewrite app_nil_r in P.
  rewrite Hff, Hnf in Hkd. cbn [map concat] in Hkd. rewrite app_nil_r in Hkd. rewrite Hnf in C, N.
  assert (Hr : r = (TMerged (TObj OStruct props), Some (TMerged (TObj OStruct props)))) by (destruct props; inversion Hg; reflexivity).
  subst r. cbn [fst snd tsubst].
  assert (Hobj : ev (TObj OStruct props) (JObj entries)).
  { apply (obj_of_facts [] [] props entries (map (Gen.field_key (c_rename_all a)) (live (f0 :: fs)))); try assumption; [| |constructor].
    - intros k j Hin. apply A. eapply Permutation_in; [exact P | exact Hin].
    - intros p t Hin Ho. destruct (B p t Hin Ho) as [j Hj]. exists j. eapply Permutation_in; [apply Permutation_sym; exact P | exact Hj]. }
  split; [|split; [reflexivity|split; [apply evs_merged; exact Hobj|]]].
  - rewrite <- C. replace (map (fun p => p_key (fst p)) props) with (pkeys (map (fun p => (fst p, tsubst sn sf (snd p))) props))
      by (unfold pkeys; rewrite map_map; reflexivity).
    apply ev_alt_merged. apply ev_alt_obj. unfold evs in Hobj. cbn [tsubst] in Hobj. exact Hobj.
  - eapply Permutation_NoDup; [apply Permutation_map; apply Permutation_sym; exact P | apply N; exact Hkd].
Qed.

End Layer.

(* ============================ library layer, in `eventually` form ============================== *)
Section LibEv.
Variable R : env.
Variable E : denv.
Variable sd : typedef -> list rty -> value -> option json.
Notation ev := (ev_mem E).

(* what is known of derived types: a value of a definition inhabits the reference to it *)
Notation mono_ty := (mono_ty R).
Hypothesis Hsd : forall id d args l v j, lookup R id = Some d ->
  length args = length (c_params (attrs_of d)) -> forallb mono_ty args = true ->
  sd d args v = Some j -> omap_list (name_of R) args = Ok l -> ev (TRef (ts_ident d) l) j.

Lemma ev_leaf l v j : leaf_ser l v = Some j -> ev (leaf_ts l) j.
Proof.
  intros H. destruct l as [big lo hi| | | | |]; destruct v; cbn in H; try discriminate.
  - destruct ((lo <=? z)%Z && (z <=? hi)%Z); [|discriminate]. inversion H. destruct big; apply ev_prim; reflexivity.
  - inversion H; apply ev_prim; reflexivity.
  - inversion H; apply ev_prim; reflexivity.
  - inversion H; apply ev_prim; reflexivity.
  - destruct s as [|c [|? ?]]; try discriminate. inversion H; apply ev_prim; reflexivity.
  - inversion H; apply ev_prim; reflexivity.
Qed.

Lemma opt_map_Forall {A} (f : A -> option json) (P : json -> Prop) l js :
  opt_map f l = Some js -> (forall x y, In x l -> f x = Some y -> P y) -> Forall P js.
Proof.
  revert js. induction l as [|x l IH]; cbn [opt_map]; intros js H Hp.
  - inversion H; constructor.
  - destruct (f x) as [y|] eqn:Hx; [|discriminate]. destruct (opt_map f l) as [ys|]; [|discriminate].
    inversion H; subst. constructor; [eapply Hp; [left; reflexivity | exact Hx]|].
    apply IH; [reflexivity|]. intros; eapply Hp; [right|]; eassumption.
Qed.

Lemma Forall2_repeat_l (P : tsty -> json -> Prop) a js : Forall (P a) js -> Forall2 P (repeat a (length js)) js.
Proof. induction 1; cbn; constructor; assumption. Qed.

Theorem lib_ev : forall t v j a,
  mono_ty t = true -> ser_ty R sd t v = Some j -> name_of R t = Ok a -> ev a j.
Proof.
  induction t as [l|t IH|t IH|n t IH|ts IH|k vt IHk IHv|t IH|t e IHt IHe|t IH|id args IH|i|n] using rty_ind';
    intros v j a Hm Hs Ha; unfold Sem_derive_proofs.mono_ty in Hm; cbn [pmono] in Hm; fold (Sem_derive_proofs.mono_ty R) in *; try discriminate; cbn [Gen.name_of] in Ha; cbn [Serde.ser_ty] in Hs.
  - inversion Ha; subst. eapply ev_leaf; exact Hs.
  - apply bind_ok in Ha as (x & Hx & Ha). inversion Ha; subst. destruct v; try discriminate.
    + inversion Hs; subst. eapply ev_union; [right; left; reflexivity | apply ev_prim; reflexivity].
    + eapply ev_union; [left; reflexivity | eapply IH; eassumption].
  - apply bind_ok in Ha as (x & Hx & Ha). inversion Ha; subst. destruct v; try discriminate.
    destruct (opt_map (ser_ty R sd t) l) as [js|] eqn:Hl; [|discriminate]. inversion Hs; subst.
    apply ev_array. eapply opt_map_Forall; [exact Hl|]. intros y z _ Hy. eapply IH; eassumption.
  - destruct n as [|n'].
    { inversion Ha; subst. destruct v; try discriminate. destruct l as [|? ?]; [|discriminate]. cbn in Hs. inversion Hs.
      apply ev_tuple. constructor. }
    apply bind_ok in Ha as (x & Hx & Ha). inversion Ha; subst. destruct v; try discriminate.
    destruct (Nat.eqb (length l) (S n')) eqn:Hlen; [|discriminate]. apply Nat.eqb_eq in Hlen.
    destruct (opt_map (ser_ty R sd t) l) as [js|] eqn:Hl; [|discriminate]. inversion Hs; subst.
    assert (Hall : Forall (ev x) js).
    { eapply opt_map_Forall; [exact Hl|]. intros y z _ Hy. eapply IH; eassumption. }
    assert (Hlenjs : length js = length l).
    { clear -Hl. revert js Hl. induction l as [|y l IHl]; cbn; intros js H; [inversion H; reflexivity|].
      destruct (ser_ty R sd t y); [|discriminate]. destruct (opt_map (ser_ty R sd t) l); [|discriminate]. inversion H. cbn. f_equal. apply IHl. reflexivity. }
    unfold array_ts. destruct (Nat.ltb ARRAY_TUPLE_LIMIT (S n')); [apply ev_array; exact Hall|].
    apply ev_tuple. rewrite <- Hlen, <- Hlenjs. apply Forall2_repeat_l. exact Hall.
  - apply bind_ok in Ha as (xs & Hxs & Ha). inversion Ha; subst. destruct v; try discriminate.
    destruct (opt_map2 (ser_ty R sd) ts l) as [js|] eqn:Hgo; [|discriminate]. inversion Hs; subst.
    apply ev_tuple. apply omap_list_ok in Hxs. rewrite forallb_forall in Hm. rewrite Forall_forall in IH.
    clear Hs Ha. revert l js Hgo. induction Hxs as [|u x ts xs Hux _ IHx]; intros l js Hgo.
    + destruct l; inversion Hgo. constructor.
    + destruct l as [|y l]; [discriminate|]. cbn [opt_map2] in Hgo.
      destruct (ser_ty R sd u y) as [z|] eqn:Hz; [|discriminate].
      destruct (opt_map2 (ser_ty R sd) ts l) as [zs|] eqn:Hg; [|discriminate]. inversion Hgo; subst.
      constructor; [eapply IH; [left; reflexivity | apply Hm; left; reflexivity | exact Hz | exact Hux]|].
      eapply IHx; [intros x0 Hx0 v1 j1 a1 Hm1 Hs1 Ha1; eapply IH; [right; exact Hx0 | exact Hm1 | exact Hs1 | exact Ha1] | intros x0 Hx0; apply Hm; right; exact Hx0 | exact Hg].
  - apply bind_ok in Ha as (x & Hx & Ha). apply bind_ok in Ha as (y & Hy & Ha). inversion Ha; subst.
    apply andb_true_iff in Hm as [Hkl Hvm]. destruct v; try discriminate.
    match type of Hs with option_map JObj (opt_map ?g l) = _ => destruct (opt_map g l) as [es|] eqn:Hl; [|discriminate] end.
    inversion Hs; subst. apply ev_mapped. clear Hs Ha. revert es Hl. induction l as [|e l IHl]; cbn [opt_map]; intros es Hl key j Hin.
    + inversion Hl; subst. destruct Hin.
    + destruct (ser_ty R sd k (fst e)) as [kj|] eqn:Hkj; [|discriminate]. destruct (ser_ty R sd vt (snd e)) as [z|] eqn:Hz; [|discriminate].
      destruct (key_of_json kj) as [ks|] eqn:Hks; [|discriminate]. cbn [option_map] in Hl.
      destruct (opt_map _ l) as [es'|] eqn:Hl'; [|discriminate]. inversion Hl; subst. destruct Hin as [Heq|Hin].
      * inversion Heq; subst. split; [|eapply IHv; eassumption].
        destruct k as [lk| | | | | | | | | | |]; try discriminate. cbn [Gen.name_of] in Hx. inversion Hx; subst. cbn [Serde.ser_ty] in Hkj.
        destruct lk as [big lo hi| | | | |]; try discriminate; destruct (fst e) as [z0|?|?|s|  |  |?|?|?|?|? ?]; cbn [leaf_ser] in Hkj; try discriminate.
        -- destruct ((lo <=? z0)%Z && (z0 <=? hi)%Z); [|discriminate]. inversion Hkj; subst. cbn in Hks. inversion Hks; subst.
           destruct big; cbn [leaf_ts]; unfold prim; [rewrite Sem_lib_proofs.key_ok_bigint | rewrite Sem_lib_proofs.key_ok_number]; apply Sem_lib_proofs.z_to_str_digits.
        -- inversion Hkj; subst. reflexivity.
        -- destruct s as [|c [|? ?]]; try discriminate. reflexivity.
      * eapply IHl; [reflexivity | exact Hin].
  - eapply IH; eassumption.
  - apply bind_ok in Ha as (x & Hx & Ha). apply bind_ok in Ha as (y & Hy & Ha). inversion Ha; subst.
    apply andb_true_iff in Hm as [Ht He]. destruct v; try discriminate. destruct idx as [|[|]]; destruct fs as [|v0 [|]]; try discriminate.
    + destruct (ser_ty R sd t v0) as [z|] eqn:Hz; [|discriminate]. inversion Hs; subst. apply ev_result_ok. eapply IHt; eassumption.
    + destruct (ser_ty R sd e v0) as [z|] eqn:Hz; [|discriminate]. inversion Hs; subst. apply ev_result_err. eapply IHe; eassumption.
  - apply bind_ok in Ha as (x & Hx & Ha). inversion Ha; subst. destruct v; try discriminate. destruct fs as [|va [|vb [|]]]; try discriminate.
    destruct (ser_ty R sd t va) as [ja|] eqn:Hja; [|discriminate]. destruct (ser_ty R sd t vb) as [jb|] eqn:Hjb; [|discriminate].
    inversion Hs; subst. apply ev_obj.
    + cbn. constructor; [intros [Heq|[]]; discriminate Heq|]. constructor; [intros []|constructor].
    + intros key j' [Heq|[Heq|[]]]; inversion Heq; subst key j'.
      * exists (plain_head (lit "start")), x. repeat split; [left; reflexivity | eapply IH; eassumption].
      * exists (plain_head (lit "end")), x. repeat split; [right; left; reflexivity | eapply IH; eassumption].
    + intros p ty [Heq|[Heq|[]]] _; inversion Heq; subst p ty; [exists ja; left; reflexivity | exists jb; right; left; reflexivity].
  - destruct (lookup R id) as [d|] eqn:Hlk; [|discriminate]. apply andb_true_iff in Hm as [Hlen Hargs]. apply Nat.eqb_eq in Hlen.
    apply bind_ok in Ha as (l & Hl & Ha). inversion Ha; subst. eapply Hsd; eassumption.
Qed.

(* the same for TS::inline(): derived leaves are inlined (their body), tuples and ranges cannot be *)
Variable g : dgen.
Hypothesis Hg : forall id d args v j r, lookup R id = Some d ->
  length args = length (c_params (attrs_of d)) -> forallb mono_ty args = true ->
  sd d args v = Some j -> g d args = Ok r -> ev (fst r) j.

Theorem lib_inline_ev : forall t v j a,
  mono_ty t = true -> ser_ty R sd t v = Some j -> lib_inline R g t = Ok a -> ev a j.
Proof.
  induction t as [l|t IH|t IH|n t IH|ts IH|k vt IHk IHv|t IH|t e IHt IHe|t IH|id args IH|i|n] using rty_ind';
    intros v j a Hm Hs Ha; unfold Sem_derive_proofs.mono_ty in Hm; cbn [pmono] in Hm; fold (Sem_derive_proofs.mono_ty R) in *; try discriminate; cbn [Gen.lib_inline] in Ha; cbn [Serde.ser_ty] in Hs; try discriminate.
  - inversion Ha; subst. eapply ev_leaf; exact Hs.
  - apply bind_ok in Ha as (x & Hx & Ha). inversion Ha; subst. destruct v; try discriminate.
    + inversion Hs; subst. eapply ev_union; [right; left; reflexivity | apply ev_prim; reflexivity].
    + eapply ev_union; [left; reflexivity | eapply IH; eassumption].
  - apply bind_ok in Ha as (x & Hx & Ha). inversion Ha; subst. destruct v; try discriminate.
    destruct (opt_map (ser_ty R sd t) l) as [js|] eqn:Hl; [|discriminate]. inversion Hs; subst.
    apply ev_array. eapply opt_map_Forall; [exact Hl|]. intros y z _ Hy. eapply IH; eassumption.
  - destruct n as [|n'].
    { inversion Ha; subst. destruct v; try discriminate. destruct l as [|? ?]; [|discriminate]. cbn in Hs. inversion Hs.
      apply ev_tuple. constructor. }
    apply bind_ok in Ha as (x & Hx & Ha). inversion Ha; subst. destruct v; try discriminate.
    destruct (Nat.eqb (length l) (S n')) eqn:Hlen; [|discriminate]. apply Nat.eqb_eq in Hlen.
    destruct (opt_map (ser_ty R sd t) l) as [js|] eqn:Hl; [|discriminate]. inversion Hs; subst.
    assert (Hall : Forall (ev x) js).
    { eapply opt_map_Forall; [exact Hl|]. intros y z _ Hy. eapply IH; eassumption. }
    assert (Hlenjs : length js = length l).
    { clear -Hl. revert js Hl. induction l as [|y l IHl]; cbn; intros js H; [inversion H; reflexivity|].
      destruct (ser_ty R sd t y); [|discriminate]. destruct (opt_map (ser_ty R sd t) l); [|discriminate]. inversion H. cbn. f_equal. apply IHl. reflexivity. }
    unfold array_ts. destruct (Nat.ltb ARRAY_TUPLE_LIMIT (S n')); [apply ev_array; exact Hall|].
    apply ev_tuple. rewrite <- Hlen, <- Hlenjs. apply Forall2_repeat_l. exact Hall.
  - apply bind_ok in Ha as (x & Hx & Ha). apply bind_ok in Ha as (y & Hy & Ha). inversion Ha; subst.
    apply andb_true_iff in Hm as [Hkl Hvm]. destruct v; try discriminate.
    match type of Hs with option_map JObj (opt_map ?g0 l) = _ => destruct (opt_map g0 l) as [es|] eqn:Hl; [|discriminate] end.
    inversion Hs; subst. apply ev_mapped. clear Hs Ha. revert es Hl. induction l as [|e l IHl]; cbn [opt_map]; intros es Hl key j Hin.
    + inversion Hl; subst. destruct Hin.
    + destruct (ser_ty R sd k (fst e)) as [kj|] eqn:Hkj; [|discriminate]. destruct (ser_ty R sd vt (snd e)) as [z|] eqn:Hz; [|discriminate].
      destruct (key_of_json kj) as [ks|] eqn:Hks; [|discriminate]. cbn [option_map] in Hl.
      destruct (opt_map _ l) as [es'|] eqn:Hl'; [|discriminate]. inversion Hl; subst. destruct Hin as [Heq|Hin].
      * inversion Heq; subst. split; [|eapply IHv; eassumption].
        destruct k as [lk| | | | | | | | | | |]; try discriminate. cbn [Gen.lib_inline] in Hx. inversion Hx; subst. cbn [Serde.ser_ty] in Hkj.
        destruct lk as [big lo hi| | | | |]; try discriminate; destruct (fst e) as [z0|?|?|s|  |  |?|?|?|?|? ?]; cbn [leaf_ser] in Hkj; try discriminate.
        -- destruct ((lo <=? z0)%Z && (z0 <=? hi)%Z); [|discriminate]. inversion Hkj; subst. cbn in Hks. inversion Hks; subst.
           destruct big; cbn [leaf_ts]; unfold prim; [rewrite Sem_lib_proofs.key_ok_bigint | rewrite Sem_lib_proofs.key_ok_number]; apply Sem_lib_proofs.z_to_str_digits.
        -- inversion Hkj; subst. reflexivity.
        -- destruct s as [|c [|? ?]]; try discriminate. reflexivity.
      * eapply IHl; [reflexivity | exact Hin].
  - eapply IH; eassumption.
  - apply bind_ok in Ha as (x & Hx & Ha). apply bind_ok in Ha as (y & Hy & Ha). inversion Ha; subst.
    apply andb_true_iff in Hm as [Ht He]. destruct v; try discriminate. destruct idx as [|[|]]; destruct fs as [|v0 [|]]; try discriminate.
    + destruct (ser_ty R sd t v0) as [z|] eqn:Hz; [|discriminate]. inversion Hs; subst. apply ev_result_ok. eapply IHt; eassumption.
    + destruct (ser_ty R sd e v0) as [z|] eqn:Hz; [|discriminate]. inversion Hs; subst. apply ev_result_err. eapply IHe; eassumption.
  - destruct (lookup R id) as [d|] eqn:Hlk; [|discriminate]. apply andb_true_iff in Hm as [Hlen Hargs]. apply Nat.eqb_eq in Hlen.
    destruct (g d args) as [r| |] eqn:Hr; try discriminate. cbn [omap] in Ha. inversion Ha; subst. eapply Hg; eassumption.
Qed.
End LibEv.

(* ============================ decidable scope of the theorem =================================== *)
Lemma leaf_eqb_eq a b : leaf_eqb a b = true -> a = b.
Proof.
  destruct a as [x l h| | | | |], b as [y l' h'| | | | |]; cbn; intros H; try discriminate; try reflexivity.
  apply andb_true_iff in H as [H Hh]. apply andb_true_iff in H as [Hx Hl].
  apply Bool.eqb_prop in Hx. apply Z.eqb_eq in Hl, Hh. subst. reflexivity.
Qed.

Lemma rty_eqb_eq : forall a b, rty_eqb a b = true -> a = b.
Proof.
  induction a as [l|t IH|t IH|n t IH|ts IH|k v IHk IHv|t IH|t e IHt IHe|t IH|id args IH|i|n] using rty_ind';
    intros b H; destruct b; cbn [rty_eqb] in H; try discriminate.
  - f_equal. apply leaf_eqb_eq. exact H.
  - f_equal. apply IH. exact H.
  - f_equal. apply IH. exact H.
  - apply andb_true_iff in H as [Hn H]. apply Nat.eqb_eq in Hn. subst. f_equal. apply IH. exact H.
  - f_equal. revert ts0 H. induction ts as [|x xs IHxs]; intros [|y ys] H; try discriminate; [reflexivity|].
    apply andb_true_iff in H as [Hx Hr]. inversion IH as [|? ? Hx' Hxs']; subst. f_equal; [apply Hx'; exact Hx | apply IHxs; assumption].
  - apply andb_true_iff in H as [Hk Hv]. f_equal; [apply IHk | apply IHv]; assumption.
  - f_equal. apply IH. exact H.
  - apply andb_true_iff in H as [Hk Hv]. f_equal; [apply IHt | apply IHe]; assumption.
  - f_equal. apply IH. exact H.
  - apply andb_true_iff in H as [Hid H]. apply str_eqb_true in Hid. subst. f_equal.
    revert args0 H. induction args as [|x xs IHxs]; intros [|y ys] H; try discriminate; [reflexivity|].
    apply andb_true_iff in H as [Hx Hr]. inversion IH as [|? ? Hx' Hxs']; subst. f_equal; [apply Hx'; exact Hx | apply IHxs; assumption].
  - apply Nat.eqb_eq in H. subst. reflexivity.
  - apply str_eqb_true in H. subst. reflexivity.
Qed.

Fixpoint nodupb (l : list str) : bool :=
  match l with
  | [] => true
  | x :: r => negb (existsb (str_eqb x) r) && nodupb r
  end.

Lemma nodupb_NoDup l : nodupb l = true -> NoDup l.
Proof.
  induction l as [|x r IH]; cbn [nodupb]; intros H; [constructor|].
  apply andb_true_iff in H as [Hx Hr]. constructor; [|apply IH; exact Hr].
  intros Hin. apply negb_true_iff in Hx. rewrite (existsb_in (str_eqb x) x r Hin (str_eqb_refl' x)) in Hx. discriminate.
Qed.

Definition is_none {A} (o : option A) : bool := match o with None => true | Some _ => false end.
Lemma is_none_eq {A} (o : option A) : is_none o = true -> o = None.
Proof. destruct o; [discriminate | reflexivity]. Qed.

Section Dec.
Variable R : env.

Definition not_paramb (t : rty) : bool := match t with RParam _ => false | _ => true end.

Definition opt_soundb (opt : optional) (f : field) : bool :=
  match f_optional f, opt with
  | NotOptional, NotOptional => negb (f_skip_none f)
  | NotOptional, Optional nl => not_paramb (f_ty f) && (if is_option (f_ty f) then nl || f_skip_none f else negb (f_skip_none f))
  | Optional nl, _ => is_option (f_ty f) && (nl || f_skip_none f)
  end.

Lemma opt_soundb_ok opt f : opt_soundb opt f = true -> opt_sound opt f.
Proof.
  unfold opt_soundb, opt_sound. destruct (f_optional f) as [|fn]; destruct opt as [|on]; intros H.
  - apply negb_true_iff; exact H.
  - apply andb_true_iff in H as [H1 H2]. split; [destruct (f_ty f); try exact I; discriminate|].
    destruct (is_option (f_ty f)); [apply orb_true_iff in H2; exact H2 | apply negb_true_iff; exact H2].
  - apply andb_true_iff in H as [H1 H2]. split; [exact H1 | apply orb_true_iff in H2; exact H2].
  - apply andb_true_iff in H as [H1 H2]. split; [exact H1 | apply orb_true_iff in H2; exact H2].
Qed.

Definition plain_fieldb (n : nat) (opt : optional) (f : field) : bool :=
  negb (f_flatten f) && is_none (f_type f) && rty_eqb (f_serde_ty f) (f_ty f) && pmono R n (f_ty f) &&
  (negb (f_inline f) || pmono R 0 (f_ty f)) && opt_soundb opt f.

Lemma plain_fieldb_ok n opt f : plain_fieldb n opt f = true -> plain_field R n opt f.
Proof.
  unfold plain_fieldb, plain_field. intros H.
  repeat match type of H with (_ && _) = true => let H' := fresh "H" in apply andb_true_iff in H as [H H'] end.
  repeat split.
  - apply negb_true_iff; assumption.
  - apply is_none_eq; assumption.
  - apply rty_eqb_eq; assumption.
  - assumption.
  - intros Hi. match goal with Hx : (negb (f_inline f) || pmono R 0 (f_ty f))%bool = true |- _ => rewrite Hi in Hx; cbn [negb orb] in Hx; exact Hx end.
  - apply opt_soundb_ok; assumption.
Qed.

Definition plain_tfieldb (n : nat) (f : field) : bool :=
  plain_fieldb n NotOptional f && match f_optional f with NotOptional => true | _ => false end.

Lemma plain_tfieldb_ok n f : plain_tfieldb n f = true -> plain_tfield R n f.
Proof.
  unfold plain_tfieldb, plain_tfield. intros H. apply andb_true_iff in H as [H1 H2].
  split; [apply plain_fieldb_ok; exact H1 | destruct (f_optional f); [reflexivity | discriminate]].
Qed.

Lemma forallb_Forall' {A} (p : A -> bool) (P : A -> Prop) l : (forall x, p x = true -> P x) -> forallb p l = true -> Forall P l.
Proof. intros Hp H. rewrite forallb_forall in H. apply Forall_forall. auto. Qed.

Definition noflatb (fs : list field) : bool := forallb (fun f => negb (f_flatten f)) fs.
Lemma noflatb_ok fs : noflatb fs = true -> Forall (fun f => f_flatten f = false) fs.
Proof. intros H. eapply forallb_Forall'; [|exact H]. intros x Hx. apply negb_true_iff. exact Hx. Qed.

Definition flat_structb (t : rty) : bool :=
  match t with
  | RNamed id _ =>
      match lookup R id with
      | Some (DStruct a (SNamed (f0 :: fs))) => is_none (c_tag a) && noflatb (f0 :: fs)
      | _ => false
      end
  | _ => false
  end.

Lemma flat_structb_ok t : flat_structb t = true -> flat_struct R t.
Proof.
  destruct t as [| | | | | | | | |id args| |]; cbn [flat_structb flat_struct]; try discriminate.
  destruct (lookup R id) as [[a [| |[|f0 fs]]|]|]; try discriminate. intros H. apply andb_true_iff in H as [H1 H2].
  split; [apply is_none_eq; exact H1 | apply noflatb_ok; exact H2].
Qed.

Definition flat_fieldb (n : nat) (f : field) : bool :=
  f_flatten f && is_none (f_type f) && rty_eqb (f_serde_ty f) (f_ty f) && pmono R n (f_ty f) && pmono R 0 (f_ty f) &&
  match f_optional f with NotOptional => true | _ => false end && negb (f_skip_none f) && flat_structb (f_ty f).

Lemma flat_fieldb_ok n f : flat_fieldb n f = true -> flat_field R n f.
Proof.
  unfold flat_fieldb, flat_field. intros H.
  repeat match type of H with (_ && _) = true => let H' := fresh "H" in apply andb_true_iff in H as [H H'] end.
  repeat split; try assumption.
  - apply is_none_eq; assumption.
  - apply rty_eqb_eq; assumption.
  - destruct (f_optional f); [reflexivity | discriminate].
  - apply negb_true_iff; assumption.
  - apply flat_structb_ok; assumption.
Qed.

Definition nfieldb (n : nat) (opt : optional) (f : field) : bool := plain_fieldb n opt f || flat_fieldb n f.
Lemma nfieldb_ok n opt f : nfieldb n opt f = true -> nfield R n opt f.
Proof. unfold nfieldb, nfield. intros H. apply orb_true_iff in H as [H|H]; [left; apply plain_fieldb_ok | right; apply flat_fieldb_ok]; exact H. Qed.

Definition plain_shapeb (n : nat) (opt : optional) (s : shape) : bool :=
  match s with
  | SUnit => true
  | STuple [f] => plain_tfieldb n f && negb (f_skip f)
  | STuple fs => forallb (plain_tfieldb n) fs
  | SNamed fs => forallb (nfieldb n opt) fs
  end.

Lemma plain_shapeb_ok n opt s : plain_shapeb n opt s = true -> plain_shape R n opt s.
Proof.
  destruct s as [|fs|fs]; cbn [plain_shapeb plain_shape]; intros H.
  - exact I.
  - destruct fs as [|f [|g r]].
    + constructor.
    + apply andb_true_iff in H as [H1 H2]. split; [apply plain_tfieldb_ok; exact H1 | apply negb_true_iff; exact H2].
    + eapply forallb_Forall'; [apply plain_tfieldb_ok | exact H].
  - eapply forallb_Forall'; [apply nfieldb_ok | exact H].
Qed.

Definition keys_distinctb (ra : option rule) (extra : list str) (s : shape) : bool :=
  match s with
  | SNamed fs => nodupb (extra ++ map (Gen.field_key ra) (filter (fun fl => negb (is_flat fl)) (live fs)) ++
                         concat (map (fun f => flat_keys R (f_ty f)) (filter is_flat (live fs))))
  | _ => true
  end.

Lemma keys_distinctb_ok ra extra s : keys_distinctb ra extra s = true -> keys_distinct R ra extra s.
Proof. destruct s; cbn; intros H; try exact I. apply nodupb_NoDup. exact H. Qed.

Definition struct_contentb (tg : str) (t : rty) : bool :=
  match t with
  | RNamed id _ =>
      match lookup R id with
      | Some (DStruct a (SNamed (f0 :: fs))) =>
          is_none (c_tag a) && negb (existsb (str_eqb tg) (map (Gen.field_key (c_rename_all a)) (live (f0 :: fs)))) && noflatb (f0 :: fs)
      | _ => false
      end
  | _ => false
  end.

Lemma struct_contentb_ok tg t : struct_contentb tg t = true -> struct_content R tg t.
Proof.
  destruct t as [| | | | | | | | |id args| |]; cbn [struct_contentb struct_content]; try discriminate.
  destruct (lookup R id) as [[a [| |[|f0 fs]]|]|]; try discriminate. intros H. apply andb_true_iff in H as [H H3]. apply andb_true_iff in H as [H1 H2].
  split; [apply is_none_eq; exact H1|]. split; [|apply noflatb_ok; exact H3]. intros Hin. apply negb_true_iff in H2.
  rewrite (existsb_in (str_eqb tg) tg _ Hin (str_eqb_refl' tg)) in H2. discriminate.
Qed.

Definition plain_variantb (n : nat) (tg : tagging) (v : variant) : bool :=
  is_none (v_type v) && is_none (v_as v) && negb (v_untagged v) && plain_shapeb n NotOptional (v_shape v) &&
  match tg with
  | Internal t =>
      match v_shape v with
      | STuple [f] => negb (f_inline f) && struct_contentb t (f_ty f)
      | STuple _ => false
      | _ => true
      end
  | _ => true
  end.

Lemma plain_variantb_ok n tg v : plain_variantb n tg v = true -> plain_variant R n tg v.
Proof.
  unfold plain_variantb, plain_variant. intros H.
  repeat match type of H with (_ && _) = true => let H' := fresh "H" in apply andb_true_iff in H as [H H'] end.
  repeat split; try (apply is_none_eq; assumption); try (apply negb_true_iff; assumption).
  - apply plain_shapeb_ok; assumption.
  - destruct tg; try exact I. destruct (v_shape v) as [|[|f [|f2 fs]]|]; try exact I; try discriminate.
    match goal with Hx : (negb (f_inline f) && struct_contentb _ (f_ty f))%bool = true |- _ => apply andb_true_iff in Hx as [Hx1 Hx2] end.
    split; [apply negb_true_iff; exact Hx1 | apply struct_contentb_ok; exact Hx2].
Qed.

Definition variant_keys_distinctb (tg : tagging) (ra : option rule) (s : shape) : bool :=
  match tg with
  | Internal t => keys_distinctb ra [t] s
  | Adjacent t c => negb (str_eqb t c) && keys_distinctb ra [] s
  | _ => keys_distinctb ra [] s
  end.

Lemma variant_keys_distinctb_ok tg ra s : variant_keys_distinctb tg ra s = true -> variant_keys_distinct R tg ra s.
Proof.
  destruct tg; cbn [variant_keys_distinctb variant_keys_distinct]; intros H; try (apply keys_distinctb_ok; exact H).
  apply andb_true_iff in H as [Hn H]. split; [|apply keys_distinctb_ok; exact H].
  intros ->. rewrite str_eqb_refl' in Hn. discriminate.
Qed.

Definition nparams (d : typedef) : nat := length (c_params (attrs_of d)).

Definition plain_defb (d : typedef) : bool :=
  let a := attrs_of d in
  let n := nparams d in
  is_none (c_type a) && is_none (c_as a) && nodupb (map fst (c_params a)) &&
  match d with
  | DStruct a s =>
      plain_shapeb n (c_optional_fields a) s &&
      match c_tag a with
      | None => keys_distinctb (c_rename_all a) [] s
      | Some t => match s with SNamed fs => keys_distinctb (c_rename_all a) [t] (SNamed fs) | _ => false end
      end
  | DEnum a tg raf vs =>
      forallb (fun v => v_skip v || (plain_variantb n tg v && variant_keys_distinctb tg (variant_rename_all raf v) (v_shape v))) vs
  end.

Lemma plain_defb_ok d : plain_defb d = true -> plain_def R (nparams d) d /\ NoDup (map fst (c_params (attrs_of d))).
Proof.
  unfold plain_defb, plain_def. intros H.
  apply andb_true_iff in H as [H Hd]. apply andb_true_iff in H as [H Hps]. apply andb_true_iff in H as [Hty Has].
  split; [|apply nodupb_NoDup; exact Hps].
  split; [apply is_none_eq; exact Hty|]. split; [apply is_none_eq; exact Has|].
  split; [reflexivity|].
  destruct d as [a s|a tg raf vs].
  - apply andb_true_iff in Hd as [Hsh Htag].
    split; [apply plain_shapeb_ok; exact Hsh|].
    destruct (c_tag a) as [t|]; [|apply keys_distinctb_ok; exact Htag].
    destruct s as [|fs|fs]; try discriminate. exists fs. split; [reflexivity | apply keys_distinctb_ok; exact Htag].
  - eapply forallb_Forall'; [|exact Hd]. intros v Hv Hskip. cbn beta in Hv. rewrite Hskip in Hv. cbn [orb] in Hv.
    apply andb_true_iff in Hv as [H1 H2]. split; [apply plain_variantb_ok; exact H1 | apply variant_keys_distinctb_ok; exact H2].
Qed.
End Dec.

(* ============================ instantiation of names ============================================ *)
Lemma tsubst_leaf sn sf l : tsubst sn sf (leaf_ts l) = leaf_ts l.
Proof. destruct l as [[|] ? ?| | | | |]; reflexivity. Qed.

Lemma map_repeat {A B} (f : A -> B) a n : map f (repeat a n) = repeat (f a) n.
Proof. induction n as [|n IH]; cbn; [reflexivity | rewrite IH; reflexivity]. Qed.

Lemma tsubst_array_ts sn sf n a : tsubst sn sf (array_ts n a) = array_ts n (tsubst sn sf a).
Proof. unfold array_ts. destruct (Nat.ltb ARRAY_TUPLE_LIMIT n); cbn [tsubst]; [reflexivity | rewrite map_repeat; reflexivity]. Qed.

Lemma bind_params_at : forall (ps : list (str * option tsty)) l i x u,
  NoDup (map fst ps) -> nth_error (map fst ps) i = Some x -> nth_error l i = Some u -> bind_params ps l x = Some u.
Proof.
  induction ps as [|[p d] ps IH]; intros l i x u Hnd Hx Hu; [destruct i; discriminate|].
  destruct l as [|a l]; [destruct i; discriminate|]. cbn [bind_params]. inversion Hnd as [|? ? Hnin Hnd']; subst.
  destruct i as [|i]; cbn [map fst nth_error] in Hx, Hu.
  - inversion Hx; inversion Hu; subst. rewrite str_eqb_refl'. reflexivity.
  - destruct (str_eqb p x) eqn:E.
    + apply str_eqb_true in E. subst. exfalso. apply Hnin. eapply nth_error_In. exact Hx.
    + eapply IH; eassumption.
Qed.

Lemma omap_list_nth {A B} (f : A -> outcome B) : forall l l' i x, omap_list f l = Ok l' -> nth_error l i = Some x ->
  exists y, nth_error l' i = Some y /\ f x = Ok y.
Proof.
  intros l l' i x H. apply omap_list_ok in H. revert i. induction H as [|a b l l' Hab _ IH]; intros i Hx; [destruct i; discriminate|].
  destruct i as [|i]; cbn [nth_error] in *; [inversion Hx; subst; eauto | apply IH; exact Hx].
Qed.

Lemma omap_list_ext {A B} (f g : A -> outcome B) l : (forall x, In x l -> f x = g x) -> omap_list f l = omap_list g l.
Proof.
  induction l as [|x l IH]; intros H; cbn [omap_list]; [reflexivity|].
  rewrite (H x (or_introl eq_refl)). rewrite IH by (intros; apply H; right; assumption). reflexivity.
Qed.

Lemma omap_list_map_ok {A B C} (f : A -> outcome B) (h : B -> C) (g : A -> outcome C) l l' :
  omap_list f l = Ok l' -> (forall x y, In x l -> f x = Ok y -> g x = Ok (h y)) -> omap_list g l = Ok (map h l').
Proof.
  revert l'. induction l as [|x l IH]; cbn [omap_list]; intros l' H Hg; [inversion H; reflexivity|].
  destruct (f x) as [y| |] eqn:Hx; try discriminate. cbn [bind] in H.
  destruct (omap_list f l) as [ys| |] eqn:Hl; try discriminate. inversion H; subst.
  rewrite (Hg x y (or_introl eq_refl) Hx). cbn [bind]. rewrite (IH ys eq_refl) by (intros; eapply Hg; [right|]; eassumption). reflexivity.
Qed.

Lemma omap_list_map {A B C} (f : B -> outcome C) (h : A -> B) l : omap_list f (map h l) = omap_list (fun x => f (h x)) l.
Proof. induction l as [|x l IH]; cbn [map omap_list]; [reflexivity | rewrite IH; reflexivity]. Qed.

Section NameSubst.
Variable R : env.
Variable n : nat.
Variable names : list str.
Variable args : list rty.
Variable l : list tsty.
Variable ps : list (str * option tsty).
Hypothesis Hnd : NoDup names.
Hypothesis Hps : map fst ps = names.
Hypothesis Hlen : length names = n.
Hypothesis Hargs : omap_list (name_of R) args = Ok l.
Hypothesis Hlargs : length args = n.

Let ds := map RDummy names.
Let s := bind_params ps l.

(* the name of a type of the definition at the dummies, instantiated, is its name at the arguments *)
Lemma name_of_tsubst : forall t a, pmono R n t = true ->
  name_of R (rsubst ds t) = Ok a -> name_of R (rsubst args t) = Ok (tsubst s s a).
Proof.
  induction t as [lf|t IH|t IH|m t IH|ts IH|k v IHk IHv|t IH|t e IHt IHe|t IH|id targs IH|i|m] using rty_ind';
    intros a Hm Ha; cbn [pmono] in Hm; try discriminate; cbn [rsubst Gen.name_of] in Ha |- *.
  - inversion Ha; subst. rewrite tsubst_leaf. reflexivity.
  - apply bind_ok in Ha as (x & Hx & Ha). inversion Ha; subst. rewrite (IH x Hm Hx). reflexivity.
  - apply bind_ok in Ha as (x & Hx & Ha). inversion Ha; subst. rewrite (IH x Hm Hx). reflexivity.
  - destruct m as [|m']; [inversion Ha; reflexivity|].
    apply bind_ok in Ha as (x & Hx & Ha). inversion Ha; subst. rewrite (IH x Hm Hx). cbn [bind]. rewrite tsubst_array_ts. reflexivity.
  - apply bind_ok in Ha as (xs & Hxs & Ha). inversion Ha; subst. rewrite omap_list_map in Hxs |- *.
    rewrite (omap_list_map_ok _ (tsubst s s) _ _ _ Hxs). { reflexivity. }
    intros x y Hin Hy. rewrite Forall_forall in IH. rewrite forallb_forall in Hm. apply IH; [exact Hin | apply Hm; exact Hin | exact Hy].
  - apply andb_true_iff in Hm as [Hk Hv]. rewrite (key_leaf_subst ds _ Hk) in Ha. rewrite (key_leaf_subst args _ Hk).
    apply bind_ok in Ha as (x & Hx & Ha). apply bind_ok in Ha as (y & Hy & Ha). inversion Ha; subst. rewrite Hx. cbn [bind].
    rewrite (IHv y Hv Hy). cbn [bind tsubst].
    destruct k as [lk| | | | | | | | | | |]; try discriminate. cbn [Gen.name_of] in Hx. inversion Hx; subst. rewrite tsubst_leaf. reflexivity.
  - apply IH; assumption.
  - apply andb_true_iff in Hm as [Ht He]. apply bind_ok in Ha as (x & Hx & Ha). apply bind_ok in Ha as (y & Hy & Ha). inversion Ha; subst.
    rewrite (IHt x Ht Hx), (IHe y He Hy). reflexivity.
  - apply bind_ok in Ha as (x & Hx & Ha). inversion Ha; subst. rewrite (IH x Hm Hx). reflexivity.
  - destruct (lookup R id) as [d|]; [|discriminate]. apply andb_true_iff in Hm as [_ Hm].
    apply bind_ok in Ha as (xs & Hxs & Ha). inversion Ha; subst. rewrite omap_list_map in Hxs |- *.
    rewrite (omap_list_map_ok _ (tsubst s s) _ _ _ Hxs). { reflexivity. }
    intros x y Hin Hy. rewrite Forall_forall in IH. rewrite forallb_forall in Hm. apply IH; [exact Hin | apply Hm; exact Hin | exact Hy].
  - apply Nat.ltb_lt in Hm.
    destruct (nth_error names i) as [x|] eqn:Hx; [|apply nth_error_None in Hx; lia].
    destruct (nth_error args i) as [u|] eqn:Hu; [|apply nth_error_None in Hu; lia].
    assert (Hd : nth i ds (RParam i) = RDummy x).
    { apply nth_error_nth. unfold ds. rewrite nth_error_map, Hx. reflexivity. }
    rewrite Hd in Ha. cbn [Gen.name_of] in Ha. injection Ha as <-.
    rewrite (nth_error_nth _ _ _ Hu).
    destruct (omap_list_nth _ _ _ _ _ Hargs Hu) as (y & Hy & Hn). rewrite Hn. cbn [tsubst].
    unfold s. rewrite (bind_params_at ps l i x y); [reflexivity | rewrite Hps; exact Hnd | rewrite Hps; exact Hx | exact Hy].
Qed.
End NameSubst.

(* ============================ the knot ========================================================== *)
Lemma ev_ref_args E name dc l j :
  dlookup E name = Some dc ->
  ev_mem E (tsubst (bind_params (d_params dc) l) (bind_params (d_params dc) l) (d_body dc)) j ->
  ev_mem E (TRef name l) j.
Proof.
  intros Hl [f0 H]. exists (S f0). intros [|f] Hf; [lia|]. cbn [memberb]. unfold unfold_ref. rewrite Hl. apply H. lia.
Qed.

Section Knot.
Variable is_upper is_alnum is_numeric : char -> bool.
Variable R : env.
Variable gf : nat.

Notation decl_of := (Gen.decl_of is_upper is_alnum is_numeric R).
Notation gen := (Gen.gen is_upper is_alnum is_numeric R).
Notation mono_ty := (mono_ty R).

(* the declarations ts-rs writes for the environment *)
Definition env_of : denv :=
  flat_map (fun p => match decl_of gf (snd p) with Ok dc => [(d_name dc, dc)] | _ => [] end) R.

Definition is_ok {A} (o : outcome A) : bool := match o with Ok _ => true | _ => false end.

(* every definition is plain, gets a declaration, and declaration names are distinct *)
Definition plain_envb : bool :=
  forallb (fun p => plain_defb R (snd p) && is_ok (decl_of gf (snd p))) R &&
  nodupb (map (fun p => ts_ident (snd p)) R) && src_env R.

Hypothesis Henv : plain_envb = true.

Lemma lookup_in id d (R' : env) : lookup R' id = Some d -> In (id, d) R'.
Proof.
  induction R' as [|[k x] r IH]; cbn [lookup]; intros H; [discriminate|].
  destruct (str_eqb k id) eqn:Hk; [apply str_eqb_true in Hk; inversion H; subst; left; reflexivity | right; apply IH; exact H].
Qed.

Lemma plain_decl d dc : decl_of gf d = Ok dc ->
  exists r, gen gf d (dummies (attrs_of d)) = Ok r /\ d_name dc = ts_ident d /\
            map fst (d_params dc) = map fst (c_params (attrs_of d)) /\ d_body dc = fst r.
Proof.
  intros H. unfold Gen.decl_of in H. apply bind_ok in H as (r & Hr & H). apply bind_ok in H as (ps & Hps & H). inversion H; subst; clear H.
  exists r. cbn [d_name d_params d_body]. repeat split; [exact Hr|].
  apply omap_list_ok in Hps. induction Hps as [|x y xs ys Hxy _ IH]; [reflexivity|]. cbn [map]. f_equal; [|exact IH].
  destruct (snd x); [apply bind_ok in Hxy as (z & _ & Hy); inversion Hy; reflexivity | inversion Hxy; reflexivity].
Qed.

Lemma dlookup_env_of : forall (R' : env),
  (forall p, In p R' -> is_ok (decl_of gf (snd p)) = true) ->
  NoDup (map (fun p => ts_ident (snd p)) R') ->
  forall id d, In (id, d) R' ->
  exists dc, dlookup (flat_map (fun p => match decl_of gf (snd p) with Ok dc => [(d_name dc, dc)] | _ => [] end) R') (ts_ident d) = Some dc
             /\ decl_of gf d = Ok dc.
Proof.
  induction R' as [|[k x] r IH]; intros Hall Hnd id d Hin; [destruct Hin|].
  cbn [flat_map snd]. pose proof (Hall (k, x) (or_introl eq_refl)) as Hokx. cbn [snd] in *.
  destruct (decl_of gf x) as [dcx| |] eqn:Hx; try discriminate.
  destruct (plain_decl x dcx Hx) as (rx & _ & Hname & _ & _).
  cbn [app dlookup]. rewrite Hname. inversion Hnd as [|? ? Hnotin Hnd']; subst.
  destruct Hin as [Heq|Hin].
  - inversion Heq; subst. rewrite str_eqb_refl'. exists dcx. split; [reflexivity | exact Hx].
  - destruct (str_eqb (ts_ident x) (ts_ident d)) eqn:Heqb.
    + apply str_eqb_true in Heqb. exfalso. apply Hnotin. rewrite Heqb.
      change (ts_ident d) with ((fun p : str * typedef => ts_ident (snd p)) (id, d)). apply in_map. exact Hin.
    + apply (IH (fun p Hp => Hall p (or_intror Hp)) Hnd' id d Hin).
Qed.

Notation ev := (ev_mem env_of).

Lemma env_facts :
  (forall id d, lookup R id = Some d -> plain_def R (nparams d) d /\ NoDup (map fst (c_params (attrs_of d))) /\
     exists dc, dlookup env_of (ts_ident d) = Some dc /\ decl_of gf d = Ok dc).
Proof.
  unfold plain_envb in Henv. apply andb_true_iff in Henv as [Henv0 _]. apply andb_true_iff in Henv0 as [Hall Hnd].
  rewrite forallb_forall in Hall. apply nodupb_NoDup in Hnd.
  intros id d Hlk. pose proof (lookup_in _ _ _ Hlk) as Hin. specialize (Hall _ Hin) as Hd. cbn [snd] in Hd.
  apply andb_true_iff in Hd as [Hp _]. destruct (plain_defb_ok R d Hp) as [Hpd Hnp]. split; [exact Hpd|]. split; [exact Hnp|].
  refine (dlookup_env_of R _ Hnd id d Hin).
  intros p Hp'. specialize (Hall p Hp'). apply andb_true_iff in Hall as [_ H2]. exact H2.
Qed.

Lemma env_src : env_ok R.
Proof. apply src_env_ok. unfold plain_envb in Henv. apply andb_true_iff in Henv as [_ H]. exact H. Qed.

Lemma dummies_eq a : dummies a = map RDummy (map fst (c_params a)).
Proof. unfold dummies. rewrite map_map. reflexivity. Qed.

(* every definition at every closed instantiation, at every generator fuel: what serde writes inhabits (A) the body
   of the declaration instantiated at the names of the arguments, (B) the body generated at the arguments (inline()) *)
Lemma def_layer : forall m,
  (forall g d id args v j r l ps, lookup R id = Some d -> length args = nparams d -> forallb mono_ty args = true ->
     sdef is_upper R m d args v = Some j -> gen g d (dummies (attrs_of d)) = Ok r -> omap_list (name_of R) args = Ok l ->
     map fst ps = map fst (c_params (attrs_of d)) ->
     ev (tsubst (bind_params ps l) (bind_params ps l) (fst r)) j) /\
  (forall g d id args v j r, lookup R id = Some d -> length args = nparams d -> forallb mono_ty args = true ->
     sdef is_upper R m d args v = Some j -> gen g d args = Ok r -> ev (fst r) j) /\
  (* (C) a struct with named fields, no tag of its own and no flattened field is written as one exact object over its field keys *)
  (forall g id args v j r l ps a f0 fs, lookup R id = Some (DStruct a (SNamed (f0 :: fs))) -> c_tag a = None ->
     Forall (fun f => f_flatten f = false) (f0 :: fs) ->
     length args = length (c_params a) -> forallb mono_ty args = true ->
     sdef is_upper R m (DStruct a (SNamed (f0 :: fs))) args v = Some j -> gen g (DStruct a (SNamed (f0 :: fs))) (dummies a) = Ok r ->
     omap_list (name_of R) args = Ok l -> map fst ps = map fst (c_params a) ->
     exists es, j = JObj es /\
       ev_alt env_of (tsubst (bind_params ps l) (bind_params ps l) (fst r)) (map (Gen.field_key (c_rename_all a)) (live (f0 :: fs))) es) /\
  (* (D) ... and so is its flattened form, generated at the arguments *)
  (forall g id args v j r a f0 fs, lookup R id = Some (DStruct a (SNamed (f0 :: fs))) -> c_tag a = None ->
     Forall (fun f => f_flatten f = false) (f0 :: fs) ->
     length args = length (c_params a) -> forallb mono_ty args = true ->
     sdef is_upper R m (DStruct a (SNamed (f0 :: fs))) args v = Some j -> gen g (DStruct a (SNamed (f0 :: fs))) args = Ok r ->
     exists es, j = JObj es /\ snd r = Some (fst r) /\
       ev_alt env_of (fst r) (map (Gen.field_key (c_rename_all a)) (live (f0 :: fs))) es /\ ev (fst r) (JObj es) /\ NoDup (map fst es)).
Proof.
  induction m as [|m (IHA & IHB & IHC & IHD)]; [repeat split; intros; cbn in *; discriminate|].
  (* references to definitions: through the declaration of the environment *)
  assert (Href : forall id2 d2 args2 l2 v2 j2, lookup R id2 = Some d2 -> length args2 = length (c_params (attrs_of d2)) ->
            forallb mono_ty args2 = true -> sdef is_upper R m d2 args2 v2 = Some j2 -> omap_list (name_of R) args2 = Ok l2 ->
            ev (TRef (ts_ident d2) l2) j2).
  { intros id2 d2 args2 l2 v2 j2 Hlk2 Hlen2 Hm2 Hs2 Hl2. destruct (env_facts _ _ Hlk2) as (_ & _ & dc & Hdl & Hdc).
    destruct (plain_decl d2 dc Hdc) as (r2 & Hr2 & _ & Hps & Hbody).
    eapply ev_ref_args; [exact Hdl|]. rewrite Hbody. eapply IHA; eassumption. }
  assert (Hinl : forall g' t0 v0 j0 a0, mono_ty t0 = true -> ser_ty R (sdef is_upper R m) t0 v0 = Some j0 ->
            lib_inline R (gen g') t0 = Ok a0 -> ev a0 j0).
  { intros g' t0 v0 j0 a0 Hm0 Hs0 Ha0. eapply lib_inline_ev; [|exact Hm0 | exact Hs0 | exact Ha0].
    intros id2 d2 args2 v2 j2 r2 Hlk2 Hlen2 Hm2 Hs2 Hr2. eapply IHB; eassumption. }
  assert (Hopt : forall u v0 j0, ser_ty R (sdef is_upper R m) (ROption u) v0 = Some j0 ->
            (v0 = VNone /\ j0 = JNull) \/ exists w, v0 = VSome w /\ ser_ty R (sdef is_upper R m) u w = Some j0).
  { intros u v0 j0 H0. cbn [Serde.ser_ty] in H0. destruct v0; try discriminate; [left; inversion H0; split; reflexivity | right; eexists; split; [reflexivity | exact H0]]. }
  (* a reference to a struct that may be the content of an internally tagged newtype variant *)
  assert (Href_alt : forall tg t0 v0 l0 a0, struct_content R tg t0 -> mono_ty t0 = true ->
            ser_ty R (sdef is_upper R m) t0 v0 = Some (JObj l0) -> name_of R t0 = Ok a0 ->
            exists ks, ev_alt env_of a0 ks l0 /\ ~ In tg ks).
  { intros tg t0 v0 l0 a0 Hct Hm0 Hs0 Ha0. destruct t0 as [| | | | | | | | |id2 args2| |]; try contradiction.
    cbn [struct_content] in Hct. unfold Sem_derive_proofs.mono_ty in Hm0. cbn [pmono] in Hm0. cbn [Serde.ser_ty] in Hs0. cbn [Gen.name_of] in Ha0.
    destruct (lookup R id2) as [d2|] eqn:Hlk2; [|contradiction].
    destruct d2 as [a2 s2|]; [|contradiction]. destruct s2 as [| |fs2]; try contradiction. destruct fs2 as [|f0 fs2]; [contradiction|].
    destruct Hct as (Htag2 & Hnin & Hnofl). apply andb_true_iff in Hm0 as [Hlen2 Hargs2]. apply Nat.eqb_eq in Hlen2.
    apply bind_ok in Ha0 as (l2 & Hl2 & Ha0). inversion Ha0; subst a0; clear Ha0.
    destruct (env_facts _ _ Hlk2) as (_ & _ & dc & Hdl & Hdc).
    destruct (plain_decl _ dc Hdc) as (r2 & Hr2 & _ & Hps2 & Hbody).
    destruct (IHC gf id2 args2 v0 (JObj l0) r2 l2 (d_params dc) a2 f0 fs2 Hlk2 Htag2 Hnofl Hlen2 Hargs2 Hs0 Hr2 Hl2 Hps2) as (es & Hes & Halt0).
    inversion Hes; subst es. exists (map (Gen.field_key (c_rename_all a2)) (live (f0 :: fs2))). split; [|exact Hnin].
    eapply ev_alt_ref; [exact Hdl|]. rewrite Hbody. exact Halt0. }
  assert (Hsc_subst : forall tg t0 args0, struct_content R tg t0 -> struct_content R tg (rsubst args0 t0)).
  { intros tg t0 args0 H0. destruct t0; try contradiction. exact H0. }
  (* a struct flattened into a definition without parameters *)
  assert (Hfl_closed : forall g' t0 v0 l0 a0, flat_struct R t0 -> mono_ty t0 = true ->
            ser_ty R (sdef is_upper R m) t0 v0 = Some (JObj l0) -> lib_flat R (gen g') t0 = Ok a0 ->
            ev_alt env_of a0 (flat_keys R t0) l0 /\ ev a0 (JObj l0) /\ NoDup (map fst l0)).
  { intros g' t0 v0 l0 a0 Hct Hm0 Hs0 Ha0. destruct t0 as [| | | | | | | | |id2 args2| |]; try contradiction.
    cbn [flat_struct flat_keys] in Hct |- *. unfold Sem_derive_proofs.mono_ty in Hm0. cbn [pmono] in Hm0. cbn [Serde.ser_ty] in Hs0. cbn [Gen.lib_flat] in Ha0.
    destruct (lookup R id2) as [d2|] eqn:Hlk2; [|contradiction].
    destruct d2 as [a2 s2|]; [|contradiction]. destruct s2 as [| |fs2]; try contradiction. destruct fs2 as [|f0 fs2]; [contradiction|].
    destruct Hct as (Htag2 & Hnofl). apply andb_true_iff in Hm0 as [Hlen2 Hargs2]. apply Nat.eqb_eq in Hlen2.
    apply bind_ok in Ha0 as (r2 & Hr2 & Ha0).
    destruct (IHD g' id2 args2 v0 (JObj l0) r2 a2 f0 fs2 Hlk2 Htag2 Hnofl Hlen2 Hargs2 Hs0 Hr2) as (es & Hes & Hsnd & Hal & Hev & Hnd).
    inversion Hes; subst es. rewrite Hsnd in Ha0. inversion Ha0; subst a0. repeat split; assumption. }
  assert (Hrs0 : forall t0, pmono R 0 t0 = true -> rsubst [] t0 = t0).
  { intros t0 H0. apply rsubst_nil. apply (pmono_src R 0). exact H0. }
  split; [|split; [|split]].
  - intros g d id args v j r l ps Hlk Hlen Hargs Hs Hr Hl Hps.
    destruct (env_facts _ _ Hlk) as (Hpd & Hnp & _).
    destruct g as [|g']; [cbn in Hr; discriminate|]. cbn [Gen.gen] in Hr. cbn [sdef] in Hs.
    eapply (def_member is_upper is_alnum is_numeric R env_of (ser_ty R (sdef is_upper R m)) (lib_inline R (gen g')) (lib_flat R (gen g'))
              (nparams d) args (dummies (attrs_of d)) (bind_params ps l) (bind_params ps l)); [|exact Hopt| | |exact Hpd | exact Hs | exact Hr].
    + intros b t0 v0 j0 a0 Hpm Hin0 Hs0 Ha0. unfold evs. unfold tytext in Ha0.
      assert (Hmono : mono_ty (rsubst args t0) = true).
      { apply (pmono_subst R (nparams d) args); [apply Forall_forall; rewrite forallb_forall in Hargs; exact Hargs | exact Hlen | exact Hpm]. }
      destruct b.
      * (* inline: the type of the field is closed, so is its text *)
        specialize (Hin0 eq_refl). pose proof (pmono_src R 0 _ Hin0) as Hsrc0.
        rewrite (rsubst_closed (dummies (attrs_of d)) _ Hsrc0) in Ha0. rewrite (rsubst_closed args _ Hsrc0) in Hs0, Hmono.
        assert (Hftv : ftv a0 = []).
        { pose proof (lib_inline_scoped R _ (gen_scoped is_upper is_alnum is_numeric R env_src g') _ _ Ha0) as Hi.
          rewrite (rdummies_closed _ Hsrc0) in Hi. destruct (ftv a0) as [|x l0]; [reflexivity|]. exfalso. exact (Hi x (or_introl eq_refl)). }
        rewrite (tsubst_closed _ _ _ Hftv). eapply Hinl; [exact Hmono | exact Hs0 | exact Ha0].
      * rewrite dummies_eq in Ha0.
        eapply lib_ev; [exact Href | exact Hmono | exact Hs0|].
        exact (name_of_tsubst R (nparams d) (map fst (c_params (attrs_of d))) args l ps Hnp Hps (map_length _ _) Hl Hlen t0 a0 Hpm Ha0).
    + intros tg t0 v0 l0 a0 Hct Hpm Hs0 Ha0. rewrite dummies_eq in Ha0.
      assert (Hmono : mono_ty (rsubst args t0) = true).
      { apply (pmono_subst R (nparams d) args); [apply Forall_forall; rewrite forallb_forall in Hargs; exact Hargs | exact Hlen | exact Hpm]. }
      eapply (Href_alt tg (rsubst args t0) v0 l0); [apply Hsc_subst; exact Hct | exact Hmono | exact Hs0|].
      exact (name_of_tsubst R (nparams d) (map fst (c_params (attrs_of d))) args l ps Hnp Hps (map_length _ _) Hl Hlen t0 a0 Hpm Ha0).
    + (* flattened structs: the flattened type is closed, so is its text *)
      intros t0 v0 l0 a0 Hct Hpm Hn0 Hs0 Ha0. pose proof (pmono_src R 0 _ Hn0) as Hsrc0.
      rewrite (rsubst_closed (dummies (attrs_of d)) _ Hsrc0) in Ha0. rewrite (rsubst_closed args _ Hsrc0) in Hs0.
      assert (Hftv : ftv a0 = []).
      { pose proof (lib_flat_scoped R _ (gen_scoped is_upper is_alnum is_numeric R env_src g') _ _ Ha0) as Hi.
        rewrite (rdummies_closed _ Hsrc0) in Hi. destruct (ftv a0) as [|x l1]; [reflexivity|]. exfalso. exact (Hi x (or_introl eq_refl)). }
      unfold evs. rewrite (tsubst_closed _ _ _ Hftv). eapply Hfl_closed; [exact Hct | exact Hn0 | exact Hs0 | exact Ha0].
  - intros g d id args v j r Hlk Hlen Hargs Hs Hr.
    destruct (env_facts _ _ Hlk) as (Hpd & Hnp & _).
    destruct g as [|g']; [cbn in Hr; discriminate|]. cbn [Gen.gen] in Hr. cbn [sdef] in Hs.
    rewrite <- (tsubst_none (fst r)).
    eapply (def_member is_upper is_alnum is_numeric R env_of (ser_ty R (sdef is_upper R m)) (lib_inline R (gen g')) (lib_flat R (gen g'))
              (nparams d) args args (fun _ => None) (fun _ => None)); [|exact Hopt| | |exact Hpd | exact Hs | exact Hr].
    + intros b t0 v0 j0 a0 Hpm Hin0 Hs0 Ha0. unfold evs. rewrite tsubst_none. unfold tytext in Ha0.
      assert (Hmono : mono_ty (rsubst args t0) = true).
      { apply (pmono_subst R (nparams d) args); [apply Forall_forall; rewrite forallb_forall in Hargs; exact Hargs | exact Hlen | exact Hpm]. }
      destruct b; [eapply Hinl | eapply lib_ev; [exact Href|..]]; eassumption.
    + intros tg t0 v0 l0 a0 Hct Hpm Hs0 Ha0. rewrite tsubst_none.
      assert (Hmono : mono_ty (rsubst args t0) = true).
      { apply (pmono_subst R (nparams d) args); [apply Forall_forall; rewrite forallb_forall in Hargs; exact Hargs | exact Hlen | exact Hpm]. }
      eapply (Href_alt tg (rsubst args t0) v0 l0); [apply Hsc_subst; exact Hct | exact Hmono | exact Hs0 | exact Ha0].
    + intros t0 v0 l0 a0 Hct Hpm Hn0 Hs0 Ha0. pose proof (pmono_src R 0 _ Hn0) as Hsrc0.
      rewrite tsubst_none. unfold evs. rewrite tsubst_none. rewrite (rsubst_closed args _ Hsrc0) in Hs0, Ha0.
      eapply Hfl_closed; [exact Hct | exact Hn0 | exact Hs0 | exact Ha0].
  - intros g id args v j r l ps a f0 fs Hlk Htag Hnofl Hlen Hargs Hs Hr Hl Hps.
    destruct (env_facts _ _ Hlk) as (Hpd & Hnp & _). cbn [attrs_of] in *.
    destruct g as [|g']; [cbn in Hr; discriminate|]. cbn [Gen.gen] in Hr. cbn [sdef] in Hs.
    destruct (struct_alt is_upper is_alnum is_numeric R env_of (ser_ty R (sdef is_upper R m)) (lib_inline R (gen g')) (lib_flat R (gen g'))
              (length (c_params a)) args (dummies a) (bind_params ps l) (bind_params ps l)) with (a := a) (f0 := f0) (fs := fs) (v := v) (j := j) (r := r)
      as (es & Hes & Hal & _); [|exact Hopt| |exact Hpd | exact Htag | exact Hnofl | exact Hs | exact Hr | exists es; split; [exact Hes | exact Hal]].
    + intros b t0 v0 j0 a0 Hpm Hin0 Hs0 Ha0. unfold evs. unfold tytext in Ha0.
      assert (Hmono : mono_ty (rsubst args t0) = true).
      { apply (pmono_subst R (length (c_params a)) args); [apply Forall_forall; rewrite forallb_forall in Hargs; exact Hargs | exact Hlen | exact Hpm]. }
      destruct b.
      * specialize (Hin0 eq_refl). pose proof (pmono_src R 0 _ Hin0) as Hsrc0.
        rewrite (rsubst_closed (dummies a) _ Hsrc0) in Ha0. rewrite (rsubst_closed args _ Hsrc0) in Hs0, Hmono.
        assert (Hftv : ftv a0 = []).
        { pose proof (lib_inline_scoped R _ (gen_scoped is_upper is_alnum is_numeric R env_src g') _ _ Ha0) as Hi.
          rewrite (rdummies_closed _ Hsrc0) in Hi. destruct (ftv a0) as [|x l0]; [reflexivity|]. exfalso. exact (Hi x (or_introl eq_refl)). }
        rewrite (tsubst_closed _ _ _ Hftv). eapply Hinl; [exact Hmono | exact Hs0 | exact Ha0].
      * change (dummies a) with (dummies (attrs_of (DStruct a (SNamed (f0 :: fs))))) in Ha0. rewrite dummies_eq in Ha0. cbn [attrs_of] in Ha0.
        eapply lib_ev; [exact Href | exact Hmono | exact Hs0|].
        exact (name_of_tsubst R (length (c_params a)) (map fst (c_params a)) args l ps Hnp Hps (map_length _ _) Hl Hlen t0 a0 Hpm Ha0).
    + (* no flattened field: never asked *)
      intros t0 v0 l0 a0 Hct Hpm Hn0 Hs0 Ha0. pose proof (pmono_src R 0 _ Hn0) as Hsrc0.
      rewrite (rsubst_closed (dummies a) _ Hsrc0) in Ha0. rewrite (rsubst_closed args _ Hsrc0) in Hs0.
      assert (Hftv : ftv a0 = []).
      { pose proof (lib_flat_scoped R _ (gen_scoped is_upper is_alnum is_numeric R env_src g') _ _ Ha0) as Hi.
        rewrite (rdummies_closed _ Hsrc0) in Hi. destruct (ftv a0) as [|x l1]; [reflexivity|]. exfalso. exact (Hi x (or_introl eq_refl)). }
      unfold evs. rewrite (tsubst_closed _ _ _ Hftv). eapply Hfl_closed; [exact Hct | exact Hn0 | exact Hs0 | exact Ha0].
  - intros g id args v j r a f0 fs Hlk Htag Hnofl Hlen Hargs Hs Hr.
    destruct (env_facts _ _ Hlk) as (Hpd & Hnp & _). cbn [attrs_of] in *.
    destruct g as [|g']; [cbn in Hr; discriminate|]. cbn [Gen.gen] in Hr. cbn [sdef] in Hs.
    destruct (struct_alt is_upper is_alnum is_numeric R env_of (ser_ty R (sdef is_upper R m)) (lib_inline R (gen g')) (lib_flat R (gen g'))
              (length (c_params a)) args args (fun _ => None) (fun _ => None)) with (a := a) (f0 := f0) (fs := fs) (v := v) (j := j) (r := r)
      as (es & Hes & Hal & Hsnd & Hev & Hnd); [|exact Hopt| |exact Hpd | exact Htag | exact Hnofl | exact Hs | exact Hr|].
    + intros b t0 v0 j0 a0 Hpm Hin0 Hs0 Ha0. unfold evs. rewrite tsubst_none. unfold tytext in Ha0.
      assert (Hmono : mono_ty (rsubst args t0) = true).
      { apply (pmono_subst R (length (c_params a)) args); [apply Forall_forall; rewrite forallb_forall in Hargs; exact Hargs | exact Hlen | exact Hpm]. }
      destruct b; [eapply Hinl | eapply lib_ev; [exact Href|..]]; eassumption.
    + intros t0 v0 l0 a0 Hct Hpm Hn0 Hs0 Ha0. pose proof (pmono_src R 0 _ Hn0) as Hsrc0.
      rewrite tsubst_none. unfold evs. rewrite tsubst_none. rewrite (rsubst_closed args _ Hsrc0) in Hs0, Ha0.
      eapply Hfl_closed; [exact Hct | exact Hn0 | exact Hs0 | exact Ha0].
    + exists es. rewrite tsubst_none in Hal. unfold evs in Hev. rewrite tsubst_none in Hev. repeat split; assumption.
Qed.

Theorem derive_layer_member : forall m t v j a,
  mono_ty t = true -> ser is_upper R m t v = Some j -> name_of R t = Ok a -> ev a j.
Proof.
  intros m t v j a Hm Hs Ha. unfold ser in Hs. eapply lib_ev; [|exact Hm | exact Hs | exact Ha].
  intros id d args l v' j' Hlk Hlen Hargs Hs' Hl. destruct (env_facts _ _ Hlk) as (_ & _ & dc & Hdl & Hdc).
  destruct (plain_decl d dc Hdc) as (r & Hr & _ & Hps & Hbody).
  eapply ev_ref_args; [exact Hdl|]. rewrite Hbody. eapply (proj1 (def_layer m)); eassumption.
Qed.

(* the same for the inline form of the type *)
Theorem derive_layer_member_inline : forall m g t v j a,
  mono_ty t = true -> ser is_upper R m t v = Some j -> lib_inline R (gen g) t = Ok a -> ev a j.
Proof.
  intros m g t v j a Hm Hs Ha. unfold ser in Hs.
  eapply lib_inline_ev; [|exact Hm | exact Hs | exact Ha].
  intros id d args v' j' r Hlk Hlen Hargs Hs' Hr. eapply (proj2 (def_layer m)); eassumption.
Qed.
End Knot.
