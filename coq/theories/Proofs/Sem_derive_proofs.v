(* C01, derive layer: for environments of non-generic definitions in the plain fragment (every
   shape; rename / rename_all / rename_all_fields / skip; all four enum representations; references
   to other definitions and library containers at any depth; recursive types), every value: what
   serde_json emits is a member of the declared TypeScript type.  Layer lemma for one definition
   (parametrised by what holds of its field types), then induction on serde's recursion depth. *)
From TsRs Require Import Base.Str Base.Outcome Gen.Tables Model.Case Model.TsAst Model.Rust Model.Docs Model.Gen
  Spec.TsFree Spec.TsSem Spec.Serde Spec.RtyInd Proofs.Gen_base_proofs Proofs.Sem_base_proofs Proofs.Sem_lib_proofs Model.Path Model.Merge Model.GenExport.
From Coq Require Import List Lia Bool ZArith.
Import ListNotations.
Local Open Scope nat_scope.

(* closed types of non-generic environments: no parameters, references without arguments, map keys
   that serde_json can write *)
Definition key_leaf (t : rty) : bool :=
  match t with RLeaf LString | RLeaf LChar | RLeaf (LInt _ _ _) => true | _ => false end.

Fixpoint mono_ty (t : rty) : bool :=
  match t with
  | RLeaf _ => true
  | ROption u | RVec u | RArray _ u | RWrap u | RRange u => mono_ty u
  | RTuple ts => forallb mono_ty ts
  | RMap k v => key_leaf k && mono_ty v
  | RResult a b => mono_ty a && mono_ty b
  | RNamed _ args => match args with [] => true | _ => false end
  | RParam _ | RDummy _ => false
  end.

Lemma mono_src : forall t, mono_ty t = true -> src_ty 0 t = true.
Proof.
  induction t as [l|t IH|t IH|n t IH|ts IH|k v IHk IHv|t IH|t e IHt IHe|t IH|id args IH|i|n] using rty_ind';
    cbn [mono_ty src_ty]; intros H; auto; try discriminate.
  - rewrite forallb_forall in *. rewrite Forall_forall in IH. intros x Hx. auto.
  - apply andb_true_iff in H as [H1 H2]. rewrite (IHv H2). destruct k; try discriminate. reflexivity.
  - apply andb_true_iff in H as [H1 H2]. rewrite (IHt H1), (IHe H2). reflexivity.
  - destruct args; [reflexivity | discriminate].
Qed.

(* a field with rename, skip and inline only *)
Definition plain_field (f : field) : Prop :=
  f_flatten f = false /\ f_optional f = NotOptional /\ f_type f = None /\
  f_skip_none f = false /\ f_serde_ty f = f_ty f /\ mono_ty (f_ty f) = true.

Lemma rsubst_nil : forall t, src_ty 0 t = true -> rsubst [] t = t.
Proof.
  induction t as [l|t IH|t IH|n t IH|ts IH|k v IHk IHv|t IH|t e IHt IHe|t IH|id args IH|i|n] using rty_ind';
    cbn [src_ty rsubst]; intros H.
  - reflexivity.
  - f_equal; auto.
  - f_equal; auto.
  - f_equal; auto.
  - f_equal. apply map_id_forall. rewrite Forall_forall in *. intros x Hx. apply IH; [exact Hx|]. rewrite forallb_forall in H. auto.
  - apply andb_true_iff in H as [H1 H2]. f_equal; auto.
  - f_equal; auto.
  - apply andb_true_iff in H as [H1 H2]. f_equal; auto.
  - f_equal; auto.
  - f_equal. apply map_id_forall. rewrite Forall_forall in *. intros x Hx. apply IH; [exact Hx|]. rewrite forallb_forall in H. auto.
  - discriminate.
  - discriminate.
Qed.

Section Layer.
Variable is_upper is_alnum is_numeric : char -> bool.
Variable R : env.
Variable E : denv.
Variable st : rty -> value -> option json.
Variable inl flt : rty -> outcome tsty.

Notation ev := (ev_mem E).

(* what is known of the field types: their serialisations inhabit their names *)
Hypothesis Hst : forall t v j a, mono_ty t = true -> st t v = Some j -> name_of R t = Ok a -> ev a j.
Hypothesis Hinl : forall t v j a, mono_ty t = true -> st t v = Some j -> inl t = Ok a -> ev a j.

(* the type text of a field: inline() or name() *)
Definition fty (f : field) : outcome tsty := if f_inline f then inl (f_ty f) else name_of R (f_ty f).
Lemma Hfld f v j a : mono_ty (f_ty f) = true -> st (f_ty f) v = Some j -> fty f = Ok a -> ev a j.
Proof. unfold fty. destruct (f_inline f); intros Hm Hs Ha; [eapply Hinl | eapply Hst]; eassumption. Qed.

Lemma is_flat_plain f : plain_field f -> is_flat f = false.
Proof. intros (Hf & _). unfold is_flat. rewrite Hf. reflexivity. Qed.

Lemma filter_all {A} (p : A -> bool) l : (forall x, In x l -> p x = true) -> filter p l = l.
Proof.
  induction l as [|x l IH]; cbn; intros H; [reflexivity|]. rewrite (H x (or_introl eq_refl)). f_equal. apply IH. intros; apply H; right; assumption.
Qed.

(* the entries of a named-field list against its generated properties *)
Lemma named_fields_rel ra : forall fs vs entries props,
  Forall plain_field fs ->
  named_entries st [] ra fs vs = Some entries ->
  omap_list (prop_of is_alnum is_numeric R inl [] ra NotOptional) (live fs) = Ok props ->
  (forall k j, In (k, j) entries -> exists p t, In (p, t) props /\ p_key p = k /\ ev t j) /\
  (forall p t, In (p, t) props -> p_optional p = false /\ exists j, In (p_key p, j) entries) /\
  map (fun p => p_key (fst p)) props = map (Gen.field_key ra) (live fs).
Proof.
  induction fs as [|f fs IH]; intros vs entries props Hpl He Hp.
  - destruct vs; [|discriminate]. cbn in He, Hp. inversion He; inversion Hp; subst. repeat split; intros; try contradiction; reflexivity.
  - inversion Hpl as [|? ? Hf Hfs]; subst. destruct vs as [|v vs]; [discriminate|]. cbn [named_entries] in He.
    destruct (named_entries st [] ra fs vs) as [rest|] eqn:Hrest; [|discriminate].
    destruct Hf as (Hfl & Hopt & Hty & Hsn & Hsty & Hmono). pose proof (mono_src _ Hmono) as Hsrc.
    unfold live in *. cbn [filter] in Hp |- *. destruct (f_skip f) eqn:Hskip; cbn [negb] in Hp |- *.
    + inversion He; subst. eapply IH; eassumption.
    + rewrite Hsn in He. cbn [andb] in He. rewrite Hsty, (rsubst_nil _ Hsrc), Hfl in He.
      destruct (st (f_ty f) v) as [j|] eqn:Hj; [|discriminate]. inversion He; subst; clear He.
      cbn [omap_list] in Hp. unfold prop_of at 1 in Hp. rewrite Hty in Hp.
      unfold field_ty, field_optional in Hp. rewrite Hopt in Hp. cbn [fst snd] in Hp. rewrite (rsubst_nil _ Hsrc) in Hp.
      change (if f_inline f then inl (f_ty f) else name_of R (f_ty f)) with (fty f) in Hp.
      destruct (fty f) as [a|?|?] eqn:Ha; cbn [bind] in Hp; try discriminate.
      destruct (omap_list (prop_of is_alnum is_numeric R inl [] ra NotOptional) (filter (fun fl => negb (f_skip fl)) fs)) as [ps|?|?] eqn:Hps; try discriminate.
      inversion Hp; subst; clear Hp.
      destruct (IH vs rest ps Hfs Hrest eq_refl) as (A & B & C).
      repeat split.
      * intros k j' [Heq|Hin'].
        -- inversion Heq; subst. eexists; eexists. split; [left; reflexivity|]. split; [reflexivity|].
           eapply Hfld; [exact Hmono | eassumption | exact Ha].
        -- destruct (A k j' Hin') as (p & t & Hp' & Hk & Hm). exists p, t. split; [right; exact Hp'|]. split; assumption.
      * destruct H as [Heq|Hin']; [inversion Heq; reflexivity | apply (B p t Hin')].
      * destruct H as [Heq|Hin'].
        -- inversion Heq; subst. exists j. left. reflexivity.
        -- destruct (B p t Hin') as [_ [j' Hj']]. exists j'. right. exact Hj'.
      * cbn [map fst p_key]. f_equal. exact C.
Qed.

(* tuple items against the generated element types *)
Lemma tuple_items_rel : forall fs vs items tys,
  Forall plain_field fs ->
  tuple_items st [] fs vs = Some items ->
  omap_list (value_ty R inl []) (live fs) = Ok tys ->
  Forall2 ev tys items.
Proof.
  unfold tuple_items.
  induction fs as [|f fs IH]; intros vs items tys Hpl He Hp.
  - destruct vs; [|discriminate]. cbn in He, Hp. inversion He; inversion Hp; subst. constructor.
  - inversion Hpl as [|? ? Hf Hfs]; subst. destruct vs as [|v vs]; [discriminate|]. cbn [opt_map2] in He.
    destruct Hf as (Hfl & Hopt & Hty & Hsn & Hsty & Hmono). pose proof (mono_src _ Hmono) as Hsrc.
    unfold live in *. cbn [filter] in Hp. destruct (f_skip f) eqn:Hskip; cbn [negb] in Hp.
    + destruct (opt_map2 _ fs vs) as [rest|] eqn:Hrest; [|discriminate]. cbn in He. inversion He; subst.
      eapply IH; [exact Hfs| |exact Hp]. rewrite Hrest. reflexivity.
    + rewrite Hsty, (rsubst_nil _ Hsrc) in He. destruct (st (f_ty f) v) as [j|] eqn:Hj; [|discriminate]. cbn [option_map] in He.
      destruct (opt_map2 _ fs vs) as [rest|] eqn:Hrest; [|discriminate]. cbn in He. inversion He; subst; clear He.
      cbn [omap_list] in Hp. unfold value_ty at 1 in Hp. rewrite Hty, (rsubst_nil _ Hsrc) in Hp.
      change (if f_inline f then inl (f_ty f) else name_of R (f_ty f)) with (fty f) in Hp.
      destruct (fty f) as [a|?|?] eqn:Ha; cbn [bind] in Hp; try discriminate.
      destruct (omap_list (value_ty R inl []) (filter (fun fl => negb (f_skip fl)) fs)) as [ts|?|?] eqn:Hts; try discriminate.
      inversion Hp; subst. constructor; [eapply Hfld; [exact Hmono | eassumption | exact Ha]|].
      eapply IH; [exact Hfs| |reflexivity]. rewrite Hrest. reflexivity.
Qed.

Lemma filter_none {A} (p : A -> bool) l : (forall x, In x l -> p x = false) -> filter p l = [].
Proof.
  induction l as [|x l IH]; cbn; intros H; [reflexivity|]. rewrite (H x (or_introl eq_refl)). apply IH. intros; apply H; right; assumption.
Qed.

Lemma live_plain fs : Forall plain_field fs -> Forall plain_field (live fs).
Proof. intros H. unfold live. rewrite Forall_forall in *. intros x Hx. apply H. eapply filter_incl_in; exact Hx. Qed.

Lemma ev_neverarr : ev TNeverArr (JArr []).
Proof. exists 1. intros [|f] Hf; [lia | reflexivity]. Qed.
Lemma ev_recnever : ev TRecordNever (JObj []).
Proof. exists 1. intros [|f] Hf; [lia | reflexivity]. Qed.
Lemma ev_null : ev (TPrim (lit "null")) JNull.
Proof. apply ev_prim. reflexivity. Qed.

Definition plain_shape (s : shape) : Prop :=
  match s with
  | SUnit => True
  | STuple [f] => plain_field f /\ f_skip f = false        (* a skipped newtype field is a known class *)
  | STuple fs => Forall plain_field fs
  | SNamed fs => Forall plain_field fs
  end.

Definition keys_distinct (ra : option rule) (extra : list str) (s : shape) : Prop :=
  match s with
  | SNamed fs => NoDup (extra ++ map (Gen.field_key ra) (live fs))
  | _ => True
  end.

(* the named fields as an object, possibly with leading extra properties (a tag) *)
Lemma named_object ra fs vs entries props (xprops : list (phead * tsty)) (xentries : list (str * json)) :
  Forall plain_field fs ->
  named_entries st [] ra fs vs = Some entries ->
  omap_list (prop_of is_alnum is_numeric R inl [] ra NotOptional) (live fs) = Ok props ->
  NoDup (map (fun p => p_key (fst p)) xprops ++ map (Gen.field_key ra) (live fs)) ->
  Forall2 (fun p e => p_key (fst p) = fst e /\ p_optional (fst p) = false /\ ev (snd p) (snd e)) xprops xentries ->
  ev (TObj OStruct (xprops ++ props)) (JObj (xentries ++ entries)).
Proof.
  intros Hpl He Hp Hnd Hx. destruct (named_fields_rel ra fs vs entries props Hpl He Hp) as (A & B & C).
  apply ev_obj.
  - rewrite map_app, C. exact Hnd.
  - intros k j Hin. apply in_app_or in Hin as [Hin|Hin].
    + clear -Hx Hin. induction Hx as [|p e xp xe (Hk & Ho & Hm) _ IH]; [destruct Hin|].
      destruct Hin as [Heq|Hin]; [|destruct (IH Hin) as (p' & t' & Hp' & Hr); exists p', t'; split; [right; exact Hp'|exact Hr]].
      subst e. destruct p as [ph ty]. exists ph, ty. cbn in *. split; [left; reflexivity|]. split; assumption.
    + destruct (A k j Hin) as (p & t & Hp' & Hk & Hm). exists p, t. split; [apply in_or_app; right; exact Hp'|]. split; assumption.
  - intros p t Hin Hopt. apply in_app_or in Hin as [Hin|Hin].
    + clear -Hx Hin. induction Hx as [|p0 e xp xe (Hk & Ho & Hm) _ IH]; [destruct Hin|].
      destruct Hin as [Heq|Hin]; [|destruct (IH Hin) as [j Hj]; exists j; right; exact Hj].
      subst p0. cbn in Hk. exists (snd e). left. rewrite Hk. destruct e; reflexivity.
    + destruct (B p t Hin) as [_ [j Hj]]. exists j. apply in_or_app. right. exact Hj.
Qed.

Lemma shape_member ra s vs j r :
  plain_shape s -> keys_distinct ra [] s ->
  shape_ser st [] ra s vs = Some j ->
  shape_gen is_alnum is_numeric R inl flt [] ra NotOptional None s = Ok r ->
  ev (fst r) j.
Proof.
  intros Hpl Hkd Hs Hg. destruct s as [|fs|fs].
  - cbn in Hs, Hg. destruct vs; [|discriminate]. inversion Hs; inversion Hg; subst. apply ev_null.
  - destruct fs as [|f [|f2 fs]].
    + cbn in Hs, Hg. unfold tuple_items in Hs. destruct vs; [|discriminate]. cbn in Hs. inversion Hs; inversion Hg; subst. apply ev_neverarr.
    + destruct Hpl as [Hf Hsk]. cbn [shape_ser shape_gen] in Hs, Hg. rewrite Hsk in Hg.
      destruct vs as [|v [|? ?]]; try discriminate. destruct Hf as (Hfl & Hopt & Hty & Hsn & Hsty & Hmono). pose proof (mono_src _ Hmono) as Hsrc.
      rewrite Hsty, (rsubst_nil _ Hsrc) in Hs. unfold value_ty in Hg. rewrite Hty, (rsubst_nil _ Hsrc) in Hg.
      change (if f_inline f then inl (f_ty f) else name_of R (f_ty f)) with (fty f) in Hg.
      destruct (fty f) as [a|?|?] eqn:Ha; try discriminate. inversion Hg; subst. cbn [fst]. eapply Hfld; [exact Hmono | eassumption | exact Ha].
    + cbn [plain_shape] in Hpl. cbn [shape_ser shape_gen] in Hs, Hg.
      destruct (tuple_items st [] (f :: f2 :: fs) vs) as [items|] eqn:Hi; [|discriminate]. inversion Hs; subst.
      apply bind_ok in Hg as (tys & Htys & Hg). inversion Hg; subst. cbn [fst].
      apply ev_tuple. eapply tuple_items_rel; eassumption.
  - cbn [plain_shape keys_distinct app] in Hpl, Hkd. cbn [shape_ser] in Hs.
    destruct (named_entries st [] ra fs vs) as [entries|] eqn:He; [|discriminate]. inversion Hs; subst.
    destruct fs as [|f fs'].
    + cbn in Hg. inversion Hg; subst. destruct vs; [|discriminate]. cbn in He. inversion He; subst. apply ev_recnever.
    + cbn [shape_gen] in Hg.
      rewrite (filter_all (fun fl => negb (is_flat fl)) (live (f :: fs'))) in Hg
        by (intros x Hx; rewrite (is_flat_plain x); [reflexivity | pose proof (live_plain _ Hpl) as Hl; rewrite Forall_forall in Hl; auto]).
      rewrite (filter_none is_flat (live (f :: fs'))) in Hg
        by (intros x Hx; apply is_flat_plain; pose proof (live_plain _ Hpl) as Hl; rewrite Forall_forall in Hl; auto).
      apply bind_ok in Hg as (props & Hp & Hg). cbn [omap_list bind] in Hg.
      assert (Hr : r = (TMerged (TObj OStruct props), Some (TMerged (TObj OStruct props)))) by (destruct props; inversion Hg; reflexivity).
      subst r. cbn [fst]. apply ev_merged.
      apply (named_object ra (f :: fs') vs entries props [] [] Hpl He Hp); [exact Hkd | constructor].
Qed.

(* a named shape carrying a tag property (struct-level `tag`, struct variant of an internally tagged enum) *)
Lemma tagged_named_member ra fs vs entries t nm r :
  Forall plain_field fs -> NoDup (t :: map (Gen.field_key ra) (live fs)) ->
  named_entries st [] ra fs vs = Some entries ->
  shape_gen is_alnum is_numeric R inl flt [] ra NotOptional (Some (t, nm)) (SNamed fs) = Ok r ->
  ev (fst r) (JObj ((t, JStr nm) :: entries)) /\ exists x, snd r = Some x.
Proof.
  intros Hpl Hnd He Hg. cbn [shape_gen] in Hg.
  assert (Hg' : bind (omap_list (prop_of is_alnum is_numeric R inl [] ra NotOptional) (live fs)) (fun props =>
                  Ok (TMerged (TObj OStruct ((quoted_head t, TLit nm) :: props)), Some (TMerged (TObj OStruct ((quoted_head t, TLit nm) :: props))))) = Ok r).
  { destruct fs as [|f fs']; [cbn in Hg |- *; exact Hg|].
    rewrite (filter_all (fun fl => negb (is_flat fl)) (live (f :: fs'))) in Hg
      by (intros x Hx; rewrite (is_flat_plain x); [reflexivity | pose proof (live_plain _ Hpl) as Hl; rewrite Forall_forall in Hl; auto]).
    rewrite (filter_none is_flat (live (f :: fs'))) in Hg
      by (intros x Hx; apply is_flat_plain; pose proof (live_plain _ Hpl) as Hl; rewrite Forall_forall in Hl; auto).
    exact Hg. }
  clear Hg. apply bind_ok in Hg' as (props & Hp & Hg). inversion Hg; subst; clear Hg. cbn [fst snd].
  split; [|eauto]. apply ev_merged.
  apply (named_object ra fs vs entries props [(quoted_head t, TLit nm)] [(t, JStr nm)] Hpl He Hp).
  - cbn [map fst p_key quoted_head app]. exact Hnd.
  - constructor; [|constructor]. cbn. repeat split. apply ev_lit.
Qed.

Definition plain_variant (tg : tagging) (v : variant) : Prop :=
  v_type v = None /\ v_as v = None /\ v_untagged v = false /\ plain_shape (v_shape v) /\
  match tg with
  | Internal _ => match v_shape v with STuple _ => False | _ => True end   (* serde rejects tuple variants; newtype needs a map *)
  | _ => True
  end.

Definition variant_keys_distinct (tg : tagging) (ra : option rule) (s : shape) : Prop :=
  match tg with
  | Internal t => keys_distinct ra [t] s
  | Adjacent t c => t <> c /\ keys_distinct ra [] s
  | _ => keys_distinct ra [] s
  end.

Lemma ev_single k a j : ev a j -> ev (TObj OVariant [(quoted_head k, a)]) (JObj [(k, j)]).
Proof.
  intros H. apply ev_obj.
  - cbn. constructor; [intros []|constructor].
  - intros k' j' [Heq|[]]. inversion Heq. subst k' j'. exists (quoted_head k), a. repeat split; [left; reflexivity | exact H].
  - intros p t [Heq|[]] _. inversion Heq. subst p t. exists j. left. reflexivity.
Qed.

Lemma ev_pair k1 a1 j1 k2 a2 j2 : k1 <> k2 -> ev a1 j1 -> ev a2 j2 ->
  ev (TObj OVariant [(quoted_head k1, a1); (quoted_head k2, a2)]) (JObj [(k1, j1); (k2, j2)]).
Proof.
  intros Hne H1 H2. apply ev_obj.
  - cbn. constructor; [intros [Heq|[]]; apply Hne; symmetry; exact Heq|]. constructor; [intros []|constructor].
  - intros k' j' [Heq|[Heq|[]]]; inversion Heq; subst k' j'.
    + exists (quoted_head k1), a1. repeat split; [left; reflexivity | exact H1].
    + exists (quoted_head k2), a2. repeat split; [right; left; reflexivity | exact H2].
  - intros p t [Heq|[Heq|[]]] _; inversion Heq; subst p t; [exists j1; left; reflexivity | exists j2; right; left; reflexivity].
Qed.

Lemma variant_member a tg raf v vs j x :
  plain_variant tg v ->
  variant_keys_distinct tg (variant_rename_all raf v) (v_shape v) ->
  variant_ser is_upper st [] a tg raf v vs = Some j ->
  variant_gen is_upper is_alnum is_numeric R inl flt [] a tg raf v = Ok x ->
  ev x j.
Proof.
  intros (Hty & Has & Hun & Hsh & Htg) Hkd Hs Hg.
  unfold variant_ser in Hs. unfold variant_gen in Hg. rewrite Hun in Hs, Hg. rewrite Has, Hty in Hg.
  destruct (v_skip v); [discriminate|].
  change (Serde.variant_name is_upper (c_rename_all a) v) with (Gen.variant_name is_upper (c_rename_all a) v) in Hs.
  set (name := Gen.variant_name is_upper (c_rename_all a) v) in *.
  change (match v_rename_all v with Some r0 => Some r0 | None => if is_named_shape (v_shape v) then raf else None end)
    with (variant_rename_all raf v) in Hs.
  set (ra := variant_rename_all raf v) in *.
  assert (Hlone : match v_shape v with STuple [f] => f_skip f | _ => false end = false).
  { destruct (v_shape v) as [|[|f [|? ?]]|]; try reflexivity. cbn in Hsh. tauto. }
  rewrite Hlone in Hs.
  apply bind_ok in Hg as (vt & Hvt & Hg). cbn [bind] in Hg.
  destruct tg as [|t|t c|].
  - (* externally tagged *)
    cbn [andb] in Hvt. replace (match is_named (v_shape v) && negb false with true => None | false => None end) with (@None (str * str)) in Hvt by (destruct (is_named (v_shape v)); reflexivity).
    destruct (v_shape v) as [|fs|fs] eqn:Hshape.
    + inversion Hs; inversion Hg; subst. apply ev_lit.
    + destruct (shape_ser st [] ra (STuple fs) vs) as [cj|] eqn:Hc; [|discriminate]. inversion Hs; subst.
      assert (Hx : x = TObj OVariant [(quoted_head name, fst vt)]).
      { destruct (lone_field (STuple fs)) as [fl|] eqn:Hl; [|inversion Hg; reflexivity].
        destruct fs as [|f [|? ?]]; try discriminate. inversion Hl; subst. rewrite Hlone in Hg. inversion Hg; reflexivity. }
      subst x. apply ev_single. eapply shape_member; [exact Hsh | exact Hkd | exact Hc | exact Hvt].
    + destruct (shape_ser st [] ra (SNamed fs) vs) as [cj|] eqn:Hc; [|discriminate]. inversion Hs; subst.
      cbn in Hg. inversion Hg; subst. apply ev_single. eapply shape_member; [exact Hsh | exact Hkd | exact Hc | exact Hvt].
  - (* internally tagged *)
    destruct (v_shape v) as [|fs|fs] eqn:Hshape; [| contradiction |].
    + cbn in Hvt. inversion Hvt; subst. cbn [snd] in Hg. inversion Hs; inversion Hg; subst.
      apply ev_single. apply ev_lit.
    + cbn [is_named andb negb] in Hvt. cbn [is_named_shape] in Hs.
      cbn [shape_ser] in Hs. destruct (named_entries st [] ra fs vs) as [entries|] eqn:He; [|discriminate]. cbn [option_map] in Hs.
      inversion Hs; subst. cbn [variant_keys_distinct keys_distinct app] in Hkd.
      destruct (tagged_named_member ra fs vs entries t name vt Hsh Hkd He Hvt) as [Hm [y Hy]].
      rewrite Hy in Hg. inversion Hg; subst. exact Hm.
  - (* adjacently tagged *)
    destruct Hkd as [Hne Hkd].
    cbn [andb] in Hvt. replace (match is_named (v_shape v) && negb false with true => None | false => None end) with (@None (str * str)) in Hvt by (destruct (is_named (v_shape v)); reflexivity).
    destruct (v_shape v) as [|fs|fs] eqn:Hshape.
    + inversion Hs; inversion Hg; subst. apply ev_single. apply ev_lit.
    + destruct (shape_ser st [] ra (STuple fs) vs) as [cj|] eqn:Hc; [|discriminate]. inversion Hs; subst.
      assert (Hx : x = TObj OVariant [(quoted_head t, TLit name); (quoted_head c, fst vt)]).
      { destruct (lone_field (STuple fs)) as [fl|] eqn:Hl; [|inversion Hg; reflexivity].
        destruct fs as [|f [|? ?]]; try discriminate. inversion Hl; subst. rewrite Hlone in Hg. inversion Hg; reflexivity. }
      subst x. apply ev_pair; [exact Hne | apply ev_lit|]. eapply shape_member; [exact Hsh | exact Hkd | exact Hc | exact Hvt].
    + destruct (shape_ser st [] ra (SNamed fs) vs) as [cj|] eqn:Hc; [|discriminate]. inversion Hs; subst.
      cbn in Hg. inversion Hg; subst. apply ev_pair; [exact Hne | apply ev_lit|]. eapply shape_member; [exact Hsh | exact Hkd | exact Hc | exact Hvt].
  - (* untagged *)
    cbn [andb] in Hvt. replace (match is_named (v_shape v) && negb false with true => None | false => None end) with (@None (str * str)) in Hvt by (destruct (is_named (v_shape v)); reflexivity).
    inversion Hg; subst.
    destruct (v_shape v) as [|fs|fs] eqn:Hshape.
    + inversion Hs; subst. cbn in Hvt. inversion Hvt. apply ev_null.
    + eapply shape_member; [exact Hsh | exact Hkd | exact Hs | exact Hvt].
    + eapply shape_member; [exact Hsh | exact Hkd | exact Hs | exact Hvt].
Qed.

(* ---- one definition ---------------------------------------------------------------------------- *)
Definition plain_def (d : typedef) : Prop :=
  let a := attrs_of d in
  c_type a = None /\ c_as a = None /\ c_params a = [] /\
  match d with
  | DStruct a s =>
      c_optional_fields a = NotOptional /\ plain_shape s /\
      match c_tag a with
      | None => keys_distinct (c_rename_all a) [] s
      | Some t => exists fs, s = SNamed fs /\ NoDup (t :: map (Gen.field_key (c_rename_all a)) (live fs))
      end
  | DEnum a tg raf vs =>
      Forall (fun v => v_skip v = false -> plain_variant tg v /\ variant_keys_distinct tg (variant_rename_all raf v) (v_shape v)) vs
  end.

Lemma Forall2_in_l' {A B} (P : A -> B -> Prop) l l' x : Forall2 P l l' -> In x l -> exists y, In y l' /\ P x y.
Proof.
  induction 1 as [|a b l l' Hab _ IH]; cbn; intros Hin; [contradiction|].
  destruct Hin as [->|Hin]; [exists b; split; [left; reflexivity|exact Hab]|].
  destruct (IH Hin) as (y & Hy & Hp). exists y. split; [right; exact Hy|exact Hp].
Qed.

Lemma def_member d v j r :
  plain_def d ->
  def_ser is_upper st d [] v = Some j ->
  def_body is_upper is_alnum is_numeric R inl flt d [] = Ok r ->
  ev (fst r) j.
Proof.
  intros (Hty & Has & Hps & Hd) Hs Hg. unfold def_body in Hg. rewrite Hty, Has in Hg.
  destruct d as [a s|a tg raf vs]; cbn [attrs_of] in *.
  - destruct Hd as (Hopt & Hsh & Htag). destruct v; try discriminate. cbn [def_ser] in Hs. rewrite Hopt in Hg.
    destruct (c_tag a) as [t|] eqn:Ht.
    + destruct Htag as (fs0 & -> & Hnd). destruct (named_entries st [] (c_rename_all a) fs0 fs) as [entries|] eqn:He; [|discriminate].
      inversion Hs; subst. eapply tagged_named_member; eassumption.
    + assert (Hs' : shape_ser st [] (c_rename_all a) s fs = Some j) by (destruct s; exact Hs).
      eapply shape_member; eassumption.
  - destruct v; try discriminate. cbn [def_ser] in Hs.
    destruct (nth_error vs idx) as [vr|] eqn:Hn; [|discriminate].
    destruct vs as [|v0 vs0]; [destruct idx; discriminate|].
    apply bind_ok in Hg as (l & Hl & Hg). apply omap_list_ok in Hl.
    assert (Hskip : v_skip vr = false).
    { unfold variant_ser in Hs. destruct (v_skip vr); [discriminate | reflexivity]. }
    assert (Hin : In vr (live_variants (v0 :: vs0))).
    { unfold live_variants. apply filter_In. split; [eapply nth_error_In; exact Hn | rewrite Hskip; reflexivity]. }
    destruct (Forall2_in_l' _ _ _ vr Hl Hin) as (x & Hx & Hgen).
    assert (Hr : fst r = TUnion l).
    { destruct l; [destruct Hx | inversion Hg; reflexivity]. }
    rewrite Hr. eapply ev_union; [exact Hx|].
    rewrite Forall_forall in Hd. destruct (Hd vr (nth_error_In _ _ Hn) Hskip) as [Hpv Hkd].
    eapply variant_member; eassumption.
Qed.

End Layer.

(* ============================ library layer, in `eventually` form ============================== *)
Section LibEv.
Variable R : env.
Variable E : denv.
Variable sd : typedef -> list rty -> value -> option json.
Notation ev := (ev_mem E).

(* what is known of derived types: a value of a definition inhabits the reference to it *)
Hypothesis Hsd : forall id d v j, lookup R id = Some d -> sd d [] v = Some j -> ev (TRef (ts_ident d) []) j.

Lemma ev_leaf l v j : leaf_ser l v = Some j -> ev (leaf_ts l) j.
Proof.
  intros H. destruct l as [big lo hi| | | | |]; destruct v; cbn in H; try discriminate.
  - destruct ((lo <=? z)%Z && (z <=? hi)%Z); [|discriminate]. inversion H. destruct big; apply ev_prim; reflexivity.
  - inversion H; apply ev_prim; reflexivity.
  - inversion H; apply ev_prim; reflexivity.
  - inversion H; apply ev_prim; reflexivity.
  - destruct s as [|c [|? ?]]; try discriminate. inversion H; apply ev_prim; reflexivity.
  - inversion H; apply ev_prim; reflexivity.
Qed.

Lemma opt_map_Forall {A} (f : A -> option json) (P : json -> Prop) l js :
  opt_map f l = Some js -> (forall x y, In x l -> f x = Some y -> P y) -> Forall P js.
Proof.
  revert js. induction l as [|x l IH]; cbn [opt_map]; intros js H Hp.
  - inversion H; constructor.
  - destruct (f x) as [y|] eqn:Hx; [|discriminate]. destruct (opt_map f l) as [ys|]; [|discriminate].
    inversion H; subst. constructor; [eapply Hp; [left; reflexivity | exact Hx]|].
    apply IH; [reflexivity|]. intros; eapply Hp; [right|]; eassumption.
Qed.

Lemma Forall2_repeat_l (P : tsty -> json -> Prop) a js : Forall (P a) js -> Forall2 P (repeat a (length js)) js.
Proof. induction 1; cbn; constructor; assumption. Qed.

Theorem lib_ev : forall t v j a,
  mono_ty t = true -> ser_ty R sd t v = Some j -> name_of R t = Ok a -> ev a j.
Proof.
  induction t as [l|t IH|t IH|n t IH|ts IH|k vt IHk IHv|t IH|t e IHt IHe|t IH|id args IH|i|n] using rty_ind';
    intros v j a Hm Hs Ha; cbn [mono_ty] in Hm; try discriminate; cbn [Gen.name_of] in Ha; cbn [Serde.ser_ty] in Hs.
  - inversion Ha; subst. eapply ev_leaf; exact Hs.
  - apply bind_ok in Ha as (x & Hx & Ha). inversion Ha; subst. destruct v; try discriminate.
    + inversion Hs; subst. eapply ev_union; [right; left; reflexivity | apply ev_prim; reflexivity].
    + eapply ev_union; [left; reflexivity | eapply IH; eassumption].
  - apply bind_ok in Ha as (x & Hx & Ha). inversion Ha; subst. destruct v; try discriminate.
    destruct (opt_map (ser_ty R sd t) l) as [js|] eqn:Hl; [|discriminate]. inversion Hs; subst.
    apply ev_array. eapply opt_map_Forall; [exact Hl|]. intros y z _ Hy. eapply IH; eassumption.
  - destruct n as [|n'].
    { inversion Ha; subst. destruct v; try discriminate. destruct l as [|? ?]; [|discriminate]. cbn in Hs. inversion Hs.
      apply ev_tuple. constructor. }
    apply bind_ok in Ha as (x & Hx & Ha). inversion Ha; subst. destruct v; try discriminate.
    destruct (Nat.eqb (length l) (S n')) eqn:Hlen; [|discriminate]. apply Nat.eqb_eq in Hlen.
    destruct (opt_map (ser_ty R sd t) l) as [js|] eqn:Hl; [|discriminate]. inversion Hs; subst.
    assert (Hall : Forall (ev x) js).
    { eapply opt_map_Forall; [exact Hl|]. intros y z _ Hy. eapply IH; eassumption. }
    assert (Hlenjs : length js = length l).
    { clear -Hl. revert js Hl. induction l as [|y l IHl]; cbn; intros js H; [inversion H; reflexivity|].
      destruct (ser_ty R sd t y); [|discriminate]. destruct (opt_map (ser_ty R sd t) l); [|discriminate]. inversion H. cbn. f_equal. apply IHl. reflexivity. }
    unfold array_ts. destruct (Nat.ltb ARRAY_TUPLE_LIMIT (S n')); [apply ev_array; exact Hall|].
    apply ev_tuple. rewrite <- Hlen, <- Hlenjs. apply Forall2_repeat_l. exact Hall.
  - apply bind_ok in Ha as (xs & Hxs & Ha). inversion Ha; subst. destruct v; try discriminate.
    destruct (opt_map2 (ser_ty R sd) ts l) as [js|] eqn:Hgo; [|discriminate]. inversion Hs; subst.
    apply ev_tuple. apply omap_list_ok in Hxs. rewrite forallb_forall in Hm. rewrite Forall_forall in IH.
    clear Hs Ha. revert l js Hgo. induction Hxs as [|u x ts xs Hux _ IHx]; intros l js Hgo.
    + destruct l; inversion Hgo. constructor.
    + destruct l as [|y l]; [discriminate|]. cbn [opt_map2] in Hgo.
      destruct (ser_ty R sd u y) as [z|] eqn:Hz; [|discriminate].
      destruct (opt_map2 (ser_ty R sd) ts l) as [zs|] eqn:Hg; [|discriminate]. inversion Hgo; subst.
      constructor; [eapply IH; [left; reflexivity | apply Hm; left; reflexivity | exact Hz | exact Hux]|].
      eapply IHx; [intros x0 Hx0 v1 j1 a1 Hm1 Hs1 Ha1; eapply IH; [right; exact Hx0 | exact Hm1 | exact Hs1 | exact Ha1] | intros x0 Hx0; apply Hm; right; exact Hx0 | exact Hg].
  - apply bind_ok in Ha as (x & Hx & Ha). apply bind_ok in Ha as (y & Hy & Ha). inversion Ha; subst.
    apply andb_true_iff in Hm as [Hkl Hvm]. destruct v; try discriminate.
    match type of Hs with option_map JObj (opt_map ?g l) = _ => destruct (opt_map g l) as [es|] eqn:Hl; [|discriminate] end.
    inversion Hs; subst. apply ev_mapped. clear Hs Ha. revert es Hl. induction l as [|e l IHl]; cbn [opt_map]; intros es Hl key j Hin.
    + inversion Hl; subst. destruct Hin.
    + destruct (ser_ty R sd k (fst e)) as [kj|] eqn:Hkj; [|discriminate]. destruct (ser_ty R sd vt (snd e)) as [z|] eqn:Hz; [|discriminate].
      destruct (key_of_json kj) as [ks|] eqn:Hks; [|discriminate]. cbn [option_map] in Hl.
      destruct (opt_map _ l) as [es'|] eqn:Hl'; [|discriminate]. inversion Hl; subst. destruct Hin as [Heq|Hin].
      * inversion Heq; subst. split; [|eapply IHv; eassumption].
        destruct k as [lk| | | | | | | | | | |]; try discriminate. cbn [Gen.name_of] in Hx. inversion Hx; subst. cbn [Serde.ser_ty] in Hkj.
        destruct lk as [big lo hi| | | | |]; try discriminate; destruct (fst e) as [z0|?|?|s|  |  |?|?|?|?|? ?]; cbn [leaf_ser] in Hkj; try discriminate.
        -- destruct ((lo <=? z0)%Z && (z0 <=? hi)%Z); [|discriminate]. inversion Hkj; subst. cbn in Hks. inversion Hks; subst.
           destruct big; cbn [leaf_ts]; unfold prim; [rewrite Sem_lib_proofs.key_ok_bigint | rewrite Sem_lib_proofs.key_ok_number]; apply Sem_lib_proofs.z_to_str_digits.
        -- inversion Hkj; subst. reflexivity.
        -- destruct s as [|c [|? ?]]; try discriminate. reflexivity.
      * eapply IHl; [reflexivity | exact Hin].
  - eapply IH; eassumption.
  - apply bind_ok in Ha as (x & Hx & Ha). apply bind_ok in Ha as (y & Hy & Ha). inversion Ha; subst.
    apply andb_true_iff in Hm as [Ht He]. destruct v; try discriminate. destruct idx as [|[|]]; destruct fs as [|v0 [|]]; try discriminate.
    + destruct (ser_ty R sd t v0) as [z|] eqn:Hz; [|discriminate]. inversion Hs; subst. apply ev_result_ok. eapply IHt; eassumption.
    + destruct (ser_ty R sd e v0) as [z|] eqn:Hz; [|discriminate]. inversion Hs; subst. apply ev_result_err. eapply IHe; eassumption.
  - apply bind_ok in Ha as (x & Hx & Ha). inversion Ha; subst. destruct v; try discriminate. destruct fs as [|va [|vb [|]]]; try discriminate.
    destruct (ser_ty R sd t va) as [ja|] eqn:Hja; [|discriminate]. destruct (ser_ty R sd t vb) as [jb|] eqn:Hjb; [|discriminate].
    inversion Hs; subst. apply ev_obj.
    + cbn. constructor; [intros [Heq|[]]; discriminate Heq|]. constructor; [intros []|constructor].
    + intros key j' [Heq|[Heq|[]]]; inversion Heq; subst key j'.
      * exists (plain_head (lit "start")), x. repeat split; [left; reflexivity | eapply IH; eassumption].
      * exists (plain_head (lit "end")), x. repeat split; [right; left; reflexivity | eapply IH; eassumption].
    + intros p ty [Heq|[Heq|[]]] _; inversion Heq; subst p ty; [exists ja; left; reflexivity | exists jb; right; left; reflexivity].
  - destruct args as [|? ?]; [|discriminate]. destruct (lookup R id) as [d|] eqn:Hlk; [|discriminate].
    cbn [omap_list bind] in Ha. inversion Ha; subst. eapply Hsd; eassumption.
Qed.

(* the same for TS::inline(): derived leaves are inlined (their body), tuples and ranges cannot be *)
Variable g : dgen.
Hypothesis Hg : forall id d v j r, lookup R id = Some d -> sd d [] v = Some j -> g d [] = Ok r -> ev (fst r) j.

Theorem lib_inline_ev : forall t v j a,
  mono_ty t = true -> ser_ty R sd t v = Some j -> lib_inline R g t = Ok a -> ev a j.
Proof.
  induction t as [l|t IH|t IH|n t IH|ts IH|k vt IHk IHv|t IH|t e IHt IHe|t IH|id args IH|i|n] using rty_ind';
    intros v j a Hm Hs Ha; cbn [mono_ty] in Hm; try discriminate; cbn [Gen.lib_inline] in Ha; cbn [Serde.ser_ty] in Hs; try discriminate.
  - inversion Ha; subst. eapply ev_leaf; exact Hs.
  - apply bind_ok in Ha as (x & Hx & Ha). inversion Ha; subst. destruct v; try discriminate.
    + inversion Hs; subst. eapply ev_union; [right; left; reflexivity | apply ev_prim; reflexivity].
    + eapply ev_union; [left; reflexivity | eapply IH; eassumption].
  - apply bind_ok in Ha as (x & Hx & Ha). inversion Ha; subst. destruct v; try discriminate.
    destruct (opt_map (ser_ty R sd t) l) as [js|] eqn:Hl; [|discriminate]. inversion Hs; subst.
    apply ev_array. eapply opt_map_Forall; [exact Hl|]. intros y z _ Hy. eapply IH; eassumption.
  - destruct n as [|n'].
    { inversion Ha; subst. destruct v; try discriminate. destruct l as [|? ?]; [|discriminate]. cbn in Hs. inversion Hs.
      apply ev_tuple. constructor. }
    apply bind_ok in Ha as (x & Hx & Ha). inversion Ha; subst. destruct v; try discriminate.
    destruct (Nat.eqb (length l) (S n')) eqn:Hlen; [|discriminate]. apply Nat.eqb_eq in Hlen.
    destruct (opt_map (ser_ty R sd t) l) as [js|] eqn:Hl; [|discriminate]. inversion Hs; subst.
    assert (Hall : Forall (ev x) js).
    { eapply opt_map_Forall; [exact Hl|]. intros y z _ Hy. eapply IH; eassumption. }
    assert (Hlenjs : length js = length l).
    { clear -Hl. revert js Hl. induction l as [|y l IHl]; cbn; intros js H; [inversion H; reflexivity|].
      destruct (ser_ty R sd t y); [|discriminate]. destruct (opt_map (ser_ty R sd t) l); [|discriminate]. inversion H. cbn. f_equal. apply IHl. reflexivity. }
    unfold array_ts. destruct (Nat.ltb ARRAY_TUPLE_LIMIT (S n')); [apply ev_array; exact Hall|].
    apply ev_tuple. rewrite <- Hlen, <- Hlenjs. apply Forall2_repeat_l. exact Hall.
  - apply bind_ok in Ha as (x & Hx & Ha). apply bind_ok in Ha as (y & Hy & Ha). inversion Ha; subst.
    apply andb_true_iff in Hm as [Hkl Hvm]. destruct v; try discriminate.
    match type of Hs with option_map JObj (opt_map ?g0 l) = _ => destruct (opt_map g0 l) as [es|] eqn:Hl; [|discriminate] end.
    inversion Hs; subst. apply ev_mapped. clear Hs Ha. revert es Hl. induction l as [|e l IHl]; cbn [opt_map]; intros es Hl key j Hin.
    + inversion Hl; subst. destruct Hin.
    + destruct (ser_ty R sd k (fst e)) as [kj|] eqn:Hkj; [|discriminate]. destruct (ser_ty R sd vt (snd e)) as [z|] eqn:Hz; [|discriminate].
      destruct (key_of_json kj) as [ks|] eqn:Hks; [|discriminate]. cbn [option_map] in Hl.
      destruct (opt_map _ l) as [es'|] eqn:Hl'; [|discriminate]. inversion Hl; subst. destruct Hin as [Heq|Hin].
      * inversion Heq; subst. split; [|eapply IHv; eassumption].
        destruct k as [lk| | | | | | | | | | |]; try discriminate. cbn [Gen.lib_inline] in Hx. inversion Hx; subst. cbn [Serde.ser_ty] in Hkj.
        destruct lk as [big lo hi| | | | |]; try discriminate; destruct (fst e) as [z0|?|?|s|  |  |?|?|?|?|? ?]; cbn [leaf_ser] in Hkj; try discriminate.
        -- destruct ((lo <=? z0)%Z && (z0 <=? hi)%Z); [|discriminate]. inversion Hkj; subst. cbn in Hks. inversion Hks; subst.
           destruct big; cbn [leaf_ts]; unfold prim; [rewrite Sem_lib_proofs.key_ok_bigint | rewrite Sem_lib_proofs.key_ok_number]; apply Sem_lib_proofs.z_to_str_digits.
        -- inversion Hkj; subst. reflexivity.
        -- destruct s as [|c [|? ?]]; try discriminate. reflexivity.
      * eapply IHl; [reflexivity | exact Hin].
  - eapply IH; eassumption.
  - apply bind_ok in Ha as (x & Hx & Ha). apply bind_ok in Ha as (y & Hy & Ha). inversion Ha; subst.
    apply andb_true_iff in Hm as [Ht He]. destruct v; try discriminate. destruct idx as [|[|]]; destruct fs as [|v0 [|]]; try discriminate.
    + destruct (ser_ty R sd t v0) as [z|] eqn:Hz; [|discriminate]. inversion Hs; subst. apply ev_result_ok. eapply IHt; eassumption.
    + destruct (ser_ty R sd e v0) as [z|] eqn:Hz; [|discriminate]. inversion Hs; subst. apply ev_result_err. eapply IHe; eassumption.
  - destruct args as [|? ?]; [|discriminate]. destruct (lookup R id) as [d|] eqn:Hlk; [|discriminate].
    destruct (g d []) as [r| |] eqn:Hr; try discriminate. cbn [omap] in Ha. inversion Ha; subst. eapply Hg; eassumption.
Qed.
End LibEv.

(* ============================ decidable scope of the theorem =================================== *)
Lemma leaf_eqb_eq a b : leaf_eqb a b = true -> a = b.
Proof.
  destruct a as [x l h| | | | |], b as [y l' h'| | | | |]; cbn; intros H; try discriminate; try reflexivity.
  apply andb_true_iff in H as [H Hh]. apply andb_true_iff in H as [Hx Hl].
  apply Bool.eqb_prop in Hx. apply Z.eqb_eq in Hl, Hh. subst. reflexivity.
Qed.

Lemma rty_eqb_eq : forall a b, rty_eqb a b = true -> a = b.
Proof.
  induction a as [l|t IH|t IH|n t IH|ts IH|k v IHk IHv|t IH|t e IHt IHe|t IH|id args IH|i|n] using rty_ind';
    intros b H; destruct b; cbn [rty_eqb] in H; try discriminate.
  - f_equal. apply leaf_eqb_eq. exact H.
  - f_equal. apply IH. exact H.
  - f_equal. apply IH. exact H.
  - apply andb_true_iff in H as [Hn H]. apply Nat.eqb_eq in Hn. subst. f_equal. apply IH. exact H.
  - f_equal. revert ts0 H. induction ts as [|x xs IHxs]; intros [|y ys] H; try discriminate; [reflexivity|].
    apply andb_true_iff in H as [Hx Hr]. inversion IH as [|? ? Hx' Hxs']; subst. f_equal; [apply Hx'; exact Hx | apply IHxs; assumption].
  - apply andb_true_iff in H as [Hk Hv]. f_equal; [apply IHk | apply IHv]; assumption.
  - f_equal. apply IH. exact H.
  - apply andb_true_iff in H as [Hk Hv]. f_equal; [apply IHt | apply IHe]; assumption.
  - f_equal. apply IH. exact H.
  - apply andb_true_iff in H as [Hid H]. apply str_eqb_true in Hid. subst. f_equal.
    revert args0 H. induction args as [|x xs IHxs]; intros [|y ys] H; try discriminate; [reflexivity|].
    apply andb_true_iff in H as [Hx Hr]. inversion IH as [|? ? Hx' Hxs']; subst. f_equal; [apply Hx'; exact Hx | apply IHxs; assumption].
  - apply Nat.eqb_eq in H. subst. reflexivity.
  - apply str_eqb_true in H. subst. reflexivity.
Qed.

Fixpoint nodupb (l : list str) : bool :=
  match l with
  | [] => true
  | x :: r => negb (existsb (str_eqb x) r) && nodupb r
  end.

Lemma nodupb_NoDup l : nodupb l = true -> NoDup l.
Proof.
  induction l as [|x r IH]; cbn [nodupb]; intros H; [constructor|].
  apply andb_true_iff in H as [Hx Hr]. constructor; [|apply IH; exact Hr].
  intros Hin. apply negb_true_iff in Hx. rewrite (existsb_in (str_eqb x) x r Hin (str_eqb_refl' x)) in Hx. discriminate.
Qed.

Definition is_none {A} (o : option A) : bool := match o with None => true | Some _ => false end.
Lemma is_none_eq {A} (o : option A) : is_none o = true -> o = None.
Proof. destruct o; [discriminate | reflexivity]. Qed.

Definition plain_fieldb (f : field) : bool :=
  negb (f_flatten f) && match f_optional f with NotOptional => true | _ => false end &&
  is_none (f_type f) && negb (f_skip_none f) && rty_eqb (f_serde_ty f) (f_ty f) && mono_ty (f_ty f).

Lemma plain_fieldb_ok f : plain_fieldb f = true -> plain_field f.
Proof.
  unfold plain_fieldb, plain_field. intros H.
  repeat match type of H with (_ && _) = true => let H' := fresh "H" in apply andb_true_iff in H as [H H'] end.
  repeat split; try (apply negb_true_iff; assumption).
  - destruct (f_optional f); try discriminate; reflexivity.
  - apply is_none_eq; assumption.
  - apply rty_eqb_eq; assumption.
  - assumption.
Qed.

Definition plain_shapeb (s : shape) : bool :=
  match s with
  | SUnit => true
  | STuple [f] => plain_fieldb f && negb (f_skip f)
  | STuple fs => forallb plain_fieldb fs
  | SNamed fs => forallb plain_fieldb fs
  end.

Lemma forallb_Forall' {A} (p : A -> bool) (P : A -> Prop) l : (forall x, p x = true -> P x) -> forallb p l = true -> Forall P l.
Proof. intros Hp H. rewrite forallb_forall in H. apply Forall_forall. auto. Qed.

Lemma plain_shapeb_ok s : plain_shapeb s = true -> plain_shape s.
Proof.
  destruct s as [|fs|fs]; cbn [plain_shapeb plain_shape]; intros H.
  - exact I.
  - destruct fs as [|f [|g r]].
    + constructor.
    + apply andb_true_iff in H as [H1 H2]. split; [apply plain_fieldb_ok; exact H1 | apply negb_true_iff; exact H2].
    + eapply forallb_Forall'; [apply plain_fieldb_ok | exact H].
  - eapply forallb_Forall'; [apply plain_fieldb_ok | exact H].
Qed.

Definition keys_distinctb (ra : option rule) (extra : list str) (s : shape) : bool :=
  match s with
  | SNamed fs => nodupb (extra ++ map (Gen.field_key ra) (live fs))
  | _ => true
  end.

Lemma keys_distinctb_ok ra extra s : keys_distinctb ra extra s = true -> keys_distinct ra extra s.
Proof. destruct s; cbn; intros H; try exact I. apply nodupb_NoDup. exact H. Qed.

Definition plain_variantb (tg : tagging) (v : variant) : bool :=
  is_none (v_type v) && is_none (v_as v) && negb (v_untagged v) && plain_shapeb (v_shape v) &&
  match tg with
  | Internal _ => match v_shape v with STuple _ => false | _ => true end
  | _ => true
  end.

Lemma plain_variantb_ok tg v : plain_variantb tg v = true -> plain_variant tg v.
Proof.
  unfold plain_variantb, plain_variant. intros H.
  repeat match type of H with (_ && _) = true => let H' := fresh "H" in apply andb_true_iff in H as [H H'] end.
  repeat split; try (apply is_none_eq; assumption); try (apply negb_true_iff; assumption).
  - apply plain_shapeb_ok; assumption.
  - destruct tg; try exact I. destruct (v_shape v); try exact I. discriminate.
Qed.

Definition variant_keys_distinctb (tg : tagging) (ra : option rule) (s : shape) : bool :=
  match tg with
  | Internal t => keys_distinctb ra [t] s
  | Adjacent t c => negb (str_eqb t c) && keys_distinctb ra [] s
  | _ => keys_distinctb ra [] s
  end.

Lemma variant_keys_distinctb_ok tg ra s : variant_keys_distinctb tg ra s = true -> variant_keys_distinct tg ra s.
Proof.
  destruct tg; cbn [variant_keys_distinctb variant_keys_distinct]; intros H; try (apply keys_distinctb_ok; exact H).
  apply andb_true_iff in H as [Hn H]. split; [|apply keys_distinctb_ok; exact H].
  intros ->. rewrite str_eqb_refl' in Hn. discriminate.
Qed.

Definition plain_defb (d : typedef) : bool :=
  let a := attrs_of d in
  is_none (c_type a) && is_none (c_as a) && match c_params a with [] => true | _ => false end &&
  match d with
  | DStruct a s =>
      match c_optional_fields a with NotOptional => true | _ => false end && plain_shapeb s &&
      match c_tag a with
      | None => keys_distinctb (c_rename_all a) [] s
      | Some t => match s with SNamed fs => nodupb (t :: map (Gen.field_key (c_rename_all a)) (live fs)) | _ => false end
      end
  | DEnum a tg raf vs =>
      forallb (fun v => v_skip v || (plain_variantb tg v && variant_keys_distinctb tg (variant_rename_all raf v) (v_shape v))) vs
  end.

Lemma plain_defb_ok d : plain_defb d = true -> plain_def d.
Proof.
  unfold plain_defb, plain_def. intros H.
  apply andb_true_iff in H as [H Hd]. apply andb_true_iff in H as [H Hps]. apply andb_true_iff in H as [Hty Has].
  split; [apply is_none_eq; exact Hty|]. split; [apply is_none_eq; exact Has|].
  split; [destruct (c_params (attrs_of d)); [reflexivity | discriminate]|].
  destruct d as [a s|a tg raf vs].
  - apply andb_true_iff in Hd as [Hd Htag]. apply andb_true_iff in Hd as [Hopt Hsh].
    split; [destruct (c_optional_fields a); try discriminate; reflexivity|].
    split; [apply plain_shapeb_ok; exact Hsh|].
    destruct (c_tag a) as [t|]; [|apply keys_distinctb_ok; exact Htag].
    destruct s as [|fs|fs]; try discriminate. exists fs. split; [reflexivity | apply nodupb_NoDup; exact Htag].
  - eapply forallb_Forall'; [|exact Hd]. intros v Hv Hskip. cbn beta in Hv. rewrite Hskip in Hv. cbn [orb] in Hv.
    apply andb_true_iff in Hv as [H1 H2]. split; [apply plain_variantb_ok; exact H1 | apply variant_keys_distinctb_ok; exact H2].
Qed.

(* ============================ the knot ========================================================== *)
Section Knot.
Variable is_upper is_alnum is_numeric : char -> bool.
Variable R : env.
Variable gf : nat.

Notation decl_of := (Gen.decl_of is_upper is_alnum is_numeric R).
Notation gen := (Gen.gen is_upper is_alnum is_numeric R).

(* the declarations ts-rs writes for the environment *)
Definition env_of : denv :=
  flat_map (fun p => match decl_of gf (snd p) with Ok dc => [(d_name dc, dc)] | _ => [] end) R.

Definition is_ok {A} (o : outcome A) : bool := match o with Ok _ => true | _ => false end.

(* every definition is plain, gets a declaration, and declaration names are distinct *)
Definition plain_envb : bool :=
  forallb (fun p => plain_defb (snd p) && is_ok (decl_of gf (snd p))) R &&
  nodupb (map (fun p => ts_ident (snd p)) R).

Hypothesis Henv : plain_envb = true.

Lemma lookup_in id d (R' : env) : lookup R' id = Some d -> In (id, d) R'.
Proof.
  induction R' as [|[k x] r IH]; cbn [lookup]; intros H; [discriminate|].
  destruct (str_eqb k id) eqn:Hk; [apply str_eqb_true in Hk; inversion H; subst; left; reflexivity | right; apply IH; exact H].
Qed.

Lemma plain_decl d : plain_def d -> forall dc, decl_of gf d = Ok dc ->
  exists r, gen gf d [] = Ok r /\ d_name dc = ts_ident d /\ d_params dc = [] /\ d_body dc = fst r.
Proof.
  intros (_ & _ & Hps & _) dc H. unfold Gen.decl_of, dummies in H. rewrite Hps in H. cbn [map omap_list] in H.
  apply bind_ok in H as (r & Hr & H). cbn [bind] in H. inversion H; subst. exists r. repeat split. exact Hr.
Qed.

Lemma dlookup_env_of : forall (R' : env),
  (forall p, In p R' -> plain_def (snd p) /\ is_ok (decl_of gf (snd p)) = true) ->
  NoDup (map (fun p => ts_ident (snd p)) R') ->
  forall id d, In (id, d) R' ->
  exists dc, dlookup (flat_map (fun p => match decl_of gf (snd p) with Ok dc => [(d_name dc, dc)] | _ => [] end) R') (ts_ident d) = Some dc
             /\ decl_of gf d = Ok dc.
Proof.
  induction R' as [|[k x] r IH]; intros Hall Hnd id d Hin; [destruct Hin|].
  cbn [flat_map snd]. destruct (Hall (k, x) (or_introl eq_refl)) as [Hpx Hokx]. cbn [snd] in *.
  destruct (decl_of gf x) as [dcx| |] eqn:Hx; try discriminate.
  destruct (plain_decl x Hpx dcx Hx) as (rx & _ & Hname & _ & _).
  cbn [app dlookup]. rewrite Hname. inversion Hnd as [|? ? Hnotin Hnd']; subst.
  destruct Hin as [Heq|Hin].
  - inversion Heq; subst. rewrite str_eqb_refl'. exists dcx. split; [reflexivity | exact Hx].
  - destruct (str_eqb (ts_ident x) (ts_ident d)) eqn:Heqb.
    + apply str_eqb_true in Heqb. exfalso. apply Hnotin. rewrite Heqb.
      change (ts_ident d) with ((fun p : str * typedef => ts_ident (snd p)) (id, d)). apply in_map. exact Hin.
    + apply (IH (fun p Hp => Hall p (or_intror Hp)) Hnd' id d Hin).
Qed.

Notation ev := (ev_mem env_of).

(* every definition, at every generator fuel: serde's output inhabits the generated body *)
Lemma def_layer : forall n g d id v j r,
  lookup R id = Some d -> sdef is_upper R n d [] v = Some j -> gen g d [] = Ok r -> ev (fst r) j.
Proof.
  unfold plain_envb in Henv. apply andb_true_iff in Henv as [Hall Hnd].
  rewrite forallb_forall in Hall. apply nodupb_NoDup in Hnd.
  assert (Hall' : forall p, In p R -> plain_def (snd p) /\ is_ok (decl_of gf (snd p)) = true).
  { intros p Hp. specialize (Hall p Hp). apply andb_true_iff in Hall as [H1 H2]. split; [apply plain_defb_ok; exact H1 | exact H2]. }
  induction n as [|m IHm]; intros g d id v j r Hlk Hs Hr; [cbn in Hs; discriminate|].
  pose proof (lookup_in _ _ _ Hlk) as Hin. destruct (Hall' _ Hin) as [Hpd _]. cbn [snd] in Hpd.
  destruct g as [|g']; [cbn in Hr; discriminate|]. cbn [Gen.gen] in Hr. cbn [sdef] in Hs.
  (* references to definitions: through the declaration of the environment *)
  assert (Href : forall id2 d2 v2 j2, lookup R id2 = Some d2 -> sdef is_upper R m d2 [] v2 = Some j2 -> ev (TRef (ts_ident d2) []) j2).
  { intros id2 d2 v2 j2 Hlk2 Hs2. pose proof (lookup_in _ _ _ Hlk2) as Hin2. destruct (Hall' _ Hin2) as [Hpd2 _]. cbn [snd] in Hpd2.
    destruct (dlookup_env_of R Hall' Hnd id2 d2 Hin2) as (dc & Hdl & Hdc).
    destruct (plain_decl d2 Hpd2 dc Hdc) as (r2 & Hr2 & _ & Hps & Hbody).
    eapply ev_ref; [exact Hdl | exact Hps |]. rewrite Hbody. eapply IHm; eassumption. }
  eapply def_member; [| |exact Hpd | exact Hs | exact Hr].
  - intros t0 v0 j0 a0 Hm0 Hs0 Ha0. eapply lib_ev; [exact Href | exact Hm0 | exact Hs0 | exact Ha0].
  - intros t0 v0 j0 a0 Hm0 Hs0 Ha0. eapply lib_inline_ev; [|exact Hm0 | exact Hs0 | exact Ha0].
    intros id2 d2 v2 j2 r2 Hlk2 Hs2 Hr2. eapply IHm; eassumption.
Qed.

Theorem derive_layer_member : forall n t v j a,
  mono_ty t = true -> ser is_upper R n t v = Some j -> name_of R t = Ok a -> ev a j.
Proof.
  intros n t v j a Hm Hs Ha. unfold ser in Hs.
  pose proof Henv as Henv'. unfold plain_envb in Henv'. apply andb_true_iff in Henv' as [Hall Hnd].
  rewrite forallb_forall in Hall. apply nodupb_NoDup in Hnd.
  assert (Hall' : forall p, In p R -> plain_def (snd p) /\ is_ok (decl_of gf (snd p)) = true).
  { intros p Hp. specialize (Hall p Hp). apply andb_true_iff in Hall as [H1 H2]. split; [apply plain_defb_ok; exact H1 | exact H2]. }
  eapply lib_ev; [|exact Hm | exact Hs | exact Ha].
  intros id d v' j' Hlk H. pose proof (lookup_in _ _ _ Hlk) as Hin. destruct (Hall' _ Hin) as [Hpd _]. cbn [snd] in Hpd.
  destruct (dlookup_env_of R Hall' Hnd id d Hin) as (dc & Hdl & Hdc).
  destruct (plain_decl d Hpd dc Hdc) as (r & Hr & _ & Hps & Hbody).
  eapply ev_ref; [exact Hdl | exact Hps |]. rewrite Hbody. eapply def_layer; eassumption.
Qed.

(* the same for the inline form of the type *)
Theorem derive_layer_member_inline : forall n g t v j a,
  mono_ty t = true -> ser is_upper R n t v = Some j -> lib_inline R (gen g) t = Ok a -> ev a j.
Proof.
  intros n g t v j a Hm Hs Ha. unfold ser in Hs.
  eapply lib_inline_ev; [|exact Hm | exact Hs | exact Ha].
  intros id d v' j' r Hlk H Hr. eapply def_layer; eassumption.
Qed.
End Knot.
