(* C14 (semantics of the presentations): flattening denotes the object obtained by merging the
   properties; parentheses, the merge marker and the unwrap marker do not change the denotation. *)
From TsRs Require Import Base.Str Base.Outcome Model.TsAst Spec.TsFree Spec.TsSem.
From Coq Require Import List Bool.
Import ListNotations.

Section Sem.
Variable E : denv.
Notation memberb := (memberb E).

Lemma memberb_inter k ts l :
  memberb (S k) (TInter ts) (JObj l) =
  match dnf E k (TInter ts) with Some alts => existsb (fun a => alt_member (memberb k) a l) alts | None => false end.
Proof. reflexivity. Qed.
Lemma memberb_obj k s ps l : memberb (S k) (TObj s ps) (JObj l) = alt_member (memberb k) (ps, []) l.
Proof. reflexivity. Qed.

(* an intersection of two object types is the object type with both property lists *)
Theorem inter_is_merge f s1 s2 s3 ps qs l :
  memberb (S (S (S f))) (TInter [TObj s1 ps; TObj s2 qs]) (JObj l) =
  memberb (S (S (S f))) (TObj s3 (ps ++ qs)) (JObj l).
Proof.
  rewrite memberb_inter, ?memberb_obj. cbn [dnf fold_right flat_map map alt_merge fst snd existsb app].
  unfold alt_merge. cbn [fst snd app]. rewrite ?app_nil_r. rewrite ?orb_false_r. reflexivity.
Qed.

(* … and of three (a struct with two flattened fields) *)
Theorem inter3_is_merge f s1 s2 s3 s4 ps qs rs l :
  memberb (S (S (S f))) (TInter [TObj s1 ps; TObj s2 qs; TObj s3 rs]) (JObj l) =
  memberb (S (S (S f))) (TObj s4 (ps ++ qs ++ rs)) (JObj l).
Proof.
  rewrite memberb_inter, ?memberb_obj. cbn [dnf fold_right flat_map map alt_merge fst snd existsb app].
  unfold alt_merge. cbn [fst snd app]. rewrite ?app_nil_r. rewrite ?orb_false_r. reflexivity.
Qed.

(* flattening an enum: the parent's properties are merged into every arm *)
Theorem inter_union_distributes f s1 s2 s3 ps qs rs l :
  memberb (S (S (S (S (S f))))) (TInter [TObj s1 ps; TParen (TUnion [TObj s2 qs; TObj s3 rs])]) (JObj l) =
  (alt_member (memberb (S (S (S (S f))))) (ps ++ qs, []) l || alt_member (memberb (S (S (S (S f))))) (ps ++ rs, []) l).
Proof.
  rewrite memberb_inter, ?memberb_obj. cbn [dnf fold_right flat_map map alt_merge fst snd existsb app].
  unfold alt_merge. cbn [fst snd app]. rewrite ?app_nil_r. rewrite ?orb_false_r. reflexivity.
Qed.

Theorem paren_transparent f t j : memberb (S f) (TParen t) j = memberb f t j.
Proof. reflexivity. Qed.
Theorem merged_transparent f t j : memberb (S f) (TMerged t) j = memberb f t j.
Proof. reflexivity. Qed.
Theorem unwrap_transparent f t j : memberb (S f) (TUnwrap t) j = memberb f t j.
Proof. reflexivity. Qed.

(* a reference denotes the body of the referenced declaration with the parameters bound *)
Theorem ref_unfolds f n args d j :
  dlookup E n = Some d ->
  memberb (S f) (TRef n args) j =
  memberb f (tsubst (bind_params (d_params d) args) (bind_params (d_params d) args) (d_body d)) j.
Proof. intros H. cbn [TsSem.memberb]. unfold unfold_ref. rewrite H. reflexivity. Qed.

End Sem.

(* the structural merge is what the textual rewrite is meant to produce: two adjacent object
   operands become one object with both property lists *)
Theorem merge_adjacent_two ps qs : merge_adjacent [TObj OStruct ps; TObj OStruct qs] = [TObj OStruct (ps ++ qs)].
Proof. reflexivity. Qed.
