(* Proofs about Model/Path.v. *)
From TsRs Require Import Base.Str Base.Outcome Model.Path.

Definition names_ok (l : list str) : Prop := Forall (fun n => name_ok n = true) l.
Definition no_backslash (l : list str) : Prop := Forall (fun n => ~ In backslash n) l.
(* --- components ---------------------------------------------------------------------------- *)
(* `Root` occurs only in head position of what `components` returns, `Cur` only in head position,
   and every normal name is a legal component name *)
Definition comps_wf (cs : list comp) : Prop :=
  Forall (fun c => c <> Root /\ c <> Cur) (tl cs) /\
  Forall (fun c => match c with Normal n => name_ok n = true | _ => True end) cs.

(* ---- auxiliary: generic list facts *)
Lemma list_snoc_cases {A} (l : list A) : l = [] \/ exists l' x, l = l' ++ [x].
Proof.
  destruct l as [|a l] using rev_ind; [left; reflexivity | right; eauto].
Qed.

Lemma Forall_tl {A} (P : A -> Prop) l : Forall P l -> Forall P (tl l).
Proof. intros H; destruct H; cbn; [constructor | assumption]. Qed.

(* ---- auxiliary: split_slash *)
Notation noslash p := (existsb (N.eqb slash) p = false).

Lemma split_slash_no_slash s p : In p (split_slash s) -> noslash p.
Proof.
  revert p; induction s as [|c r IH]; intros p; cbn [split_slash].
  - intros [<-|[]]. reflexivity.
  - destruct (N.eqb_spec c slash) as [->|Hne].
    + intros [<-|H]; [reflexivity | apply IH; exact H].
    + assert (Hc : (slash =? c) = false) by (apply N.eqb_neq; congruence).
      destruct (split_slash r) as [|q qs].
      * intros [<-|[]]. cbn [existsb]. rewrite Hc. reflexivity.
      * intros [<-|H].
        -- cbn [existsb]. rewrite Hc. cbn [orb]. apply IH. left; reflexivity.
        -- apply IH. right; exact H.
Qed.

Lemma name_ok_inv n :
  name_ok n = true <->
  str_eqb n [] = false /\ str_eqb n s_dot = false /\ str_eqb n s_dotdot = false /\ noslash n.
Proof. unfold name_ok. rewrite !andb_true_iff, !negb_true_iff. tauto. Qed.

Definition cP1 (c : comp) : Prop := c <> Root /\ c <> Cur.
Definition cP2 (c : comp) : Prop := match c with Normal n => name_ok n = true | _ => True end.

Lemma comp_of_wf ld piece c :
  noslash piece -> In c (comp_of ld piece) -> cP2 c /\ c <> Root /\ (ld = false -> c <> Cur).
Proof.
  intros Hns. unfold comp_of.
  destruct (str_eqb piece []) eqn:E1; [intros []|].
  destruct (str_eqb piece s_dot) eqn:E2.
  - destruct ld; [|intros []]. intros [<-|[]]. repeat split; congruence.
  - destruct (str_eqb piece s_dotdot) eqn:E3; intros [<-|[]].
    + repeat split; congruence.
    + repeat split; try congruence. cbn. apply name_ok_inv. tauto.
Qed.

Lemma comp_of_length ld piece : comp_of ld piece = [] \/ exists c, comp_of ld piece = [c].
Proof.
  unfold comp_of. repeat match goal with |- context [if ?b then _ else _] => destruct b end; eauto.
Qed.

Lemma flat_comp_of_wf l :
  (forall p, In p l -> noslash p) ->
  Forall cP1 (flat_map (comp_of false) l) /\ Forall cP2 (flat_map (comp_of false) l).
Proof.
  intros H. split; apply Forall_forall; intros c Hc; apply in_flat_map in Hc;
    destruct Hc as (p & Hp & Hc); destruct (comp_of_wf false p c (H p Hp) Hc) as (H2 & Hr & Hcur).
  - split; auto.
  - exact H2.
Qed.

Lemma components_wf s : comps_wf (components s).
Proof.
  unfold comps_wf, components. fold cP1 cP2. destruct s as [|c r]; [split; constructor|].
  destruct (c =? slash) eqn:Ec.
  - destruct (flat_comp_of_wf (split_slash r) (split_slash_no_slash r)) as [H1 H2].
    cbn [tl]. split; [exact H1 | constructor; [exact I | exact H2]].
  - pose proof (split_slash_no_slash (c :: r)) as Hns.
    destruct (split_slash (c :: r)) as [|first rest]; [split; constructor|].
    destruct (flat_comp_of_wf rest) as [H1 H2]; [intros p Hp; apply Hns; right; exact Hp|].
    assert (Hf : Forall cP2 (comp_of true first)).
    { apply Forall_forall. intros x Hx.
      apply (comp_of_wf true first x (Hns first (or_introl eq_refl)) Hx). }
    split; [|apply Forall_app; split; assumption].
    destruct (comp_of_length true first) as [->|[x ->]]; cbn [app tl]; [apply Forall_tl|]; exact H1.
Qed.

(* --- absolute ------------------------------------------------------------------------------ *)
(* ---- auxiliary: absolute_loop *)
Lemma absolute_loop_app out l1 l2 :
  absolute_loop out (l1 ++ l2) = bind (absolute_loop out l1) (fun o => absolute_loop o l2).
Proof.
  revert out; induction l1 as [|c l1 IH]; intros out; [reflexivity|].
  cbn [app absolute_loop]. destruct c; try apply IH.
  destruct (rev out) as [|[] ?]; try reflexivity. apply IH.
Qed.

Lemma absolute_loop_normals out l : absolute_loop out (map Normal l) = Ok (out ++ map Normal l).
Proof.
  revert out; induction l as [|n l IH]; intros out; cbn [map absolute_loop].
  - rewrite app_nil_r. reflexivity.
  - rewrite IH, <- app_assoc. reflexivity.
Qed.

Lemma absolute_loop_no_panic cs out m : absolute_loop out cs <> Panic m.
Proof.
  revert out; induction cs as [|c cs IH]; intros out; cbn [absolute_loop]; [discriminate|].
  destruct c; try apply IH.
  destruct (rev out) as [|[] ?]; try discriminate. apply IH.
Qed.

Lemma absolute_loop_hd_root cs out r :
  (exists t, out = Root :: t) -> absolute_loop out cs = Ok r -> exists t, r = Root :: t.
Proof.
  revert out; induction cs as [|c cs IH]; intros out [t ->]; cbn [absolute_loop].
  - intros [= <-]. eauto.
  - destruct c.
    + apply IH. cbn. eauto.
    + apply IH. eauto.
    + destruct (rev (Root :: t)) as [|[| | |n] o] eqn:E; try discriminate.
      apply IH. apply (f_equal (@rev _)) in E. rewrite rev_involutive in E. cbn [rev] in E.
      destruct (rev o) as [|x o']; cbn in E; [discriminate|]. injection E as <- _. eauto.
    + apply IH. cbn. eauto.
Qed.

Definition joined_tail (cwd : list str) (cs : list comp) : list comp :=
  match cs with
  | Root :: r => r
  | Cur :: r => map Normal cwd ++ r
  | _ => map Normal cwd ++ cs
  end.

Lemma joined_comps_eq cwd cs : joined_comps cwd cs = Root :: joined_tail cwd cs.
Proof. destruct cs as [|[] ?]; reflexivity. Qed.

Lemma absolute_comps_eq cwd cs :
  absolute_comps cwd cs = absolute_loop [Root] (joined_tail cwd cs).
Proof.
  unfold absolute_comps. rewrite joined_comps_eq.
  change (absolute_loop [] (Root :: joined_tail cwd cs))
    with (absolute_loop [Root] (joined_tail cwd cs)).
  destruct (absolute_loop [Root] (joined_tail cwd cs)) as [[|x a]| |] eqn:E; try reflexivity.
  apply absolute_loop_hd_root in E; [destruct E; discriminate | eauto].
Qed.

Lemma rev_root_normals_snoc ns n :
  rev (Root :: map Normal (ns ++ [n])) = Normal n :: rev (Root :: map Normal ns).
Proof. cbn [rev]. rewrite map_app, rev_app_distr. reflexivity. Qed.

Lemma absolute_loop_shape cs ns r :
  names_ok ns -> Forall (fun c => c <> Root) cs -> Forall cP2 cs ->
  absolute_loop (Root :: map Normal ns) cs = Ok r ->
  exists ns', r = Root :: map Normal ns' /\ names_ok ns'.
Proof.
  revert ns; induction cs as [|c cs IH]; intros ns Hns H1 H2; cbn [absolute_loop].
  - intros [= <-]. eauto.
  - inversion H1 as [|? ? Hc H1']; subst. inversion H2 as [|? ? Hc2 H2']; subst.
    destruct c as [| | |n].
    + congruence.
    + apply IH; assumption.
    + destruct (list_snoc_cases ns) as [->|(ns' & x & ->)]; [discriminate|].
      rewrite rev_root_normals_snoc, rev_involutive. apply IH; try assumption.
      apply Forall_app in Hns. apply Hns.
    + change ((Root :: map Normal ns) ++ [Normal n]) with (Root :: (map Normal ns ++ map Normal [n])).
      rewrite <- map_app. apply IH; try assumption.
      apply Forall_app; split; [assumption | constructor; [exact Hc2 | constructor]].
Qed.

Lemma names_ok_normals ns :
  names_ok ns -> Forall (fun c => c <> Root) (map Normal ns) /\ Forall cP2 (map Normal ns).
Proof.
  intros H. split; apply Forall_forall; intros c Hc; apply in_map_iff in Hc;
    destruct Hc as (n & <- & Hn); [discriminate|].
  cbn. revert n Hn. apply Forall_forall. exact H.
Qed.

Lemma absolute_shape cwd cs r :
  names_ok cwd -> comps_wf cs -> absolute_comps cwd cs = Ok r ->
  exists ns, r = Root :: map Normal ns /\ names_ok ns.
Proof.
  intros Hcwd [W1 W2]. fold cP2 in W2. rewrite absolute_comps_eq.
  destruct (names_ok_normals cwd Hcwd) as [C1 C2].
  assert (W1' : Forall (fun c => c <> Root) (tl cs)).
  { revert W1. apply Forall_impl. tauto. }
  apply (absolute_loop_shape _ [] r); [constructor | |].
  - destruct cs as [|c cs]; cbn [joined_tail tl] in *.
    + rewrite app_nil_r. exact C1.
    + destruct c; try assumption; apply Forall_app; split; try assumption;
        constructor; try assumption; discriminate.
  - destruct cs as [|c cs]; cbn [joined_tail] in *.
    + rewrite app_nil_r. exact C2.
    + inversion W2; subst.
      destruct c; try assumption; apply Forall_app; split; try assumption;
        constructor; assumption.
Qed.

Lemma absolute_never_panics cwd cs m : absolute_comps cwd cs <> Panic m.
Proof. rewrite absolute_comps_eq. apply absolute_loop_no_panic. Qed.

Lemma joined_tail_snoc cwd cs c :
  c <> Root -> c <> Cur -> joined_tail cwd (cs ++ [c]) = joined_tail cwd cs ++ [c].
Proof.
  intros H1 H2. destruct cs as [|[] cs]; cbn [app joined_tail]; rewrite <- ?app_assoc; try reflexivity.
  destruct c; try congruence; reflexivity.
Qed.

(* appending a normal component commutes with normalisation (file in its directory) *)
Lemma absolute_snoc cwd cs n r :
  absolute_comps cwd cs = Ok (Root :: r) ->
  absolute_comps cwd (cs ++ [Normal n]) = Ok (Root :: r ++ [Normal n]).
Proof.
  rewrite !absolute_comps_eq. intros H.
  rewrite joined_tail_snoc by discriminate. rewrite absolute_loop_app, H. reflexivity.
Qed.

Lemma absolute_loop_parents k ns rest :
  (length ns < k)%nat ->
  absolute_loop (Root :: map Normal ns) (repeat Parent k ++ rest) = Err err_invalid_path.
Proof.
  revert ns; induction k as [|k IH]; intros ns Hlt; [inversion Hlt|].
  cbn [repeat app absolute_loop].
  destruct (list_snoc_cases ns) as [->|(ns' & x & ->)]; [reflexivity|].
  rewrite rev_root_normals_snoc, rev_involutive. apply IH.
  rewrite app_length in Hlt. cbn in Hlt. lia.
Qed.

(* a relative path that climbs above the file-system root is an error, whatever follows *)
Lemma absolute_above_root cwd k rest :
  (length cwd < k)%nat ->
  absolute_comps cwd (repeat Parent k ++ rest) = Err err_invalid_path.
Proof.
  intros Hlt. rewrite absolute_comps_eq.
  destruct k as [|k]; [inversion Hlt|].
  cbn [repeat app joined_tail]. rewrite absolute_loop_app, absolute_loop_normals. cbn [bind].
  apply (absolute_loop_parents (S k) cwd rest Hlt).
Qed.

(* the result is already normalised: normalising it again changes nothing *)
Lemma absolute_idempotent cwd' ns :
  absolute_comps cwd' (Root :: map Normal ns) = Ok (Root :: map Normal ns).
Proof. rewrite absolute_comps_eq. cbn [joined_tail]. apply absolute_loop_normals. Qed.

(* --- diff_paths ---------------------------------------------------------------------------- *)
Lemma comp_eqb_refl c : comp_eqb c c = true.
Proof. destruct c; cbn; try reflexivity. apply str_eqb_refl. Qed.

(* a common prefix cancels: the relative path does not depend on where the base directory is *)
Lemma diff_common_prefix pre a b :
  diff_comps (pre ++ a) (pre ++ b) = diff_comps a b.
Proof.
  induction pre as [|x pre IH]; [reflexivity|].
  cbn [app diff_comps]. rewrite comp_eqb_refl. exact IH.
Qed.

(* ---- auxiliary: shape of diff_comps on normal paths *)
Lemma diff_comps_nil_l l : diff_comps [] l = repeat Parent (length l).
Proof. induction l as [|y l IH]; [reflexivity|]. cbn [diff_comps length repeat]. rewrite IH. reflexivity. Qed.

Lemma diff_comps_shape a b :
  exists c a' b', a = c ++ a' /\ b = c ++ b' /\
    diff_comps (map Normal a) (map Normal b) = repeat Parent (length b') ++ map Normal a' /\
    (forall x y ra rb, a' = x :: ra -> b' = y :: rb -> x <> y).
Proof.
  revert b; induction a as [|x a IH]; intros b.
  - exists [], [], b. repeat split; try discriminate.
    cbn [map]. rewrite diff_comps_nil_l, map_length, app_nil_r. reflexivity.
  - destruct b as [|y b].
    + exists [], (x :: a), []. repeat split; discriminate.
    + cbn [map diff_comps comp_eqb]. destruct (str_eqb_spec x y) as [->|Hne].
      * destruct (IH b) as (c & a' & b' & -> & -> & E & Hd).
        exists (y :: c), a', b'. repeat split; assumption.
      * exists [], (x :: a), (y :: b). repeat split.
        -- cbn [length repeat app]. rewrite map_length. reflexivity.
        -- intros ? ? ? ? [= <- <-] [= <- <-]. exact Hne.
Qed.

(* ---- auxiliary: join and split_slash *)
Definition pre (l : list str) : str := flat_map (fun x => x ++ [slash]) l.

Lemma join_cons sep x r : r <> [] -> join sep (x :: r) = x ++ sep ++ join sep r.
Proof. destruct r; [congruence | reflexivity]. Qed.

Lemma join_snoc l z : join [slash] (l ++ [z]) = pre l ++ z.
Proof.
  induction l as [|x l IH]; [reflexivity|].
  cbn [app pre flat_map]. rewrite join_cons by (destruct l; discriminate).
  rewrite IH. fold (pre l). rewrite <- !app_assoc. reflexivity.
Qed.

Lemma split_slash_noslash a : noslash a -> split_slash a = [a].
Proof.
  induction a as [|c a IH]; [reflexivity|]. cbn [existsb split_slash].
  intros H. apply orb_false_iff in H. destruct H as [Hc Ha].
  rewrite N.eqb_sym, Hc, (IH Ha). reflexivity.
Qed.

Lemma split_slash_app a b : noslash a -> split_slash (a ++ slash :: b) = a :: split_slash b.
Proof.
  induction a as [|c a IH]; cbn [app existsb split_slash].
  - intros _. rewrite N.eqb_refl. reflexivity.
  - intros H. apply orb_false_iff in H. destruct H as [Hc Ha].
    rewrite N.eqb_sym, Hc, (IH Ha). reflexivity.
Qed.

Lemma split_join l : l <> [] -> Forall (fun p => noslash p) l -> split_slash (join [slash] l) = l.
Proof.
  induction l as [|x l IH]; [congruence|]. intros _ H. inversion H as [|? ? Hx Hl]; subst.
  destruct l as [|y l]; [apply split_slash_noslash; exact Hx|].
  rewrite join_cons by discriminate. cbn [app]. rewrite split_slash_app by exact Hx.
  rewrite IH; [reflexivity | discriminate | exact Hl].
Qed.

(* ---- auxiliary: walk *)
Lemma walk_empty d r : walk d ([] :: r) = walk d r.
Proof. reflexivity. Qed.

Lemma walk_dot d r : walk d (s_dot :: r) = walk d r.
Proof. reflexivity. Qed.

Lemma walk_dotdot d x r : walk (d ++ [x]) (s_dotdot :: r) = walk d r.
Proof.
  cbn [walk]. change (str_eqb s_dotdot [] || str_eqb s_dotdot s_dot) with false.
  change (str_eqb s_dotdot s_dotdot) with true. cbv iota.
  rewrite rev_app_distr. cbn [rev app]. rewrite rev_involutive. reflexivity.
Qed.

Lemma walk_name d p r : name_ok p = true -> walk d (p :: r) = walk (d ++ [p]) r.
Proof.
  intros H. apply name_ok_inv in H. destruct H as (E1 & E2 & E3 & _).
  cbn [walk]. rewrite E1, E2, E3. reflexivity.
Qed.

Lemma walk_names d a : names_ok a -> walk d a = Some (d ++ a).
Proof.
  revert d; induction a as [|p a IH]; intros d H; [cbn [walk]; rewrite app_nil_r; reflexivity|].
  inversion H; subst. rewrite walk_name by assumption. rewrite IH by assumption.
  rewrite <- app_assoc. reflexivity.
Qed.

Lemma walk_parents k d b rest :
  length b = k -> walk (d ++ b) (repeat s_dotdot k ++ rest) = walk d rest.
Proof.
  revert b; induction k as [|k IH]; intros b Hb.
  - destruct b; [|discriminate]. rewrite app_nil_r. reflexivity.
  - destruct (list_snoc_cases b) as [->|(b' & x & ->)]; [discriminate|].
    cbn [repeat app]. rewrite app_assoc, walk_dotdot. apply IH.
    rewrite app_length in Hb. cbn in Hb. lia.
Qed.

Lemma walk_split_join d l :
  Forall (fun p => noslash p) l -> walk d (split_slash (join [slash] l)) = walk d l.
Proof.
  intros H. destruct l as [|x l]; [reflexivity|]. rewrite split_join; [reflexivity | discriminate | exact H].
Qed.

Lemma map_repeat' {A B} (f : A -> B) x k : map f (repeat x k) = repeat (f x) k.
Proof. induction k; cbn; congruence. Qed.

Definition rel_comps (k : nat) (a : list str) : list comp := repeat Parent k ++ map Normal a.
Definition rel_pieces (k : nat) (a : list str) : list str := repeat s_dotdot k ++ a.

Lemma render_rel k a : render (rel_comps k a) = join [slash] (rel_pieces k a).
Proof.
  assert (E : map comp_text (rel_comps k a) = rel_pieces k a).
  { unfold rel_comps, rel_pieces. rewrite map_app, map_repeat', map_map. cbn [comp_text].
    rewrite map_id. reflexivity. }
  rewrite <- E. unfold render, rel_comps. destruct k; [destruct a|]; reflexivity.
Qed.

Lemma names_ok_noslash a : names_ok a -> Forall (fun p => noslash p) a.
Proof. apply Forall_impl. intros n H. apply name_ok_inv in H. tauto. Qed.

Lemma rel_pieces_noslash k a : names_ok a -> Forall (fun p => noslash p) (rel_pieces k a).
Proof.
  intros H. apply Forall_app. split; [|apply names_ok_noslash; exact H].
  apply Forall_forall. intros x Hx. apply repeat_spec in Hx. subst. reflexivity.
Qed.

Lemma walk_rel c b' a' :
  names_ok a' ->
  walk (c ++ b') (split_slash (render (rel_comps (length b') a'))) = Some (c ++ a').
Proof.
  intros Ha. rewrite render_rel, walk_split_join by (apply rel_pieces_noslash; exact Ha).
  unfold rel_pieces. rewrite walk_parents by reflexivity. apply walk_names; exact Ha.
Qed.

(* the core of C08: walking the computed relative path from the base directory arrives at the
   target, for paths of any depth *)
Lemma diff_walk p b :
  names_ok p -> names_ok b ->
  walk b (split_slash (render (diff_comps (map Normal p) (map Normal b)))) = Some p.
Proof.
  intros Hp _. destruct (diff_comps_shape p b) as (c & a' & b' & -> & -> & E & _).
  rewrite E. apply walk_rel. apply Forall_app in Hp. apply Hp.
Qed.

(* ---- auxiliary: the text of a relative specifier *)
Definition shown (rel : list comp) : str :=
  match rel with Normal _ :: _ => lit "./" ++ render rel | _ => render rel end.

(* everything of the shown relative path before its last piece *)
Definition spec_prefix (k : nat) (a : list str) : str :=
  match k with O => lit "./" ++ pre a | S _ => pre (rel_pieces k a) end.

Lemma rel_pieces_snoc k a z : rel_pieces k (a ++ [z]) = rel_pieces k a ++ [z].
Proof. unfold rel_pieces. apply app_assoc. Qed.

Lemma shown_rel k a z : shown (rel_comps k (a ++ [z])) = spec_prefix k a ++ z.
Proof.
  unfold shown. rewrite render_rel, rel_pieces_snoc, join_snoc.
  destruct k as [|k]; [destruct a|]; reflexivity.
Qed.

Lemma pre_snoc l x : pre (l ++ [x]) = (pre l ++ x) ++ [slash].
Proof. unfold pre. rewrite flat_map_app. cbn [flat_map]. rewrite app_nil_r, app_assoc. reflexivity. Qed.

Lemma pre_slash l : l <> [] -> exists X', pre l = X' ++ [slash].
Proof.
  intros H. destruct (list_snoc_cases l) as [->|(l' & x & ->)]; [congruence|].
  rewrite pre_snoc. eauto.
Qed.

Lemma spec_prefix_slash k a : exists X', spec_prefix k a = X' ++ [slash].
Proof.
  destruct k as [|k]; cbn [spec_prefix].
  - destruct a as [|x a].
    + exists [dot]. reflexivity.
    + destruct (pre_slash (x :: a)) as [X' ->]; [discriminate|].
      exists (lit "./" ++ X'). rewrite app_assoc. reflexivity.
  - apply pre_slash. discriminate.
Qed.

Lemma spec_prefix_relative k a rest : is_relative_spec (spec_prefix k a ++ rest) = true.
Proof.
  unfold is_relative_spec. apply orb_true_iff. destruct k as [|k]; cbn [spec_prefix].
  - left. apply starts_with_spec. rewrite <- app_assoc. eauto.
  - right. apply starts_with_spec. cbn [rel_pieces repeat app pre flat_map].
    exists (flat_map (fun x => x ++ [slash]) (repeat s_dotdot k ++ a) ++ rest). reflexivity.
Qed.

Lemma in_pre c l : In c (pre l) -> c = slash \/ exists x, In x l /\ In c x.
Proof.
  unfold pre. rewrite in_flat_map. intros (x & Hx & Hc). apply in_app_iff in Hc.
  destruct Hc as [Hc|[<-|[]]]; eauto.
Qed.

Lemma spec_prefix_backslash k a :
  In backslash (spec_prefix k a) -> exists x, In x a /\ In backslash x.
Proof.
  assert (Hpre : forall l, In backslash (pre (repeat s_dotdot l ++ a)) ->
                           exists x, In x a /\ In backslash x).
  { intros l H. apply in_pre in H. destruct H as [H|(x & Hx & Hc)]; [discriminate|].
    apply in_app_iff in Hx. destruct Hx as [Hx|Hx]; [|eauto].
    apply repeat_spec in Hx. subst x. cbn in Hc.
    repeat (destruct Hc as [Hc|Hc]; [discriminate|]). destruct Hc. }
  destruct k as [|k]; cbn [spec_prefix].
  - intros H. apply in_app_iff in H. destruct H as [H|H]; [|apply (Hpre 0%nat); exact H].
    cbn in H. repeat (destruct H as [H|H]; [discriminate|]). destruct H.
  - apply Hpre.
Qed.

Lemma spec_prefix_cur k a : spec_prefix k a = lit "./" -> k = 0%nat /\ a = [].
Proof.
  destruct k as [|k]; cbn [spec_prefix].
  - intros H. split; [reflexivity|]. destruct a as [|x a]; [reflexivity|].
    apply (f_equal (@length _)) in H. cbn [pre flat_map] in H. rewrite !app_length in H.
    cbn in H. lia.
  - cbn [rel_pieces repeat app pre flat_map]. discriminate.
Qed.

Lemma walk_spec_prefix d k a z :
  names_ok (a ++ [z]) ->
  walk d (split_slash (spec_prefix k a ++ z)) = walk d (rel_pieces k (a ++ [z])).
Proof.
  intros H. pose proof (rel_pieces_noslash k _ H) as Hns.
  destruct k as [|k]; cbn [spec_prefix].
  - rewrite <- app_assoc, <- join_snoc.
    change (lit "./" ++ join [slash] (a ++ [z])) with (s_dot ++ slash :: join [slash] (rel_pieces 0 (a ++ [z]))).
    rewrite split_slash_app by reflexivity. rewrite walk_dot. apply walk_split_join. exact Hns.
  - rewrite <- join_snoc, <- rel_pieces_snoc. apply walk_split_join. exact Hns.
Qed.

Lemma walk_spec c b' a z :
  names_ok (a ++ [z]) ->
  walk (c ++ b') (split_slash (spec_prefix (length b') a ++ z)) = Some (c ++ a ++ [z]).
Proof.
  intros H. rewrite walk_spec_prefix by exact H. unfold rel_pieces.
  rewrite walk_parents by reflexivity. apply walk_names. exact H.
Qed.

Lemma ends_with_after_slash p X' s :
  ~ In slash p -> ends_with p ((X' ++ [slash]) ++ s) = ends_with p s.
Proof. intros H. rewrite <- app_assoc. cbn [app]. apply ends_with_app_notin. exact H. Qed.

Lemma slash_notin_ts : ~ In slash s_ts.
Proof. cbn. intros H. repeat (destruct H as [H|H]; [discriminate|]). exact H. Qed.
Lemma slash_notin_js : ~ In slash s_js.
Proof. cbn. intros H. repeat (destruct H as [H|H]; [discriminate|]). exact H. Qed.

Lemma noslash_app a b : noslash (a ++ b) <-> noslash a /\ noslash b.
Proof. rewrite existsb_app. apply orb_false_iff. Qed.

Lemma last_slash_unique u u' v v' :
  noslash v -> noslash v' -> u ++ slash :: v = u' ++ slash :: v' -> u = u' /\ v = v'.
Proof.
  intros Hv Hv'. revert u'; induction u as [|x u IH]; intros [|y u']; cbn [app]; intros E.
  - injection E as <-. auto.
  - injection E as <- ->. apply noslash_app in Hv. destruct Hv as [_ Hv].
    cbn [existsb] in Hv. rewrite N.eqb_refl in Hv. discriminate.
  - injection E as -> <-. apply noslash_app in Hv'. destruct Hv' as [_ Hv'].
    cbn [existsb] in Hv'. rewrite N.eqb_refl in Hv'. discriminate.
  - injection E as <- E. destruct (IH _ E) as [<- <-]. auto.
Qed.

Lemma parent_comps_snoc fc n : parent_comps (fc ++ [Normal n]) = Some fc.
Proof. unfold parent_comps. rewrite rev_app_distr. cbn [rev app]. rewrite rev_involutive. reflexivity. Qed.

Lemma file_name_snoc fc n : file_name (fc ++ [Normal n]) = Some n.
Proof. unfold file_name. rewrite rev_app_distr. reflexivity. Qed.

(* --- import_path --------------------------------------------------------------------------- *)
Section ImportPath.
Variables (esm : bool) (cwd : list str) (from to : str).
Variables (fc : list comp) (fname : str) (fdir tdir : list str) (stem : str).
Hypothesis Hcwd : names_ok cwd.
Hypothesis Hfrom : components from = fc ++ [Normal fname].
Hypothesis Hfdir : absolute_comps cwd fc = Ok (Root :: map Normal fdir).
Hypothesis Hto : absolute cwd to = Ok (Root :: map Normal (tdir ++ [stem ++ s_ts])).
Hypothesis Hstem : ends_with s_ts stem = false.
Hypothesis Hnames : names_ok (fdir ++ tdir ++ [stem ++ s_ts]).
Hypothesis Hbs : no_backslash (fdir ++ tdir ++ [stem]).
(* the imported file is not itself an ancestor directory of the importing file *)
Hypothesis Hnotdir : forall r, fdir <> tdir ++ [stem ++ s_ts] ++ r.

(* the relative path: common prefix c, then |b'| times `..`, then a and the file name *)
Lemma import_rel_shape :
  exists c a b', tdir = c ++ a /\ fdir = c ++ b' /\
    diff_comps (map Normal (tdir ++ [stem ++ s_ts])) (map Normal fdir)
      = rel_comps (length b') (a ++ [stem ++ s_ts]) /\
    (forall x y ra rb, a ++ [stem ++ s_ts] = x :: ra -> b' = y :: rb -> x <> y).
Proof using Hnotdir.
  destruct (diff_comps_shape (tdir ++ [stem ++ s_ts]) fdir) as (c & a' & b' & Ea & Eb & E & Hd).
  destruct (list_snoc_cases a') as [->|(a & z & ->)].
  - exfalso. rewrite app_nil_r in Ea. apply (Hnotdir b'). rewrite Eb, <- Ea, <- app_assoc. reflexivity.
  - rewrite app_assoc in Ea. apply app_inj_tail in Ea. destruct Ea as [Ea <-].
    exists c, a, b'. repeat split; assumption.
Qed.

Lemma import_path_value :
  exists c a b', tdir = c ++ a /\ fdir = c ++ b' /\
    (forall x y ra rb, a ++ [stem ++ s_ts] = x :: ra -> b' = y :: rb -> x <> y) /\
    import_path esm cwd from to =
      Ok (if esm then (spec_prefix (length b') a ++ stem) ++ s_js
          else spec_prefix (length b') a ++ stem).
Proof using Hfrom Hfdir Hto Hstem Hnotdir.
  destruct import_rel_shape as (c & a & b' & Et & Ef & E & Hd).
  exists c, a, b'. repeat split; try assumption.
  unfold import_path. rewrite Hfrom, parent_comps_snoc. unfold diff_paths.
  unfold absolute in Hto. rewrite Hto, Hfdir. cbn [bind diff_comps comp_eqb]. rewrite E.
  change (Ok (if esm then trim_end_matches s_ts (shown (rel_comps (length b') (a ++ [stem ++ s_ts]))) ++ s_js
              else trim_end_matches s_ts (shown (rel_comps (length b') (a ++ [stem ++ s_ts])))) =
          Ok (if esm then (spec_prefix (length b') a ++ stem) ++ s_js
              else spec_prefix (length b') a ++ stem)).
  rewrite shown_rel, app_assoc, trim_end_matches_once; [reflexivity | discriminate |].
  destruct (spec_prefix_slash (length b') a) as [X' ->].
  rewrite ends_with_after_slash by exact slash_notin_ts. exact Hstem.
Qed.

Lemma import_path_resolves :
  exists s, import_path esm cwd from to = Ok s /\
    is_relative_spec s = true /\
    ~ In backslash s /\
    (esm = false -> ends_with s_ts s = false) /\
    (esm = true -> ends_with s_js s = true) /\
    resolve esm fdir s = Some (tdir ++ [stem ++ s_ts]).
Proof using All.
  destruct import_path_value as (c & a & b' & Et & Ef & Hd & Ev).
  set (X := spec_prefix (length b') a) in *.
  assert (Hts : ends_with s_ts (X ++ stem) = false).
  { subst X. destruct (spec_prefix_slash (length b') a) as [X' ->].
    rewrite ends_with_after_slash by exact slash_notin_ts. exact Hstem. }
  assert (Hnb : ~ In backslash (X ++ stem)).
  { intros H. apply in_app_iff in H. unfold no_backslash in Hbs. rewrite Forall_forall in Hbs.
    destruct H as [H|H].
    - apply spec_prefix_backslash in H. destruct H as (x & Hx & Hc).
      apply (Hbs x); [|exact Hc]. rewrite Et, !in_app_iff. auto.
    - apply (Hbs stem); [|exact H]. rewrite !in_app_iff. cbn. auto. }
  assert (Hwalk : walk fdir (split_slash ((X ++ stem) ++ s_ts)) = Some (tdir ++ [stem ++ s_ts])).
  { rewrite <- app_assoc. subst X. rewrite Ef, walk_spec.
    - rewrite Et, <- app_assoc. reflexivity.
    - unfold names_ok in Hnames. rewrite Et, !Forall_app in Hnames.
      apply Forall_app. tauto. }
  eexists. split; [exact Ev|]. repeat split.
  - destruct esm; rewrite <- ?app_assoc; apply spec_prefix_relative.
  - destruct esm; [|exact Hnb]. intros H. apply in_app_iff in H. destruct H as [H|H]; [auto|].
    cbn in H. repeat (destruct H as [H|H]; [discriminate|]). exact H.
  - intros ->. exact Hts.
  - intros ->. apply ends_with_spec. eauto.
  - unfold resolve. destruct esm; [rewrite strip_suffix_app|]; exact Hwalk.
Qed.

(* the same-file test is exact, for file names `<stem>.ts` whose stem does not itself end in
   `.ts` or `.js` *)
Variable fstem : str.
Hypothesis Hfname : fname = fstem ++ s_ts.
Hypothesis Hfstem : ends_with s_ts fstem = false.
Hypothesis Hjs1 : ends_with s_js stem = false.
Hypothesis Hjs2 : ends_with s_js fstem = false.
Hypothesis Hfname_ok : name_ok fname = true.

Lemma same_file_exact s :
  import_path esm cwd from to = Ok s ->
  (is_same_file from s = true <-> (fdir = tdir /\ fstem = stem)).
Proof using All.
  destruct import_path_value as (c & a & b' & Et & Ef & Hd & Ev).
  rewrite Ev. intros [= <-].
  set (X := spec_prefix (length b') a) in *.
  assert (Hjs : ends_with s_js (X ++ stem) = false).
  { subst X. destruct (spec_prefix_slash (length b') a) as [X' ->].
    rewrite ends_with_after_slash by exact slash_notin_js. exact Hjs1. }
  unfold is_same_file. rewrite Hfrom, file_name_snoc.
  match goal with |- context [trim_end_matches s_js ?t] =>
    assert (Etrim : trim_end_matches s_js t = X ++ stem)
  end.
  { destruct esm; [apply trim_end_matches_once; [discriminate | exact Hjs]
                  | apply trim_end_matches_none; exact Hjs]. }
  rewrite Etrim, Hfname.
  rewrite trim_end_matches_once by (discriminate || exact Hfstem).
  rewrite str_eqb_eq.
  assert (Hns_f : noslash fstem).
  { rewrite Hfname in Hfname_ok. apply name_ok_inv in Hfname_ok.
    destruct Hfname_ok as (_ & _ & _ & H). apply noslash_app in H. apply H. }
  assert (Hns_s : noslash stem).
  { unfold names_ok in Hnames. rewrite !Forall_app in Hnames. destruct Hnames as (_ & _ & H).
    inversion H as [|? ? H1 _]; subst. apply name_ok_inv in H1.
    destruct H1 as (_ & _ & _ & H1). apply noslash_app in H1. apply H1. }
  split.
  - intros E. destruct (spec_prefix_slash (length b') a) as [X' EX]. fold X in EX.
    rewrite EX in E. rewrite <- app_assoc in E.
    change (lit "./" ++ fstem) with ([dot] ++ slash :: fstem) in E. cbn [app] in E.
    change (dot :: slash :: fstem) with ([dot] ++ slash :: fstem) in E.
    apply last_slash_unique in E; try assumption. destruct E as [<- ->].
    split; [|reflexivity].
    destruct (spec_prefix_cur (length b') a EX) as [Hl ->].
    destruct b'; [|discriminate]. rewrite Et, Ef. reflexivity.
  - intros [E ->]. rewrite Et, Ef in E. apply app_inv_head in E. subst b'.
    destruct a as [|x a].
    + reflexivity.
    + exfalso. apply (Hd x x (a ++ [stem ++ s_ts]) a); reflexivity.
Qed.
End ImportPath.
