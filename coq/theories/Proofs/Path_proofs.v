(* Proofs about Model/Path.v.  (Statements fixed in Props/C08.v and pins/C08.v.) *)
From TsRs Require Import Base.Str Base.Outcome Model.Path.
