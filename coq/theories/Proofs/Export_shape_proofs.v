(* C04 (layout): what export_to_string / decl() / the property-name quoting produce, for every
   definition: the notice first, then the import block, then `export type ..`, a final newline; a
   declaration is `type N<..> = body;`; a property name is either identifier-like or wrapped in
   double quotes. *)
From TsRs Require Import Base.Str Base.Outcome Gen.Tables Model.Case Model.TsAst Model.Rust Model.Docs Model.Gen
  Model.Path Model.Merge Model.GenExport Proofs.Gen_base_proofs.
From Coq Require Import List Lia Bool.
Import ListNotations.

Section Layout.
Variable is_upper is_alnum is_numeric : char -> bool.
Variable R : env.
Variable esm : bool.
Variable cwd : list str.

Theorem export_layout : forall fuel t dir s,
  export_string is_upper is_alnum is_numeric R esm cwd fuel t dir = Ok s ->
  exists id d args m dc,
    t = RNamed id args /\ lookup R id = Some d /\
    decl_of is_upper is_alnum is_numeric R fuel d = Ok dc /\
    s = NOTE ++ (render_imports m ++ [nl]) ++ (parse_docs (c_docs (attrs_of d)) ++ lit "export " ++ print_decl dc) ++ [nl].
Proof.
  intros fuel t dir s H. unfold export_string in H.
  apply bind_ok in H as (imports & Hi & H). apply bind_ok in H as (decl & Hd & H). inversion H; subst; clear H.
  unfold gen_decl in Hd. destruct t as [| | | | | | | | |id args| |]; try discriminate.
  destruct (lookup R id) as [d|] eqn:Hlk; [|discriminate].
  apply bind_ok in Hd as (txt & Htxt & Hd). inversion Hd; subst; clear Hd.
  unfold decl_text in Htxt. apply omap_ok in Htxt as (dc & Hdc & ->).
  unfold gen_imports in Hi. destruct (out_path R (without_generics (RNamed id args))); [|discriminate].
  apply bind_ok in Hi as (deps & _ & Hi). apply bind_ok in Hi as (m & _ & Hi). inversion Hi; subst; clear Hi.
  exists id, d, args, m, dc. repeat split; try assumption.
Qed.

(* a declaration is `type <name><params> = <body>;` with the type's TypeScript name *)
Theorem decl_shape : forall fuel d dc,
  decl_of is_upper is_alnum is_numeric R fuel d = Ok dc ->
  print_decl dc = lit "type " ++ ts_ident d ++ print_params (d_params dc) ++ lit " = " ++ print (d_body dc) ++ lit ";".
Proof.
  intros fuel d dc H. unfold decl_of in H. apply bind_ok in H as (r & _ & H). apply bind_ok in H as (ps & _ & H).
  inversion H; subst. reflexivity.
Qed.

(* property names: identifier-like names are written as they are, everything else between quotes *)
Theorem field_name_quoting : forall n,
  (raw_name_to_ts_field is_alnum is_numeric n = n /\
   forallb (fun c => is_alnum c || (c =? 95)%N || (c =? 36)%N) n = true /\
   match n with [] => True | c :: _ => is_numeric c = false end) \/
  raw_name_to_ts_field is_alnum is_numeric n = [34%N] ++ n ++ [34%N].
Proof.
  intros n. unfold raw_name_to_ts_field.
  destruct (forallb (fun c => is_alnum c || (c =? 95)%N || (c =? 36)%N) n) eqn:Hv; [|right; reflexivity].
  destruct n as [|c r]; [left; repeat split|].
  destruct (is_numeric c) eqn:Hn; cbn [negb andb]; [right; reflexivity | left; repeat split].
Qed.

End Layout.
