(* C13: nothing observable depends on the order in which dependencies are visited (the HashSet
   iteration order of the derive macro): the import statements are a function of the SET of
   dependencies, provided equal names mean the same dependency. *)
From TsRs Require Import Base.Str Base.Outcome Gen.Tables Model.Case Model.TsAst Model.Rust Model.Docs Model.Gen
  Model.Path Model.Merge Model.GenExport Proofs.Gen_base_proofs Proofs.Merge_algebra_proofs Proofs.GenExport_proofs.
From Coq Require Import List Lia Bool Sorted Permutation.
Import ListNotations.

Notation dep := (rty * str * str)%type.

(* two lists sorted strictly by name with the same elements are equal *)
Lemma sorted_same_elements_eq (l l' : list dep) :
  names_sorted l -> names_sorted l' -> (forall x, In x l <-> In x l') -> l = l'.
Proof.
  unfold names_sorted. intros H. revert l'. induction H as [|a l Hl IH Ha]; intros l' H' Hiff.
  - destruct l' as [|b l']; [reflexivity|]. exfalso. apply (Hiff b). left; reflexivity.
  - destruct l' as [|b l']; [exfalso; apply (Hiff a); left; reflexivity|].
    inversion H' as [|? ? Hl' Hb]; subst. rewrite Forall_forall in Ha, Hb.
    assert (a = b).
    { destruct (proj1 (Hiff a) (or_introl eq_refl)) as [->|Hin]; [reflexivity|].
      destruct (proj2 (Hiff b) (or_introl eq_refl)) as [->|Hin']; [reflexivity|].
      exfalso. eapply slt_irrefl. eapply slt_trans; [apply Ha; exact Hin' | apply Hb; exact Hin]. }
    subst b. f_equal. apply IH; [exact Hl'|]. intros x. split; intros Hx.
    + destruct (proj1 (Hiff x) (or_intror Hx)) as [->|Hin]; [|exact Hin]. exfalso. eapply slt_irrefl. apply Ha. exact Hx.
    + destruct (proj2 (Hiff x) (or_intror Hx)) as [->|Hin]; [|exact Hin]. exfalso. eapply slt_irrefl. apply Hb. exact Hx.
Qed.

(* with distinct names, inserting keeps every element *)
Lemma dep_insert_keeps e m x : (forall y, In y m -> dname y = dname e -> y = e) ->
  In x (dep_insert e m) <-> x = e \/ In x m.
Proof.
  intros Hfun. split; [apply dep_insert_in|].
  induction m as [|y r IH]; cbn [dep_insert]; intros H.
  - destruct H as [->|[]]. left; reflexivity.
  - destruct (str_compare (snd (fst e)) (snd (fst y))) eqn:E.
    + apply str_compare_eq in E. assert (y = e) by (apply Hfun; [left; reflexivity | unfold dname; symmetry; exact E]). subst y.
      destruct H as [->|[->|H]]; [left; reflexivity | left; reflexivity | right; exact H].
    + destruct H as [->|H]; [left; reflexivity | right; exact H].
    + destruct H as [->|[->|H]]; [right; apply IH; [intros; apply Hfun; [right|]; assumption | left; reflexivity]
                                 | left; reflexivity
                                 | right; apply IH; [intros; apply Hfun; [right|]; assumption | right; exact H]].
Qed.

Definition name_functional (l : list dep) : Prop := forall a b, In a l -> In b l -> dname a = dname b -> a = b.

Lemma fold_dep_insert_elements l : forall acc, name_functional (acc ++ l) ->
  forall x, In x (fold_left (fun m e => dep_insert e m) l acc) <-> In x acc \/ In x l.
Proof.
  induction l as [|e l IH]; cbn [fold_left]; intros acc Hf x; [split; [intros H; left; exact H | intros [H|[]]; exact H]|].
  rewrite IH.
  - rewrite dep_insert_keeps; [cbn [In]; intuition auto|]. intros y Hy Hn. apply Hf; [apply in_or_app; left; exact Hy | apply in_or_app; right; left; reflexivity | exact Hn].
  - intros a b Ha Hb Hn. apply Hf; [| |exact Hn].
    + apply in_app_or in Ha as [Ha|Ha]; [apply dep_insert_in in Ha as [->|Ha]; apply in_or_app; [right; left; reflexivity | left; exact Ha] | apply in_or_app; right; right; exact Ha].
    + apply in_app_or in Hb as [Hb|Hb]; [apply dep_insert_in in Hb as [->|Hb]; apply in_or_app; [right; left; reflexivity | left; exact Hb] | apply in_or_app; right; right; exact Hb].
Qed.

(* the de-duplicated, name-sorted dependency list is a function of the set of dependencies *)
Theorem dedup_order_free l l' : name_functional l -> Permutation l l' ->
  fold_left (fun m e => dep_insert e m) l [] = fold_left (fun m e => dep_insert e m) l' [].
Proof.
  intros Hf Hp.
  assert (Hf' : name_functional l').
  { intros a b Ha Hb. apply Hf; eapply Permutation_in; try eassumption; apply Permutation_sym; exact Hp. }
  apply sorted_same_elements_eq.
  - apply fold_dep_insert_sorted. constructor.
  - apply fold_dep_insert_sorted. constructor.
  - intros x. rewrite !fold_dep_insert_elements by (cbn [app]; assumption). cbn [In].
    split; intros [[]|H]; right; eapply Permutation_in; try eassumption. apply Permutation_sym; exact Hp.
Qed.

Lemma filter_perm {A} (p : A -> bool) l l' : Permutation l l' -> Permutation (filter p l) (filter p l').
Proof.
  induction 1; cbn [filter].
  - constructor.
  - destruct (p x); [constructor|]; assumption.
  - destruct (p x), (p y); try apply perm_swap; try apply Permutation_refl; constructor; apply Permutation_refl.
  - eapply Permutation_trans; eassumption.
Qed.

(* the import statements do not depend on the order in which dependencies are visited *)
Theorem import_groups_order_free : forall R esm cwd t out_dir deps deps',
  name_functional deps -> Permutation deps deps' ->
  import_groups R esm cwd t out_dir deps = import_groups R esm cwd t out_dir deps'.
Proof.
  intros R esm cwd t out_dir deps deps' Hf Hp. unfold import_groups.
  destruct (out_path R t); [|reflexivity].
  rewrite (dedup_order_free (filter (fun e => negb (rty_eqb (fst (fst e)) t)) deps) (filter (fun e => negb (rty_eqb (fst (fst e)) t)) deps')).
  - reflexivity.
  - intros a b Ha Hb. apply Hf; eapply filter_incl_in; eassumption.
  - apply filter_perm. exact Hp.
Qed.

(* ---- multiplicity as well as order: only the SET of visited dependencies matters.  A dependency
   may be visited any number of times (a type used by several fields; HashSet de-duplication by
   the generated code is by Rust type, not by name): first-wins or last-wins de-duplication, or a
   visiting order, cannot show as long as equal names mean the same dependency. ---- *)
Theorem dedup_set_free l l' : name_functional l -> (forall x, In x l <-> In x l') ->
  fold_left (fun m e => dep_insert e m) l [] = fold_left (fun m e => dep_insert e m) l' [].
Proof.
  intros Hf Hs.
  assert (Hf' : name_functional l').
  { intros a b Ha Hb. apply Hf; apply Hs; assumption. }
  apply sorted_same_elements_eq.
  - apply fold_dep_insert_sorted. constructor.
  - apply fold_dep_insert_sorted. constructor.
  - intros x. rewrite !fold_dep_insert_elements by (cbn [app]; assumption). cbn [In].
    split; intros [[]|H]; right; apply Hs; exact H.
Qed.

Theorem import_groups_set_free : forall R esm cwd t out_dir deps deps',
  name_functional deps -> (forall x, In x deps <-> In x deps') ->
  import_groups R esm cwd t out_dir deps = import_groups R esm cwd t out_dir deps'.
Proof.
  intros R esm cwd t out_dir deps deps' Hf Hs. unfold import_groups.
  destruct (out_path R t); [|reflexivity].
  rewrite (dedup_set_free (filter (fun e => negb (rty_eqb (fst (fst e)) t)) deps) (filter (fun e => negb (rty_eqb (fst (fst e)) t)) deps')).
  - reflexivity.
  - intros a b Ha Hb. apply Hf; eapply filter_incl_in; eassumption.
  - intros x. rewrite !filter_In. rewrite Hs. reflexivity.
Qed.

(* export_to_string::<T>() when the generated visit_dependencies() reports `deps` (in whatever
   order, with whatever repetitions) *)
Definition export_string_with (is_upper is_alnum is_numeric : char -> bool) (R : env) (esm : bool) (cwd : list str)
    (fuel : nat) (t : rty) (default_dir : str) (deps : list dep) : outcome str :=
  match out_path R (without_generics t) with
  | None => Err err_cannot_export
  | Some _ =>
      bind (import_groups R esm cwd (without_generics t) default_dir deps) (fun m =>
      bind (gen_decl is_upper is_alnum is_numeric R fuel t) (fun decl =>
      Ok (NOTE ++ (render_imports m ++ [nl]) ++ decl ++ [nl])))
  end.

Lemma export_string_is_with iu ia inum R esm cwd fuel t dir deps :
  dependencies_of R fuel (without_generics t) = Ok deps ->
  export_string iu ia inum R esm cwd fuel t dir = export_string_with iu ia inum R esm cwd fuel t dir deps.
Proof.
  intros Hd. unfold export_string, export_string_with, gen_imports. rewrite Hd.
  destruct (out_path R (without_generics t)); [|reflexivity].
  cbn [bind]. destruct (import_groups R esm cwd (without_generics t) dir deps); reflexivity.
Qed.

(* the whole exported text is the same for every visiting order and multiplicity *)
Theorem export_string_visit_free iu ia inum R esm cwd fuel t dir deps deps' :
  dependencies_of R fuel (without_generics t) = Ok deps ->
  name_functional deps -> (forall x, In x deps <-> In x deps') ->
  export_string_with iu ia inum R esm cwd fuel t dir deps' = export_string iu ia inum R esm cwd fuel t dir.
Proof.
  intros Hd Hf Hs. rewrite (export_string_is_with _ _ _ _ _ _ _ _ _ _ Hd).
  unfold export_string_with. rewrite (import_groups_set_free R esm cwd _ dir deps deps' Hf Hs). reflexivity.
Qed.
