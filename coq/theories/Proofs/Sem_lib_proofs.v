(* C12 / C01 (library layer): for every library type expression of any nesting depth (leaves,
   Option, Vec, arrays of every length, tuples, maps with string-like or integer keys, transparent
   wrappers, Result, Range) and every value: what serde_json emits is a member of the TypeScript
   type ts-rs reports (TS::name()), under the reading of Spec/TsSem.v.  By induction over the type. *)
From TsRs Require Import Base.Str Base.Outcome Gen.Tables Model.Case Model.TsAst Model.Rust Model.Docs Model.Gen
  Spec.TsFree Spec.TsSem Spec.Serde Spec.RtyInd Proofs.Gen_base_proofs.
From Coq Require Import List Lia Bool ZArith.
Import ListNotations.

(* library type expressions: no derived types, no parameters; map keys are strings, chars or integers *)
Definition key_leaf (t : rty) : bool :=
  match t with RLeaf LString | RLeaf LChar | RLeaf (LInt _ _ _) => true | _ => false end.

Fixpoint lib_ok (t : rty) : bool :=
  match t with
  | RLeaf _ => true
  | ROption u | RVec u | RArray _ u | RWrap u | RRange u => lib_ok u
  | RTuple ts => forallb lib_ok ts
  | RMap k v => key_leaf k && lib_ok v
  | RResult a b => lib_ok a && lib_ok b
  | RNamed _ _ | RParam _ | RDummy _ => false
  end.

Fixpoint rdepth (t : rty) : nat :=
  match t with
  | RLeaf _ | RParam _ | RDummy _ => 0%nat
  | ROption u | RVec u | RArray _ u | RRange u => S (rdepth u)
  | RWrap u => rdepth u
  | RTuple ts => S (fold_right (fun u n => Nat.max (rdepth u) n) 0%nat ts)
  | RMap k v | RResult k v => S (Nat.max (rdepth k) (rdepth v))
  | RNamed _ args => S (fold_right (fun u n => Nat.max (rdepth u) n) 0%nat args)
  end.

(* decimal digits *)
Lemma pos_digits_digits fuel : forall n acc, forallb is_ascii_digit acc = true -> forallb is_ascii_digit (pos_digits fuel n acc) = true.
Proof.
  induction fuel as [|f IH]; intros n acc Hacc; cbn [pos_digits]; [exact Hacc|].
  assert (Hd : is_ascii_digit (48 + N.modulo n 10) = true).
  { unfold is_ascii_digit. pose proof (N.mod_upper_bound n 10 ltac:(discriminate)) as Hm.
    set (m := N.modulo n 10) in *. clearbody m.
    apply andb_true_iff; split; apply N.leb_le; lia. }
  destruct (n <? 10)%N; [cbn [forallb]; rewrite Hd; exact Hacc|].
  apply IH. cbn [forallb]. rewrite Hd. exact Hacc.
Qed.

Lemma pos_digits_nonempty fuel n acc : pos_digits (S fuel) n acc <> [].
Proof.
  revert n acc. induction fuel as [|f IH]; intros n acc; cbn [pos_digits].
  - destruct (n <? 10)%N; discriminate.
  - destruct (n <? 10)%N; [discriminate|]. apply IH.
Qed.

Lemma z_to_str_digits z : is_digit_str (z_to_str z) = true.
Proof.
  destruct z as [|p|p]; cbn [z_to_str]; [reflexivity| |].
  - pose proof (pos_digits_digits (S (Pos.size_nat p)) (Npos p) [] eq_refl) as Hd.
    pose proof (pos_digits_nonempty (Pos.size_nat p) (Npos p) []) as Hn.
    destruct (pos_digits (S (Pos.size_nat p)) (N.pos p) []) as [|c r] eqn:E; [contradiction|].
    unfold is_digit_str. destruct (c =? 45)%N eqn:Ec; [|exact Hd].
    apply N.eqb_eq in Ec. subst c. discriminate Hd.
  - pose proof (pos_digits_digits (S (Pos.size_nat p)) (Npos p) [] eq_refl) as Hd.
    pose proof (pos_digits_nonempty (Pos.size_nat p) (Npos p) []) as Hn.
    destruct (pos_digits (S (Pos.size_nat p)) (N.pos p) []) as [|c r] eqn:E; [contradiction|].
    unfold is_digit_str. rewrite N.eqb_refl. exact Hd.
Qed.

Local Open Scope nat_scope.
Section Lib.
Variable R : env.
Variable E : denv.
Variable sd : typedef -> list rty -> value -> option json.

Notation name_of := (name_of R).
Notation ser_ty := (ser_ty R sd).
Notation memberb := (memberb E).

Lemma leaf_member l v j f : leaf_ser l v = Some j -> memberb (S f) (leaf_ts l) j = true.
Proof.
  destruct l as [big lo hi| | | | |]; destruct v; cbn; try discriminate.
  - destruct ((lo <=? z)%Z && (z <=? hi)%Z); [|discriminate]. intros H; inversion H. destruct big; reflexivity.
  - intros H; inversion H; reflexivity.
  - intros H; inversion H; reflexivity.
  - intros H; inversion H; reflexivity.
  - destruct s as [|c [|? ?]]; try discriminate. intros H; inversion H; reflexivity.
  - intros H; inversion H; reflexivity.
Qed.

Lemma key_ok_string s : key_ok (TPrim (lit "string")) s = true.
Proof. reflexivity. Qed.
Lemma key_ok_number s : key_ok (TPrim (lit "number")) s = is_digit_str s.
Proof.
  cbn [key_ok]. change (s_eq "string" (lit "number")) with false. change (s_eq "number" (lit "number")) with true.
  change (s_eq "boolean" (lit "number")) with false. cbn [orb andb]. rewrite orb_false_r. reflexivity.
Qed.
Lemma key_ok_bigint s : key_ok (TPrim (lit "bigint")) s = is_digit_str s.
Proof.
  cbn [key_ok]. change (s_eq "string" (lit "bigint")) with false. change (s_eq "number" (lit "bigint")) with false.
  change (s_eq "bigint" (lit "bigint")) with true. change (s_eq "boolean" (lit "bigint")) with false.
  cbn [orb andb]. rewrite orb_false_r. reflexivity.
Qed.

Lemma key_member k v kj ks a :
  key_leaf k = true -> ser_ty k v = Some kj -> key_of_json kj = Some ks -> name_of k = Ok a -> key_ok a ks = true.
Proof.
  destruct k as [l| | | | | | | | | | |]; try discriminate. cbn [Gen.name_of Serde.ser_ty]. intros Hk Hs Hj Ha. inversion Ha; subst; clear Ha.
  destruct l as [big lo hi| | | | |]; try discriminate; destruct v; cbn [leaf_ser] in Hs; try discriminate.
  - destruct ((lo <=? z)%Z && (z <=? hi)%Z); [|discriminate]. inversion Hs; subst. cbn in Hj. inversion Hj; subst.
    destruct big; cbn [leaf_ts]; unfold prim; [rewrite key_ok_bigint | rewrite key_ok_number]; apply z_to_str_digits.
  - inversion Hs; subst. apply key_ok_string.
  - destruct s as [|c [|? ?]]; try discriminate. apply key_ok_string.
Qed.

Lemma opt_map_forallb {A} (f : A -> option json) (p : json -> bool) l js :
  opt_map f l = Some js -> (forall x y, In x l -> f x = Some y -> p y = true) -> forallb p js = true.
Proof.
  revert js. induction l as [|x l IH]; cbn [opt_map]; intros js H Hp.
  - inversion H; reflexivity.
  - destruct (f x) as [y|] eqn:Hx; [|discriminate]. destruct (opt_map f l) as [ys|]; [|discriminate].
    inversion H; subst. cbn [forallb]. rewrite (Hp x y (or_introl eq_refl) Hx). cbn.
    apply IH; [reflexivity|]. intros; eapply Hp; [right|]; eassumption.
Qed.

Lemma fold_max_in {A} (d : A -> nat) x l : In x l -> d x <= fold_right (fun u n => Nat.max (d u) n) 0 l.
Proof. induction l as [|y l IH]; cbn; intros H; [contradiction|]. destruct H as [->|H]; [lia|]. specialize (IH H). lia. Qed.

Lemma tuple_member f ts :
  (forall u, In u ts -> forall v j a, ser_ty u v = Some j -> name_of u = Ok a -> memberb f a j = true) ->
  forall xs l js, Forall2 (fun u x => name_of u = Ok x) ts xs -> opt_map2 ser_ty ts l = Some js ->
  forall2b (memberb f) xs js = true.
Proof.
  intros Hall xs l js Hxs. revert l js. induction Hxs as [|u x ts xs Hux _ IHx]; intros l js Hgo.
  - destruct l; inversion Hgo. reflexivity.
  - destruct l as [|y l]; [discriminate|]. cbn [opt_map2] in Hgo.
    destruct (ser_ty u y) as [z|] eqn:Hz; [|discriminate].
    destruct (opt_map2 ser_ty ts l) as [zs|] eqn:Hg; [|discriminate].
    inversion Hgo; subst. cbn [forall2b].
    rewrite (Hall u (or_introl eq_refl) y z x Hz Hux). cbn.
    eapply IHx; [intros; eapply Hall; [right|..]; eassumption | exact Hg].
Qed.

Theorem lib_ser_member : forall t v j a f,
  lib_ok t = true -> ser_ty t v = Some j -> name_of t = Ok a -> rdepth t < f -> memberb f a j = true.
Proof.
  induction t as [l|t IH|t IH|n t IH|ts IH|k vt IHk IHv|t IH|t e IHt IHe|t IH|id args IH|i|n] using rty_ind';
    intros v j a f Hok Hs Ha Hf; cbn [lib_ok] in Hok; try discriminate; cbn [rdepth] in Hf; cbn [Gen.name_of] in Ha.
  - inversion Ha; subst. destruct f; [lia|]. eapply leaf_member. exact Hs.
  - apply bind_ok in Ha as (x & Hx & Ha). inversion Ha; subst. destruct f as [|f]; [lia|]. cbn [Serde.ser_ty] in Hs.
    cbn [TsSem.memberb existsb]. destruct v; try discriminate.
    + inversion Hs; subst. destruct f; [lia|]. cbn. rewrite orb_true_r. reflexivity.
    + rewrite (IH _ _ _ f Hok Hs Hx ltac:(lia)). reflexivity.
  - apply bind_ok in Ha as (x & Hx & Ha). inversion Ha; subst. destruct f as [|f]; [lia|]. cbn [Serde.ser_ty] in Hs.
    destruct v; try discriminate. destruct (opt_map (ser_ty t) l) as [js|] eqn:Hl; [|discriminate]. inversion Hs; subst.
    cbn [TsSem.memberb]. eapply opt_map_forallb; [exact Hl|]. intros y z _ Hy. eapply IH; [exact Hok|exact Hy|exact Hx|lia].
  - destruct n as [|n'].
    { inversion Ha; subst. destruct f as [|f]; [lia|]. cbn [Serde.ser_ty] in Hs. destruct v; try discriminate.
      destruct l as [|y l]; [|discriminate]. cbn in Hs. inversion Hs. reflexivity. }
    cbn [Gen.name_of] in Ha. remember (S n') as n eqn:Hn. clear Hn n'.
    apply bind_ok in Ha as (x & Hx & Ha). inversion Ha; subst. destruct f as [|f]; [lia|]. cbn [Serde.ser_ty] in Hs.
    destruct v; try discriminate. destruct (Nat.eqb (length l) n) eqn:Hlen; [|discriminate]. apply Nat.eqb_eq in Hlen.
    destruct (opt_map (ser_ty t) l) as [js|] eqn:Hl; [|discriminate]. inversion Hs; subst.
    assert (Hall : forallb (memberb f x) js = true).
    { eapply opt_map_forallb; [exact Hl|]. intros y z _ Hy. eapply IH; [exact Hok|exact Hy|exact Hx|lia]. }
    assert (Hlenjs : length js = length l).
    { clear -Hl. revert js Hl. induction l as [|y l IHl]; cbn; intros js H; [inversion H; reflexivity|].
      destruct (ser_ty t y); [|discriminate]. destruct (opt_map (ser_ty t) l); [|discriminate]. inversion H. cbn. f_equal. apply IHl. reflexivity. }
    unfold array_ts. destruct (Nat.ltb ARRAY_TUPLE_LIMIT (length l)); cbn [TsSem.memberb]; [exact Hall|].
    rewrite <- Hlenjs. clear -Hall. induction js as [|y js IHj]; cbn; [reflexivity|].
    cbn in Hall. apply andb_true_iff in Hall as [H1 H2]. rewrite H1. apply IHj. exact H2.
  - apply bind_ok in Ha as (xs & Hxs & Ha). inversion Ha; subst. destruct f as [|f]; [lia|]. cbn [Serde.ser_ty] in Hs.
    destruct v; try discriminate.
    destruct (opt_map2 ser_ty ts l) as [js|] eqn:Hgo; [|discriminate].
    inversion Hs; subst. cbn [TsSem.memberb]. apply omap_list_ok in Hxs.
    assert (Hdepth : forall u, In u ts -> rdepth u < f).
    { intros u Hu. pose proof (fold_max_in rdepth u ts Hu). lia. }
    rewrite forallb_forall in Hok. rewrite Forall_forall in IH.
    eapply tuple_member; [|exact Hxs|exact Hgo].
    intros u Hu y z x Hz Hux. eapply IH; [exact Hu|apply Hok; exact Hu|exact Hz|exact Hux|apply Hdepth; exact Hu].
  - apply bind_ok in Ha as (x & Hx & Ha). apply bind_ok in Ha as (y & Hy & Ha). inversion Ha; subst.
    destruct f as [|f]; [lia|]. cbn [Serde.ser_ty] in Hs. apply andb_true_iff in Hok as [Hkl Hvok].
    destruct v; try discriminate.
    match type of Hs with option_map JObj (opt_map ?g l) = _ => destruct (opt_map g l) as [es|] eqn:Hl; [|discriminate] end.
    inversion Hs; subst. cbn [TsSem.memberb]. unfold alt_member. cbn [fst snd forallb map]. cbn [andb].
    clear Hs Ha. revert es Hl. induction l as [|e l IHl]; cbn [opt_map]; intros es Hl.
    + inversion Hl. reflexivity.
    + destruct (ser_ty k (fst e)) as [kj|] eqn:Hkj; [|discriminate]. destruct (ser_ty vt (snd e)) as [z|] eqn:Hz; [|discriminate].
      destruct (key_of_json kj) as [ks|] eqn:Hks; [|discriminate]. cbn [option_map] in Hl.
      destruct (opt_map _ l) as [es'|] eqn:Hl'; [|discriminate]. inversion Hl; subst. cbn [forallb assoc fst snd].
      rewrite (IHv _ _ _ f Hvok Hz Hy ltac:(lia)). rewrite andb_true_r.
      rewrite (key_member _ _ _ _ _ Hkl Hkj Hks Hx). cbn. apply IHl. reflexivity.
  - cbn [Serde.ser_ty] in Hs. eapply IH; eassumption.
  - apply bind_ok in Ha as (x & Hx & Ha). apply bind_ok in Ha as (y & Hy & Ha). inversion Ha; subst.
    destruct f as [|f]; [lia|]. cbn [Serde.ser_ty] in Hs. apply andb_true_iff in Hok as [Ht He].
    destruct v; try discriminate. destruct idx as [|[|]]; destruct fs as [|v0 [|]]; try discriminate.
    + destruct (ser_ty t v0) as [z|] eqn:Hz; [|discriminate]. inversion Hs; subst. cbn.
      rewrite (IHt _ _ _ f Ht Hz Hx ltac:(lia)). reflexivity.
    + destruct (ser_ty e v0) as [z|] eqn:Hz; [|discriminate]. inversion Hs; subst. cbn.
      rewrite (IHe _ _ _ f He Hz Hy ltac:(lia)). rewrite orb_true_r. reflexivity.
  - apply bind_ok in Ha as (x & Hx & Ha). inversion Ha; subst. destruct f as [|f]; [lia|]. cbn [Serde.ser_ty] in Hs.
    destruct v; try discriminate. destruct fs as [|va [|vb [|]]]; try discriminate.
    destruct (ser_ty t va) as [ja|] eqn:Hja; [|discriminate]. destruct (ser_ty t vb) as [jb|] eqn:Hjb; [|discriminate].
    inversion Hs; subst.
    pose proof (IH _ _ _ f Hok Hja Hx ltac:(lia)) as H1. pose proof (IH _ _ _ f Hok Hjb Hx ltac:(lia)) as H2.
    cbn [TsSem.memberb]. set (m := TsSem.memberb E f) in *. clearbody m. cbv. rewrite H1, H2. reflexivity.
Qed.

End Lib.

(* ---- the container impls print through the format strings of ts-rs/src/lib.rs -------------------------- *)
(* Rust's format!: `{}` takes the next argument, `{{` and `}}` are braces *)
Fixpoint fmt_apply (fmt : str) (args : list str) : str :=
  match fmt with
  | 123 :: 123 :: r => 123 :: fmt_apply r args
  | 125 :: 125 :: r => 125 :: fmt_apply r args
  | 123 :: 125 :: r => match args with a :: args' => a ++ fmt_apply r args' | [] => fmt_apply r [] end
  | c :: r => c :: fmt_apply r args
  | [] => []
  end%N.

(* what the model prints for each container around placeholder arguments A and B *)
Definition model_format (ctor : str) : option str :=
  let a := TVar (lit "A") in
  let b := TVar (lit "B") in
  if str_eqb ctor (lit "Option") then Some (print (TUnion [a; prim "null"]))
  else if str_eqb ctor (lit "Result") then Some (print (TResult a b))
  else if str_eqb ctor (lit "Vec") then Some (print (TArray a))
  else if str_eqb ctor (lit "HashMap") then Some (print (TMapped a b))
  else if str_eqb ctor (lit "Range") then Some (print (TObj OStruct [(plain_head (lit "start"), a); (plain_head (lit "end"), a)]))
  else None.
Definition format_args (ctor : str) : list str :=
  if str_eqb ctor (lit "Range") then [lit "A"; lit "A"] else [lit "A"; lit "B"].

(* every format literal read from the source on this run produces the text the model prints *)
Definition lib_format_row_ok (row : str * str * str) : bool :=
  match model_format (fst (fst row)) with
  | Some text => str_eqb (fmt_apply (snd row) (format_args (fst (fst row)))) text
  | None => false
  end.

Theorem lib_formats_ok : forallb lib_format_row_ok lib_formats = true /\ (9 <= length lib_formats)%nat.
Proof. split; [vm_compute; reflexivity | vm_compute; repeat constructor]. Qed.

(* ---- the derive prints through the format strings of macros/src/types/{enum,named,tuple}.rs -------------- *)
Definition L (x : String.string) : str := lit x.
Definition v (x : String.string) : tsty := TVar (lit x).
Definition qh (x : String.string) : phead := quoted_head (lit x).

(* the distinct format literals of the three files, as read from the source on this run *)
Fixpoint dedup_str (l : list str) : list str :=
  match l with [] => [] | x :: r => if existsb (str_eqb x) r then dedup_str r else x :: dedup_str r end.
Definition literals_of (file : String.string) : list str :=
  dedup_str (map snd (filter (fun p => str_eqb (fst p) (lit file)) macro_formats)).
Definition same_set (a b : list str) : bool :=
  forallb (fun x => existsb (str_eqb x) b) a && forallb (fun x => existsb (str_eqb x) a) b.

(* enum.rs, named.rs, tuple.rs use exactly these format strings (inline arguments such as `{text}` normalised to `{}` by the
   translator), and each produces the text the model prints for the construct it stands for *)
Theorem macro_formats_ok :
  same_set (literals_of "enum.rs") [L "({})"; L """{}"""; L "{{ ""{}"": {} }}"; L "{{ ""{}"": ""{}"" }}"; L "{{ ""{}"": ""{}"", ""{}"": {} }}";
                                     L "{{ ""{}"": ""{}"" }} & {}"] = true /\
  same_set (literals_of "named.rs") [L """{}"": ""{}"","; L "{{ {} }}"; L "{} & {}"; lit "
{}"; L "{}{}: {},"; L "{}{}{}: {},"] = true /\
  same_set (literals_of "tuple.rs") [L "[{}]"] = true /\
  (* enum.rs *)
  fmt_apply (L "({})") [L "U"] = print (TParen (v "U")) /\
  fmt_apply (L """{}""") [L "N"] = print (TLit (L "N")) /\
  fmt_apply (L "{{ ""{}"": {} }}") [L "N"; L "T"] = print (TObj OVariant [(qh "N", v "T")]) /\
  fmt_apply (L "{{ ""{}"": ""{}"" }}") [L "t"; L "N"] = print (TObj OVariant [(qh "t", TLit (L "N"))]) /\
  fmt_apply (L "{{ ""{}"": ""{}"", ""{}"": {} }}") [L "t"; L "N"; L "c"; L "T"] = print (TObj OVariant [(qh "t", TLit (L "N")); (qh "c", v "T")]) /\
  fmt_apply (L "{{ ""{}"": ""{}"" }} & {}") [L "t"; L "N"; L "T"] = print (TInter [TObj OVariant [(qh "t", TLit (L "N"))]; v "T"]) /\
  (* named.rs: the members between the braces, a member with documentation and `?`, the tag pseudo-member, operands joined *)
  fmt_apply (L "{{ {} }}") [fmt_apply (L "{}{}{}: {},") [fmt_apply (lit "
{}") [L "/** d */"]; L "a"; L "?"; L "T"]]
    = print (TObj OStruct [({| p_docs := L "/** d */"; p_key := L "a"; p_text := L "a"; p_optional := true |}, v "T")]) /\
  fmt_apply (L "{{ {} }}") [fmt_apply (L "{}{}: {},") [lit ""; L "a"; L "string"]]
    = print (TObj OStruct [({| p_docs := []; p_key := L "a"; p_text := L "a"; p_optional := false |}, TRaw (L "string"))]) /\
  fmt_apply (L "{{ {} }}") [fmt_apply (L """{}"": ""{}"",") [L "t"; L "N"]] = print (TObj OStruct [(qh "t", TLit (L "N"))]) /\
  fmt_apply (L "{} & {}") [L "(A)"; L "(B)"] = print (TMerged (TInter [TParen (v "A"); TParen (v "B")])) /\
  (* tuple.rs *)
  fmt_apply (L "[{}]") [L "A, B"] = print (TTuple [v "A"; v "B"]).
Proof. repeat split; vm_compute; reflexivity. Qed.
